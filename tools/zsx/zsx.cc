// zsx — fact extractor for the zstd static checks (clang 14 libTooling).
//
// usage: zsx <out.json> <repo-root> <source.c> -- <compile flags>
//
// For one translation unit it writes one JSON object:
//   { "tu": <source>, "functions": [...], "enums": [...], "records": [...],
//     "globals": [...], "errors": <number of parse errors> }
// Each function carries its clang::CFG: blocks with ordered *root* elements (full
// expression trees; a sub-expression that the CFG evaluates in another block, e.g. an
// operand of && || ?:, is replaced by a {"k":"x","id":n} reference), the terminator
// kind, ordered successors (true,false for two-way branches; case order for switch)
// and case labels.  Nothing is executed; everything comes from the type-checked AST.

#include "clang/AST/ASTConsumer.h"
#include "clang/AST/ASTContext.h"
#include "clang/AST/Expr.h"
#include "clang/AST/RecursiveASTVisitor.h"
#include "clang/AST/RecordLayout.h"
#include "clang/Analysis/CFG.h"
#include "clang/Frontend/CompilerInstance.h"
#include "clang/Frontend/FrontendAction.h"
#include "clang/Lex/Lexer.h"
#include "clang/Tooling/CompilationDatabase.h"
#include "clang/Tooling/Tooling.h"
#include "llvm/Support/JSON.h"
#include "llvm/Support/raw_ostream.h"

#include <map>
#include <set>
#include <string>
#include <vector>

using namespace clang;
using llvm::json::OStream;

static std::string gRepoRoot;
static std::string gOutPath;
static unsigned gErrors = 0;

namespace {

struct Emitter {
  ASTContext &Ctx;
  SourceManager &SM;
  OStream &J;
  // per function
  std::map<const Stmt *, std::pair<unsigned, unsigned>> Where; // stmt -> (block, index)
  std::map<const Stmt *, unsigned> Ids;
  std::set<const Stmt *> Covered;
  unsigned CurBlock = 0;
  const FunctionDecl *CurFn = nullptr;
  std::map<const VarDecl *, std::string> LocalNames; // unique per function (shadowing, macro re-declarations)

  void collectLocals(const Stmt *S, std::map<std::string, unsigned> &Count) {
    if (!S) return;
    if (auto *DS = dyn_cast<DeclStmt>(S)) {
      for (const Decl *D : DS->decls())
        if (auto *VD = dyn_cast<VarDecl>(D)) {
          std::string N = VD->getNameAsString();
          unsigned K = ++Count[N];
          LocalNames[VD] = K == 1 ? N : N + "#" + std::to_string(K);
        }
    }
    for (const Stmt *C : S->children()) collectLocals(C, Count);
  }
  std::string localName(const VarDecl *VD) {
    auto It = LocalNames.find(VD);
    if (It != LocalNames.end()) return It->second;
    return VD->getNameAsString();
  }

  Emitter(ASTContext &C, OStream &J) : Ctx(C), SM(C.getSourceManager()), J(J) {}

  std::string relFile(SourceLocation L) {
    L = SM.getExpansionLoc(L);
    if (L.isInvalid()) return "";
    PresumedLoc P = SM.getPresumedLoc(L);
    if (P.isInvalid()) return "";
    std::string F = P.getFilename();
    // normalise "a//b" and "/x/../"
    llvm::SmallString<256> S(F);
    llvm::sys::path::remove_dots(S, /*remove_dot_dot=*/true);
    F = std::string(S.str());
    if (F.rfind(gRepoRoot, 0) == 0) {
      F = F.substr(gRepoRoot.size());
      while (!F.empty() && F[0] == '/') F = F.substr(1);
    }
    return F;
  }
  unsigned line(SourceLocation L) {
    L = SM.getExpansionLoc(L);
    if (L.isInvalid()) return 0;
    return SM.getExpansionLineNumber(L);
  }
  bool inRepo(SourceLocation L) {
    L = SM.getExpansionLoc(L);
    if (L.isInvalid()) return false;
    PresumedLoc P = SM.getPresumedLoc(L);
    if (P.isInvalid()) return false;
    llvm::SmallString<256> S(P.getFilename());
    llvm::sys::path::remove_dots(S, true);
    return S.str().startswith(gRepoRoot);
  }

  unsigned idOf(const Stmt *S) {
    auto It = Ids.find(S);
    if (It != Ids.end()) return It->second;
    unsigned N = Ids.size() + 1;
    Ids[S] = N;
    return N;
  }

  std::string typeStr(QualType T) {
    if (T.isNull()) return "";
    return T.getAsString(Ctx.getPrintingPolicy());
  }

  std::string recordName(const RecordDecl *RD) {
    if (!RD) return "";
    if (RD->getIdentifier()) return RD->getName().str();
    if (const TypedefNameDecl *TD = RD->getTypedefNameForAnonDecl())
      return TD->getName().str();
    // anonymous member struct: name after the enclosing record + line
    return "anon@" + relFile(RD->getLocation()) + ":" + std::to_string(line(RD->getLocation()));
  }

  std::string macroName(SourceLocation L) {
    if (!L.isMacroID()) return "";
    // outermost macro that is not a function-like argument pass-through: use immediate
    return Lexer::getImmediateMacroName(L, SM, Ctx.getLangOpts()).str();
  }

  // all macro names on the expansion stack of L (innermost first)
  void macroStack(SourceLocation L, std::vector<std::string> &Out) {
    unsigned guard = 0;
    while (L.isMacroID() && guard++ < 16) {
      std::string N = Lexer::getImmediateMacroName(L, SM, Ctx.getLangOpts()).str();
      if (!N.empty() && (Out.empty() || Out.back() != N)) Out.push_back(N);
      if (SM.isMacroArgExpansion(L))
        L = SM.getImmediateExpansionRange(L).getBegin();
      else
        L = SM.getImmediateExpansionRange(L).getBegin();
    }
  }

  void intValue(const Expr *E) {
    if (!E || E->isValueDependent()) return;
    QualType T = E->getType();
    if (T.isNull() || !(T->isIntegralOrEnumerationType())) return;
    Expr::EvalResult R;
    if (E->EvaluateAsInt(R, Ctx, Expr::SE_NoSideEffects)) {
      llvm::APSInt V = R.Val.getInt();
      if (V.isSigned())
        J.attribute("v", V.getSExtValue());
      else {
        uint64_t U = V.getZExtValue();
        if (U <= (uint64_t)INT64_MAX)
          J.attribute("v", (int64_t)U);
        else {
          J.attribute("v", (int64_t)U); // two's complement; see "vu"
          J.attribute("vu", std::to_string(U));
        }
      }
    }
  }

  const Expr *strip(const Expr *E) {
    // drop parens and implicit casts (keep explicit casts as nodes)
    while (E) {
      if (auto *P = dyn_cast<ParenExpr>(E)) { E = P->getSubExpr(); continue; }
      if (auto *I = dyn_cast<ImplicitCastExpr>(E)) { E = I->getSubExpr(); continue; }
      if (auto *C = dyn_cast<ConstantExpr>(E)) { E = C->getSubExpr(); continue; }
      break;
    }
    return E;
  }

  // does the CFG evaluate S in a block other than the current one?
  bool elsewhere(const Stmt *S) {
    auto It = Where.find(S);
    if (It == Where.end()) return false;
    return It->second.first != CurBlock;
  }

  void child(const char *Key, const Expr *E) {
    J.attributeBegin(Key);
    expr(E);
    J.attributeEnd();
  }

  void expr(const Stmt *S0) {
    if (!S0) { J.value(nullptr); return; }
    const Stmt *S = S0;
    if (auto *E0 = dyn_cast<Expr>(S0)) {
      // look through wrappers, but remember if any wrapper is evaluated elsewhere
      const Expr *E = E0;
      while (true) {
        if (elsewhere(E)) {
          J.object([&] { J.attribute("k", "x"); J.attribute("id", (int64_t)idOf(strip(E))); });
          return;
        }
        Covered.insert(E);
        if (auto *P = dyn_cast<ParenExpr>(E)) { E = P->getSubExpr(); continue; }
        if (auto *I = dyn_cast<ImplicitCastExpr>(E)) { E = I->getSubExpr(); continue; }
        if (auto *C = dyn_cast<ConstantExpr>(E)) { E = C->getSubExpr(); continue; }
        break;
      }
      S = E;
    } else {
      Covered.insert(S);
    }

    J.objectBegin();
    emitNode(S);
    J.objectEnd();
  }

  void commonExprAttrs(const Expr *E, bool wantValue) {
    J.attribute("id", (int64_t)idOf(E));
    SourceLocation B = E->getBeginLoc();
    if (B.isMacroID()) {
      std::vector<std::string> MS;
      macroStack(B, MS);
      if (!MS.empty()) {
        J.attributeBegin("m");
        J.arrayBegin();
        for (auto &N : MS) J.value(N);
        J.arrayEnd();
        J.attributeEnd();
      }
    }
    if (wantValue) intValue(E);
  }

  void emitNode(const Stmt *S) {
    if (auto *E = dyn_cast<Expr>(S)) {
      if (auto *IL = dyn_cast<IntegerLiteral>(E)) {
        J.attribute("k", "int");
        commonExprAttrs(E, true);
        return;
      }
      if (auto *CL = dyn_cast<CharacterLiteral>(E)) {
        J.attribute("k", "int");
        commonExprAttrs(E, false);
        J.attribute("v", (int64_t)CL->getValue());
        return;
      }
      if (isa<StringLiteral>(E)) {
        J.attribute("k", "str");
        commonExprAttrs(E, false);
        auto *SL = cast<StringLiteral>(E);
        if (SL->getCharByteWidth() == 1 && SL->getLength() <= 80)
          J.attribute("s", SL->getString());
        return;
      }
      if (isa<FloatingLiteral>(E)) {
        J.attribute("k", "float");
        J.attribute("id", (int64_t)idOf(E));
        return;
      }
      if (auto *DR = dyn_cast<DeclRefExpr>(E)) {
        J.attribute("k", "ref");
        commonExprAttrs(E, false);
        const ValueDecl *D = DR->getDecl();
        if (auto *LV = dyn_cast<VarDecl>(D)) J.attribute("n", localName(LV));
        else J.attribute("n", D->getNameAsString());
        if (auto *PV = dyn_cast<ParmVarDecl>(D)) {
          J.attribute("rk", "p");
          J.attribute("pi", (int64_t)PV->getFunctionScopeIndex());
        } else if (auto *VD = dyn_cast<VarDecl>(D)) {
          if (VD->isLocalVarDecl()) J.attribute("rk", VD->isStaticLocal() ? "sl" : "l");
          else J.attribute("rk", "g");
        } else if (auto *EC = dyn_cast<EnumConstantDecl>(D)) {
          J.attribute("rk", "e");
          J.attribute("v", EC->getInitVal().getExtValue());
        } else if (isa<FunctionDecl>(D)) {
          J.attribute("rk", "f");
        } else {
          J.attribute("rk", "?");
        }
        J.attribute("t", typeStr(E->getType()));
        return;
      }
      if (auto *ME = dyn_cast<MemberExpr>(E)) {
        J.attribute("k", "mem");
        commonExprAttrs(E, false);
        const ValueDecl *D = ME->getMemberDecl();
        J.attribute("f", D->getNameAsString());
        if (auto *FD = dyn_cast<FieldDecl>(D))
          J.attribute("rec", recordName(FD->getParent()));
        J.attribute("arrow", ME->isArrow());
        J.attribute("t", typeStr(E->getType()));
        child("b", ME->getBase());
        return;
      }
      if (auto *AS = dyn_cast<ArraySubscriptExpr>(E)) {
        J.attribute("k", "idx");
        commonExprAttrs(E, false);
        J.attribute("t", typeStr(E->getType()));
        child("b", AS->getBase());
        child("i", AS->getIdx());
        return;
      }
      if (auto *CE = dyn_cast<CallExpr>(E)) {
        J.attribute("k", "call");
        commonExprAttrs(E, false);
        J.attribute("l", (int64_t)line(CE->getBeginLoc()));
        const FunctionDecl *FD = CE->getDirectCallee();
        if (FD) {
          J.attribute("c", FD->getNameAsString());
          if (FD->getBuiltinID()) J.attribute("builtin", true);
        } else {
          J.attribute("c", nullptr);
          child("fn", CE->getCallee());
        }
        J.attribute("t", typeStr(E->getType()));
        J.attributeBegin("a");
        J.arrayBegin();
        for (const Expr *A : CE->arguments()) expr(A);
        J.arrayEnd();
        J.attributeEnd();
        return;
      }
      if (auto *BO = dyn_cast<BinaryOperator>(E)) {
        if (BO->isAssignmentOp()) {
          J.attribute("k", "asg");
          commonExprAttrs(E, false);
          J.attribute("op", BO->getOpcodeStr());
          J.attribute("l", (int64_t)line(BO->getOperatorLoc()));
          child("lhs", BO->getLHS());
          child("rhs", BO->getRHS());
          return;
        }
        J.attribute("k", "bin");
        commonExprAttrs(E, true);
        J.attribute("op", BO->getOpcodeStr());
        if (BO->isComparisonOp() || BO->isLogicalOp())
          J.attribute("l", (int64_t)line(BO->getOperatorLoc()));
        child("lhs", BO->getLHS());
        child("rhs", BO->getRHS());
        return;
      }
      if (auto *UO = dyn_cast<UnaryOperator>(E)) {
        J.attribute("k", "un");
        commonExprAttrs(E, true);
        std::string Op = UnaryOperator::getOpcodeStr(UO->getOpcode()).str();
        if (UO->isPostfix()) Op = "post" + Op;
        else if (UO->isIncrementDecrementOp()) Op = "pre" + Op;
        J.attribute("op", Op);
        if (UO->isIncrementDecrementOp()) J.attribute("l", (int64_t)line(UO->getOperatorLoc()));
        // error constant: (size_t)-ZSTD_error_X  => the minus node carries "err"
        if (UO->getOpcode() == UO_Minus) {
          const Expr *Sub = strip(UO->getSubExpr());
          if (auto *DR = dyn_cast<DeclRefExpr>(Sub))
            if (auto *EC = dyn_cast<EnumConstantDecl>(DR->getDecl()))
              J.attribute("err", EC->getNameAsString());
        }
        child("e", UO->getSubExpr());
        return;
      }
      if (auto *CO = dyn_cast<ConditionalOperator>(E)) {
        J.attribute("k", "cond");
        commonExprAttrs(E, true);
        child("c", CO->getCond());
        child("t", CO->getTrueExpr());
        child("f", CO->getFalseExpr());
        return;
      }
      if (auto *CS = dyn_cast<ExplicitCastExpr>(E)) {
        J.attribute("k", "cast");
        commonExprAttrs(E, true);
        J.attribute("t", typeStr(CS->getTypeAsWritten()));
        J.attribute("ck", CS->getCastKindName());
        child("e", CS->getSubExpr());
        return;
      }
      if (auto *UE = dyn_cast<UnaryExprOrTypeTraitExpr>(E)) {
        J.attribute("k", "sizeof");
        commonExprAttrs(E, true);
        J.attribute("of", typeStr(UE->getTypeOfArgument()));
        if (!UE->isArgumentType()) {
          // unevaluated operand: give a shallow description only (never a CFG element)
          const Expr *A = strip(UE->getArgumentExpr());
          if (auto *ME = dyn_cast<MemberExpr>(A))
            J.attribute("ofmem", ME->getMemberDecl()->getNameAsString());
          else if (auto *DR = dyn_cast<DeclRefExpr>(A))
            J.attribute("ofref", DR->getDecl()->getNameAsString());
          else if (auto *UO = dyn_cast<UnaryOperator>(A)) {
            if (UO->getOpcode() == UO_Deref) {
              const Expr *B = strip(UO->getSubExpr());
              if (auto *DR = dyn_cast<DeclRefExpr>(B))
                J.attribute("ofderef", DR->getDecl()->getNameAsString());
              else if (auto *ME = dyn_cast<MemberExpr>(B))
                J.attribute("ofderefmem", ME->getMemberDecl()->getNameAsString());
            }
          }
        }
        return;
      }
      if (auto *IL = dyn_cast<InitListExpr>(E)) {
        J.attribute("k", "init");
        J.attribute("id", (int64_t)idOf(E));
        J.attribute("t", typeStr(E->getType()));
        if (IL->isSemanticForm() || !IL->getSemanticForm()) {
        } else {
          IL = IL->getSemanticForm();
        }
        J.attributeBegin("a");
        J.arrayBegin();
        for (const Expr *A : IL->inits()) expr(A);
        J.arrayEnd();
        J.attributeEnd();
        if (IL->hasArrayFiller()) J.attribute("filler", true);
        return;
      }
      if (isa<ImplicitValueInitExpr>(E)) {
        J.attribute("k", "int");
        J.attribute("id", (int64_t)idOf(E));
        J.attribute("v", (int64_t)0);
        J.attribute("implicit", true);
        return;
      }
      if (auto *CLE = dyn_cast<CompoundLiteralExpr>(E)) {
        J.attribute("k", "complit");
        J.attribute("id", (int64_t)idOf(E));
        J.attribute("t", typeStr(E->getType()));
        child("e", CLE->getInitializer());
        return;
      }
      if (auto *SE = dyn_cast<StmtExpr>(E)) {
        J.attribute("k", "stmtexpr");
        J.attribute("id", (int64_t)idOf(E));
        return;
      }
      if (auto *OVE = dyn_cast<OpaqueValueExpr>(E)) {
        J.attribute("k", "opaque");
        J.attribute("id", (int64_t)idOf(E));
        if (OVE->getSourceExpr()) child("e", OVE->getSourceExpr());
        return;
      }
      if (auto *BCO = dyn_cast<BinaryConditionalOperator>(E)) {
        J.attribute("k", "bcond");
        commonExprAttrs(E, true);
        child("c", BCO->getCommon());
        child("f", BCO->getFalseExpr());
        return;
      }
      if (isa<PredefinedExpr>(E)) {
        J.attribute("k", "str");
        J.attribute("id", (int64_t)idOf(E));
        return;
      }
      if (auto *OO = dyn_cast<OffsetOfExpr>(E)) {
        J.attribute("k", "offsetof");
        commonExprAttrs(E, true);
        return;
      }
      if (auto *VA = dyn_cast<VAArgExpr>(E)) {
        J.attribute("k", "vaarg");
        J.attribute("id", (int64_t)idOf(E));
        return;
      }
      // generic expression
      J.attribute("k", std::string("E:") + E->getStmtClassName());
      commonExprAttrs(E, true);
      J.attributeBegin("ch");
      J.arrayBegin();
      for (const Stmt *C : E->children()) expr(C);
      J.arrayEnd();
      J.attributeEnd();
      return;
    }
    // statements that appear as CFG elements
    if (auto *DS = dyn_cast<DeclStmt>(S)) {
      J.attribute("k", "decl");
      J.attribute("id", (int64_t)idOf(S));
      J.attribute("l", (int64_t)line(DS->getBeginLoc()));
      J.attributeBegin("vars");
      J.arrayBegin();
      for (const Decl *D : DS->decls()) {
        if (auto *VD = dyn_cast<VarDecl>(D)) {
          J.objectBegin();
          J.attribute("n", localName(VD));
          J.attribute("t", typeStr(VD->getType()));
          if (VD->isStaticLocal()) J.attribute("static", true);
          if (VD->hasInit()) child("init", VD->getInit());
          J.objectEnd();
        }
      }
      J.arrayEnd();
      J.attributeEnd();
      return;
    }
    if (auto *RS = dyn_cast<ReturnStmt>(S)) {
      J.attribute("k", "ret");
      J.attribute("id", (int64_t)idOf(S));
      J.attribute("l", (int64_t)line(RS->getBeginLoc()));
      if (RS->getRetValue()) child("e", RS->getRetValue());
      return;
    }
    if (isa<GCCAsmStmt>(S) || isa<MSAsmStmt>(S)) {
      J.attribute("k", "asm");
      J.attribute("id", (int64_t)idOf(S));
      return;
    }
    J.attribute("k", std::string("S:") + S->getStmtClassName());
    J.attribute("id", (int64_t)idOf(S));
  }

  const char *termKind(const Stmt *T) {
    if (!T) return "";
    switch (T->getStmtClass()) {
    case Stmt::IfStmtClass: return "if";
    case Stmt::WhileStmtClass: return "while";
    case Stmt::ForStmtClass: return "for";
    case Stmt::DoStmtClass: return "do";
    case Stmt::SwitchStmtClass: return "switch";
    case Stmt::ConditionalOperatorClass: return "?:";
    case Stmt::BinaryConditionalOperatorClass: return "?:";
    case Stmt::GotoStmtClass: return "goto";
    case Stmt::IndirectGotoStmtClass: return "igoto";
    case Stmt::BreakStmtClass: return "break";
    case Stmt::ContinueStmtClass: return "continue";
    case Stmt::BinaryOperatorClass: {
      auto *B = cast<BinaryOperator>(T);
      return B->getOpcode() == BO_LAnd ? "&&" : (B->getOpcode() == BO_LOr ? "||" : "bin");
    }
    default: return T->getStmtClassName();
    }
  }

  void function(const FunctionDecl *FD) {
    const Stmt *Body = FD->getBody();
    if (!Body) return;
    CFG::BuildOptions BO;
    BO.setAllAlwaysAdd();
    BO.PruneTriviallyFalseEdges = true;
    BO.AddImplicitDtors = false;
    BO.AddEHEdges = false;
    std::unique_ptr<CFG> G = CFG::buildCFG(FD, const_cast<Stmt *>(Body), &Ctx, BO);
    J.objectBegin();
    J.attribute("name", FD->getNameAsString());
    J.attribute("file", relFile(FD->getLocation()));
    J.attribute("line", (int64_t)line(FD->getLocation()));
    J.attribute("endline", (int64_t)line(Body->getEndLoc()));
    J.attribute("static", FD->getStorageClass() == SC_Static);
    J.attribute("inline", FD->isInlineSpecified());
    J.attribute("ret", typeStr(FD->getReturnType()));
    J.attributeBegin("params");
    J.arrayBegin();
    for (const ParmVarDecl *P : FD->parameters()) {
      J.objectBegin();
      J.attribute("n", P->getNameAsString());
      J.attribute("t", typeStr(P->getType()));
      J.objectEnd();
    }
    J.arrayEnd();
    J.attributeEnd();
    if (!G) {
      J.attribute("cfg", nullptr);
      J.objectEnd();
      return;
    }
    Where.clear();
    Ids.clear();
    Covered.clear();
    LocalNames.clear();
    { std::map<std::string, unsigned> Count; collectLocals(Body, Count); }
    CurFn = FD;
    for (const CFGBlock *B : *G) {
      unsigned I = 0;
      for (const CFGElement &El : *B) {
        if (auto CS = El.getAs<CFGStmt>()) Where[CS->getStmt()] = {B->getBlockID(), I};
        ++I;
      }
    }
    J.attribute("entry", (int64_t)G->getEntry().getBlockID());
    J.attribute("exit", (int64_t)G->getExit().getBlockID());
    J.attributeBegin("blocks");
    J.arrayBegin();
    for (const CFGBlock *B : *G) {
      CurBlock = B->getBlockID();
      J.objectBegin();
      J.attribute("id", (int64_t)B->getBlockID());
      // label
      if (const Stmt *L = B->getLabel()) {
        J.attributeBegin("label");
        J.objectBegin();
        if (auto *CS = dyn_cast<CaseStmt>(L)) {
          J.attribute("k", "case");
          J.attribute("l", (int64_t)line(CS->getBeginLoc()));
          const Expr *LHS = CS->getLHS();
          Expr::EvalResult R;
          if (LHS && LHS->EvaluateAsInt(R, Ctx)) J.attribute("v", R.Val.getInt().getExtValue());
          const Expr *SL = strip(LHS);
          if (auto *DR = dyn_cast_or_null<DeclRefExpr>(SL)) J.attribute("n", DR->getDecl()->getNameAsString());
          if (CS->getRHS()) {
            Expr::EvalResult R2;
            if (CS->getRHS()->EvaluateAsInt(R2, Ctx)) J.attribute("v2", R2.Val.getInt().getExtValue());
          }
        } else if (isa<DefaultStmt>(L)) {
          J.attribute("k", "default");
          J.attribute("l", (int64_t)line(L->getBeginLoc()));
        } else if (auto *LS = dyn_cast<LabelStmt>(L)) {
          J.attribute("k", "label");
          J.attribute("n", LS->getName());
        } else {
          J.attribute("k", L->getStmtClassName());
        }
        J.objectEnd();
        J.attributeEnd();
      }
      // roots: walk elements last to first, skip those covered by a later root
      std::vector<const Stmt *> Roots;
      std::vector<const Stmt *> Elems;
      for (const CFGElement &El : *B)
        if (auto CS = El.getAs<CFGStmt>()) Elems.push_back(CS->getStmt());
      // We need the trees in forward order, but coverage is determined by later
      // elements: first pass computes roots using a scratch coverage set.
      {
        std::set<const Stmt *> Cov;
        std::function<void(const Stmt *)> mark = [&](const Stmt *S) {
          if (!S) return;
          if (Cov.count(S)) return;
          auto It = Where.find(S);
          if (It != Where.end() && It->second.first != CurBlock) return; // evaluated elsewhere
          Cov.insert(S);
          if (isa<UnaryExprOrTypeTraitExpr>(S) || isa<StmtExpr>(S)) return;
          if (auto *DS = dyn_cast<DeclStmt>(S)) {
            for (const Decl *D : DS->decls())
              if (auto *VD = dyn_cast<VarDecl>(D))
                if (VD->hasInit()) mark(VD->getInit());
            return;
          }
          for (const Stmt *C : S->children()) mark(C);
        };
        for (auto It = Elems.rbegin(); It != Elems.rend(); ++It) {
          if (Cov.count(*It)) continue;
          Roots.push_back(*It);
          mark(*It);
        }
      }
      J.attributeBegin("el");
      J.arrayBegin();
      for (auto It = Roots.rbegin(); It != Roots.rend(); ++It) expr(*It);
      J.arrayEnd();
      J.attributeEnd();
      // terminator
      const Stmt *T = B->getTerminatorStmt();
      if (T) {
        J.attribute("term", termKind(T));
        J.attribute("tl", (int64_t)line(T->getBeginLoc()));
        if (const Expr *LC = B->getLastCondition())
          J.attribute("cond", (int64_t)idOf(strip(LC)));
      }
      if (B->hasNoReturnElement()) J.attribute("noret", true);
      J.attributeBegin("succ");
      J.arrayBegin();
      for (auto SI = B->succ_begin(); SI != B->succ_end(); ++SI) {
        if (const CFGBlock *SB = SI->getReachableBlock()) J.value((int64_t)SB->getBlockID());
        else J.value(nullptr);
      }
      J.arrayEnd();
      J.attributeEnd();
      J.objectEnd();
    }
    J.arrayEnd();
    J.attributeEnd();
    J.objectEnd();
  }

  void globalVar(const VarDecl *VD) {
    J.objectBegin();
    J.attribute("name", VD->getNameAsString());
    J.attribute("file", relFile(VD->getLocation()));
    J.attribute("line", (int64_t)line(VD->getLocation()));
    J.attribute("t", typeStr(VD->getType()));
    J.attribute("static", VD->getStorageClass() == SC_Static);
    J.attribute("const", VD->getType().isConstQualified() ||
                             (VD->getType()->isArrayType() &&
                              Ctx.getBaseElementType(VD->getType()).isConstQualified()));
    if (auto *CAT = Ctx.getAsConstantArrayType(VD->getType()))
      J.attribute("extent", (int64_t)CAT->getSize().getZExtValue());
    Where.clear();
    Ids.clear();
    CurBlock = 0;
    if (VD->hasInit()) child("init", VD->getInit());
    J.objectEnd();
  }
};

class Consumer : public ASTConsumer {
public:
  void HandleTranslationUnit(ASTContext &Ctx) override {
    std::error_code EC;
    llvm::raw_fd_ostream OS(gOutPath, EC);
    if (EC) { llvm::errs() << "cannot write " << gOutPath << "\n"; gErrors++; return; }
    OStream J(OS);
    Emitter Em(Ctx, J);
    SourceManager &SM = Ctx.getSourceManager();
    J.objectBegin();
    J.attribute("tu", Em.relFile(SM.getLocForStartOfFile(SM.getMainFileID())));
    std::vector<const FunctionDecl *> Fns;
    std::vector<const EnumDecl *> Enums;
    std::vector<const RecordDecl *> Recs;
    std::vector<const VarDecl *> Vars;
    std::function<void(const DeclContext *)> walk = [&](const DeclContext *DC) {
      for (const Decl *D : DC->decls()) {
        if (auto *FD = dyn_cast<FunctionDecl>(D)) {
          if (FD->doesThisDeclarationHaveABody() && Em.inRepo(FD->getLocation())) Fns.push_back(FD);
        } else if (auto *ED = dyn_cast<EnumDecl>(D)) {
          if (ED->isCompleteDefinition() && Em.inRepo(ED->getLocation())) Enums.push_back(ED);
        } else if (auto *RD = dyn_cast<RecordDecl>(D)) {
          if (RD->isCompleteDefinition() && Em.inRepo(RD->getLocation())) {
            Recs.push_back(RD);
            walk(RD); // nested records
          }
        } else if (auto *VD = dyn_cast<VarDecl>(D)) {
          if (VD->isFileVarDecl() && Em.inRepo(VD->getLocation()) && VD->isThisDeclarationADefinition())
            Vars.push_back(VD);
        } else if (auto *LS = dyn_cast<LinkageSpecDecl>(D)) {
          walk(LS);
        }
      }
    };
    walk(Ctx.getTranslationUnitDecl());

    J.attributeBegin("functions");
    J.arrayBegin();
    for (auto *FD : Fns) Em.function(FD);
    J.arrayEnd();
    J.attributeEnd();

    J.attributeBegin("enums");
    J.arrayBegin();
    for (auto *ED : Enums) {
      J.objectBegin();
      std::string N = ED->getNameAsString();
      if (N.empty())
        if (const TypedefNameDecl *TD = ED->getTypedefNameForAnonDecl()) N = TD->getNameAsString();
      J.attribute("name", N);
      J.attribute("file", Em.relFile(ED->getLocation()));
      J.attribute("line", (int64_t)Em.line(ED->getLocation()));
      J.attributeBegin("items");
      J.arrayBegin();
      for (const EnumConstantDecl *EC : ED->enumerators()) {
        J.arrayBegin();
        J.value(EC->getNameAsString());
        J.value(EC->getInitVal().getExtValue());
        J.arrayEnd();
      }
      J.arrayEnd();
      J.attributeEnd();
      J.objectEnd();
    }
    J.arrayEnd();
    J.attributeEnd();

    J.attributeBegin("records");
    J.arrayBegin();
    for (auto *RD : Recs) {
      J.objectBegin();
      J.attribute("name", Em.recordName(RD));
      J.attribute("file", Em.relFile(RD->getLocation()));
      J.attribute("line", (int64_t)Em.line(RD->getLocation()));
      J.attribute("union", RD->isUnion());
      if (!RD->isInvalidDecl() && !RD->isDependentType()) {
        const ASTRecordLayout &L = Ctx.getASTRecordLayout(RD);
        J.attribute("size", (int64_t)L.getSize().getQuantity());
      }
      J.attributeBegin("fields");
      J.arrayBegin();
      for (const FieldDecl *F : RD->fields()) {
        J.objectBegin();
        J.attribute("n", F->getNameAsString());
        J.attribute("t", Em.typeStr(F->getType()));
        QualType FT = F->getType();
        if (auto *CAT = Ctx.getAsConstantArrayType(FT)) {
          J.attribute("extent", (int64_t)CAT->getSize().getZExtValue());
          J.attribute("elsize", (int64_t)Ctx.getTypeSizeInChars(CAT->getElementType()).getQuantity());
        }
        if (!FT->isIncompleteType() && !F->isBitField())
          J.attribute("size", (int64_t)Ctx.getTypeSizeInChars(FT).getQuantity());
        if (const RecordType *RT = FT->getAs<RecordType>()) J.attribute("rec", Em.recordName(RT->getDecl()));
        else if (FT->isPointerType()) {
          QualType PT = FT->getPointeeType();
          if (const RecordType *RT2 = PT->getAs<RecordType>()) J.attribute("ptrrec", Em.recordName(RT2->getDecl()));
        }
        J.objectEnd();
      }
      J.arrayEnd();
      J.attributeEnd();
      J.objectEnd();
    }
    J.arrayEnd();
    J.attributeEnd();

    J.attributeBegin("globals");
    J.arrayBegin();
    for (auto *VD : Vars) Em.globalVar(VD);
    J.arrayEnd();
    J.attributeEnd();

    J.attribute("errors", (int64_t)Ctx.getDiagnostics().getClient()->getNumErrors());
    J.objectEnd();
    OS << "\n";
  }
};

class Action : public ASTFrontendAction {
public:
  std::unique_ptr<ASTConsumer> CreateASTConsumer(CompilerInstance &, StringRef) override {
    return std::make_unique<Consumer>();
  }
};

} // namespace

int main(int argc, const char **argv) {
  if (argc < 5) {
    llvm::errs() << "usage: zsx <out.json> <repo-root> <source.c> -- <flags>\n";
    return 2;
  }
  gOutPath = argv[1];
  gRepoRoot = argv[2];
  std::string Src = argv[3];
  std::vector<std::string> Flags;
  int i = 4;
  if (std::string(argv[i]) == "--") ++i;
  for (; i < argc; ++i) Flags.push_back(argv[i]);
  Flags.push_back("-resource-dir");
  Flags.push_back("/usr/lib/llvm-14/lib/clang/14.0.6");
  Flags.push_back("-w");
  clang::tooling::FixedCompilationDatabase DB(".", Flags);
  clang::tooling::ClangTool Tool(DB, {Src});
  int RC = Tool.run(clang::tooling::newFrontendActionFactory<Action>().get());
  if (RC != 0 || gErrors) return 1;
  return 0;
}
