#!/usr/bin/env python3
"""Regression over the stored seeded changes: apply each seeded/<id>/patch.diff to a scratch worktree of /repo HEAD and run
the check that is recorded as detecting it; report DETECTED / MISSED / NOAPPLY (the tree has moved) per seed (developer tool)."""
import glob, json, os, subprocess, sys, tempfile, shutil
HERE = os.path.dirname(os.path.dirname(os.path.abspath(__file__)))
rows = []
for d in sorted(glob.glob(os.path.join(HERE, "seeded", "*"))):
    m = json.load(open(os.path.join(d, "meta.json")))
    chk = (m.get("detected_by", {}).get("check") or m["property"]).replace(",", " ").split()[0]
    w = tempfile.mkdtemp(prefix="wt-sr.", dir="/tmp"); os.rmdir(w)
    subprocess.run(["git", "-C", "/repo", "worktree", "add", "-q", "--detach", w, "HEAD"], check=True)
    try:
        pf = os.path.join(d, "patch.rebased.diff") if os.path.exists(os.path.join(d, "patch.rebased.diff")) else os.path.join(d, "patch.diff")
        if subprocess.run(["git", "-C", w, "apply", pf], capture_output=True).returncode != 0:
            rows.append((os.path.basename(d), chk, "NOAPPLY")); continue
        env = dict(os.environ, ZSTD_REPO=w, ZCHECK_OUT=os.path.join(w, "_o"), VERIF_TIER="quick")
        p = subprocess.run([os.path.join(HERE, "check"), chk], capture_output=True, text=True, env=env, cwd=HERE)
        rows.append((os.path.basename(d), chk, {1: "DETECTED", 0: "MISSED"}.get(p.returncode, "BROKEN(exit %d)" % p.returncode)))
    finally:
        subprocess.run(["git", "-C", "/repo", "worktree", "remove", "--force", w])
for r in rows:
    print("%-9s %-4s %s" % (r[2], r[1], r[0]))
print("%d seeds: %d detected, %d missed, %d no longer apply" % (len(rows), sum(r[2] == "DETECTED" for r in rows), sum(r[2] == "MISSED" for r in rows), sum(r[2] == "NOAPPLY" for r in rows)))
