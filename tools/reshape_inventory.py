#!/usr/bin/env python3
"""Refresh the `shape` of each entry of a frozen guard inventory after a change to how shapes are
canonicalised (developer tool, never run by a check).  An entry is re-identified by everything
else in its signature (function, error codes, operator, operand anchors, the old shape's
multiset position); the tool refuses to touch an entry it cannot re-identify uniquely.
usage: reshape_inventory.py <groups> <inventory.json>"""
import sys, os, json
sys.path.insert(0, os.path.dirname(os.path.dirname(os.path.abspath(__file__))))
sys.dont_write_bytecode = True
from zcheck.facts import extract
from zcheck.ir import Program, REL_FLIP
from zcheck.rules import guards
tus, info = extract(sys.argv[1].split(","))
prog = Program(tus)
inv = json.load(open(sys.argv[2]))
REL = guards.REL
by = {}
for e in inv:
    by.setdefault((e["fn"], e.get("file"), bool(e.get("zero_is_failure"))), []).append(e)
changed = unresolved = 0
for (fn, fl, zf), es in by.items():
    f = prog.fn(fn, fl)
    sites = guards.guard_sites(f, guards._zero_failure if zf else None)
    used = set()
    # pass 1: entries whose shape still matches keep it
    for e in es:
        sh = e.get("shape")
        for g in sites:
            if id(g) in used or (e["codes"] and not (set(e["codes"]) & g.codes)):
                continue
            if g.op == e["op"] and set(e["L"]) <= g.sL and set(e["R"]) <= g.sR and [g.shL, g.shR] == sh:
                used.add(id(g)); e["_ok"] = True; break
            if g.op in REL and e["op"] in REL and REL_FLIP[g.op] == e["op"] and set(e["L"]) <= g.sR and set(e["R"]) <= g.sL and [g.shR, g.shL] == sh:
                used.add(id(g)); e["_ok"] = True; break
    for e in es:
        if e.pop("_ok", False):
            continue
        cands = []
        for g in sites:
            if e["codes"] and not (set(e["codes"]) & g.codes):
                continue
            if g.op == e["op"] and set(e["L"]) == set(g.sL) and set(e["R"]) == set(g.sR):
                cands.append([g.shL, g.shR])
            elif g.op in REL and e["op"] in REL and REL_FLIP[g.op] == e["op"] and set(e["L"]) == set(g.sR) and set(e["R"]) == set(g.sL):
                cands.append([g.shR, g.shL])
        uniq = []
        for c in cands:
            if c not in uniq and c not in [x.get("shape") for x in es if x is not e]:
                uniq.append(c)
        if len(uniq) == 1:
            e["shape"] = uniq[0]; changed += 1
        else:
            unresolved += 1
            print("UNRESOLVED", fn, e["codes"], e["op"], e.get("shape"), "candidates:", uniq)
json.dump(inv, open(sys.argv[2], "w"), indent=0)
print("%d entries, %d reshaped, %d unresolved" % (len(inv), changed, unresolved))
