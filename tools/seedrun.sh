#!/bin/sh
# usage: seedrun.sh <patch.diff> <prop> [prop...]  — apply a seeded change to a scratch worktree of /repo HEAD,
# run the listed checks against it (evidence/out redirected), remove the worktree.
P=$(readlink -f "$1"); shift
W=$(mktemp -d /tmp/wt-seed.XXXXXX); rmdir "$W"
git -C /repo worktree add -q "$W" HEAD || exit 4
if ! git -C "$W" apply "$P"; then echo "PATCH DOES NOT APPLY"; git -C /repo worktree remove --force "$W"; exit 4; fi
for prop in "$@"; do
  ZSTD_REPO="$W" ZCHECK_OUT="$W/_o" /verif/check "$prop" > "$W/_log" 2>&1; st=$?
  grep -A3 "^  $prop \[" "$W/_log" | head -16
  echo "== $prop exit=$st"
done
git -C /repo worktree remove --force "$W"
