#!/usr/bin/env python3
"""Proposes a frozen guard inventory from today's tree (developer tool; output is reviewed
and committed under zcheck/props/inv/).  usage: inventory.py <groups> <out.json> <file-suffix|fn:Name>..."""
import sys, os, json
sys.path.insert(0, os.path.dirname(os.path.dirname(os.path.abspath(__file__))))
sys.dont_write_bytecode = True
from zcheck.facts import extract
from zcheck.ir import Program
from zcheck.rules import guards
tus, info = extract(sys.argv[1].split(","))
prog = Program(tus)
out = []
for sel in sys.argv[3:]:
    if sel.startswith("fn:"):
        fns = prog.functions.get(sel[3:], [])
    else:
        fns = prog.fns_in(sel)
    for f in sorted(fns, key=lambda x: (x.file, x.line)):
        for e in guards.inventory_of(f):
            e["file"] = f.file
            out.append(e)
json.dump(out, open(sys.argv[2], "w"), indent=0)
print(len(out), "guards in", len({e["fn"] for e in out}), "functions")
