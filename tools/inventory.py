#!/usr/bin/env python3
"""Proposes a frozen guard inventory from today's tree (developer tool; output is reviewed
and committed under zcheck/props/inv/).  usage: inventory.py <groups> <out.json> <file-suffix|fn:Name>..."""
import sys, os, json
sys.path.insert(0, os.path.dirname(os.path.dirname(os.path.abspath(__file__))))
sys.dont_write_bytecode = True
from zcheck.facts import extract
from zcheck.ir import Program
from zcheck.rules import guards
tus, info = extract(sys.argv[1].split(","))
prog = Program(tus)
out = []
codes = None
zero_fail = False
args = []
for a in sys.argv[3:]:
    if a.startswith("--codes="):
        codes = a[8:].split(",")
    elif a == "--zero-is-failure":
        zero_fail = True
    else:
        args.append(a)


def zf(f, b, i, r):
    from zcheck.ir import strip_casts
    e = strip_casts(r.get("e"))
    return e is not None and e.get("v") == 0


for sel in args:
    if sel.startswith("fn:"):
        fns = prog.functions.get(sel[3:], [])
    else:
        fns = prog.fns_in(sel)
    for f in sorted(fns, key=lambda x: (x.file, x.line)):
        for e in guards.inventory_of(f, codes=codes, skip_forwarded=not zero_fail, extra_failure=zf if zero_fail else None):
            e["file"] = f.file
            if zero_fail:
                e["zero_is_failure"] = True
            out.append(e)
json.dump(out, open(sys.argv[2], "w"), indent=0)
print(len(out), "guards in", len({e["fn"] for e in out}), "functions")
