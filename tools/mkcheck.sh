#!/bin/sh
# usage: mkcheck.sh <worktree-dir> <log>  — run the pinned suite (make check) in a scratch worktree, report exit code
D="$1"; L="$2"
( cd "$D" && make -j4 check > "$L" 2>&1; echo "MAKE-CHECK-EXIT=$?" >> "$L" )
tail -1 "$L"
