#!/usr/bin/env python3
"""Rewrite the generated tables of DESIGN.md Part I (fix list §0.4, known findings, seeds §0.6) from
known_findings.json and seeded/*/meta.json.  The tables sit between <!-- X-BEGIN --> / <!-- X-END --> markers."""
import json, glob, os, re
HERE = os.path.dirname(os.path.dirname(os.path.abspath(__file__)))
D = open(os.path.join(HERE, "DESIGN.md")).read()
k = json.load(open(os.path.join(HERE, "known_findings.json")))


def between(text, tag, body):
    a, b = "<!-- %s-BEGIN -->" % tag, "<!-- %s-END -->" % tag
    i, j = text.index(a) + len(a), text.index(b)
    return text[:i] + "\n" + body + text[j:]


rows = ["| property | commit | what failed (replayed) | rule that reported it |", "|---|---|---|---|"]
for f in k["fixed"]:
    m = re.match(r"fixed: property=(C\d+) (\S+|\(see [^)]*\)) (.*)", f)
    prop, commit, what = m.group(1), m.group(2), m.group(3)
    rule = re.search(r"\(rule ([^;)]*)", what)
    rows.append("| %s | %s | %s | %s |" % (prop, commit if not commit.startswith("(") else "see git log", what.split(" (rule")[0].replace("|", "/"), rule.group(1) if rule else ""))
D = between(D, "FIXES", "\n".join(rows) + "\n")
kf = []
for f in k["findings"]:
    kf.append("* **%s / %s / `%s`** — %s. *Not repaired because* %s. Replay: %s" % (f["property"], f["rule"], f["key"], f["what"], f["why_not_repaired"], f["replay"]))
D = between(D, "FINDINGS", "\n".join(kf) + "\n")
rows = ["| seed | detected by | rule | was the rule there before the seed was seen? |", "|---|---|---|---|"]
for d in sorted(glob.glob(os.path.join(HERE, "seeded", "*"))):
    m = json.load(open(os.path.join(d, "meta.json")))
    db = m.get("detected_by", {})
    rows.append("| %s%s | %s | %s | %s |" % (os.path.basename(d), (" (round %d)" % m["round"]) if m.get("round", 1) > 1 else "", db.get("check") or "— (missed)", db.get("rule") or "—",
                                            str(db.get("initially_missed", db.get("why", ""))).replace("|", "/")[:300]))
D = between(D, "SEEDS", "\n".join(rows) + "\n")
D = re.sub(r"\n\d+ were genuine and repaired in /repo", "\n%d were genuine and repaired in /repo" % len(k["fixed"]), D)
D = re.sub(r"\); \d+ are recorded as known findings\.", "); %d are recorded as known findings." % len(k["findings"]), D)
import subprocess as _sp
_head = _sp.run(["git", "-C", "/repo", "rev-parse", "--short", "HEAD"], capture_output=True, text=True).stdout.strip()
if _head:
    D = re.sub(r"last run on [0-9a-f]{7,}", "last run on " + _head, D)
D = re.sub(r"§0\.4 genuine defects found \(\d+ repaired, \d+ recorded\)", "§0.4 genuine defects found (%d repaired, %d recorded)" % (len(k["fixed"]), len(k["findings"])), D)
open(os.path.join(HERE, "DESIGN.md"), "w").write(D)
print("fixes %d, findings %d, seeds %d" % (len(k["fixed"]), len(k["findings"]), len(glob.glob(os.path.join(HERE, "seeded", "*")))))
