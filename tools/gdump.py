#!/usr/bin/env python3
"""developer aid: print the guards (error-edge branches) of functions in canonical form.
usage: gdump.py <group,group> <function> [function...]"""
import sys, os
sys.path.insert(0, os.path.dirname(os.path.dirname(os.path.abspath(__file__))))
sys.dont_write_bytecode = True
from zcheck.facts import extract
from zcheck.ir import Program
from zcheck.rules import guards
tus, info = extract(sys.argv[1].split(","))
prog = Program(tus)
for name in sys.argv[2:]:
    for f in prog.functions.get(name, []):
        print("==", f.name, f.loc, "params:", [p["n"] for p in f.params])
        for g in guard_sites if False else guards.guard_sites(f):
            print("  L%-5s %-60s %-3s %-50s -> %s" % (g.line, sorted(g.L), g.op, sorted(g.R), sorted(g.codes)))
