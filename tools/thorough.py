#!/usr/bin/env python3
"""Thorough tier, second half (the first half is the property's full rule set, run by ./check):
(1) checker self-test: every mutant of selftest/mutants.json for the property is applied to a
    scratch copy of /repo's CURRENT tree and must be reported by the named rule;
(2) the same rule set over further build configurations in which it keeps its instances.
Neither step executes zstd.  Result is merged into evidence/<id>.json (tier: thorough)."""
import json, os, shutil, subprocess, sys, tempfile, time

HERE = os.path.dirname(os.path.dirname(os.path.abspath(__file__)))
sys.path.insert(0, HERE)

# configurations under which every rule of the property keeps its confirmed instance counts
# (established by running them; a configuration that removes anchors is not listed for that property)
COMMON = ["-DZSTD_LEGACY_SUPPORT=1", "-DZSTD_DISABLE_ASM -DZSTD_NO_UNUSED_FUNCTIONS", "-DZSTD_STRIP_ERROR_STRINGS"]
EXTRA = {
    "C01": ["-DHUF_FORCE_DECOMPRESS_X1", "-DDYNAMIC_BMI2=0"],
    "C02": ["-DHUF_FORCE_DECOMPRESS_X1", "-DZSTD_FORCE_DECOMPRESS_SEQUENCES_SHORT", "-DDYNAMIC_BMI2=0"],
    "C04": ["-DHUF_FORCE_DECOMPRESS_X2", "-DHUF_FORCE_DECOMPRESS_X1", "-DDYNAMIC_BMI2=0"],
    "C05": ["-DDYNAMIC_BMI2=0"], "C06": ["-DDYNAMIC_BMI2=0"], "C07": ["-DDYNAMIC_BMI2=0", "-DHUF_FORCE_DECOMPRESS_X1"],
    "C08": ["-DHUF_FORCE_DECOMPRESS_X1", "-DDYNAMIC_BMI2=0"], "C09": ["-DHUF_FORCE_DECOMPRESS_X1", "-DZSTD_FORCE_DECOMPRESS_SEQUENCES_SHORT"],
    "C10": ["-DDYNAMIC_BMI2=0"], "C13": ["-DDYNAMIC_BMI2=0"], "C14": ["-DDYNAMIC_BMI2=0"], "C15": ["-DDYNAMIC_BMI2=0"],
    "C16": ["-DDYNAMIC_BMI2=0"], "C17": ["-DDYNAMIC_BMI2=0"], "C18": ["-DDYNAMIC_BMI2=0"],
}


def run(prop):
    t0 = time.time()
    env = dict(os.environ, VERIF_TIER="quick")
    # ---- (1) self-test --------------------------------------------------------------------------
    p = subprocess.run([sys.executable, os.path.join(HERE, "tools", "mutants.py"), "--prop", prop, "-j", "16"], capture_output=True, text=True, env=env, cwd=HERE)
    lines = [l for l in p.stdout.splitlines() if l[:9].strip() in ("CAUGHT", "MISSED", "STALE", "BROKEN", "NOCOMPILE")]
    st = {}
    for l in lines:
        st.setdefault(l.split()[0], []).append(l.split()[2])
    n = sum(len(v) for v in st.values())
    print("%s thorough: self-test %d mutants: %s" % (prop, n, ", ".join("%d %s" % (len(v), k.lower()) for k, v in sorted(st.items()))))
    rc = 0
    bad = st.get("MISSED", []) + st.get("BROKEN", [])
    if bad:
        print("ANALYSIS-BROKEN property=%s: the checker no longer reports mutant(s) %s on the current tree" % (prop, ", ".join(bad)))
        rc = 2
    if n == 0:
        print("ANALYSIS-BROKEN property=%s: no self-test mutant registered" % prop)
        rc = 2
    for s in st.get("STALE", []):
        print("  note: mutant %s does not apply to the current tree (reported, not counted as a pass)" % s)
    # ---- (2) further configurations ---------------------------------------------------------------
    cfgs = []
    for k, cfg in enumerate(COMMON + EXTRA.get(prop, [])):
        out = os.path.join(os.environ.get("ZCHECK_OUT") or HERE, "out", prop, "cfg%d" % k)
        shutil.rmtree(out, ignore_errors=True)
        e2 = dict(env, ZCHECK_CONFIG=cfg, ZCHECK_OUT=out)
        q = subprocess.run([os.path.join(HERE, "check"), prop], capture_output=True, text=True, env=e2, cwd=HERE)
        summary = [l for l in q.stdout.splitlines() if l.startswith(prop + ":")]
        cfgs.append({"defines": cfg, "exit": q.returncode, "summary": summary[-1] if summary else ""})
        print("%s thorough: configuration %s -> exit %d" % (prop, cfg, q.returncode))
        if q.returncode == 1:
            for l in q.stdout.splitlines():
                if l.startswith("VIOLATION") or l.startswith("  " + prop) or l.startswith("      "):
                    print(l)
            rc = max(rc, 1) if rc != 1 else 1
            rc = 1
        elif q.returncode != 0 and rc == 0:
            print("ANALYSIS-BROKEN property=%s: rule set lost its instances under %s\n%s" % (prop, cfg, q.stdout[-400:]))
            rc = 2
        if q.returncode == 0:
            shutil.rmtree(out, ignore_errors=True)
    # ---- evidence ---------------------------------------------------------------------------------
    evp = os.path.join(os.environ.get("ZCHECK_OUT") or HERE, "evidence", prop + ".json")
    try:
        ev = json.load(open(evp))
        ev["tier"] = "thorough"
        ev["wall_s"] = round(ev.get("wall_s", 0) + time.time() - t0, 2)
        cov = ev["coverage"]
        cov["selftest"] = {"mutants": n, "reported": len(st.get("CAUGHT", [])), "stale": st.get("STALE", []), "missed": bad,
                           "rule": "each mutant is a source edit that breaks one named clause while compiling; applied to a scratch copy of the current tree, the property's check must exit 1 naming the expected rule"}
        cov["configurations"] = cfgs
        cov["evaluations"] = cov.get("evaluations", 0) + n + sum(1 for c in cfgs)
        json.dump(ev, open(evp, "w"), indent=1)
    except Exception as e:           # evidence of the quick half stays
        print("note: could not extend evidence: %s" % e)
    return rc


if __name__ == "__main__":
    sys.exit(run(sys.argv[1]))
