#!/bin/sh
# run every claimed check (quick tier) and print its exit status; non-zero overall if any is non-zero
cd "$(dirname "$0")/.."
rc=0
for p in $(python3 -c "import json;print(' '.join(c['property_id'] for c in json.load(open('MANIFEST.json'))['checks']))"); do
  ./check $p > /tmp/.runall.$$ 2>&1; st=$?
  echo "$p exit=$st $(tail -1 /tmp/.runall.$$ | cut -c1-90)"
  [ $st -ne 0 ] && rc=1
done
rm -f /tmp/.runall.$$
exit $rc
