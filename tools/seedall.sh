#!/bin/sh
# usage: seedall.sh <patch.diff>  — apply to a scratch worktree of /repo HEAD and run EVERY claimed check; print the ones that fire
P=$(readlink -f "$1")
W=$(mktemp -d /tmp/wt-sa.XXXXXX); rmdir "$W"
git -C /repo worktree add -q --detach "$W" HEAD || exit 4
if ! git -C "$W" apply "$P"; then echo "PATCH DOES NOT APPLY"; git -C /repo worktree remove --force "$W"; exit 4; fi
for prop in $(python3 -c "import json;print(' '.join(c['property_id'] for c in json.load(open('/verif/MANIFEST.json'))['checks']))"); do
  ( ZSTD_REPO="$W" ZCHECK_OUT="$W/_o_$prop" VERIF_TIER=quick /verif/check "$prop" > "$W/_log_$prop" 2>&1; st=$?
    if [ $st -ne 0 ]; then echo "== $prop exit=$st"; grep -A2 "^  $prop \[" "$W/_log_$prop" | head -6 | cut -c1-220; fi ) &
done
wait
git -C /repo worktree remove --force "$W"
