#!/bin/sh
# run the thorough tier of every claimed property (sequentially; each uses all cores)
cd /verif
for p in $(python3 -c "import json;print(' '.join(c['property_id'] for c in json.load(open('MANIFEST.json'))['checks']))"); do
  s=$(date +%s); ./check $p --tier thorough > /tmp/thorough-$p.log 2>&1; rc=$?
  echo "$p exit=$rc $(( $(date +%s) - s ))s $(grep -c '^VIOLATION' /tmp/thorough-$p.log) violations; $(grep 'self-test' /tmp/thorough-$p.log | cut -d: -f2-)"
done
