#!/usr/bin/env python3
"""store a sub-agent's seeded change under seeded/<id>-<name>/ (developer tool).
usage: store_seed.py <worktree> <prop> <name> < meta-fields.json   (fields: breaks, needs, check, rule, instance, initially_missed, demo, round)"""
import json, os, shutil, sys
HERE = os.path.dirname(os.path.dirname(os.path.abspath(__file__)))
w, prop, name = sys.argv[1:4]
f = json.load(sys.stdin)
src = os.path.join(w, "_seed")
d = os.path.join(HERE, "seeded", "%s-%s" % (prop, name))
os.makedirs(d, exist_ok=True)
shutil.copy(os.path.join(src, "patch.diff"), d)
for x in ("demo.c", "demo.sh", "mini.c"):
    if os.path.exists(os.path.join(src, x)):
        shutil.copy(os.path.join(src, x), d)
if os.path.exists(os.path.join(src, "README.md")):
    shutil.copy(os.path.join(src, "README.md"), os.path.join(d, "agent_README.md"))
json.dump({"property": prop, "round": f.get("round", 3), "breaks": f["breaks"], "needs": f["needs"],
           "confirmed": {"compiles": True, "make_check_passes": f.get("make_check", "agent log (make -j8 check exit 0 on the patched tree); not re-run here"),
                         "demo": f.get("demo", "agent's runs (PASS on the clean tree, FAIL on the patched tree); not re-run here")},
           "ran": ["tools/seedrun.sh patch.diff " + prop] + f.get("ran", []),
           "detected_by": {"check": f.get("check"), "rule": f.get("rule"), "instance": f.get("instance"), "initially_missed": f["initially_missed"]}},
          open(os.path.join(d, "meta.json"), "w"), indent=1)
print(d)
