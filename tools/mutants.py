#!/usr/bin/env python3
"""Checker self-validation: apply each mutant of selftest/mutants.json to a scratch copy of
the analysed part of /repo (outside /repo and /verif, deleted afterwards), run the property's
check against the copy, and require that it reports a VIOLATION naming the expected rule.
usage: mutants.py [--prop Cxx] [--name substr] [-j N] [--syntax]
exit 0 = every selected mutant was reported; 3 = some mutant was missed (checker too weak)."""
import json, os, shutil, subprocess, sys, tempfile
from concurrent.futures import ThreadPoolExecutor

HERE = os.path.dirname(os.path.dirname(os.path.abspath(__file__)))
REPO = os.environ.get("ZSTD_REPO", "/repo")
DIRS = ["lib", "programs", "contrib/seekable_format", "doc", "Makefile"]


def make_copy(dst):
    for d in DIRS:
        s = os.path.join(REPO, d)
        t = os.path.join(dst, d)
        os.makedirs(os.path.dirname(t), exist_ok=True)
        if os.path.isdir(s):
            # have_*.c / have_*: probe files the upstream programs/Makefile creates and removes whenever make parses it (also under -n)
            for attempt in range(3):
                try:
                    shutil.copytree(s, t, ignore=shutil.ignore_patterns("obj", "*.o", "*.a", "*.so*", "zstd", "zstd-*", "have_*"), dirs_exist_ok=True)
                    break
                except shutil.Error:
                    if attempt == 2:
                        raise
        else:
            shutil.copy(s, t)


def run_one(m, syntax=False):
    tmp = tempfile.mkdtemp(prefix="zmut-")
    try:
        root = os.path.join(tmp, "repo")
        make_copy(root)
        path = os.path.join(root, m["file"])
        src = open(path).read()
        cnt = src.count(m["old"])
        if cnt < 1:
            return m, "STALE", "pattern not found in %s" % m["file"]
        occ = m.get("occurrence", 1)
        if occ == "all":
            new = src.replace(m["old"], m["new"])
        else:
            idx = -1
            for _ in range(occ):
                idx = src.find(m["old"], idx + 1)
            if idx < 0:
                return m, "STALE", "occurrence %s not found" % occ
            new = src[:idx] + m["new"] + src[idx + len(m["old"]):]
        open(path, "w").write(new)
        if syntax and m["file"].endswith(".c"):
            p = subprocess.run(["cc", "-fsyntax-only", "-DXXH_NAMESPACE=ZSTD_", "-DZSTD_MULTITHREAD", "-DZSTD_LEGACY_SUPPORT=5",
                                "-I" + root + "/lib", "-I" + root + "/lib/common", "-I" + root + "/programs", path],
                               capture_output=True, text=True)
            if p.returncode != 0:
                return m, "NOCOMPILE", p.stderr[-400:]
        env = dict(os.environ, ZSTD_REPO=root, ZCHECK_OUT=os.path.join(tmp, "o"))
        p = subprocess.run([os.path.join(HERE, "check"), m["prop"]], capture_output=True, text=True, env=env, cwd=HERE)
        out = p.stdout + p.stderr
        want = m.get("expect", "")
        if p.returncode == 1 and "VIOLATION property=%s" % m["prop"] in out and (not want or want in out):
            return m, "CAUGHT", ""
        if p.returncode == 2:
            return m, "BROKEN", out[-600:]
        return m, "MISSED", out[-600:]
    finally:
        shutil.rmtree(tmp, ignore_errors=True)


def main():
    args = sys.argv[1:]
    prop = name = None
    jobs = 8
    syntax = False
    i = 0
    while i < len(args):
        if args[i] == "--prop": prop = args[i + 1]; i += 2
        elif args[i] == "--name": name = args[i + 1]; i += 2
        elif args[i] == "-j": jobs = int(args[i + 1]); i += 2
        elif args[i] == "--syntax": syntax = True; i += 1
        else: i += 1
    ms = json.load(open(os.path.join(HERE, "selftest", "mutants.json")))
    ms = [m for m in ms if (not prop or m["prop"] == prop) and (not name or name in m["name"])]
    bad = 0
    with ThreadPoolExecutor(max_workers=jobs) as ex:
        for m, status, detail in ex.map(lambda mm: run_one(mm, syntax), ms):
            print("%-9s %s %s" % (status, m["prop"], m["name"]))
            if status != "CAUGHT":
                bad += 1
                print("    " + detail.replace("\n", "\n    "))
    print("%d mutants, %d not reported" % (len(ms), bad))
    return 3 if bad else 0


if __name__ == "__main__":
    sys.exit(main())
