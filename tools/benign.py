#!/usr/bin/env python3
"""False-alarm test of the checker: apply each behaviour-preserving edit of selftest/benign.json to a
scratch copy of /repo's tree and require that EVERY claimed check still exits 0 (developer tool).
usage: benign.py [--name substr] [-j N]"""
import json, os, re, shutil, subprocess, sys, tempfile
from concurrent.futures import ThreadPoolExecutor
HERE = os.path.dirname(os.path.dirname(os.path.abspath(__file__)))
sys.path.insert(0, os.path.join(HERE, "tools"))
import mutants
PROPS = [c["property_id"] for c in json.load(open(os.path.join(HERE, "MANIFEST.json")))["checks"]]


def one(m):
    tmp = tempfile.mkdtemp(prefix="zben-")
    try:
        root = os.path.join(tmp, "repo")
        mutants.make_copy(root)
        path = os.path.join(root, m.get("filehint") or m["file"])
        src = open(path).read()
        if "re" in m:
            new = re.sub(m["re"], m["to"], src)
        elif "sed" in m:
            new = src
            for cmd in m["sed"].split(";"):
                a = cmd.strip().split("/")
                new = re.sub(a[1], a[2], new)
        else:
            if m["old"] not in src:
                return m, "STALE", ""
            new = src.replace(m["old"], m["new"], 1)
        if new == src:
            return m, "STALE", ""
        open(path, "w").write(new)
        p = subprocess.run(["cc", "-fsyntax-only", "-DXXH_NAMESPACE=ZSTD_", "-DZSTD_MULTITHREAD", "-DZSTD_LEGACY_SUPPORT=5", "-I" + root + "/lib", "-I" + root + "/lib/common",
                            "-I" + root + "/programs", path], capture_output=True, text=True) if path.endswith(".c") else None
        if p is not None and p.returncode != 0:
            return m, "NOCOMPILE", p.stderr[-300:]
        bad = []
        for prop in PROPS:
            env = dict(os.environ, ZSTD_REPO=root, ZCHECK_OUT=os.path.join(tmp, "o"), VERIF_TIER="quick")
            q = subprocess.run([os.path.join(HERE, "check"), prop], capture_output=True, text=True, env=env, cwd=HERE)
            if q.returncode != 0:
                lines = [l for l in q.stdout.splitlines() if l.startswith("  " + prop) or l.startswith("ANALYSIS")]
                bad.append("%s exit=%d %s" % (prop, q.returncode, " | ".join(lines[:3])[:300]))
        return m, "ALARM" if bad else "QUIET", "\n".join(bad)
    finally:
        shutil.rmtree(tmp, ignore_errors=True)


def main():
    args = sys.argv[1:]
    name = None; jobs = 4
    i = 0
    while i < len(args):
        if args[i] == "--name": name = args[i + 1]; i += 2
        elif args[i] == "-j": jobs = int(args[i + 1]); i += 2
        else: i += 1
    ms = [m for m in json.load(open(os.path.join(HERE, "selftest", "benign.json"))) if not name or name in m["name"]]
    n = 0
    with ThreadPoolExecutor(max_workers=jobs) as ex:
        for m, st, d in ex.map(one, ms):
            print("%-9s %s" % (st, m["name"]))
            if st != "QUIET":
                n += 1
                print("    " + d.replace("\n", "\n    "))
    print("%d benign edits, %d not quiet" % (len(ms), n))
    return 3 if n else 0


if __name__ == "__main__":
    sys.exit(main())
