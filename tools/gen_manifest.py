#!/usr/bin/env python3
"""Regenerates /verif/MANIFEST.json from the table below (single source of truth for the
claims).  A property is claimed only if zcheck/props/<id>.py exists."""
import json
import os

HERE = os.path.dirname(os.path.dirname(os.path.abspath(__file__)))

# id -> (technique, claimed clause, not decided, design ref)
P = {
 "C01": ("constant-table conformance (AST initialisers vs format document), dispatch-table cell check, CFG edge-cut rules, error-discipline dataflow",
         "offset/length code tables and default distributions agree between encoder, decoder and the format document; block-compressor dispatch table cells; raw-block fallback and repcode/entropy hand-over on every path; no error from the compression path is dropped",
         "round-trip equality itself (values flowing through the match finders and entropy coders)", "§4 C01"),
 "C02": ("CFG edge-cut and paired-update rules, who-may-call wrapper check",
         "decoder completion is signalled only with expected==0 and output flushed; stage/expected pairing; window update precedes block compression; legacy ZBUFF wrappers only forward to the modern streaming API",
         "buffer management under arbitrary segmentation (value-dependent state)", "§4 C02"),
 "C03": ("check-before-use guard inventory with dominance (CFG), capacity witnesses (_Static_assert), error-discipline dataflow, masked-index typestate, switch exhaustiveness",
         "every length/offset read from untrusted bytes is compared against its bound with an error exit before it reaches its sink; entropy-table capacities match declared logs; bit-stream and callee errors propagate; legacy dispatch is exhaustive",
         "termination/time bounds, absence of UB in general, the x86-64 assembly Huffman loop", "§4 C03"),
 "C04": ("constant-table conformance against a spec-derived construction, sibling guard agreement, wrapper-shape rule",
         "predefined FSE decoding tables equal the format document's construction; decoder variants (sequence decoders, HUF X1/X2, bmi2/default wrappers) carry the same accept/reject guards and forward to one body",
         "equality with an independent decoder on all valid frames; the assembly loop", "§4 C04"),
 "C05": ("writer/reader constant agreement (AST), CFG ordering and edge-cut rules, who-may-call",
         "frame-header writer, reader and format document agree on every field position/width/threshold; checksum is updated once over exactly the consumed input; window enforcement order before each block; RLE-not-first, minGain and 4-byte-tail guards",
         "validity of every emitted frame and offsets <= window for all inputs", "§4 C05"),
 "C06": ("capacity-guard dominance over a frozen writer list (CFG), _Static_assert witnesses on the bound formula, sibling agreement of frame walkers",
         "every raw write through dst in the frame/block-level writers is dominated by a capacity test with a dstSize_tooSmall exit; decoder copies are capacity-checked; the documented shape of ZSTD_COMPRESSBOUND; inspectors share one frame walk",
         "numeric sufficiency of ZSTD_compressBound / decompressBound / in-place margin for every input", "§4 C06"),
 "C07": ("reset-completeness (field write sets vs reset functions, every record field accounted for), scoped-setter and constructor-agreement rules, cleanliness-protocol pairing on the CFG, purity reachability over the call graph, finite-domain shape check of the salted hash",
         "every field of the match state, window, optimal-parser statistics, compressed-block state, CCtx frame session and CCtx stream session written during operation is re-established by the reset path or is on a reasoned exception list; the sequence collector is disarmed on every exit; every constructor establishes default parameters; workspace tables are cleaned or fully copied; per-block scratch refreshed before use; salt applied as an XOR before the shift; no clock/PRNG/env/thread-id reachable; addresses used only for alignment; MT job boundaries free of worker-written state and pending sync points re-detected",
         "bit-identical output across histories, placements and schedules (2-run hyperproperty)", "§4 C07"),
 "C08": ("sibling guard agreement between the two dictionary loaders (frozen inventory), provenance rules on the CFG, interval reasoning from the loaders' own limits, argument-source coherence, switch exhaustiveness",
         "both loaders validate the same fields with the same limits; repeat modes become valid only when the table provably covers every required symbol; every dictionary CTable is built for every symbol its readers index and every shift seeded from a dictionary cost is in range for the largest accepted table; dictID read/stored/written/compared; a CDict's bytes are always re-parsed with the CDict's own size and content type; every strategy indexes dictionary content; validity window",
         "round trip over dictionaries x modes x inputs", "§4 C08"),
 "C09": ("CFG edge-cut (must-pass-through) rules",
         "no success return of the frame decoders is reachable without passing the content-size comparison, the checksum comparison (when present), the truncation tests and the trailing-bytes test; pledged-size tests cut compression success",
         "that the runtime quantities compared are the right ones", "§4 C09"),
 "C10": ("CFG loop-progress and exit-class rules, return-value provenance, edge-cut rules, constant evaluation of the buffer-size helpers",
         "the two streaming state machines cannot iterate without stopping, changing stage or doing a block's work; every early stop of the streaming compressor is dominated by the directive that justifies it and the value reported is the buffered byte count; the MT flush reports 0 only when its five pending-work tests are false; the decoder's hint is `expected` (+ block header only before a block, never for a skippable frame) and 0 only when decoded and flushed; the staging buffer holds every constant-size unit; recommended buffer sizes",
         "per-call progress for every buffer fill level and worker timing; decodability of a completed flush (values)", "§4 C10"),
 "C11": ("lockset (guarded-by) dataflow, lock pairing, wait-in-predicate-loop, must-signal, lock-order graph, CFG must-pass-through for the job completion protocol, masked-index typestate",
         "every access to job/serial/pool state shared with workers is under its mutex or a frozen semantic exception; waits re-test predicates; writes that waiters depend on are followed by a signal; every worker exit passes the completion protocol; job ring subscripts are masked",
         "decoded output equals input under every schedule", "§4 C11"),
 "C12": ("lockset (guarded-by) dataflow, lock pairing, wait-in-predicate-loop, must-signal, CFG ordering rules, ring-index typestate",
         "thread-pool queue state only under queueMutex; pairing on all paths; waits in predicate loops; signals after enqueue/dequeue/finish/shutdown/resize; dequeue-run-once structure; destroy strictly after join; ring indices reduced modulo queueSize; same discipline for the CLI's async IO pool",
         "the arithmetic of isQueueFull and any value predicate", "§4 C12"),
 "C13": ("who-may-allocate call-site rule, NULL-before-use dataflow, release-on-error-path CFG rule, field/destructor pairing",
         "raw malloc/free only inside the allocator shim; every allocation result is tested before use; constructors free partial state on every error exit; every owned field is released by its destructor; custom allocator pairs validated",
         "that a context works again after the failure (behaviour after reset)", "§4 C13"),
 "C14": ("estimate/reservation term agreement (multiset comparison over the AST), who-may-call, CFG edge-cut for static contexts and the window cap",
         "workspace reservations made by the reset path are exactly the terms summed by the estimate functions; one sizing routine; static contexts never reach an allocator; bump-allocator bound checks; decoder window cap; sizeof covers owned fields",
         "numeric sufficiency of the estimates for every parameter vector", "§4 C14"),
 "C15": ("table/reducer pairing (AST), CFG ordering rules, _Static_assert witnesses on index limits",
         "every index table reserved for the match state is rebased by the overflow correction with its own size; correction precedes each block / dictionary load / LDM chunk; pre-emptive reset; limit constants are mutually consistent",
         "behaviour across a real or forced 32-bit index wrap", "§4 C15"),
 "C16": ("switch exhaustiveness by enumerator value, per-case bound-check dominance, set/get access-path agreement, stage-gate edge cuts, constant-table range check",
         "every parameter has a case in bounds/set/get; every store is dominated by a bounds test naming its own parameter; set and get address the same field; setters are stage-gated; parameter reset clears everything setters write; level tables within bounds",
         "persistence of a parameter's effect as observed in emitted frames", "§4 C16"),
 "C17": ("CFG must-pass-through and checked-argument rules with argument provenance, sibling agreement of the two sequence copiers, frozen guard inventory (sequence error codes)",
         "with validation enabled every stored sequence passed a checked ZSTD_validateSequence on the very values stored, at the position decoded when the match starts; validator tests; sequence-store capacity; block size determined, bounded and checked before the copier; delimiter scan bounded; external producer post-processed, bounded, fallback only when enabled; extraction bounds",
         "that valid parses round-trip; split arithmetic of the delimiter-free copier (a seeded change there is not detected)", "§4 C17"),
 "C18": ("sibling guard agreement across trainers, allocation/cleanup CFG rules, lockset and completion protocol for optimiser workers, error discipline",
         "all trainers validate parameters/sample counts/capacity before allocating; every allocation is tested and released on all exits; COVER_best state only under its mutex, every try-parameters path ends in exactly one COVER_best_finish",
         "usability of the dictionary and determinism of its content", "§4 C18"),
 "C19": ("CFG ordering / edge-cut rules, who-may-delete call-site rule, error-discipline dataflow for library and stdio results, conservation rule on the sparse-skip counter",
         "source removal is reachable only after a successful, closed destination; close result is tested; remove/unlink only via FIO_removeFile and the signal/atexit hooks; overwrite needs force or confirmation; artefact handler ordering; every library and stdio write error reaches a non-zero verdict; every relative seek over pending zeroes is matched by removing exactly that amount from the counter, final flush = seek(counter-1) + one zero byte",
         "enumeration over kill points (fault injection); byte equality of sparse and non-sparse output as values", "§4 C19"),
 "C20": ("sibling guard agreement of seek-table accessors, writer/reader constant agreement, CFG edge-cut rules, IO/alloc error discipline",
         "all frame-index accessors bound the index the same way; seek-table writer and reader agree on layout constants; load rejects bad magic/reserved bits/size mismatch; per-frame checksum is compared before a frame is accepted; every IO callback result is checked",
         "that range reads equal the original bytes", "§4 C20"),
}


def main():
    checks = []
    na = []
    for pid in sorted(P):
        tech, claim, nd, ref = P[pid]
        if os.path.exists(os.path.join(HERE, "zcheck", "props", pid + ".py")):
            checks.append({
                "property_id": pid,
                "quick_cmd": "./check %s --tier quick" % pid,
                "thorough_cmd": "./check %s --tier thorough" % pid,
                "evidence_file": "/verif/evidence/%s.json" % pid,
                "replay_cmd_template": "./check %s --replay {path}" % pid,
                "engine": "zcheck",
                "technique": "static analysis: " + tech,
                "level_claimed": {
                    "category": "other",
                    "text": "Static decision, on every path of the analysed functions, of named structural clauses that "
                            "are necessary conditions of the property: " + claim + ". It decides those clauses, not the "
                            "behaviour; NOT decided: " + nd + ".",
                    "design_ref": "DESIGN.md " + ref,
                },
                "level_note": "Trusted base: clang 14 front end + CFG builder, tools/zsx extractor, zcheck rule engine, "
                              "the frozen instance tables in zcheck/props/%s.py (confirmed by reading the pinned tree). "
                              "Analysed configuration: the shipped CLI build flags (ZSTD_MULTITHREAD, "
                              "ZSTD_LEGACY_SUPPORT=5, DEBUGLEVEL=0). Not decided: %s." % (pid, nd),
            })
        else:
            na.append({"property_id": pid,
                       "reason": "static check not built yet (planned clauses in DESIGN.md %s); the behavioural part (%s) "
                                 "is outside what static analysis can decide" % (ref, nd)})
    m = {
        "version": 1,
        "setup_cmd": "make -C tools/zsx",
        "hooks": {
            "guard": "ZSTD_VERIF_STATIC",
            "enable": "none: every rule reads the unmodified sources; no hook is compiled into /repo",
            "baseline_off_cmd": "make -C /repo check",
            "source_commits": [],
            "add_only": True,
        },
        "engines": [{
            "name": "zcheck",
            "path": "/verif/zcheck",
            "serves_properties": [c["property_id"] for c in checks],
            "kind_free_text": "repository-specific static analysis: clang 14 libTooling fact extractor (tools/zsx: "
                              "type-checked AST + clang::CFG per function) and a Python rule engine (lockset, "
                              "edge-cut/must-pass-through, guard dominance, error discipline, table conformance, "
                              "switch exhaustiveness, sibling agreement). No zstd code is executed.",
        }],
        "checks": checks,
        "not_applicable": na,
        "notes": "exit 0 = all rule instances hold; 1 = VIOLATION line(s); 2 = analysis broken (anchor missing, unit "
                 "does not parse, instance count below the hand-confirmed minimum). Thorough tier adds the checker "
                 "self-validation mutants (tools/mutants.py) and further build configurations.",
    }
    with open(os.path.join(HERE, "MANIFEST.json"), "w") as fh:
        json.dump(m, fh, indent=1)
    print("claimed:", [c["property_id"] for c in checks])


if __name__ == "__main__":
    main()
