/* obs_2.c - C13 violations in ZSTD_copyCCtx() (unmodified tree).
 *
 * build (from the worktree root):
 *   clang -g -O1 -fsanitize=address -DZSTD_DISABLE_ASM -I lib _seed/obs_2.c lib/common/*.c lib/compress/*.c -o _seed/obs_2
 * run:  _seed/obs_2 1    |   _seed/obs_2 2
 *
 * mode 1 (crash on allocation failure):
 *   src = ZSTD_createCCtx_advanced(cm); dst = ZSTD_createCCtx_advanced(cm);
 *   ZSTD_compressBegin(src, 3);                      -- ok
 *   ZSTD_copyCCtx(dst, src, 0) while the allocator returns NULL for the workspace of dst.
 *   ZSTD_copyCCtx_internal() (lib/compress/zstd_compress.c:2545) calls ZSTD_resetCCtx_internal()
 *   and throws its result away; the workspace of dst was freed and not replaced, so the table
 *   copies that follow (zstd_compress.c:2567-2575) write through NULL / stale pointers
 *   => SEGV instead of memory_allocation.
 *
 * mode 2 (memory of one allocator handed to another one's free, no allocation failure at all):
 *   dst comes from custom allocator A, src from custom allocator B.
 *   ZSTD_copyCCtx() starts with memcpy(&dst->customMem, &src->customMem) (zstd_compress.c:2532):
 *   from then on everything dst owned (its own struct, its previous workspace) is released through
 *   B's free, and what dst allocates with B is what ZSTD_freeCCtx(dst) frees.
 *   => a block obtained from A.alloc is passed to B.free and never to A.free.
 */
#include <stdio.h>
#include <stdlib.h>
#include <string.h>
#define ZSTD_STATIC_LINKING_ONLY
#define ZSTD_DISABLE_DEPRECATE_WARNINGS
#include "zstd.h"

typedef struct { const char* name; long count, failAt, live, foreign; void* blocks[64]; } arena_t;
static void* aAlloc(void* op, size_t s)
{
    arena_t* const a = (arena_t*)op; void* p; int i;
    if (++a->count == a->failAt) return NULL;
    p = malloc(s); if (!p) return NULL;
    for (i = 0; i < 64; i++) if (!a->blocks[i]) { a->blocks[i] = p; break; }
    a->live++;
    return p;
}
static void aFree(void* op, void* p)
{
    arena_t* const a = (arena_t*)op; int i;
    if (!p) return;
    for (i = 0; i < 64; i++) if (a->blocks[i] == p) { a->blocks[i] = NULL; a->live--; free(p); return; }
    a->foreign++;
    printf("  allocator %s: free(%p) of a block this allocator never handed out\n", a->name, p);
}

int main(int argc, char** argv)
{
    int const mode = argc > 1 ? atoi(argv[1]) : 1;
    static char src[100000], out[120000];
    arena_t A = { "A", 0, 0, 0, 0, {0} }, B = { "B", 0, 0, 0, 0, {0} };
    ZSTD_customMem const cmA = { aAlloc, aFree, &A }, cmB = { aAlloc, aFree, &B };
    size_t r;
    setvbuf(stdout, NULL, _IONBF, 0);
    memset(src, 'a', sizeof src);
    if (mode == 1) {
        ZSTD_CCtx* const s = ZSTD_createCCtx_advanced(cmA);
        ZSTD_CCtx* const d = ZSTD_createCCtx_advanced(cmA);
        r = ZSTD_compressBegin(s, 3);
        printf("ZSTD_compressBegin(src): %s\n", ZSTD_getErrorName(r));
        A.failAt = A.count + 1;
        printf("ZSTD_copyCCtx(dst, src) with the next allocation failing ...\n"); fflush(stdout);
        r = ZSTD_copyCCtx(d, s, 0);
        printf("returned %s\n", ZSTD_getErrorName(r));
        ZSTD_freeCCtx(d); ZSTD_freeCCtx(s);
        return 0;
    }
    {   ZSTD_CCtx* const d = ZSTD_createCCtx_advanced(cmA);
        ZSTD_CCtx* const s = ZSTD_createCCtx_advanced(cmB);
        r = ZSTD_compressCCtx(d, out, sizeof out, src, 1000, 1);      /* dst owns a workspace from A */
        printf("ZSTD_compressCCtx(dst): %s\n", ZSTD_getErrorName(r));
        r = ZSTD_compressBegin(s, 5);
        printf("ZSTD_compressBegin(src): %s\n", ZSTD_getErrorName(r));
        r = ZSTD_copyCCtx(d, s, 0);
        printf("ZSTD_copyCCtx(dst, src): %s\n", ZSTD_getErrorName(r));
        r = ZSTD_compressEnd(d, out, sizeof out, src, sizeof src);
        printf("ZSTD_compressEnd(dst): %s\n", ZSTD_getErrorName(r));
        ZSTD_freeCCtx(d); ZSTD_freeCCtx(s);
        printf("after freeing both contexts: allocator A: %ld block(s) never returned, %ld foreign free(s); allocator B: %ld never returned, %ld foreign free(s)\n",
               A.live, A.foreign, B.live, B.foreign);
        return (A.live || A.foreign || B.live || B.foreign) ? 1 : 0;
    }
}
