/* ZSTD_compressSequences, explicit delimiters, validation on: lengths whose 32-bit sum wraps */
#define ZSTD_STATIC_LINKING_ONLY
#include "zstd.h"
#include <stdio.h>
#include <stdlib.h>
#include <string.h>
int main(void){
    size_t n=4096,i; char* src=malloc(n); for(i=0;i<n;i++) src[i]=(char)('a'+i%7);
    ZSTD_Sequence s[2];
    s[0].litLength=0x80000000u; s[0].matchLength=0x80000004u; s[0].offset=1; s[0].rep=0;   /* 32-bit sum = 4 */
    s[1].litLength=(unsigned)(n-4); s[1].matchLength=0; s[1].offset=0; s[1].rep=0;          /* delimiter */
    ZSTD_CCtx* c=ZSTD_createCCtx();
    ZSTD_CCtx_setParameter(c,ZSTD_c_validateSequences,1);
    ZSTD_CCtx_setParameter(c,ZSTD_c_blockDelimiters,ZSTD_sf_explicitBlockDelimiters);
    size_t cap=ZSTD_compressBound(n); char* out=malloc(cap);
    size_t r=ZSTD_compressSequences(c,out,cap,s,2,src,n);
    printf("result: %s\n", ZSTD_isError(r)?ZSTD_getErrorName(r):"accepted");
    return 0;
}
