// build (from the worktree root; lib is a pristine copy of lib/, identical to lib/ after `git apply -R _seed/patch.diff`):
//   clang -w -g -O1 -fsanitize=address,undefined -DZSTD_MULTITHREAD -DZSTD_DISABLE_ASM -DZSTD_STATIC_LINKING_ONLY -I lib -I lib/common -I lib/compress -I lib/dictBuilder _seed/obs_c8.c lib/common/*.c lib/compress/*.c lib/decompress/*.c lib/dictBuilder/*.c -lpthread -o _seed/scratch/obs_c8
// run:   ASAN_OPTIONS=detect_leaks=0 ./_seed/scratch/obs_c8
/* obs_c8.c : block-level API : ZSTD_getBlockSize() ignores the pledged source size, the context buffers do not.
 * ZSTD_compressBegin_advanced(pledgedSrcSize = 50) sizes seqStore for blockSize = 50, but
 * ZSTD_getBlockSize() still answers MIN(maxBlockSize, 1<<windowLog), and ZSTD_compressBlock() only checks against that.
 * (the caller breaks its pledge : reported as srcSize_wrong AFTER the block was processed)
 */
#include <stdio.h>
#include <stdlib.h>
#include <string.h>
#include "zstd.h"
int main(void)
{
    ZSTD_CCtx* c = ZSTD_createCCtx();
    ZSTD_parameters p = ZSTD_getParams(1, 0, 0);
    size_t const n = 100000;
    unsigned char* src = (unsigned char*)malloc(n);
    unsigned char* dst = (unsigned char*)malloc(ZSTD_compressBound(n));
    size_t i, r; unsigned s = 1;
    for (i=0;i<n;i++) { s = s*1103515245u+12345u; src[i] = (unsigned char)((s>>16)&3) + 'a'; }
    p.cParams.windowLog = 17;
    r = ZSTD_compressBegin_advanced(c, NULL, 0, p, 50);
    printf("begin: %s ; ZSTD_getBlockSize = %zu\n", ZSTD_getErrorName(r), ZSTD_getBlockSize(c));
    r = ZSTD_compressBlock(c, dst, ZSTD_compressBound(n), src, n);
    printf("compressBlock(%zu bytes): %s\n", n, ZSTD_isError(r) ? ZSTD_getErrorName(r) : "ok");
    ZSTD_freeCCtx(c); free(src); free(dst);
    return 0;
}
