/* triage: ZDICT_addEntropyTablesFromBuffer with a capacity so small that the header overwrites the content.
 * clang -g -O1 -fsanitize=address -DZSTD_DISABLE_ASM -I/repo/lib -I/repo/lib/dictBuilder addent2.c /repo/lib/common/*.c /repo/lib/compress/*.c /repo/lib/decompress/*.c /repo/lib/dictBuilder/*.c -o addent2 */
#define ZDICT_STATIC_LINKING_ONLY
#define ZSTD_STATIC_LINKING_ONLY
#include "zdict.h"
#include "zstd.h"
#include <stdio.h>
#include <stdlib.h>
#include <string.h>
int main(void){
    enum { NS=30, SS=200 };
    static char samples[NS*SS]; size_t sizes[NS]; unsigned s=7; int i, bad=0; size_t cap, content;
    for(i=0;i<NS*SS;i++){ s=s*1103515245u+12345u; samples[i]=(char)('a'+((s>>16)&1)); }
    for(i=0;i<NS;i++) sizes[i]=SS;
    for (cap=16; cap<=400; cap+=4) for (content=8; content<=cap && content<=64; content+=8) {
        char* dict=malloc(cap); size_t r;
        memcpy(dict+cap-content, samples, content);
        r=ZDICT_addEntropyTablesFromBuffer(dict, content, cap, samples, sizes, NS);
        if (!ZDICT_isError(r)) {
            ZSTD_CDict* cd=ZSTD_createCDict(dict,r,3); ZSTD_DDict* dd=ZSTD_createDDict(dict,r);
            if (r>cap || !cd || !dd || ZDICT_getDictID(dict,r)==0) { if (bad<5) printf("capacity %zu content %zu: returned %zu, CDict %s, DDict %s\n",cap,content,r,cd?"loads":"FAILS",dd?"loads":"FAILS"); bad++; }
            ZSTD_freeCDict(cd); ZSTD_freeDDict(dd);
        }
        free(dict);
    }
    printf("%d (capacity, content) pairs returned a dictionary that does not load\n",bad);
    return bad!=0;
}
