// build (from the worktree root; _seed/orig/lib is a pristine copy of lib/, identical to lib/ after `git apply -R _seed/patch.diff`):
//   clang -w -g -O1 -fsanitize=address,undefined -DZSTD_MULTITHREAD -DZSTD_DISABLE_ASM -DZSTD_STATIC_LINKING_ONLY -I _seed/orig/lib -I _seed/orig/lib/common -I _seed/orig/lib/compress -I _seed/orig/lib/dictBuilder _seed/obs_d12.c _seed/orig/lib/common/*.c _seed/orig/lib/compress/*.c _seed/orig/lib/decompress/*.c _seed/orig/lib/dictBuilder/*.c -lpthread -o _seed/scratch/obs_d12
// run:   ASAN_OPTIONS=detect_leaks=0 ./_seed/scratch/obs_d12
/* obs_d12: consequence of the missing Block_Maximum_Size check in the one-shot decoder.
 * Frame (window 128 KB): raw block "A", then ONE compressed block: 70000 raw literals, 1 sequence
 * (litLength 0, offset 1, matchLength 129000)  => block regenerates 199000 bytes (> 131072).
 *  - ZSTD_decompress() with capacity == 199001 : SUCCESS, but 2424 literal bytes are wrong (the match
 *    overwrote the part of the literals that the decoder parks at the end of the block's 128 KB area:
 *    ZSTD_split literal buffer, zstd_decompress_block.c:114)
 *  - ZSTD_decompress() with capacity == 1 MB   : "Destination buffer is too small"  (ZSTD_in_dst layout)
 *  - ZSTD_decompressStream()                   : error
 */
#include <stdio.h>
#include <stdlib.h>
#include <string.h>
#include "zstd.h"
#include "zstd_errors.h"

int main(void)
{
    size_t const L = 70000, ML = 129000, total = 1 + ML + L;
    unsigned char* f = malloc(100000); size_t p = 0; unsigned h; size_t i; size_t bstart;
    unsigned char* model = malloc(total);
    memcpy(f, "\x28\xB5\x2F\xFD", 4); f[4] = 0x00; f[5] = 0x38; p = 6;           /* windowLog 17 */
    h = (1u << 3) | 0; f[p++] = h & 255; f[p++] = 0; f[p++] = 0; f[p++] = 'A';       /* raw block, 1 byte */
    bstart = p; p += 3;
    {   unsigned v = ((unsigned)L << 4) | 12; f[p++] = v & 255; f[p++] = (v >> 8) & 255; f[p++] = (v >> 16) & 255; }   /* raw literals, 3-byte header */
    for (i = 0; i < L; i++) f[p++] = (unsigned char)('a' + i % 26);
    f[p++] = 1; f[p++] = 0x54; f[p++] = 0; f[p++] = 2; f[p++] = 52;                 /* 1 sequence, RLE tables: LL code 0, OF code 2, ML code 52 */
    {   unsigned long long bits = (unsigned long long)(ML - 65539) | (0ULL << 16) | (1ULL << 18);   /* ML extra (16), OF extra (2) = 0 -> offset 1, end mark */
        f[p++] = bits & 255; f[p++] = (bits >> 8) & 255; f[p++] = (bits >> 16) & 255; }
    h = ((unsigned)(p - bstart - 3) << 3) | (2u << 1) | 1u; f[bstart] = h & 255; f[bstart + 1] = (h >> 8) & 255; f[bstart + 2] = (h >> 16) & 255;
    /* what the sequences describe */
    memset(model, 'A', 1 + ML); for (i = 0; i < L; i++) model[1 + ML + i] = (unsigned char)('a' + i % 26);

    printf("frame %zu bytes; decompressBound = %llu; the block describes %zu bytes\n", p, ZSTD_decompressBound(f, p), total - 1);
    {   unsigned char* src = malloc(p); unsigned char* out = malloc(total); size_t r;
        memcpy(src, f, p);
        r = ZSTD_decompress(out, total, src, p);
        if (ZSTD_isError(r)) printf("capacity %zu : %s\n", total, ZSTD_getErrorName(r));
        else { size_t bad = 0, first = 0; for (i = 0; i < r && i < total; i++) if (out[i] != model[i]) { if (!bad) first = i; bad++; }
               printf("capacity %zu : SUCCESS, %zu bytes, %zu bytes differ from what the sequences describe (first at %zu: got '%c' want '%c')\n", total, r, bad, first, out[first], model[first]); }
        free(out);
        out = malloc(1u << 20);
        r = ZSTD_decompress(out, 1u << 20, src, p);
        printf("capacity %u : %s\n", 1u << 20, ZSTD_isError(r) ? ZSTD_getErrorName(r) : "success");
        {   ZSTD_DCtx* d = ZSTD_createDCtx(); ZSTD_inBuffer ib = { src, p, 0 }; ZSTD_outBuffer ob = { out, 1u << 20, 0 };
            size_t e; ZSTD_DCtx_setParameter(d, ZSTD_d_stableOutBuffer, 0);
            ib.size = 10; e = ZSTD_decompressStream(d, &ob, &ib); ib.size = p; if (!ZSTD_isError(e)) e = ZSTD_decompressStream(d, &ob, &ib);
            printf("streaming       : %s\n", ZSTD_isError(e) ? ZSTD_getErrorName(e) : "success"); ZSTD_freeDCtx(d); }
        free(out); free(src);
    }
    free(f); free(model);
    return 0;
}
