/* triage: seek table whose Number_Of_Frames makes the 32-bit table size wrap.
 * clang -g -O1 -DZSTD_DISABLE_ASM -I$R/lib -I$R/lib/common -I$R/contrib/seekable_format seeknf.c $R/contrib/seekable_format/zstdseek_compress.c $R/contrib/seekable_format/zstdseek_decompress.c $R/lib/common/*.c $R/lib/compress/*.c $R/lib/decompress/*.c -o seeknf */
#include "zstd_seekable.h"
#include "zstd.h"
#include <stdio.h>
#include <string.h>
#include <time.h>
#include <sys/resource.h>
int main(void){
    unsigned char arc[64]; size_t asz; 
    { ZSTD_seekable_CStream* zcs=ZSTD_seekable_createCStream(); ZSTD_outBuffer o={arc,sizeof arc,0};
      ZSTD_seekable_initCStream(zcs,1,0,1000); while(ZSTD_seekable_endStream(zcs,&o)>0){} asz=o.pos; ZSTD_seekable_freeCStream(zcs); }
    printf("empty archive: %zu bytes\n",asz);
    /* footer: Number_Of_Frames(4) descriptor(1) magic(4) : set the frame count to 0x20000000 (8 bytes * 2^29 wraps to 0) */
    arc[asz-9+3] ^= 0x20;
    { ZSTD_seekable* zs=ZSTD_seekable_create(); time_t t0=time(NULL); size_t r=ZSTD_seekable_initBuff(zs,arc,asz); struct rusage ru; getrusage(RUSAGE_SELF,&ru);
      printf("initBuff with Number_Of_Frames=0x20000000 on a %zu-byte archive: %s after %lds, peak RSS %ld MiB\n",asz,ZSTD_isError(r)?ZSTD_getErrorName(r):"ACCEPTED",(long)(time(NULL)-t0),ru.ru_maxrss/1024);
      ZSTD_seekable_free(zs); return !ZSTD_isError(r); }
}
