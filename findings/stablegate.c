/* C16 observation on the UNMODIFIED tree : "parameters that may not change mid-frame are refused mid-frame".
 *
 * With ZSTD_c_stableInBuffer=1, ZSTD_compressStream2(ZSTD_e_continue) on less than one block of input reports the
 * input as consumed (input.pos = input.size) but postpones the frame initialisation : streamStage stays zcss_init,
 * only cctx->stableIn_notConsumed remembers the bytes. Since the stage test of ZSTD_CCtx_setParameter() is
 * `streamStage != zcss_init`, EVERY parameter is still accepted after input has been accepted for the frame,
 * including ZSTD_c_stableInBuffer itself (not in ZSTD_isUpdateAuthorized()). Switching it back to 0 at that point
 * makes the frame start in buffered mode, which never looks at stableIn_notConsumed : the bytes already reported
 * as consumed are silently left out of the frame (with ZSTD_e_flush then ZSTD_e_end), or the frame ends with
 * srcSize_wrong (with a direct ZSTD_e_end, whose pledged size counts them).
 *
 * build (from the worktree root, patch reverted) :
 *   cc -O1 -g -DZSTD_DISABLE_ASM -I lib -o _seed/obs_1 _seed/obs_1.c lib/common/?*.c lib/compress/?*.c lib/decompress/?*.c
 * observed output (unmodified tree, exit status 1) :
 *   first call  : ret=6 pos=1000/1000 (1000 bytes reported consumed)
 *   setParameter(ZSTD_c_stableInBuffer, 0) after input was accepted : No error detected   <- expected stage_wrong
 *   setParameter(ZSTD_c_windowLog, 12) after input was accepted : No error detected       <- expected stage_wrong
 *   frame completed : 2000 bytes were reported consumed, frame decodes to 1000 bytes (windowSize=4096)
 *   the first 1000 bytes are missing from the frame : decoded content == src[1000..2000)
 */
#include <stdio.h>
#include <string.h>
#define ZSTD_STATIC_LINKING_ONLY
#include "zstd.h"

int main(void)
{
    static char src[2000], dst[4096], back[4096];
    ZSTD_CCtx* const cctx = ZSTD_createCCtx();
    ZSTD_inBuffer in = { src, 1000, 0 };
    ZSTD_outBuffer out = { dst, sizeof(dst), 0 };
    size_t r; int i; int bad = 0;
    for (i = 0; i < 2000; i++) src[i] = (char)('a' + (i / 1000) * 10 + (i * 7) % 9);

    ZSTD_CCtx_setParameter(cctx, ZSTD_c_stableInBuffer, 1);
    r = ZSTD_compressStream2(cctx, &out, &in, ZSTD_e_continue);
    printf("first call  : ret=%u pos=%u/%u (%u bytes reported consumed)\n", (unsigned)r, (unsigned)in.pos, (unsigned)in.size, (unsigned)in.pos);

    r = ZSTD_CCtx_setParameter(cctx, ZSTD_c_stableInBuffer, 0);
    printf("setParameter(ZSTD_c_stableInBuffer, 0) after input was accepted : %s\n", ZSTD_getErrorName(r));
    bad |= !ZSTD_isError(r);
    r = ZSTD_CCtx_setParameter(cctx, ZSTD_c_windowLog, 12);
    printf("setParameter(ZSTD_c_windowLog, 12) after input was accepted : %s\n", ZSTD_getErrorName(r));
    bad |= !ZSTD_isError(r);

    in.size = 2000;   /* same buffer, 1000 more bytes, pos left where the library put it */
    r = ZSTD_compressStream2(cctx, &out, &in, ZSTD_e_flush);
    if (ZSTD_isError(r)) { printf("flush : %s\n", ZSTD_getErrorName(r)); return 1; }
    r = ZSTD_compressStream2(cctx, &out, &in, ZSTD_e_end);
    if (ZSTD_isError(r)) { printf("end : %s\n", ZSTD_getErrorName(r)); return 1; }
    {   size_t const d = ZSTD_decompress(back, sizeof(back), dst, out.pos);
        ZSTD_frameHeader fh;
        ZSTD_getFrameHeader(&fh, dst, out.pos);
        if (ZSTD_isError(d)) { printf("decode : %s\n", ZSTD_getErrorName(d)); return 1; }
        printf("frame completed : %u bytes were reported consumed, frame decodes to %u bytes (windowSize=%u)\n",
               (unsigned)in.pos, (unsigned)d, (unsigned)fh.windowSize);
        if (d != 2000) {
            bad = 1;
            if (d == 1000 && !memcmp(back, src + 1000, 1000))
                printf("the first 1000 bytes are missing from the frame : decoded content == src[1000..2000)\n");
        }
    }
    ZSTD_freeCCtx(cctx);
    return bad;
}
