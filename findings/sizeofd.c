#define ZSTD_STATIC_LINKING_ONLY
#include "zstd.h"
#include <stdio.h>
#include <stdlib.h>
#include <string.h>
static size_t g_bytes;
static void* cAlloc(void* o, size_t s){ (void)o; size_t* p = malloc(s+16); if(!p) return NULL; p[0]=s; g_bytes+=s; return p+2; }
static void cFree(void* o, void* p){ (void)o; if(!p) return; size_t* q=(size_t*)p-2; g_bytes-=q[0]; free(q); }
int main(void){
  ZSTD_customMem cm={cAlloc,cFree,NULL};
  char dict[1000]; memset(dict,'d',sizeof dict);
  ZSTD_DDict* dd = ZSTD_createDDict(dict,sizeof dict);           /* default allocator: not counted */
  ZSTD_DCtx* d = ZSTD_createDCtx_advanced(cm);
  ZSTD_DCtx_setParameter(d, ZSTD_d_refMultipleDDicts, ZSTD_rmd_refMultipleDDicts);
  ZSTD_DCtx_refDDict(d, dd);
  printf("DCtx: held=%zu bytes, ZSTD_sizeof_DCtx=%zu  %s\n", g_bytes, ZSTD_sizeof_DCtx(d), ZSTD_sizeof_DCtx(d) < g_bytes ? "UNDER-REPORT":"ok");
  int bad = ZSTD_sizeof_DCtx(d) < g_bytes;
  ZSTD_freeDCtx(d); ZSTD_freeDDict(dd);
  /* MT + LDM */
  g_bytes=0; ZSTD_CCtx* c = ZSTD_createCCtx_advanced(cm);
  ZSTD_CCtx_setParameter(c, ZSTD_c_nbWorkers, 1); ZSTD_CCtx_setParameter(c, ZSTD_c_enableLongDistanceMatching, 1); ZSTD_CCtx_setParameter(c, ZSTD_c_windowLog, 24);
  size_t N=1<<20; char* src=calloc(1,N); char* dst=malloc(ZSTD_compressBound(N)); ZSTD_compress2(c,dst,ZSTD_compressBound(N),src,N);
  printf("CCtx(MT+LDM): held=%zu bytes, ZSTD_sizeof_CCtx=%zu  %s\n", g_bytes, ZSTD_sizeof_CCtx(c), ZSTD_sizeof_CCtx(c) < g_bytes ? "UNDER-REPORT":"ok");
  bad |= ZSTD_sizeof_CCtx(c) < g_bytes;
  ZSTD_freeCCtx(c); return bad; }
