/* obs_3 : re-initialising a ZSTD_seekable (the header speaks of the object being "freed or reset", and the
 * compressor side documents re-init explicitly)
 *   (a) leaks the previous seek table : ZSTD_seekable_loadSeekTable overwrites zs->seekTable.entries
 *       without freeing it (LeakSanitizer report at exit) ;
 *   (b) after initBuff(small archive) then initFile/initAdvanced(larger valid archive) a read that crosses a frame
 *       boundary fails with seekableIO : zs->buffWrapper.size is still that of the old memory archive, and
 *       ZSTD_seekable_decompress's `if (zs->buffWrapper.size && srcBytesRead > zs->buffWrapper.size)` guard,
 *       meant for memory mode only, fires in file mode.  A fresh ZSTD_seekable reads the same file fine.
 *
 * build (from the worktree root) :
 *   clang -g -O1 -fsanitize=address,undefined -DZSTD_DISABLE_ASM -I lib -I lib/common -I contrib/seekable_format \
 *      _seed/obs_3.c contrib/seekable_format/zstdseek_compress.c contrib/seekable_format/zstdseek_decompress.c \
 *      lib/common/[a-z]*.c lib/compress/[a-z]*.c lib/decompress/[a-z]*.c -o _seed/obs_3
 * run : ASAN_OPTIONS=detect_leaks=1 _seed/obs_3
 */
#include <stdio.h>
#include <stdlib.h>
#include <string.h>
#define ZSTD_STATIC_LINKING_ONLY
#include "zstd.h"
#include "zstd_seekable.h"

static size_t build(unsigned char* arc, size_t cap, const unsigned char* src, size_t srcSize, int checksum, unsigned frameSize)
{
    ZSTD_seekable_CStream* const zcs = ZSTD_seekable_createCStream();
    ZSTD_outBuffer o = { arc, cap, 0 };
    ZSTD_inBuffer in = { src, srcSize, 0 };
    size_t r = ZSTD_seekable_initCStream(zcs, 3, checksum, frameSize);
    if (ZSTD_isError(r)) exit(2);
    while (in.pos < in.size) { r = ZSTD_seekable_compressStream(zcs, &o, &in); if (ZSTD_isError(r)) exit(2); }
    while ((r = ZSTD_seekable_endStream(zcs, &o)) != 0) if (ZSTD_isError(r)) exit(2);
    ZSTD_seekable_freeCStream(zcs);
    return o.pos;
}

int main(void)
{
    enum { BIG = 20000 };
    static unsigned char srcA[50], srcB[BIG], arcA[1024], arcB[2*BIG + 4096], out[BIG];
    size_t sizeA, sizeB, r;
    int bad = 0;
    FILE* f;
    ZSTD_seekable* zs;
    unsigned long long x = 88172645463325252ULL;
    setvbuf(stdout, NULL, _IONBF, 0);
    for (int i = 0; i < 50; i++) srcA[i] = (unsigned char)i;
    for (int i = 0; i < BIG; i++) { x ^= x << 13; x ^= x >> 7; x ^= x << 17; srcB[i] = (unsigned char)(x >> 24); }
    sizeA = build(arcA, sizeof(arcA), srcA, sizeof(srcA), 1, 0);
    sizeB = build(arcB, sizeof(arcB), srcB, sizeof(srcB), 1, 1000);
    printf("archive A: %zu bytes (memory)   archive B: %zu bytes (file, 1000-byte frames)\n", sizeA, sizeB);

    f = tmpfile();
    if (!f || fwrite(arcB, 1, sizeB, f) != sizeB) return 2;
    fflush(f);

    /* control : fresh object on the file */
    zs = ZSTD_seekable_create();
    if (ZSTD_isError(ZSTD_seekable_initFile(zs, f))) return 2;
    r = ZSTD_seekable_decompress(zs, out, BIG, 0);
    printf("fresh object,   initFile(B), decompress(0,%d) -> %s\n", BIG, ZSTD_isError(r) ? ZSTD_getErrorName(r) : "success");
    if (r != BIG || memcmp(out, srcB, BIG)) return 2;
    ZSTD_seekable_free(zs);

    /* reused object */
    zs = ZSTD_seekable_create();
    if (ZSTD_isError(ZSTD_seekable_initBuff(zs, arcA, sizeA))) return 2;
    r = ZSTD_seekable_decompress(zs, out, 50, 0);
    if (r != 50 || memcmp(out, srcA, 50)) return 2;
    r = ZSTD_seekable_initFile(zs, f);
    if (ZSTD_isError(r)) return 2;
    r = ZSTD_seekable_decompress(zs, out, BIG, 0);
    printf("reused object, initBuff(A) then initFile(B), decompress(0,%d) -> %s\n", BIG, ZSTD_isError(r) ? ZSTD_getErrorName(r) : "success");
    if (ZSTD_isError(r)) { printf("VIOLATION: valid archive, valid range, error verdict\n"); bad = 1; }
    ZSTD_seekable_free(zs);   /* the seek table of A is lost : see the LeakSanitizer report */
    fclose(f);
    return bad;
}
