/* obs_6: the no-forward-progress watchdog of ZSTD_decompressStream() does not cover legacy frames.
 * For a v0.5/v0.6/v0.7 frame ZSTD_decompressStream() returns straight from the legacy branch
 * (zstd_decompress.c:2157-2160 and :2180-2182) and never reaches the ZSTD_NO_FORWARD_PROGRESS_MAX
 * accounting at :2386-2395.  A caller that relies on the documented watchdog (calls made with a full
 * output / exhausted input get an error after 16 rounds) spins forever as soon as the stream is a legacy frame.
 * build: clang -g -O1 -DZSTD_LEGACY_SUPPORT=5 -DZSTD_DISABLE_ASM -I lib -I lib/common -I lib/legacy _seed/obs_6.c \
 *          lib/common/*.c lib/compress/*.c lib/decompress/*.c lib/legacy/zstd_v0[567].c -o _seed/obs_6
 * result: current format: error "Operation made no progress..." at call 16 ; v0.7/v0.6/v0.5 frame: 100000 calls without progress and no error
 */
#include "zstd.h"
#include <stdio.h>
#include <stdlib.h>
#include <string.h>
#define main legacy_main
#include "../tests/legacy.c"
#undef main

static int stall(const char* name, const void* frame, size_t size, int emptyInput)
{
    ZSTD_DCtx* d = ZSTD_createDCtx();
    char out[1];
    ZSTD_inBuffer in = { frame, emptyInput ? 6 : size, 0 };
    int calls;
    {   ZSTD_outBuffer o = { out, emptyInput ? 1 : 0, 0 };  /* first call consumes what it can */
        ZSTD_decompressStream(d, &o, &in); }
    for (calls = 1; calls <= 100000; calls++) {
        ZSTD_outBuffer o = { out, emptyInput ? 1 : 0, 0 };   /* destFull: zero room ; inputEmpty: nothing new */
        size_t const ipos = in.pos;
        size_t const r = ZSTD_decompressStream(d, &o, &in);
        if (ZSTD_isError(r)) { printf("%-28s: error after %d stalled calls (%s)\n", name, calls, ZSTD_getErrorName(r)); ZSTD_freeDCtx(d); return 0; }
        if (in.pos != ipos || o.pos) { calls = 0; }
    }
    printf("%-28s: %d calls without progress, no error -> watchdog absent\n", name, calls - 1);
    ZSTD_freeDCtx(d);
    return 1;
}

int main(void)
{
    char cbuf[256]; int bad = 0; int v;
    size_t const csize = ZSTD_compress(cbuf, sizeof cbuf, EXPECTED, 200, 1);
    bad += stall("current format, dest full", cbuf, csize, 0);
    bad += stall("current format, input empty", cbuf, csize, 1);
    for (v = 5; v <= 7; v++) {
        char magic[4] = { (char)(0x20 + v), (char)0xB5, 0x2F, (char)0xFD };
        char next[4]  = { (char)(0x21 + v), (char)0xB5, 0x2F, (char)0xFD };
        size_t s = 0, e = 0, k; char name[64];
        for (k = 0; k + 4 <= COMPRESSED_SIZE; k++) {
            if (!memcmp(COMPRESSED + k, magic, 4)) s = k;
            if (!memcmp(COMPRESSED + k, next, 4)) e = k;
        }
        snprintf(name, sizeof name, "v0.%d frame, dest full", v);
        bad += stall(name, COMPRESSED + s, e - s, 0);
        snprintf(name, sizeof name, "v0.%d frame, input empty", v);
        bad += stall(name, COMPRESSED + s, e - s, 1);
    }
    return bad != 0;
}
