/* obs_9 (minor) : delimiter-free mode, ZSTD_c_validateSequences=1 : offset == 0 with matchLength >= 3 is accepted.
 * ZSTD_validateSequence (zstd_compress.c:6571) only has an upper bound; OFFSET_TO_OFFBASE(0) == 3 is the code of
 * "repcode 3", so the entry is stored as a repeat-offset match (ZSTD_finalizeOffBase :6580, ZSTD_storeSeq).
 * At the start of a frame repcode 3 is distance 8 (or 1-1=0 after a zero literal run) : here the match starts at
 * position 2, the frame is produced without error and the decoder refuses it.
 * (In explicit-delimiter mode the same entry is refused as a malformed delimiter, :6839.)
 *
 * build (from the worktree root):
 *   clang -g -O1 -fsanitize=address -DZSTD_MULTITHREAD -DZSTD_DISABLE_ASM -I lib -Wno-comment _seed/obs_9.c \
 *      lib/common/*.c lib/compress/*.c lib/decompress/*.c -lpthread -o _seed/obs_9
 */
#define ZSTD_STATIC_LINKING_ONLY
#include "zstd.h"
#include <stdio.h>
#include <string.h>
int main(void)
{
    char src[1000], dst[2000], back[1000]; size_t i, r, d; int mode, bad = 0;
    for (i = 0; i < 1000; i++) src[i] = (char)(i % 2);
    for (mode = 0; mode <= 1; mode++) {
        ZSTD_Sequence seqs[2] = { {0, 2, 900, 0}, {0, 98, 0, 0} };   /* offset 0, 2 literals, match of 900 */
        ZSTD_CCtx* c = ZSTD_createCCtx();
        ZSTD_CCtx_setParameter(c, ZSTD_c_blockDelimiters, mode);
        ZSTD_CCtx_setParameter(c, ZSTD_c_validateSequences, 1);
        r = ZSTD_compressSequences(c, dst, sizeof(dst), seqs, mode ? 2 : 1, src, 1000);
        printf("delimiters=%d : offset 0, matchLength 900 : %s", mode, ZSTD_isError(r) ? ZSTD_getErrorName(r) : "accepted");
        if (!ZSTD_isError(r)) { d = ZSTD_decompress(back, 1000, dst, r); printf(" ; decoder : %s", ZSTD_isError(d) ? ZSTD_getErrorName(d) : "ok"); bad = 1; }
        printf("\n");
        ZSTD_freeCCtx(c);
    }
    return bad;
}
