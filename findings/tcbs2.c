/* sweep: targetCBlockSize x capacity; exact-size heap destination under ASan; also check round trip when it succeeds */
#define ZSTD_STATIC_LINKING_ONLY
#include "zstd.h"
#include <stdio.h>
#include <stdlib.h>
#include <string.h>
int main(void){
    size_t n=20000,i; char* src=malloc(n); char* back=malloc(n); unsigned s=12345; int bad=0; int ok=0, err=0;
    for(i=0;i<n;i++){ s=s*1103515245u+12345u; src[i]="eeeeeeetttttaaaooiinnsshhrrdlcumwfgypbvk ,."[(s>>16)%44]; }
    int tcbs; size_t cap;
    for(tcbs=1340; tcbs<=5000; tcbs+=1830) for(cap=0;cap<=ZSTD_compressBound(n);cap+= (cap<400?1:997)){
        char* dst=malloc(cap?cap:1);
        ZSTD_CCtx* c=ZSTD_createCCtx();
        ZSTD_CCtx_setParameter(c,ZSTD_c_compressionLevel,3);
        ZSTD_CCtx_setParameter(c,ZSTD_c_targetCBlockSize,tcbs);
        size_t r=ZSTD_compress2(c,dst,cap,src,n);
        if(ZSTD_isError(r)) err++; else { ok++; if(r>cap){bad=1;printf("r>cap\n");} size_t d=ZSTD_decompress(back,n,dst,r); if(d!=n||memcmp(back,src,n)){bad=1;printf("round trip failed cap=%zu\n",cap);} }
        ZSTD_freeCCtx(c); free(dst);
    }
    printf("%d successes, %d clean errors: %s\n",ok,err,bad?"BAD":"no overrun, every success round-trips");
    return bad;
}
