/* obs_3: buffer-less API reads 4 bytes of a 0-byte input.
 * After a frame is complete ZSTD_nextSrcSizeToDecompress() returns 0 and the stage is back to
 * ZSTDds_getFrameHeaderSize.  ZSTD_decompressContinue(dctx, dst, cap, src, 0) passes the
 * "srcSize == expected" sanity check and then executes MEM_readLE32(src) (skippable-magic test,
 * guarded only by an assert) before ZSTD_frameHeaderSize_internal() rejects the size.
 * A driver that feeds "exactly what the decoder asks for" until EOF (e.g. to walk concatenated
 * frames) therefore makes the library read 4 bytes past its input.
 * build: clang -g -O1 -fsanitize=address -DZSTD_DISABLE_ASM -I lib _seed/obs_3.c lib/common/*.c lib/compress/*.c lib/decompress/*.c -o _seed/obs_3
 * result: AddressSanitizer heap-buffer-overflow READ of size 4 in ZSTD_decompressContinue
 * cause: lib/decompress/zstd_decompress.c:1305 (assert(srcSize >= ZSTD_FRAMEIDSIZE) is the only guard)
 */
#define ZSTD_STATIC_LINKING_ONLY
#include "zstd.h"
#include <stdio.h>
#include <stdlib.h>
#include <string.h>
int main(void)
{
    char cbuf[128]; char dst[128];
    size_t const csize = ZSTD_compress(cbuf, sizeof cbuf, "hello hello hello", 17, 1);
    ZSTD_DCtx* d = ZSTD_createDCtx();
    const char* ip = cbuf; size_t opos = 0;
    ZSTD_decompressBegin(d);
    for (;;) {
        size_t const n = ZSTD_nextSrcSizeToDecompress(d);
        void* piece = malloc(n);          /* exactly the bytes the decoder asked for */
        size_t r;
        if (ip + n > cbuf + csize) { free(piece); break; }
        memcpy(piece, ip, n);
        r = ZSTD_decompressContinue(d, dst + opos, sizeof dst - opos, piece, n);
        printf("asked %zu -> %s\n", n, ZSTD_isError(r) ? ZSTD_getErrorName(r) : "ok");
        free(piece);
        if (ZSTD_isError(r)) break;
        opos += r; ip += n;
    }
    ZSTD_freeDCtx(d);
    return 0;
}
