/* multi-DDict table: a raw-content DDict (dictID 0) referenced first, then a DDict whose ID hashes to the same slot */
#define ZSTD_STATIC_LINKING_ONLY
#include "zstd.h"
#include "zdict.h"
#include <stdio.h>
#include <stdlib.h>
#include <string.h>
int main(void){
    /* samples -> a trained-like dictionary via ZDICT_finalizeDictionary with chosen IDs */
    unsigned ns=50,i; size_t sz[50]; char* sb=malloc(50*400); size_t tot=0; for(i=0;i<ns;i++){ size_t k; sz[i]=300+i; for(k=0;k<sz[i];k++) sb[tot+k]="the quick brown fox jumps over the lazy dog "[(k*(i%5+1))%44]; tot+=sz[i]; }
    char raw[500]; memset(raw,'r',sizeof raw);
    int failures=0; unsigned id;
    for(id=1000; id<1400; id++){
        char dict[4096]; ZDICT_params_t zp; memset(&zp,0,sizeof zp); zp.dictID=id;
        size_t dl=ZDICT_finalizeDictionary(dict,sizeof dict,"the quick brown fox jumps over the lazy dog the quick brown fox",64,sb,sz,ns,zp);
        if(ZDICT_isError(dl)){printf("finalize failed\n");return 2;}
        char src[600]; memcpy(src,sb,600); char z[1024]; ZSTD_CCtx* c=ZSTD_createCCtx(); size_t zl=ZSTD_compress_usingDict(c,z,sizeof z,src,600,dict,dl,3); ZSTD_freeCCtx(c);
        ZSTD_DDict* rawD=ZSTD_createDDict_advanced(raw,sizeof raw,ZSTD_dlm_byCopy,ZSTD_dct_rawContent,ZSTD_defaultCMem);
        ZSTD_DDict* dd=ZSTD_createDDict(dict,dl);
        ZSTD_DCtx* d=ZSTD_createDCtx(); ZSTD_DCtx_setParameter(d,ZSTD_d_refMultipleDDicts,ZSTD_rmd_refMultipleDDicts);
        ZSTD_DCtx_refDDict(d,rawD); ZSTD_DCtx_refDDict(d,dd);
        char out[600]; ZSTD_inBuffer in={z,zl,0}; ZSTD_outBuffer o={out,600,0}; size_t r=ZSTD_decompressStream(d,&o,&in);
        if(ZSTD_isError(r)||o.pos!=600||memcmp(out,src,600)){ if(failures<5) printf("dictID %u referenced, frame made with it: %s\n",id,ZSTD_isError(r)?ZSTD_getErrorName(r):"wrong output"); failures++; }
        ZSTD_freeDCtx(d); ZSTD_freeDDict(dd); ZSTD_freeDDict(rawD);
    }
    printf("%d of 400 dictionary IDs fail to decode although their DDict was referenced\n",failures);
    return failures!=0;
}
