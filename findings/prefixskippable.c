/* obs_3.c - UNMODIFIED tree : a prefix referenced with ZSTD_DCtx_refPrefix() is dropped by a leading skippable
 * frame in ZSTD_decompressStream() but kept by ZSTD_decompressDCtx() : same input, same dictionary, different verdict.
 *
 * build (from the worktree root) :
 *   clang -g -O1 -fsanitize=address -DZSTD_MULTITHREAD -I lib -I lib/common _seed/obs_3.c \
 *       lib/common/[a-z]*.c lib/compress/[a-z]*.c lib/decompress/[a-z]*.c lib/decompress/huf_decompress_amd64.S -lpthread -o _seed/obs_3
 *
 * input = [skippable frame, 4 bytes of user data][frame compressed with a 4000-byte raw-content prefix]
 * one-shot : ZSTD_decompressMultiFrame() skips the skippable frame, then starts the real frame with the dictionary.
 * stream   : zstd_decompress.c:2244 runs ZSTD_decompressBegin_usingDDict(zds, ZSTD_getDDict(zds)) for the skippable
 *            frame as well (the test for a skippable frame only comes at :2246); ZSTD_getDDict() turns a
 *            ZSTD_use_once dictionary into ZSTD_dont_use, so the real frame is decoded without its dictionary
 *            and fails with corruption_detected (or would silently produce other bytes if its offsets stayed in range).
 */
#define ZSTD_STATIC_LINKING_ONLY
#include <stdio.h>
#include <string.h>
#include "zstd.h"

static unsigned long long s = 88172645463325252ull;
static unsigned rnd(void) { s ^= s >> 12; s ^= s << 25; s ^= s >> 27; return (unsigned)((s * 2685821657736338717ull) >> 33); }

static size_t stream_all(ZSTD_DCtx* d, unsigned char* dst, size_t cap, const unsigned char* src, size_t n, size_t chunk, size_t* produced)
{
    size_t ipos = 0, opos = 0; int guard = 0;
    for (;;) {
        ZSTD_inBuffer in; ZSTD_outBuffer out; size_t r, c = chunk; if (c > n - ipos) c = n - ipos;
        in.src = src + ipos; in.size = c; in.pos = 0; out.dst = dst + opos; out.size = cap - opos; out.pos = 0;
        r = ZSTD_decompressStream(d, &out, &in);
        if (ZSTD_isError(r)) { *produced = opos; return r; }
        ipos += in.pos; opos += out.pos;
        if (r == 0 && ipos == n) break;
        if (++guard > 100000) { *produced = opos; return (size_t)-1; }
    }
    *produced = opos; return 0;
}

int main(void)
{
    static unsigned char prefix[4000], src[3000], cbuf[8000], both[9000], out[10000];
    size_t i, csize, n = 0; int bad = 0;
    for (i = 0; i < sizeof(prefix); i++) prefix[i] = (unsigned char)rnd();
    memcpy(src, prefix + 500, sizeof(src));
    {   ZSTD_CCtx* const cc = ZSTD_createCCtx();
        ZSTD_CCtx_setParameter(cc, ZSTD_c_compressionLevel, 5);
        ZSTD_CCtx_refPrefix(cc, prefix, sizeof(prefix));
        csize = ZSTD_compress2(cc, cbuf, sizeof(cbuf), src, sizeof(src));
        ZSTD_freeCCtx(cc); }
    n = ZSTD_writeSkippableFrame(both, sizeof(both), "user", 4, 0);
    memcpy(both + n, cbuf, csize); n += csize;
    printf("content 3000 bytes, compressed with a prefix to %zu bytes, preceded by a 12-byte skippable frame\n", csize);
    {   ZSTD_DCtx* const d = ZSTD_createDCtx(); size_t r;
        ZSTD_DCtx_refPrefix(d, prefix, sizeof(prefix));
        r = ZSTD_decompressDCtx(d, out, sizeof(out), both, n);
        printf("refPrefix + ZSTD_decompressDCtx              : %s\n", ZSTD_isError(r) ? ZSTD_getErrorName(r) : (r == sizeof(src) && !memcmp(out, src, r) ? "OK, content restored" : "WRONG CONTENT"));
        ZSTD_freeDCtx(d); }
    {   size_t chunk;
        for (chunk = 1; chunk <= 1000000; chunk *= 1000) {
            ZSTD_DCtx* const d = ZSTD_createDCtx(); size_t r, p;
            ZSTD_DCtx_refPrefix(d, prefix, sizeof(prefix));
            r = stream_all(d, out, sizeof(out), both, n, chunk, &p);
            printf("refPrefix + ZSTD_decompressStream (pieces of %7zu) : %s\n", chunk, ZSTD_isError(r) ? ZSTD_getErrorName(r) : (p == sizeof(src) && !memcmp(out, src, p) ? "OK, content restored" : "WRONG CONTENT"));
            if (ZSTD_isError(r) || p != sizeof(src) || memcmp(out, src, p)) bad = 1;
            ZSTD_freeDCtx(d);
    }   }
    {   ZSTD_DCtx* const d = ZSTD_createDCtx(); size_t r, p;
        ZSTD_DCtx_refPrefix(d, prefix, sizeof(prefix));
        r = stream_all(d, out, sizeof(out), cbuf, csize, 7, &p);
        printf("refPrefix + ZSTD_decompressStream, no skippable frame in front : %s\n", ZSTD_isError(r) ? ZSTD_getErrorName(r) : (p == sizeof(src) && !memcmp(out, src, p) ? "OK, content restored" : "WRONG CONTENT"));
        ZSTD_freeDCtx(d); }
    if (bad) printf("VIOLATION : one-shot and streaming disagree on the same input with the same dictionary\n");
    return bad;
}
