/* triage: ZSTD_d_refMultipleDDicts + one-shot ZSTD_decompressDCtx: is the frame's own DDict used?
 * clang -g -O1 -fsanitize=address -DZSTD_DISABLE_ASM -I/repo/lib -I/repo/lib/dictBuilder ddictsel.c /repo/lib/common/*.c /repo/lib/compress/*.c /repo/lib/decompress/*.c /repo/lib/dictBuilder/*.c -o ddictsel */
#define ZSTD_STATIC_LINKING_ONLY
#define ZDICT_STATIC_LINKING_ONLY
#include "zstd.h"
#include "zdict.h"
#include <stdio.h>
#include <stdlib.h>
#include <string.h>
static void fill(unsigned char* d, size_t n, unsigned seed){
    size_t i; for(i=0;i<n;i++){ seed=seed*1103515245u+12345u; d[i]=(unsigned char)('a'+((seed>>16)%7)); }
}
enum { DS=8192, N=3000, ND=3 };
int main(void){
    static unsigned char content[ND][DS], dict[ND][DS+4096], src[ND][N], c[ND][8192], out[N];
    size_t dsz[ND], csz[ND]; ZSTD_DDict* dd[ND]; int bad=0, i, order, f, chk;
    for (i=0;i<ND;i++) {
        size_t ss[4]={DS/4,DS/4,DS/4,DS/4}; ZDICT_params_t p; memset(&p,0,sizeof p); p.dictID=1000+i;
        fill(content[i],DS,17+i*31);
        dsz[i]=ZDICT_finalizeDictionary(dict[i],sizeof dict[i],content[i],DS,content[i],ss,4,p);
        if (ZDICT_isError(dsz[i])) { printf("finalize: %s\n",ZDICT_getErrorName(dsz[i])); return 2; }
        dd[i]=ZSTD_createDDict(dict[i],dsz[i]);
        memcpy(src[i], content[i]+700, N);
    }
    for (chk=0;chk<2;chk++) {
      for (i=0;i<ND;i++) {
        ZSTD_CCtx* cc=ZSTD_createCCtx();
        ZSTD_CCtx_setParameter(cc,ZSTD_c_checksumFlag,chk);
        ZSTD_CCtx_loadDictionary(cc,dict[i],dsz[i]);
        csz[i]=ZSTD_compress2(cc,c[i],sizeof c[i],src[i],N);
        if (ZSTD_isError(csz[i])) return 2;
        ZSTD_freeCCtx(cc);
      }
      for (order=0;order<2;order++) for (f=0;f<ND;f++) {
        ZSTD_DCtx* dc=ZSTD_createDCtx(); size_t r; int j;
        ZSTD_DCtx_setParameter(dc,ZSTD_d_refMultipleDDicts,ZSTD_rmd_refMultipleDDicts);
        for (j=0;j<ND;j++) ZSTD_DCtx_refDDict(dc, dd[order? ND-1-j : j]);
        memset(out,0,sizeof out);
        r=ZSTD_decompressDCtx(dc,out,N,c[f],csz[f]);
        if (ZSTD_isError(r)) { printf("one-shot chk=%d order=%d frame-dict=%d: ERROR %s\n",chk,order,f,ZSTD_getErrorName(r)); bad++; }
        else if (r!=N || memcmp(out,src[f],N)) { printf("one-shot chk=%d order=%d frame-dict=%d: SUCCESS WITH WRONG CONTENT\n",chk,order,f); bad++; }
        { ZSTD_inBuffer in={c[f],csz[f],0}; ZSTD_outBuffer o={out,N,0}; size_t h=1;
          memset(out,0,sizeof out);
          while (in.pos<in.size && h && !ZSTD_isError(h)) h=ZSTD_decompressStream(dc,&o,&in);
          if (ZSTD_isError(h)|| o.pos!=N || memcmp(out,src[f],N)) { printf("stream chk=%d order=%d frame-dict=%d: FAIL\n",chk,order,f); bad++; } }
        ZSTD_freeDCtx(dc);
      }
    }
    printf("%d failure(s)\n",bad);
    return bad!=0;
}
