/* validateSequences=1: a match at position ll whose offset reaches before the start of the data */
#define ZSTD_STATIC_LINKING_ONLY
#include "zstd.h"
#include <stdio.h>
#include <stdlib.h>
#include <string.h>
static int run(int delim, unsigned ll, unsigned ml, unsigned off){
    size_t n=1000, i; char* src=malloc(n); for(i=0;i<n;i++) src[i]=(char)('a'+i%7);
    ZSTD_Sequence s[3]; size_t ns;
    s[0].litLength=ll; s[0].matchLength=ml; s[0].offset=off; s[0].rep=0;
    if (delim){ s[1].litLength=(unsigned)(n-ll-ml); s[1].matchLength=0; s[1].offset=0; s[1].rep=0; ns=2; }
    else { ns=1; }
    ZSTD_CCtx* c=ZSTD_createCCtx();
    ZSTD_CCtx_setParameter(c,ZSTD_c_validateSequences,1);
    ZSTD_CCtx_setParameter(c,ZSTD_c_blockDelimiters,delim?ZSTD_sf_explicitBlockDelimiters:ZSTD_sf_noBlockDelimiters);
    size_t cap=ZSTD_compressBound(n); char* out=malloc(cap); char* back=malloc(n);
    size_t r=ZSTD_compressSequences(c,out,cap,s,ns,src,n);
    printf("%s, first sequence ll=%u ml=%u offset=%u (history at match start: %u bytes): ", delim?"explicit delimiters":"no delimiters", ll,ml,off,ll);
    if(ZSTD_isError(r)){ printf("refused: %s\n",ZSTD_getErrorName(r)); return 0; }
    { size_t d=ZSTD_decompress(back,n,out,r);
      printf("ACCEPTED (%zu bytes); decoding: %s\n",r,ZSTD_isError(d)?ZSTD_getErrorName(d):(d==n&&!memcmp(back,src,n)?"round trip ok":"wrong bytes")); }
    return off>ll;
}
int main(void){ int bad=0;
    bad|=run(1,0,10,10); bad|=run(0,0,10,10); bad|=run(1,4,20,14); bad|=run(0,4,20,14);
    run(1,7,14,7); run(1,0,10,11);
    return bad; }
