/* obs_4.c - streaming decoder + ZSTD_d_refMultipleDDicts : the DDict is (re)selected from a frame header that has
 *           not been read yet, i.e. from the dictionary ID of the PREVIOUS frame (or from uninitialised memory)
 *
 * build: clang -g -O1 -fsanitize=address,undefined -DZSTD_MULTITHREAD -DZSTD_DISABLE_ASM -I lib -I lib/common \
 *        _seed/obs_4.c lib/common/[a-z]*.c lib/compress/[a-z]*.c lib/decompress/[a-z]*.c -lpthread -o _seed/obs_4
 *        (with -fsanitize=memory instead : "use-of-uninitialized-value ... ZSTD_DDictHashSet_getDDict zstd_decompress.c:161"
 *         on the very first ZSTD_decompressStream() of a fresh DCtx)
 * run  : ASAN_OPTIONS=detect_leaks=0 _seed/obs_4
 *
 * ZSTD_decompressStream(), stage zdss_loadHeader (zstd_decompress.c:2162-2165) :
 *     hSize = ZSTD_getFrameHeader_advanced(&zds->fParams, zds->headerBuffer, zds->lhSize, ...);
 *     if (zds->refMultipleDDicts && zds->ddictSet) ZSTD_DCtx_selectFrameDDict(zds);      <- also when hSize != 0
 * On the first pass lhSize == 0 : ZSTD_getFrameHeader_advanced() returns "need more input" without writing fParams,
 * and ZSTD_DCtx_selectFrameDDict() looks up the stale zds->fParams.dictID. The switch is persistent (dctx->ddict).
 *
 * Sequence : table {X (ID 1001), Z (ID 1002)} ; decode frame A (names ID 1001) ; ZSTD_DCtx_refDDict(Z) ;
 *            decode frame B, compressed with Z and ZSTD_c_dictIDFlag=0.
 *   one-shot ZSTD_decompressDCtx()        : B decoded with Z (the DDict referenced last)   -> round trip
 *   ZSTD_decompressStream(), same state   : B decoded with X (dictionary of frame A)        -> wrong bytes / error
 */
#define ZSTD_STATIC_LINKING_ONLY
#include <stdio.h>
#include <stdlib.h>
#include <string.h>
#include "zstd.h"
#include "fse.h"

static unsigned rs = 2463534242u;
static unsigned rnd(void) { rs ^= rs << 13; rs ^= rs >> 17; rs ^= rs << 5; return rs; }
static void wr32(unsigned char* p, unsigned v) { p[0] = (unsigned char)v; p[1] = (unsigned char)(v >> 8); p[2] = (unsigned char)(v >> 16); p[3] = (unsigned char)(v >> 24); }

/* structurally valid dictionary whose entropy tables describe very few symbols (so frames never reuse them) */
static size_t makeDict(unsigned char* d, unsigned id, char base)
{
    size_t p = 8, i; short norm[1] = { 32 }; int t;
    wr32(d, ZSTD_MAGIC_DICTIONARY); wr32(d + 4, id);
    d[p++] = 128; d[p++] = 0x10;
    for (t = 0; t < 3; t++) p += FSE_writeNCount(d + p, 16, norm, 0, 5);
    wr32(d + p, 1); wr32(d + p + 4, 4); wr32(d + p + 8, 8); p += 12;
    for (i = 0; i < 3000; i++) d[p++] = (unsigned char)(base + rnd() % 26);
    return p;
}

static size_t compressWith(const unsigned char* dict, size_t dictSize, int dictIDFlag, void* dst, size_t cap, const void* src, size_t srcSize)
{
    ZSTD_CCtx* c = ZSTD_createCCtx(); size_t r;
    ZSTD_CCtx_setParameter(c, ZSTD_c_compressionLevel, 1);
    ZSTD_CCtx_setParameter(c, ZSTD_c_dictIDFlag, dictIDFlag);
    ZSTD_CCtx_loadDictionary(c, dict, dictSize);
    r = ZSTD_compress2(c, dst, cap, src, srcSize);
    ZSTD_freeCCtx(c); return r;
}

static const char* verdict(size_t r, const unsigned char* out, const unsigned char* src, size_t n)
{
    return ZSTD_isError(r) ? ZSTD_getErrorName(r) : (r == n && !memcmp(out, src, n)) ? "round trip ok" : "WRONG BYTES, no error";
}

static size_t streamAll(ZSTD_DCtx* d, void* dst, size_t cap, const void* src, size_t srcSize)
{
    ZSTD_inBuffer in = { src, srcSize, 0 }; ZSTD_outBuffer out = { dst, cap, 0 };
    for (;;) { size_t const r = ZSTD_decompressStream(d, &out, &in); if (ZSTD_isError(r)) return r; if (r == 0) return out.pos; if (in.pos == in.size && out.pos == out.size) return out.pos; }
}

int main(void)
{
    unsigned char X[3100], Z[3100], srcA[1500], srcB[1500], fA[4000], fB[4000], out[3000];
    size_t const xs = makeDict(X, 1001, 'a'), zs = makeDict(Z, 1002, 'A');
    size_t cA, cB, r; int pass; int bad = 0;
    memcpy(srcA, X + xs - 2800, 1500); memcpy(srcB, Z + zs - 2800, 1500);       /* inputs made of dictionary content */
    cA = compressWith(X, xs, 1, fA, sizeof(fA), srcA, sizeof(srcA));
    cB = compressWith(Z, zs, 0, fB, sizeof(fB), srcB, sizeof(srcB));
    if (ZSTD_isError(cA) || ZSTD_isError(cB)) { printf("setup failed\n"); return 2; }
    printf("frame A: %zu bytes, names dictionary %u ; frame B: %zu bytes, names dictionary %u (compressed with 1002, ID not recorded)\n",
           cA, ZSTD_getDictID_fromFrame(fA, cA), cB, ZSTD_getDictID_fromFrame(fB, cB));
    for (pass = 0; pass < 2; pass++) {
        ZSTD_DCtx* d = ZSTD_createDCtx(); ZSTD_DDict* dX = ZSTD_createDDict(X, xs); ZSTD_DDict* dZ = ZSTD_createDDict(Z, zs);
        ZSTD_DCtx_setParameter(d, ZSTD_d_refMultipleDDicts, ZSTD_rmd_refMultipleDDicts);
        ZSTD_DCtx_refDDict(d, dX); ZSTD_DCtx_refDDict(d, dZ);
        r = streamAll(d, out, sizeof(out), fA, cA);
        printf("%s\n  frame A, ZSTD_decompressStream                         : %s\n", pass ? "second decode of B by streaming" : "second decode of B in one shot", verdict(r, out, srcA, sizeof(srcA)));
        ZSTD_DCtx_refDDict(d, dZ);                              /* "use Z from now on" */
        memset(out, 0, sizeof(out));
        r = pass ? streamAll(d, out, sizeof(out), fB, cB) : ZSTD_decompressDCtx(d, out, sizeof(out), fB, cB);
        printf("  refDDict(Z) ; frame B, %s : %s\n", pass ? "ZSTD_decompressStream        " : "ZSTD_decompressDCtx (one shot)", verdict(r, out, srcB, sizeof(srcB)));
        if (ZSTD_isError(r) || memcmp(out, srcB, sizeof(srcB))) bad = 1;
        ZSTD_freeDCtx(d); ZSTD_freeDDict(dX); ZSTD_freeDDict(dZ);
    }
    return bad;
}
