/* obs_2.c - more input handed to ZSTD_compressStream2 while a ZSTD_e_end is still being flushed.
 *
 * build (from the worktree root):
 *   clang -g -O1 -fsanitize=address,undefined -DZSTD_MULTITHREAD -DZSTD_DISABLE_ASM -I lib _seed/obs_2.c lib/common/*.c lib/compress/*.c lib/decompress/*.c -lpthread -o _seed/obs_2
 * run: _seed/obs_2
 *
 * history :  (first 10 bytes of A, cap=100, continue)   [so that the first ZSTD_e_end does not pledge the frame size]
 *            (rest of A , cap=100 , end) -> returns >0 (frame not flushed)
 *            (B , cap=big , end) repeated until it returns 0 and B is consumed
 * cause : lib/compress/zstdmt_compress.c:1838 only refuses ZSTD_e_continue once mtctx->frameEnded is set; with
 *         ZSTD_e_end / ZSTD_e_flush the input is still loaded (1844-1870) and a new job is created behind the last one (1882-1888).
 * The bytes consumed are A then B; the emitted bytes must decode to A|B.
 * nbWorkers=0 : the pending frame is flushed first, B goes to a second frame : round trip OK.
 * nbWorkers=1 : B is appended as a new job behind the job already flagged "last" : the stream is corrupt.
 */
#define ZSTD_STATIC_LINKING_ONLY
#include <stdio.h>
#include <stdlib.h>
#include <string.h>
#include "zstd.h"

static int run(int nbWorkers, int checksum)
{
    size_t const aSize = 700000, bSize = 300000;
    unsigned char* const x = malloc(aSize + bSize);
    size_t const cCap = ZSTD_compressBound(aSize + bSize) + 1000;
    unsigned char* const c = malloc(cCap);
    unsigned char* const out = malloc(aSize + bSize);
    ZSTD_CCtx* const cctx = ZSTD_createCCtx();
    size_t cSize = 0, i, r, consumed = 0;
    int calls = 0;
    for (i = 0; i < aSize + bSize; i++) x[i] = (unsigned char)((i * 2654435761u >> 13) % 23 + (i >> 12));
    ZSTD_CCtx_setParameter(cctx, ZSTD_c_compressionLevel, 1);
    ZSTD_CCtx_setParameter(cctx, ZSTD_c_nbWorkers, nbWorkers);
    ZSTD_CCtx_setParameter(cctx, ZSTD_c_checksumFlag, checksum);
    /* call 0 : the first 10 bytes of A with ZSTD_e_continue (so that the frame size is not pledged by a first ZSTD_e_end) */
    {   ZSTD_inBuffer in = { x, 10, 0 };
        ZSTD_outBuffer o = { c, 100, 0 };
        r = ZSTD_compressStream2(cctx, &o, &in, ZSTD_e_continue);
        if (ZSTD_isError(r) || in.pos != 10) return 2;
        consumed += in.pos; cSize += o.pos;
    }
    /* call 1 : the rest of A, tiny output, end */
    {   ZSTD_inBuffer in = { x + consumed, aSize - consumed, 0 };
        ZSTD_outBuffer o = { c + cSize, 100, 0 };
        r = ZSTD_compressStream2(cctx, &o, &in, ZSTD_e_end);
        printf("  call 1 (A=%zu bytes, cap=100, end) -> ret=%zu%s consumed=%zu produced=%zu\n", aSize, r, ZSTD_isError(r) ? " (error)" : "", in.pos, o.pos);
        if (ZSTD_isError(r)) return 2;
        consumed += in.pos; cSize += o.pos;
        /* with nbWorkers=0 the input is consumed only up to what could be buffered; feed the rest of A normally */
        while (consumed < aSize) {
            ZSTD_inBuffer in2 = { x + consumed, aSize - consumed, 0 };
            ZSTD_outBuffer o2 = { c + cSize, 100, 0 };
            r = ZSTD_compressStream2(cctx, &o2, &in2, ZSTD_e_end);
            if (ZSTD_isError(r)) { printf("  error %s\n", ZSTD_getErrorName(r)); return 2; }
            consumed += in2.pos; cSize += o2.pos;
            if (++calls > 100000) return 2;
        }
        printf("  A entirely consumed after %d more calls, last ret=%zu (frame %s)\n", calls, r, r ? "still being flushed" : "complete");
    }
    /* now hand B while the end of the first frame is (possibly) still pending */
    {   size_t bpos = 0; int n = 0;
        do {
            ZSTD_inBuffer in = { x + aSize + bpos, bSize - bpos, 0 };
            ZSTD_outBuffer o = { c + cSize, cCap - cSize, 0 };
            r = ZSTD_compressStream2(cctx, &o, &in, ZSTD_e_end);
            if (ZSTD_isError(r)) { printf("  call with B -> error %s\n", ZSTD_getErrorName(r)); return 2; }
            bpos += in.pos; cSize += o.pos;
            if (++n > 100000) { printf("  no completion\n"); return 2; }
        } while (r != 0 || bpos < bSize);
        printf("  B entirely consumed and ZSTD_e_end returned 0 after %d calls; %zu compressed bytes in total\n", n, cSize);
    }
    r = ZSTD_decompress(out, aSize + bSize, c, cSize);
    if (ZSTD_isError(r)) { printf("  => decoding the emitted bytes : ERROR %s\n", ZSTD_getErrorName(r)); return 1; }
    if (r != aSize + bSize || memcmp(out, x, aSize + bSize)) { printf("  => decoded %zu bytes, consumed %zu : MISMATCH\n", r, aSize + bSize); return 1; }
    printf("  => round trip OK (%zu bytes)\n", r);
    ZSTD_freeCCtx(cctx); free(x); free(c); free(out);
    return 0;
}

int main(void)
{
    setvbuf(stdout, NULL, _IONBF, 0);
    int bad = 0, r;
    printf("nbWorkers=0 checksum=0\n"); r = run(0, 0); bad |= r;
    printf("nbWorkers=1 checksum=0\n"); r = run(1, 0); bad |= r;
    printf("nbWorkers=1 checksum=1\n"); r = run(1, 1); bad |= r;
    printf("nbWorkers=2 checksum=1\n"); r = run(2, 1); bad |= r;
    return bad;
}
