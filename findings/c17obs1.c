/* obs_1 : ZSTD_compressSequences, ZSTD_sf_noBlockDelimiters, ZSTD_c_validateSequences=1 :
 * a sequence whose litLength+matchLength wraps in 32 bits is taken for a sequence that
 * fits in the block (zstd_compress.c:6710 `endPosInSequence >= currSeq.litLength + currSeq.matchLength`,
 * U32 arithmetic), passes ZSTD_validateSequence (only the offset and the lower bound of the match
 * length are looked at) and reaches ZSTD_storeSeq / ZSTD_storeLastLiterals with a 4 GB length
 * -> heap-buffer-overflow although validation is enabled.
 *
 * build (from the worktree root):
 *   clang -g -O1 -fsanitize=address -DZSTD_MULTITHREAD -DZSTD_DISABLE_ASM -I lib _seed/obs_1.c \
 *      lib/common/*.c lib/compress/*.c lib/decompress/*.c -lpthread -o _seed/obs_1
 * run :  _seed/obs_1 1   (variant 1 : huge litLength)    _seed/obs_1 2  (variant 2 : huge matchLength)
 */
#define ZSTD_STATIC_LINKING_ONLY
#include "zstd.h"
#include <stdio.h>
#include <stdlib.h>
#include <string.h>

int main(int argc, char** argv)
{
    int const variant = argc > 1 ? atoi(argv[1]) : 1;
    size_t const srcSize = 4096;
    unsigned char* src = malloc(srcSize);
    size_t const dstCap = ZSTD_compressBound(srcSize);
    void* dst = malloc(dstCap);
    ZSTD_Sequence seqs[2];
    ZSTD_CCtx* cctx = ZSTD_createCCtx();
    size_t r, i;
    for (i = 0; i < srcSize; i++) src[i] = (unsigned char)(i % 13);

    memset(seqs, 0, sizeof(seqs));
    /* a valid first sequence : 13 literals then a match at offset 13 */
    seqs[0].litLength = 13; seqs[0].matchLength = 100; seqs[0].offset = 13;
    if (variant == 1) {   /* 0xFFFFFFF0 + 0x20 == 0x10 (mod 2^32) */
        seqs[1].litLength = 0xFFFFFFF0u; seqs[1].matchLength = 0x20; seqs[1].offset = 13;
    } else {              /* 10 + 0xFFFFFFF6 == 0 (mod 2^32) */
        seqs[1].litLength = 10; seqs[1].matchLength = 0xFFFFFFF6u; seqs[1].offset = 13;
    }
    ZSTD_CCtx_setParameter(cctx, ZSTD_c_blockDelimiters, ZSTD_sf_noBlockDelimiters);
    ZSTD_CCtx_setParameter(cctx, ZSTD_c_validateSequences, 1);
    r = ZSTD_compressSequences(cctx, dst, dstCap, seqs, 2, src, srcSize);
    printf("variant %d : ZSTD_compressSequences -> %s (%zu)\n", variant,
           ZSTD_isError(r) ? ZSTD_getErrorName(r) : "ACCEPTED", r);
    if (!ZSTD_isError(r)) {
        unsigned char* back = malloc(srcSize);
        size_t const d = ZSTD_decompress(back, srcSize, dst, r);
        printf("  decoding the produced frame -> %s\n", ZSTD_isError(d) ? ZSTD_getErrorName(d) : (memcmp(back, src, srcSize) ? "different content" : "source"));
        free(back);
    }
    ZSTD_freeCCtx(cctx); free(dst); free(src);
    return !ZSTD_isError(r);
}
