/* obs_2.c - defect of the UNMODIFIED tree (C19, "a failed operation exits with a non-zero status and leaves no
 *           output file behind").
 *
 * When several inputs are decompressed into one named output (zstd -d -f a.zst b.zst -o out), the destination is
 * opened by FIO_decompressMultipleFilenames() itself (programs/fileio.c), so FIO_decompressDstFile() does not own it
 * (releaseDstFile == 0) : it neither registers it as an artefact nor removes it when a source fails to decode.
 * A corrupted second input makes zstd exit 1, but `out` is left behind, holding only the first input.
 *
 * Build :  make -C /tmp/seed5-C19/programs zstd
 *          cc -O2 -Wall -o /tmp/seed5-C19/_seed/obs_2 /tmp/seed5-C19/_seed/obs_2.c
 * Run   :  /tmp/seed5-C19/_seed/obs_2 [/tmp/seed5-C19/programs/zstd]
 *
 * Observed output on the unmodified tree (exit 1) :
 *     zstd -d -f g.zst r.zst -o out : exit status 1
 *     out exists : yes (5 bytes)
 *     DEFECT : the operation failed and its incomplete output file was left behind
 */
#define _GNU_SOURCE
#include <stdio.h>
#include <stdlib.h>
#include <string.h>
#include <unistd.h>
#include <fcntl.h>
#include <sys/stat.h>
#include <sys/wait.h>

static const char* g_zstd = "/tmp/seed5-C19/programs/zstd";

static int run(const char* cmd)
{
    int const st = system(cmd);
    return WIFEXITED(st) ? WEXITSTATUS(st) : 128;
}

int main(int argc, char** argv)
{
    char dir[] = "/tmp/c19obs2XXXXXX";
    char cmd[1024];
    struct stat sb;
    int status, n;
    if (argc > 1) g_zstd = argv[1];
    if (!mkdtemp(dir) || chdir(dir)) { perror("mkdtemp"); return 2; }

    {   FILE* f = fopen("g", "wb"); fputs("good\n", f); fclose(f);
        f = fopen("r", "wb");
        for (n = 0; n < 1000; n++) fputc((n * 131 + 7) >> 2 & 255, f);
        fclose(f);
    }
    snprintf(cmd, sizeof(cmd), "%s -q g r", g_zstd);
    if (run(cmd)) { fprintf(stderr, "setup failed\n"); return 2; }
    /* corrupt the content of r.zst : the frame checksum no longer matches */
    {   int const fd = open("r.zst", O_WRONLY);
        if (fd < 0 || pwrite(fd, "XXXX", 4, 20) != 4) { perror("r.zst"); return 2; }
        close(fd);
    }

    snprintf(cmd, sizeof(cmd), "%s -q -d -f g.zst r.zst -o out 2>/dev/null", g_zstd);
    status = run(cmd);
    printf("zstd -d -f g.zst r.zst -o out : exit status %d\n", status);
    if (stat("out", &sb) == 0) {
        printf("out exists : yes (%ld bytes)\n", (long)sb.st_size);
        if (status != 0) {
            printf("DEFECT : the operation failed and its incomplete output file was left behind\n");
            return 1;
        }
    } else {
        printf("out exists : no\n");
    }
    return 0;
}
