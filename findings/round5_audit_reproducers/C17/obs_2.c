/* C17 observation 2 (UNMODIFIED tree) : ZSTD_compressSequences() with a dictionary produces a frame that does
 * not decode, from a perfectly valid parse, when the first blocks are emitted raw.
 *
 * The offset-code table of a dictionary is only guaranteed to cover the offsets reachable in the first block
 * (<= dictContentSize + 128 KB). ZSTD_compressBlock_internal() therefore downgrades
 * entropy.fse.offcode_repeatMode from FSE_repeat_valid to FSE_repeat_check after every block, whatever its type.
 * ZSTD_compressSequences_internal() only does so after a *compressed* block : when blocks 1 and 2 are emitted raw
 * (incompressible literals), block 3 still sees FSE_repeat_valid, ZSTD_selectEncodingType() (strategy < lazy,
 * nbSeq < 1000) answers set_repeat without looking at the symbols, and offsets >= 262141 (offset code 18) are
 * encoded with a table in which that code has no state.
 *
 * Build (from the worktree root) :
 *   cc -O1 -g -DZSTD_DISABLE_ASM -Wno-deprecated-declarations -Ilib -Ilib/common _seed/obs_2.c \
 *      lib/common/[a-z]*.c lib/compress/[a-z]*.c lib/decompress/[a-z]*.c lib/dictBuilder/[a-z]*.c -o _seed/obs_2
 *
 * Observed output on the unmodified tree (exit status 1) :
 *   dictionary of 1158 bytes (its offset-code table covers offsets up to dictSize + 128 KB)
 *   control : blocks 1-2 compressed, with dictionary : frame of 190897 bytes, round trip ok
 *   blocks 1-2 raw, without dictionary              : frame of 321935 bytes, round trip ok
 *   blocks 1-2 raw, with dictionary                 : frame of 321976 bytes, decoding it : Data corruption detected
 *   DEFECT : a valid parse does not round-trip with a dictionary
 */
#define ZSTD_STATIC_LINKING_ONLY
#define ZDICT_STATIC_LINKING_ONLY
#include "zstd.h"
#include "zdict.h"
#include <stdio.h>
#include <stdlib.h>
#include <string.h>

#define CONTENT_SIZE 1024
#define BLOCK (128 * 1024)
#define SRC_SIZE (3 * BLOCK)
#define NB_SEQ3 60

static unsigned rng_state = 777u;
static unsigned rng(void) { rng_state = rng_state * 1664525u + 1013904223u; return rng_state >> 8; }

static int run(const unsigned char* src, const ZSTD_Sequence* seqs, size_t nbSeqs,
               const void* dict, size_t dictSize, const char* what)
{
    ZSTD_CCtx* const cctx = ZSTD_createCCtx();
    ZSTD_DCtx* const dctx = ZSTD_createDCtx();
    size_t const dstCapacity = ZSTD_compressBound(SRC_SIZE);
    void* const dst = malloc(dstCapacity);
    unsigned char* const back = (unsigned char*)malloc(SRC_SIZE);
    size_t cSize, dSize;
    int bad = 0;
    ZSTD_CCtx_setParameter(cctx, ZSTD_c_compressionLevel, 3);
    ZSTD_CCtx_setParameter(cctx, ZSTD_c_blockDelimiters, ZSTD_sf_explicitBlockDelimiters);
    ZSTD_CCtx_setParameter(cctx, ZSTD_c_validateSequences, 1);
    if (dict) ZSTD_CCtx_loadDictionary(cctx, dict, dictSize);
    cSize = ZSTD_compressSequences(cctx, dst, dstCapacity, seqs, nbSeqs, src, SRC_SIZE);
    if (ZSTD_isError(cSize)) { printf("%s : ZSTD_compressSequences : %s\n", what, ZSTD_getErrorName(cSize)); bad = 2; }
    else {
        dSize = dict ? ZSTD_decompress_usingDict(dctx, back, SRC_SIZE, dst, cSize, dict, dictSize)
                     : ZSTD_decompressDCtx(dctx, back, SRC_SIZE, dst, cSize);
        if (ZSTD_isError(dSize)) { printf("%s : frame of %u bytes, decoding it : %s\n", what, (unsigned)cSize, ZSTD_getErrorName(dSize)); bad = 1; }
        else if (dSize != SRC_SIZE || memcmp(back, src, SRC_SIZE)) {
            size_t d = 0; while (d < dSize && back[d] == src[d]) d++;
            printf("%s : frame of %u bytes, decodes to %u bytes DIFFERENT from the source (first difference at %u)\n", what, (unsigned)cSize, (unsigned)dSize, (unsigned)d);
            bad = 1;
        } else printf("%s : frame of %u bytes, round trip ok\n", what, (unsigned)cSize);
    }
    ZSTD_freeCCtx(cctx); ZSTD_freeDCtx(dctx); free(dst); free(back);
    return bad;
}

static size_t build(unsigned char* src, ZSTD_Sequence* seqs, int rawFirstBlocks)
{
    size_t nbSeqs = 0, i, pos;
    /* blocks 1 and 2 : literals only ; random bytes => emitted as raw blocks,
     * or (control) bytes from a 16-symbol alphabet => emitted as compressed blocks */
    for (i = 0; i < 2 * BLOCK; i++) src[i] = rawFirstBlocks ? (unsigned char)rng() : (unsigned char)("abcdefghijklmnop"[rng() & 15]);
    memset(seqs, 0, (NB_SEQ3 + 3) * sizeof(ZSTD_Sequence));
    seqs[nbSeqs++].litLength = BLOCK;   /* delimiter carrying the whole block as literals */
    seqs[nbSeqs++].litLength = BLOCK;

    /* block 3 : compressible literals, and matches that alternate between a near offset and
     * an offset of 2 blocks (>= 262141 : offset code 18), all of them genuine matches */
    pos = 2 * BLOCK;
    for (i = 0; i < NB_SEQ3; i++) {
        unsigned const ll = 100, ml = 200;
        unsigned const offset = (i & 1) ? 150 + (unsigned)i : 2 * BLOCK + 100 + (unsigned)i;
        unsigned k;
        for (k = 0; k < ll; k++) src[pos + k] = (unsigned char)("abcdefghijklmnop"[rng() & 15]);
        pos += ll;
        for (k = 0; k < ml; k++) src[pos + k] = src[pos + k - offset];
        seqs[nbSeqs].litLength = ll; seqs[nbSeqs].matchLength = ml; seqs[nbSeqs].offset = offset;
        nbSeqs++;
        pos += ml;
    }
    for (i = pos; i < SRC_SIZE; i++) src[i] = (unsigned char)("abcdefghijklmnop"[rng() & 15]);
    seqs[nbSeqs++].litLength = (unsigned)(SRC_SIZE - pos);   /* delimiter of block 3 */

    return nbSeqs;
}

int main(void)
{
    unsigned char content[CONTENT_SIZE];
    unsigned char samples[16 * 512];
    size_t sampleSizes[16];
    unsigned char dict[CONTENT_SIZE + 2048];
    unsigned char* const src = (unsigned char*)malloc(SRC_SIZE);
    ZSTD_Sequence seqs[NB_SEQ3 + 3];
    size_t nbSeqs, dictSize, i;
    ZDICT_params_t zp;

    for (i = 0; i < CONTENT_SIZE; i++) content[i] = (unsigned char)("abcdefghijklmnop"[rng() & 15]);
    for (i = 0; i < sizeof(samples); i++) samples[i] = content[(i * 7) % CONTENT_SIZE];
    for (i = 0; i < 16; i++) sampleSizes[i] = 512;
    memset(&zp, 0, sizeof(zp));
    zp.dictID = 4243;
    dictSize = ZDICT_finalizeDictionary(dict, sizeof(dict), content, CONTENT_SIZE, samples, sampleSizes, 16, zp);
    if (ZDICT_isError(dictSize)) { printf("ZDICT_finalizeDictionary failed : %s\n", ZDICT_getErrorName(dictSize)); return 2; }
    printf("dictionary of %u bytes (its offset-code table covers offsets up to dictSize + 128 KB)\n", (unsigned)dictSize);

    {   int control, without, with;
        nbSeqs = build(src, seqs, 0);
        control = run(src, seqs, nbSeqs, dict, dictSize, "control : blocks 1-2 compressed, with dictionary");
        nbSeqs = build(src, seqs, 1);
        without = run(src, seqs, nbSeqs, NULL, 0,        "blocks 1-2 raw, without dictionary             ");
        with = run(src, seqs, nbSeqs, dict, dictSize,    "blocks 1-2 raw, with dictionary                ");
        if (control || without) { printf("unexpected : a control case does not round-trip\n"); return 2; }
        if (with) { printf("DEFECT : a valid parse does not round-trip with a dictionary\n"); return 1; }
    }
    printf("no defect observed\n");
    free(src);
    return 0;
}
