/* C14 observation on the UNMODIFIED tree (reproduced there : 65 failures; with the seed patch applied the same program reports 81).
 *
 * The comment above ZSTD_initStaticCDict() (lib/compress/zstd_compress.c) documents the pairing
 *     workspaceSize : "Use ZSTD_estimateCDictSize() to determine how large workspace must be."
 *     cParams       : "use ZSTD_getCParams() to transform a compression level into its relevant cParams."
 * but ZSTD_estimateCDictSize(dictSize, level) derives its parameters in ZSTD_cpm_createCDict mode
 * (source assumed tiny : window and tables shrunk to dictSize+513), while the public ZSTD_getCParams(level, 0, dictSize)
 * works in ZSTD_cpm_unknown mode (no shrinking). The block sized by the level-based estimate is therefore
 * refused by ZSTD_initStaticCDict() (returns NULL) for most levels and dictionary sizes; only
 * ZSTD_estimateCDictSize_advanced() with the very same cParams is sufficient.
 *
 * Build (from the worktree root) :
 *   gcc -O1 -g -w -DZSTD_MULTITHREAD -Ilib -Ilib/common -o _seed/obs_1 _seed/obs_1.c \
 *       lib/common/*.c lib/compress/*.c lib/decompress/*.c lib/decompress/huf_decompress_amd64.S -lpthread
 * Observed output (first lines, then the total) :
 *   level 1 dictSize 1000: estimateCDictSize=40488, initStaticCDict(getCParams(level,0,dictSize)) -> NULL (advanced estimate for the same cParams: 212520; wlog 14 hlog 15 clog 14)
 *   level 1 dictSize 4096: estimateCDictSize=117312, initStaticCDict(getCParams(level,0,dictSize)) -> NULL (advanced estimate for the same cParams: 215616; wlog 14 hlog 15 clog 14)
 *   level 2 dictSize 1000: estimateCDictSize=40488, initStaticCDict(getCParams(level,0,dictSize)) -> NULL (advanced estimate for the same cParams: 212520; wlog 14 hlog 15 clog 14)
 *   level 2 dictSize 4096: estimateCDictSize=117312, initStaticCDict(getCParams(level,0,dictSize)) -> NULL (advanced estimate for the same cParams: 215616; wlog 14 hlog 15 clog 14)
 *   level 3 dictSize 1000: estimateCDictSize=40488, initStaticCDict(getCParams(level,0,dictSize)) -> NULL (advanced estimate for the same cParams: 212520; wlog 14 hlog 15 clog 14)
 *   level 3 dictSize 4096: estimateCDictSize=117312, initStaticCDict(getCParams(level,0,dictSize)) -> NULL (advanced estimate for the same cParams: 215616; wlog 14 hlog 15 clog 14)
 *   ...
 *   65 failures   (out of 95 level x dictSize cases; exit status 1)
 */
#define ZSTD_STATIC_LINKING_ONLY
#include "zstd.h"
#include <stdio.h>
#include <stdlib.h>
#include <string.h>
int main(void){
  static const size_t ds[]={1000,4096,30000,112640,300001};
  unsigned char* dict=malloc(300001); for(size_t i=0;i<300001;i++)dict[i]=(unsigned char)((i*2654435761u)>>13);
  int fails=0;
  for(int level=1;level<=19;level++) for(int d=0;d<5;d++){
    size_t dictSize=ds[d];
    size_t est=ZSTD_estimateCDictSize(dictSize,level);
    ZSTD_compressionParameters c=ZSTD_getCParams(level,0,dictSize);
    size_t adv=ZSTD_estimateCDictSize_advanced(dictSize,c,ZSTD_dlm_byCopy);
    void* b=malloc(est);
    const ZSTD_CDict* cd=ZSTD_initStaticCDict(b,est,dict,dictSize,ZSTD_dlm_byCopy,ZSTD_dct_rawContent,c);
    if(!cd){fails++;printf("level %d dictSize %zu: estimateCDictSize=%zu, initStaticCDict(getCParams(level,0,dictSize)) -> NULL (advanced estimate for the same cParams: %zu; wlog %u hlog %u clog %u)\n",level,dictSize,est,adv,c.windowLog,c.hashLog,c.chainLog);}
    free(b);
  }
  printf("%d failures\n",fails);return fails!=0;}
