/* obs_1.c : UNMODIFIED tree. ZSTD_compressSequences() with a zstd-format dictionary :
 * when the FIRST block of the frame is emitted raw (incompressible literals), the
 * offset-code table inherited from the dictionary keeps its "valid without check"
 * status (offcode_repeatMode == FSE_repeat_valid) for the SECOND block.
 * That status only guarantees offset codes up to highbit(dictContentSize + 128 KB),
 * i.e. what a first block can need. A second block may legitimately use a larger
 * offset (position > 128 KB, dictionary still in range) : with a strategy < lazy the
 * encoder then selects Repeat_Mode for offsets without looking at the table, and
 * encodes an offset code the dictionary's table does not contain.
 * All other block paths (ZSTD_compressBlock_internal, splitBlock, targetCBlockSize)
 * downgrade valid -> check after every block, whatever its type ; ZSTD_compressSequences_internal()
 * does it only in its "compressed block" branch.
 *
 * build (from the worktree root) :
 *   cc -O1 -g -DZSTD_DISABLE_ASM -Ilib -Ilib/common _seed/obs_1.c \
 *      lib/common/[a-z]*.c lib/compress/[a-z]*.c lib/decompress/[a-z]*.c lib/dictBuilder/[a-z]*.c -o _seed/obs_1
 * run : _seed/obs_1        (exit 0 = frame round-trips, 1 = frame is not decodable / wrong)
 *
 * observed output on the unmodified tree (exit status 1) :
 *   dictionary : 102533 bytes (content 102400)
 *   compressed 262144 -> 202215 bytes
 *   DEFECT : the frame is not decodable : Data corruption detected
 * Same at levels 1-5 (strategies fast, dfast, greedy) ; level 6 (lazy, cost-based table choice) round-trips.
 * Control : if block 1 is made compressible (one long match, so it is emitted as a compressed block)
 * the same block 2 round-trips : the raw first block is what keeps the table "valid".
 * (With _seed/patch.diff applied this program exits 0 : the seeded change is a fix of this defect
 *  that also moves the repcode/entropy confirmation, which is what breaks the property elsewhere.)
 */
#define ZSTD_STATIC_LINKING_ONLY
#define ZDICT_STATIC_LINKING_ONLY
#include <stdio.h>
#include <stdlib.h>
#include <string.h>
#include "zstd.h"
#include "zdict.h"

static unsigned rnd_state = 0x1234567u;
static unsigned rnd(void) { rnd_state = rnd_state * 1103515245u + 12345u; return rnd_state >> 8; }

#define CONTENT_SIZE (100 << 10)
#define BLOCK        (128 << 10)
#define SRC_SIZE     (2 * BLOCK)

int main(void)
{
    static unsigned char content[CONTENT_SIZE];
    static unsigned char samples[64 * 1024];
    size_t sampleSizes[64];
    static unsigned char dict[CONTENT_SIZE + 4096];
    static unsigned char src[SRC_SIZE];
    static unsigned char back[SRC_SIZE];
    size_t dictSize;
    size_t i;

    for (i = 0; i < CONTENT_SIZE; i++) content[i] = (unsigned char)rnd();
    /* samples : pieces of the content mixed with text, so that the statistics are buildable */
    for (i = 0; i < 64; i++) {
        size_t j;
        sampleSizes[i] = 1024;
        for (j = 0; j < 1024; j++)
            samples[i * 1024 + j] = (j & 64) ? content[(i * 1500 + j) % CONTENT_SIZE] : (unsigned char)("abcdefgh ijkl"[rnd() % 13]);
    }
    {   ZDICT_params_t zp; memset(&zp, 0, sizeof(zp)); zp.compressionLevel = 1; zp.dictID = 4242;
        dictSize = ZDICT_finalizeDictionary(dict, sizeof(dict), content, CONTENT_SIZE, samples, sampleSizes, 64, zp);
        if (ZDICT_isError(dictSize)) { printf("finalizeDictionary: %s\n", ZDICT_getErrorName(dictSize)); return 2; }
        printf("dictionary : %u bytes (content %u)\n", (unsigned)dictSize, (unsigned)CONTENT_SIZE);
    }

    /* source :
     * block 1 = 128 KB of noise, literals only                     -> raw block
     * block 2 = 45000 noise bytes, then 6 x (10000-byte match + 5000 noise bytes) ; three of the matches reach the
     *           dictionary content at distance 270000 (> 2^18 - 3 : offset code 18) */
    for (i = 0; i < SRC_SIZE; i++) src[i] = (unsigned char)rnd();
    {   static const unsigned offsets[6] = { 270000, 100, 270000, 5000, 270000, 40000 };
        ZSTD_Sequence seqs[8];
        memset(seqs, 0, sizeof(seqs));
        seqs[0].litLength = BLOCK;                               /* block 1 delimiter : literals only */
        {   unsigned k;
            for (k = 0; k < 6; k++) {
                size_t const pos = BLOCK + 45000 + 15000 * k;
                size_t j;
                for (j = 0; j < 10000; j++) {
                    long const from = (long)(pos + j) - (long)offsets[k];
                    src[pos + j] = (from >= 0) ? src[from] : content[CONTENT_SIZE + from];
                }
                seqs[1 + k].litLength = k ? 5000 : 45000; seqs[1 + k].matchLength = 10000; seqs[1 + k].offset = offsets[k];
            }
            seqs[7].litLength = (unsigned)(BLOCK - 45000 - 5 * 15000 - 10000);   /* block 2 delimiter */
        }
        {   ZSTD_CCtx* const cctx = ZSTD_createCCtx();
            size_t const cap = ZSTD_compressBound(SRC_SIZE) + 1024;
            unsigned char* const dst = (unsigned char*)malloc(cap);
            size_t cSize, r;
            ZSTD_CCtx_setParameter(cctx, ZSTD_c_compressionLevel, 1);
            ZSTD_CCtx_setParameter(cctx, ZSTD_c_blockDelimiters, ZSTD_sf_explicitBlockDelimiters);
            ZSTD_CCtx_setParameter(cctx, ZSTD_c_validateSequences, 1);
            ZSTD_CCtx_setParameter(cctx, ZSTD_c_checksumFlag, 1);
            r = ZSTD_CCtx_loadDictionary(cctx, dict, dictSize);
            if (ZSTD_isError(r)) { printf("loadDictionary: %s\n", ZSTD_getErrorName(r)); return 2; }
            cSize = ZSTD_compressSequences(cctx, dst, cap, seqs, 8, src, SRC_SIZE);
            if (ZSTD_isError(cSize)) { printf("compressSequences: %s\n", ZSTD_getErrorName(cSize)); return 2; }
            printf("compressed %u -> %u bytes\n", (unsigned)SRC_SIZE, (unsigned)cSize);
            {   ZSTD_DCtx* const dctx = ZSTD_createDCtx();
                size_t const dSize = ZSTD_decompress_usingDict(dctx, back, SRC_SIZE, dst, cSize, dict, dictSize);
                if (ZSTD_isError(dSize)) { printf("DEFECT : the frame is not decodable : %s\n", ZSTD_getErrorName(dSize)); return 1; }
                if (dSize != SRC_SIZE || memcmp(back, src, SRC_SIZE)) { printf("DEFECT : the frame decodes to something else\n"); return 1; }
                ZSTD_freeDCtx(dctx);
            }
            ZSTD_freeCCtx(cctx);
            free(dst);
    }   }
    printf("OK : round trip\n");
    return 0;
}
