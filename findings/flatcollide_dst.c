/* obs_1.c - defect of the UNMODIFIED tree (C19, "--rm must not delete a source unless an output reproduces it").
 *
 * With --output-dir-flat and --rm, decompression refuses to proceed when two sources would be written to the
 * same file of the output directory, but the check (FIO_checkFilenameCollisions, programs/fileio.c) compares the
 * base names of the SOURCES. Two sources with different names and the same DESTINATION name are not seen :
 *     a/x.tar.zst  -> out/x.tar
 *     b/x.tzst     -> out/x.tar      (.tzst is expanded to .tar)
 * With -f the second output replaces the first one, and --rm has already deleted the first source :
 * the content of a/x.tar.zst no longer exists anywhere, and zstd exits 0.
 *
 * Build :  make -C /tmp/seed5-C19/programs zstd
 *          cc -O2 -Wall -o /tmp/seed5-C19/_seed/obs_1 /tmp/seed5-C19/_seed/obs_1.c
 * Run   :  /tmp/seed5-C19/_seed/obs_1 [/tmp/seed5-C19/programs/zstd]
 *
 * Observed output on the unmodified tree (exit 1) :
 *     zstd -d -f --rm --output-dir-flat out a/x.tar.zst b/x.tzst : exit status 0
 *     a/x.tar.zst exists : no
 *     b/x.tzst    exists : no
 *     out/x.tar   holds  : "content of B, different"
 *     DEFECT : "content of A" was deleted with its source and is in no output file
 */
#define _GNU_SOURCE
#include <stdio.h>
#include <stdlib.h>
#include <string.h>
#include <unistd.h>
#include <sys/stat.h>
#include <sys/wait.h>

static const char* g_zstd = "/tmp/seed5-C19/programs/zstd";

static int run(const char* cmd)
{
    int const st = system(cmd);
    return WIFEXITED(st) ? WEXITSTATUS(st) : 128;
}

static void put(const char* name, const char* content)
{
    FILE* const f = fopen(name, "wb");
    if (!f) { perror(name); exit(2); }
    fputs(content, f);
    fclose(f);
}

int main(int argc, char** argv)
{
    char dir[] = "/tmp/c19obs1XXXXXX";
    char cmd[1024], got[128] = "";
    int status;
    if (argc > 1) g_zstd = argv[1];
    if (!mkdtemp(dir) || chdir(dir)) { perror("mkdtemp"); return 2; }
    mkdir("a", 0755); mkdir("b", 0755); mkdir("out", 0755);
    put("a/x.tar", "content of A");
    put("b/x.tar", "content of B, different");
    snprintf(cmd, sizeof(cmd), "%s -q a/x.tar -o a/x.tar.zst && %s -q b/x.tar -o b/x.tzst && rm a/x.tar b/x.tar", g_zstd, g_zstd);
    if (run(cmd)) { fprintf(stderr, "setup failed\n"); return 2; }

    snprintf(cmd, sizeof(cmd), "%s -q -d -f --rm --output-dir-flat out a/x.tar.zst b/x.tzst", g_zstd);
    status = run(cmd);
    printf("zstd -d -f --rm --output-dir-flat out a/x.tar.zst b/x.tzst : exit status %d\n", status);
    printf("a/x.tar.zst exists : %s\n", access("a/x.tar.zst", F_OK) ? "no" : "yes");
    printf("b/x.tzst    exists : %s\n", access("b/x.tzst", F_OK) ? "no" : "yes");
    {   FILE* const f = fopen("out/x.tar", "rb");
        if (f) { size_t const n = fread(got, 1, sizeof(got)-1, f); got[n] = 0; fclose(f); }
    }
    printf("out/x.tar   holds  : \"%s\"\n", got);
    if (access("a/x.tar.zst", F_OK) && strcmp(got, "content of A")) {
        printf("DEFECT : \"content of A\" was deleted with its source and is in no output file\n");
        return 1;
    }
    printf("ok : the content of A is still available\n");
    return 0;
}
