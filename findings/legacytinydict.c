/* obs_5: v0.5 / v0.6 legacy decoders read 4 bytes of a 1..3 byte dictionary.
 * ZSTDv05_decompress_insertDictionary() / ZSTDv06_decompress_insertDictionary() start with
 * MEM_readLE32(dict) whatever dictSize is (the v0.7 and the current decoders test dictSize < 8 first).
 * call: ZSTD_decompress_usingDict(dctx, dst, cap, <any v0.5 or v0.6 frame>, n, dict, 1)
 *       (same through ZSTD_DCtx_loadDictionary + ZSTD_decompressStream -> ZSTD_initLegacyStream)
 * build: clang -g -O1 -fsanitize=address -DZSTD_LEGACY_SUPPORT=5 -DZSTD_DISABLE_ASM -I lib -I lib/common -I lib/legacy _seed/obs_5.c \
 *          lib/common/*.c lib/decompress/*.c lib/legacy/zstd_v0[567].c -o _seed/obs_5
 * result: AddressSanitizer heap-buffer-overflow READ of size 4 (1-byte region) in ZSTDv05_decompress_insertDictionary
 * cause: lib/legacy/zstd_v05.c:3665 and lib/legacy/zstd_v06.c:3805
 */
#include "zstd.h"
#include <stdio.h>
#include <stdlib.h>
#include <string.h>
#define main legacy_main
#include "../tests/legacy.c"     /* COMPRESSED : hard-coded frames of v0.4 .. v0.8 */
#undef main

int main(int argc, char** argv)
{
    int const v = (argc > 1) ? atoi(argv[1]) : 5;
    char magic[4] = { (char)(0x20 + v), (char)0xB5, 0x2F, (char)0xFD };
    char next[4]  = { (char)(0x21 + v), (char)0xB5, 0x2F, (char)0xFD };
    size_t s = 0, e = 0, k;
    char dst[4096];
    char* dict = malloc(1);
    ZSTD_DCtx* d = ZSTD_createDCtx();
    size_t r;
    for (k = 0; k + 4 <= COMPRESSED_SIZE; k++) {
        if (!memcmp(COMPRESSED + k, magic, 4)) s = k;
        if (!memcmp(COMPRESSED + k, next, 4)) e = k;
    }
    dict[0] = 'x';
    r = ZSTD_decompress_usingDict(d, dst, sizeof dst, COMPRESSED + s, e - s, dict, 1);
    printf("v0.%d frame, 1-byte dictionary -> %s\n", v, ZSTD_isError(r) ? ZSTD_getErrorName(r) : "ok");
    ZSTD_freeDCtx(d); free(dict);
    return 0;
}
