#define ZSTD_STATIC_LINKING_ONLY
#include "zstd.h"
#include <stdio.h>
#include <stdlib.h>
#include <string.h>
int main(void){
    size_t const N = 1000; char* src = malloc(N); memset(src, 'a', N);
    ZSTD_Sequence seqs[2] = { {0, 4, 0, 0}, {0,0,0,0} };
    seqs[0].offset = 1; seqs[0].litLength = 4; seqs[0].matchLength = N-4; /* block delimiter follows */
    seqs[1].offset = 0; seqs[1].litLength = 0; seqs[1].matchLength = 0;
    ZSTD_CCtx* c = ZSTD_createCCtx();
    ZSTD_CCtx_setParameter(c, ZSTD_c_blockDelimiters, ZSTD_sf_explicitBlockDelimiters);
    size_t cap = 10;               /* smaller than a frame header */
    char* dst = malloc(cap);
    size_t r = ZSTD_compressSequences(c, dst, cap, seqs, 2, src, N);
    printf("result: %s\n", ZSTD_isError(r) ? ZSTD_getErrorName(r) : "ok?!");
    ZSTD_freeCCtx(c); free(dst); free(src); return 0; }
