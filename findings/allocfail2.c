#define ZSTD_STATIC_LINKING_ONLY
#include "zstd.h"
#include <stdio.h>
#include <stdlib.h>
#include <string.h>
static int g_count, g_failAt, g_live;
static void* cAlloc(void* o, size_t s){ (void)o; if (++g_count == g_failAt) return NULL; char* p = malloc(s+64); if(!p) return NULL; g_live++; return p+64; }
static void cFree(void* o, void* p){ (void)o; if(!p) return; g_live--; free((char*)p-64); }
int main(void){
  size_t N=1<<20; char* src=malloc(N); for(size_t i=0;i<N;i++) src[i]=(char)((i*7)^(i>>8)); size_t cap=ZSTD_compressBound(N); char* dst=malloc(cap); char* back=malloc(N);
  char dict[4096]; memset(dict,'d',sizeof dict);
  size_t csz = ZSTD_compress(dst,cap,src,N,3);
  for (int scenario=0; scenario<4; scenario++) for (int n=1;n<40;n++){
    g_count=0; g_failAt=n; g_live=0; ZSTD_customMem cm={cAlloc,cFree,NULL}; const char* what=""; size_t r=0;
    if (scenario==0){ what="cdict+compress";
      ZSTD_CCtx* c=ZSTD_createCCtx_advanced(cm); ZSTD_CDict* cd=ZSTD_createCDict_advanced(dict,sizeof dict,ZSTD_dlm_byCopy,ZSTD_dct_rawContent,ZSTD_getCParams(3,0,sizeof dict),cm);
      if(c&&cd){ r=ZSTD_compress_usingCDict(c,back,N,src,1<<16,cd);} ZSTD_freeCDict(cd); ZSTD_freeCCtx(c); }
    if (scenario==1){ what="cctx loadDictionary+stream";
      ZSTD_CCtx* c=ZSTD_createCCtx_advanced(cm); if(c){ r=ZSTD_CCtx_loadDictionary(c,dict,sizeof dict); if(!ZSTD_isError(r)) r=ZSTD_compress2(c,back,N,src,1<<16); ZSTD_CCtx_reset(c,ZSTD_reset_session_only); if(ZSTD_isError(r)) { g_failAt=0; size_t r2=ZSTD_compress2(c,back,N,src,1<<16); if(ZSTD_isError(r2)) printf("  reuse after failure: %s\n",ZSTD_getErrorName(r2)); } } ZSTD_freeCCtx(c); }
    if (scenario==2){ what="dstream";
      ZSTD_DCtx* d=ZSTD_createDCtx_advanced(cm); if(d){ ZSTD_inBuffer in={dst,csz,0}; ZSTD_outBuffer out={back,1<<12,0}; r=1; while(r && !ZSTD_isError(r)){ out.pos=0; ZSTD_inBuffer piece={ (char*)in.src+in.pos, in.pos+777>in.size? in.size-in.pos:777, 0}; r=ZSTD_decompressStream(d,&out,&piece); in.pos+=piece.pos; if(in.pos>=in.size && out.pos==0 && piece.pos==0) break; } } ZSTD_freeDCtx(d); }
    if (scenario==3){ what="multi-ddict";
      ZSTD_DCtx* d=ZSTD_createDCtx_advanced(cm); ZSTD_DDict* dd=ZSTD_createDDict_advanced(dict,sizeof dict,ZSTD_dlm_byCopy,ZSTD_dct_rawContent,cm);
      if(d&&dd){ ZSTD_DCtx_setParameter(d,ZSTD_d_refMultipleDDicts,ZSTD_rmd_refMultipleDDicts); r=ZSTD_DCtx_refDDict(d,dd); if(!ZSTD_isError(r)) r=ZSTD_decompressDCtx(d,back,N,dst,csz);} ZSTD_freeDCtx(d); ZSTD_freeDDict(dd); }
    if (g_live!=0 || 0) printf("%s failAt=%d -> %s ; LIVE after free=%d\n", what, n, ZSTD_isError(r)?ZSTD_getErrorName(r):"ok", g_live);
    if (g_count < n) { printf("%s: %d allocations swept\n", what, n-1); break; }
  }
  return 0; }
