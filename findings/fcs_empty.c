#include "zstd.h"
#include <stdio.h>
#include <string.h>
int main(void){
    /* frame: magic, FHD=0x20 (single segment, 1-byte FCS), FCS=100, then an EMPTY last raw block */
    unsigned char f[] = {0x28,0xB5,0x2F,0xFD, 0x20, 100, 0x01,0x00,0x00};
    char out[256];
    size_t r = ZSTD_decompress(out, sizeof out, f, sizeof f);
    printf("one-shot: %s\n", ZSTD_isError(r) ? ZSTD_getErrorName(r) : "SUCCESS");
    ZSTD_DStream* d = ZSTD_createDStream();
    ZSTD_outBuffer o = { out, sizeof out, 0 };
    size_t ret = 1;
    for (size_t k = 0; k < sizeof f; k++) {            /* one byte at a time */
        ZSTD_inBuffer in = { f + k, 1, 0 };
        ret = ZSTD_decompressStream(d, &o, &in);
        if (ZSTD_isError(ret)) { printf("stream: error %s at byte %zu\n", ZSTD_getErrorName(ret), k); break; }
    }
    if (!ZSTD_isError(ret)) printf("stream: returned %zu after all bytes, produced %zu bytes (header promised 100)\n", ret, o.pos);
    ZSTD_freeDStream(d);
    return 0; }
