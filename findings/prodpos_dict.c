// obs_2.c - sequence validation (ZSTD_c_validateSequences=1) lets an external sequence producer reach a
//           dictionary that is out of the window : the emitted frame has offsets larger than Window_Size.
// Build (from the repository root, UNMODIFIED sources):
//   clang -g -O1 -fsanitize=address -DZSTD_DISABLE_ASM -I lib -I _seed _seed/obs_2.c lib/common/*.c lib/compress/*.c lib/decompress/*.c -o _seed/obs_2
//   ASAN_OPTIONS=detect_leaks=0 ./_seed/obs_2
//
// Cause : ZSTD_buildSeqStore() (lib/compress/zstd_compress.c:3339) starts every block with a fresh
//   ZSTD_sequencePosition seqPos = {0,0,0};
// so the `posInSrc` that ZSTD_validateSequence() (zstd_compress.c:6569) compares with the window size is the position
// inside the current BLOCK, not the amount of data decoded in the FRAME. Blocks are never larger than the window,
// hence `posInSrc > windowSize` is never true in this path and the bound is always `posInSrc + dictSize` :
// with a dictionary, offsets up to dictSize beyond the block start are accepted in every block of the frame,
// long after the frame has outgrown its window (format : "After the total output has surpassed Window_Size ...
// the dictionary is no longer accessible").
#define ZSTD_STATIC_LINKING_ONLY
#include "zstd.h"
#include "strict_check.h"

#define DICTSIZE 65536
#define SRCSIZE  8192
static unsigned char g_dict[DICTSIZE], g_src[SRCSIZE], g_dst[SRCSIZE * 2], g_out[SRCSIZE];
static const unsigned char* g_srcBase;

/* one sequence per block : 16 literals, then 200 bytes copied from the dictionary, at dictionary position P+1000
 * (P = position of the block in the frame); the rest of the block is literals */
static size_t producer(void* state, ZSTD_Sequence* outSeqs, size_t outSeqsCapacity, const void* src, size_t srcSize,
                       const void* dict, size_t dictSize, int level, size_t windowSize)
{
    size_t const P = (size_t)((const unsigned char*)src - g_srcBase);
    (void)state; (void)dict; (void)dictSize; (void)level; (void)windowSize; (void)outSeqsCapacity;
    if (srcSize < 300) return ZSTD_SEQUENCE_PRODUCER_ERROR;
    outSeqs[0].litLength = 16; outSeqs[0].matchLength = 200; outSeqs[0].rep = 0;
    outSeqs[0].offset = (unsigned)((P + 16) + (DICTSIZE - (P + 1000)));   /* == 16 + DICTSIZE - 1000 : constant, within posInBlock + dictSize */
    outSeqs[1].litLength = (unsigned)(srcSize - 216); outSeqs[1].matchLength = 0; outSeqs[1].offset = 0; outSeqs[1].rep = 0;
    return 2;
}

int main(void)
{
    ZSTD_CCtx* const cctx = ZSTD_createCCtx();
    size_t i, cSize; unsigned s = 12345;
    for (i = 0; i < DICTSIZE; i++) { s = s * 1103515245u + 12345u; g_dict[i] = (unsigned char)(s >> 16); }
    for (i = 0; i < SRCSIZE; i++) { s = s * 1103515245u + 12345u; g_src[i] = (unsigned char)(s >> 16); }
    for (i = 0; i < SRCSIZE; i += 1024) memcpy(g_src + i + 16, g_dict + i + 1000, 200);   /* what the producer's match regenerates */
    g_srcBase = g_src;

    ZSTD_CCtx_setParameter(cctx, ZSTD_c_windowLog, 10);            /* Window_Size = 1 KB, blocks of 1 KB */
    ZSTD_CCtx_setParameter(cctx, ZSTD_c_validateSequences, 1);     /* <- the library promises to refuse invalid sequences */
    ZSTD_CCtx_setParameter(cctx, ZSTD_c_enableSeqProducerFallback, 0);
    ZSTD_CCtx_loadDictionary_advanced(cctx, g_dict, DICTSIZE, ZSTD_dlm_byRef, ZSTD_dct_rawContent);
    ZSTD_registerSequenceProducer(cctx, NULL, producer);
    cSize = ZSTD_compress2(cctx, g_dst, sizeof(g_dst), g_src, SRCSIZE);
    printf("ZSTD_compress2 (windowLog=10, 64 KB raw dictionary, validateSequences=1) : %s\n", ZSTD_isError(cSize) ? ZSTD_getErrorName(cSize) : "accepted");
    if (ZSTD_isError(cSize)) { printf("sequences refused : no violation\n"); return 0; }
    {   ZSTD_DCtx* const d = ZSTD_createDCtx(); size_t r;
        ZSTD_DCtx_loadDictionary_advanced(d, g_dict, DICTSIZE, ZSTD_dlm_byRef, ZSTD_dct_rawContent);
        r = ZSTD_decompressDCtx(d, g_out, sizeof(g_out), g_dst, cSize);
        printf("library decoder : %s\n", ZSTD_isError(r) ? ZSTD_getErrorName(r) : (r == SRCSIZE && !memcmp(g_out, g_src, SRCSIZE)) ? "round trip ok" : "different content");
        ZSTD_freeDCtx(d); }
    {   char msg[300]; strict_expect_t e = strict_expect_default(); int v;
        e.dictIsRaw = 1;
        v = strict_verify(g_dst, cSize, g_dict, DICTSIZE, g_src, SRCSIZE, &e, msg, sizeof(msg));
        printf("specification decoder (doc/educational_decoder + C05 checks) : %s\n", v ? msg : "ok");
        printf("declared Window_Size = %llu, largest offset in the frame = %llu\n", g_strict.window_size, g_strict.max_offset_seen);
        ZSTD_freeCCtx(cctx);
        if (v) { printf("VIOLATION of C05 : the frame accepted by validateSequences=1 reaches %llu bytes back with a %llu-byte window, in blocks located beyond the first window\n",
                        g_strict.max_offset_seen, g_strict.window_size); return 1; }
    }
    return 0;
}
