#define ZSTD_STATIC_LINKING_ONLY
#define ZDICT_STATIC_LINKING_ONLY
#include "zstd.h"
#include "zdict.h"
#define XXH_NAMESPACE ZSTD_
#define XXH_STATIC_LINKING_ONLY
#include "common/xxhash.h"
#include <stdio.h>
#include <stdlib.h>
#include <string.h>
static ZSTD_DDict* mk(unsigned id){
  static char samples[64*200]; size_t sizes[64]; for(int i=0;i<64;i++){ sizes[i]=200; for(int j=0;j<200;j++) samples[i*200+j]=(char)('a'+((i*7+j*3)%26)); }
  char content[512]; memset(content,'q',sizeof content);
  char* dict = malloc(1<<16); ZDICT_params_t p; memset(&p,0,sizeof p); p.dictID=id;
  size_t ds = ZDICT_finalizeDictionary(dict, 1<<16, content, sizeof content, samples, sizes, 64, p);
  if (ZDICT_isError(ds)) { printf("finalize: %s\n", ZDICT_getErrorName(ds)); exit(2);} 
  ZSTD_DDict* d = ZSTD_createDDict(dict, ds); if(!d||ZSTD_getDictID_fromDDict(d)!=id){printf("ddict id mismatch\n"); exit(2);} free(dict); return d; }
int main(void){
  unsigned ids[3]; int n=0;
  for (unsigned id=32768; n<3 && id < (1u<<31); id++){ unsigned long long h = XXH64(&id, 4, 0); if ((h & 63) == 63) ids[n++]=id; }
  printf("ids hashing to the last slot: %u %u %u\n", ids[0], ids[1], ids[2]);
  ZSTD_DCtx* dctx = ZSTD_createDCtx();
  ZSTD_DCtx_setParameter(dctx, ZSTD_d_refMultipleDDicts, ZSTD_rmd_refMultipleDDicts);
  ZSTD_DDict* a = mk(ids[0]); ZSTD_DDict* b = mk(ids[1]);
  size_t r1 = ZSTD_DCtx_refDDict(dctx, a); size_t r2 = ZSTD_DCtx_refDDict(dctx, b);
  printf("ref: %s %s\n", ZSTD_isError(r1)?ZSTD_getErrorName(r1):"ok", ZSTD_isError(r2)?ZSTD_getErrorName(r2):"ok");
  ZSTD_freeDCtx(dctx); ZSTD_freeDDict(a); ZSTD_freeDDict(b); puts("done"); return 0; }
