#define ZSTD_STATIC_LINKING_ONLY
#include "zstd.h"
#include <stdio.h>
#include <stdlib.h>
#include <string.h>
int main(void){
  ZSTD_CCtx_params* p = ZSTD_createCCtxParams();
  ZSTD_CCtxParams_setParameter(p, ZSTD_c_compressionLevel, 3);
  ZSTD_CCtxParams_setParameter(p, ZSTD_c_enableLongDistanceMatching, 1);
  size_t est = ZSTD_estimateCCtxSize_usingCCtxParams(p);
  void* mem = aligned_alloc(64, (est+63)&~(size_t)63);
  ZSTD_CCtx* c = ZSTD_initStaticCCtx(mem, est);
  size_t N = 4<<20; char* src = malloc(N); for(size_t i=0;i<N;i++) src[i]=(char)(i*31>>3); size_t cap=ZSTD_compressBound(N); char* dst=malloc(cap);
  size_t r = c ? ZSTD_CCtx_setParametersUsingCCtxParams(c, p) : (size_t)-1;
  if (c && !ZSTD_isError(r)) r = ZSTD_compress2(c, dst, cap, src, N);
  printf("estimate=%zu ; static cctx %s ; compress2 -> %s\n", est, c?"created":"NOT created", ZSTD_isError(r)?ZSTD_getErrorName(r):"ok");
  return ZSTD_isError(r); }
