/* obs_1: POOL_tryAdd() reports success (1) for a job that is then silently dropped.
 * build: clang -g -O1 -fsanitize=address -DZSTD_MULTITHREAD -I lib -I lib/common _seed/obs_1.c lib/common/pool.c lib/common/threading.c lib/common/debug.c -lpthread -o _seed/obs_1
 * run:   _seed/obs_1      (exit 1 + message = violation reproduced)
 *
 * Program (inside the C12 grammar: a job that itself posts work, then free):
 *     pool = POOL_create(2, 1);  POOL_add(pool, J1);  POOL_free(pool);
 *     J1  := sleep a little ; r = POOL_tryAdd(pool, J2)
 * Schedule: POOL_free()/POOL_join() sets ctx->shutdown=1 while J1 is still running (it then
 * blocks in pthread_join until J1 ends). J1's POOL_tryAdd() finds the queue not full, calls
 * POOL_add_internal(), which does `if (ctx->shutdown) return;` (pool.c:281) without queuing -
 * and POOL_tryAdd() returns 1 (pool.c:310-312). Accepted job, executed 0 times.
 * The blocking POOL_add() drops the job the same way (and has no way to report it).
 */
#include <stdio.h>
#include <unistd.h>
#include "pool.h"

static POOL_ctx* g_pool;
static volatile int g_j2_ran = 0;
static volatile int g_try_result = -1;
static volatile int g_j3_ran = 0;

static void J2(void* p) { (void)p; g_j2_ran++; }
static void J3(void* p) { (void)p; g_j3_ran++; }
static void J1(void* p)
{
    (void)p;
    usleep(300 * 1000);              /* let the main thread enter POOL_free() */
    g_try_result = POOL_tryAdd(g_pool, J2, NULL);
    POOL_add(g_pool, J3, NULL);      /* blocking variant: same fate */
}

int main(void)
{
    g_pool = POOL_create(2, 1);
    if (!g_pool) return 2;
    POOL_add(g_pool, J1, NULL);
    usleep(50 * 1000);               /* J1 is running now */
    POOL_free(g_pool);               /* shutdown=1, waits for J1, joins */
    printf("POOL_tryAdd returned %d ; J2 executed %d time(s) ; J3 (POOL_add) executed %d time(s)\n",
           g_try_result, g_j2_ran, g_j3_ran);
    if (g_try_result == 1 && g_j2_ran != 1) {
        printf("VIOLATION: job accepted by POOL_tryAdd (returned 1) was never executed\n");
        return 1;
    }
    printf("ok\n");
    return 0;
}
