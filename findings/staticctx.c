/* same ZSTD_compress2 call on a heap context and on a caller-provided (static) context */
#define ZSTD_STATIC_LINKING_ONLY
#include "zstd.h"
#include <stdio.h>
#include <stdlib.h>
#include <string.h>
int main(void){
    size_t n=10000, i; char* src=malloc(n); for(i=0;i<n;i++) src[i]="abcdefgh"[(i*i>>3)&7];
    size_t cap=ZSTD_compressBound(n); char* a=malloc(cap); char* b=malloc(cap);
    ZSTD_CCtx* h=ZSTD_createCCtx();
    size_t wsz=ZSTD_estimateCCtxSize(3)+ (1<<20); void* w=malloc(wsz);
    ZSTD_CCtx* s=ZSTD_initStaticCCtx(w,wsz);
    size_t ra=ZSTD_compress2(h,a,cap,src,n), rb=ZSTD_compress2(s,b,cap,src,n);
    int va,vb; ZSTD_CCtx_getParameter(h,ZSTD_c_contentSizeFlag,&va); ZSTD_CCtx_getParameter(s,ZSTD_c_contentSizeFlag,&vb);
    printf("heap: %zu bytes, content size in header: %lld (contentSizeFlag=%d)\n",ra,(long long)ZSTD_getFrameContentSize(a,ra),va);
    printf("static: %zu bytes, content size in header: %lld (contentSizeFlag=%d)\n",rb,(long long)ZSTD_getFrameContentSize(b,rb),vb);
    printf("identical: %d\n", ra==rb && !memcmp(a,b,ra));
    return !(ra==rb && !memcmp(a,b,ra));
}
