/* obs_6 : ZSTD_compressSequences, ZSTD_sf_noBlockDelimiters, ZSTD_c_validateSequences=1 : a match that runs past the
 * end of the source (no 32-bit wrap involved) makes ZSTD_copySequencesToSeqStoreNoBlockDelim copy ~4 GB.
 * The last block starts inside the (already split) match and is shorter than minMatch, so the "do not split, move
 * the block end back to the start of the match" branch is taken (zstd_compress.c:6749
 * `bytesAdjustment = endPosInSequence - currSeq.litLength`) although the start of the match lies in an earlier
 * block : bytesAdjustment (131063 here) exceeds the block size (1), `iend -= bytesAdjustment` (:6786) moves iend
 * before ip, and `lastLLSize = (U32)(iend - ip)` (:6789) wraps -> ZSTD_storeLastLiterals memcpy of 0xFFFE0009 bytes.
 * The list is out of the documented *verdict* scope (lengths overrun the source) but not out of the
 * memory-safety promise made for validateSequences=1.
 *
 * build (from the worktree root):
 *   clang -g -O1 -fsanitize=address -DZSTD_MULTITHREAD -DZSTD_DISABLE_ASM -I lib -Wno-comment _seed/obs_6.c \
 *      lib/common/*.c lib/compress/*.c lib/decompress/*.c -lpthread -o _seed/obs_6
 */
#define ZSTD_STATIC_LINKING_ONLY
#include "zstd.h"
#include <stdio.h>
#include <stdlib.h>
#include <string.h>
int main(void)
{
    size_t const srcSize = (128 << 10) + 1;
    unsigned char* src = malloc(srcSize);
    size_t const dstCap = ZSTD_compressBound(srcSize);
    void* dst = malloc(dstCap);
    ZSTD_Sequence seq = { 5 /*offset*/, 10 /*litLength*/, 200000 /*matchLength*/, 0 };
    ZSTD_CCtx* cctx = ZSTD_createCCtx();
    size_t r, i;
    for (i = 0; i < srcSize; i++) src[i] = (unsigned char)(i % 5);
    ZSTD_CCtx_setParameter(cctx, ZSTD_c_blockDelimiters, ZSTD_sf_noBlockDelimiters);
    ZSTD_CCtx_setParameter(cctx, ZSTD_c_validateSequences, 1);
    r = ZSTD_compressSequences(cctx, dst, dstCap, &seq, 1, src, srcSize);
    printf("ZSTD_compressSequences -> %s\n", ZSTD_isError(r) ? ZSTD_getErrorName(r) : "accepted");
    ZSTD_freeCCtx(cctx); free(dst); free(src);
    return 0;
}
