/* pledged source size with nbWorkers >= 1 and several jobs */
#define ZSTD_STATIC_LINKING_ONLY
#include "zstd.h"
#include <stdio.h>
#include <stdlib.h>
#include <string.h>
static int run(int workers, size_t pledged, size_t total){
    size_t half=total/2, i; char* src=malloc(total); for(i=0;i<total;i++) src[i]=(char)(i*2654435761u>>24);
    size_t cap=ZSTD_compressBound(total)+1024; char* out=malloc(cap);
    ZSTD_CCtx* c=ZSTD_createCCtx();
    ZSTD_CCtx_setParameter(c,ZSTD_c_nbWorkers,workers);
    ZSTD_CCtx_setParameter(c,ZSTD_c_jobSize,1<<20);
    ZSTD_CCtx_setPledgedSrcSize(c,pledged);
    ZSTD_outBuffer o={out,cap,0}; size_t r; int steps=0;
    ZSTD_inBuffer in1={src,half,0};
    do { r=ZSTD_compressStream2(c,&o,&in1,ZSTD_e_continue); } while(!ZSTD_isError(r) && in1.pos<in1.size && ++steps<100000);
    if(!ZSTD_isError(r)){ ZSTD_inBuffer in2={src+half,total-half,0}; do { r=ZSTD_compressStream2(c,&o,&in2,ZSTD_e_end); } while(!ZSTD_isError(r) && r!=0 && ++steps<100000); }
    printf("workers=%d pledged=%zu supplied=%zu : %s", workers, pledged, total, ZSTD_isError(r)?ZSTD_getErrorName(r):"ACCEPTED");
    if(!ZSTD_isError(r)){ char* back=malloc(pledged>total?pledged:total); size_t d=ZSTD_decompress(back,pledged>total?pledged:total,out,o.pos);
        printf(" (header says %llu; decode: %s)", ZSTD_getFrameContentSize(out,o.pos), ZSTD_isError(d)?ZSTD_getErrorName(d):"ok"); }
    printf("\n"); ZSTD_freeCCtx(c); return !ZSTD_isError(r) && pledged!=total;
}
int main(void){ int bad=0; bad|=run(0,4u<<20,3u<<20); bad|=run(1,4u<<20,3u<<20); bad|=run(2,4u<<20,5u<<20); bad|=run(2,3u<<20,3u<<20); bad|=run(1,(4u<<20),(4u<<20)-1); return bad; }
