/* obs_1.c - defect of the UNMODIFIED tree (also present with the seed applied) :
 * ZSTD_decompressStream() cannot decode a legacy frame (v0.5 .. v0.7, ZSTD_LEGACY_SUPPORT=5 as in the
 * default library build) when the first call provides fewer than 5 bytes. The first bytes are copied into
 * zds->headerBuffer and checked against the v0.8 / skippable magic numbers only ("First few bytes detected
 * incorrect") ; legacy detection (ZSTD_isLegacy(istart, iend-istart)) is only attempted on the bytes of the
 * current call, and only once 5 bytes are available in it. The same stream decodes fine when the first
 * call gives >= 5 bytes, so the result depends on the segmentation of the input.
 *
 * Build (from the root of the worktree) :
 *   cc -O1 -g -w -DZSTD_DISABLE_ASM -DZSTD_LEGACY_SUPPORT=5 -Ilib -Ilib/common -Ilib/legacy \
 *      -o _seed/obs_1 _seed/obs_1.c lib/common/*.c lib/compress/*.c lib/decompress/*.c lib/legacy/*.c
 *
 * Observed output (unmodified tree) : see end of file.
 */
#include <stdio.h>
#include <string.h>
#include "zstd.h"

#define main legacy_test_main           /* only the v0.x frames of tests/legacy.c are wanted */
#include "../tests/legacy.c"
#undef main

static int decodeWithFirstChunk(const char* src, size_t srcSize, size_t first, char* dst, size_t dstCap, size_t* produced)
{
    ZSTD_DStream* const zds = ZSTD_createDStream();
    size_t pos = 0, out = 0, chunk = first;
    int frames = 0;
    while (pos < srcSize) {
        ZSTD_inBuffer in = { src + pos, (srcSize - pos < chunk) ? srcSize - pos : chunk, 0 };
        ZSTD_outBuffer o = { dst + out, dstCap - out, 0 };
        size_t const r = ZSTD_decompressStream(zds, &o, &in);
        if (ZSTD_isError(r)) {
            printf("first chunk = %u bytes : error '%s' after %u input bytes\n", (unsigned)first, ZSTD_getErrorName(r), (unsigned)(pos + in.pos));
            ZSTD_freeDStream(zds); return 1;
        }
        pos += in.pos; out += o.pos;
        if (r == 0) frames++;
        chunk = 4096;   /* everything else in large pieces */
    }
    ZSTD_freeDStream(zds);
    *produced = out;
    printf("first chunk = %u bytes : ok, %u frames, %u bytes\n", (unsigned)first, frames, (unsigned)out);
    return 0;
}

int main(void)
{
    static char out[8192];
    const char* start = NULL;
    size_t i, first, produced = 0;
    int bad = 0;
    for (i = 0; i + 4 <= COMPRESSED_SIZE; i++)
        if (!memcmp(COMPRESSED + i, "\x27\xB5\x2F\xFD", 4)) { start = COMPRESSED + i; break; }   /* v0.7 frame, followed by the v0.8 one */
    if (!start) return 2;
    for (first = 8; first >= 1; first--) {
        size_t const srcSize = COMPRESSED_SIZE - (size_t)(start - COMPRESSED);
        if (decodeWithFirstChunk(start, srcSize, first, out, sizeof(out), &produced)) bad++;
        else if (produced != 2 * (strlen(EXPECTED) / 5) || memcmp(out, EXPECTED, produced)) { printf("  wrong content\n"); bad++; }
    }
    return bad ? 1 : 0;
}

/* Observed output on the unmodified tree (exit status 1) :
 *   first chunk = 8 bytes : ok, 2 frames, 478 bytes
 *   first chunk = 7 bytes : ok, 2 frames, 478 bytes
 *   first chunk = 6 bytes : ok, 2 frames, 478 bytes
 *   first chunk = 5 bytes : ok, 2 frames, 478 bytes
 *   first chunk = 4 bytes : error 'Unknown frame descriptor' after 4 input bytes
 *   first chunk = 3 bytes : error 'Unknown frame descriptor' after 3 input bytes
 *   first chunk = 2 bytes : error 'Unknown frame descriptor' after 2 input bytes
 *   first chunk = 1 bytes : error 'Unknown frame descriptor' after 1 input bytes
 */
