/* obs_1.c - UNMODIFIED tree.
 * An MT frame whose job #0 is empty (src.size==0) is "complete" for
 * ZSTDMT_waitForAllJobsCompleted() before the worker has even started:
 * the completion test is (consumed < src.size), 0 < 0 is false.
 * Abandoning such a frame (ZSTD_CCtx_reset + new frame, or ZSTD_freeCCtx with a
 * shared thread pool) releases / zeroes / frees the job description while the
 * worker still uses it.
 *
 * build (from the worktree root):
 *   clang -g -O1 -fsanitize=address -DZSTD_MULTITHREAD -DZSTD_DISABLE_ASM -I lib \
 *       _seed/obs_1.c lib/common/[a-z]*.c lib/compress/[a-z]*.c lib/decompress/[a-z]*.c -lpthread -o _seed/obs_1
 *   (also try -fsanitize=thread)
 * run: _seed/obs_1 [mode]    mode 0: reset + new frame   mode 1: free cctx with a shared ZSTD_threadPool
 */
#ifndef ZSTD_STATIC_LINKING_ONLY
#define ZSTD_STATIC_LINKING_ONLY
#endif
#include "zstd.h"
#include <stdio.h>
#include <stdlib.h>
#include <string.h>

#define CHECK(e) do { size_t const r_ = (e); if (ZSTD_isError(r_)) { printf("line %d: %s\n", __LINE__, ZSTD_getErrorName(r_)); exit(2); } } while (0)

int main(int argc, char** argv)
{
    int const mode = argc > 1 ? atoi(argv[1]) : 0;
    int iter;
    size_t const srcSize = 3u << 20;
    char* const src = (char*)malloc(srcSize);
    size_t const dstCap = ZSTD_compressBound(srcSize);
    char* const dst = (char*)malloc(dstCap);
    char* const back = (char*)malloc(srcSize);
    ZSTD_threadPool* const tp = mode ? ZSTD_createThreadPool(2) : NULL;
    { size_t i; unsigned s = 1; for (i = 0; i < srcSize; i++) { s = s * 1103515245u + 12345u; src[i] = (char)((s >> 16) % 23); } }

    for (iter = 0; iter < 200; iter++) {
        ZSTD_CCtx* const cctx = ZSTD_createCCtx();
        ZSTD_inBuffer in = { src, 0, 0 };
        ZSTD_outBuffer out = { dst, dstCap, 0 };
        size_t r;
        if (tp) CHECK(ZSTD_CCtx_refThreadPool(cctx, tp));
        CHECK(ZSTD_CCtx_setParameter(cctx, ZSTD_c_nbWorkers, 2));
        CHECK(ZSTD_CCtx_setParameter(cctx, ZSTD_c_compressionLevel, 19));
        /* frame 1 : nothing to compress. First call only starts the (MT) session */
        CHECK(ZSTD_compressStream2(cctx, &out, &in, ZSTD_e_flush));
        /* end the frame, but leave no room : job #0 (empty) is posted, nothing can be flushed */
        out.size = 0;
        r = ZSTD_compressStream2(cctx, &out, &in, ZSTD_e_end);
        CHECK(r);
        if (mode == 1) {   /* give up : free */
            ZSTD_freeCCtx(cctx);
            continue;
        }
        /* give up : reset, and compress something else with the same context */
        CHECK(ZSTD_CCtx_reset(cctx, ZSTD_reset_session_only));
        {   ZSTD_inBuffer in2 = { src, srcSize, 0 };
            ZSTD_outBuffer out2 = { dst, dstCap, 0 };
            do { r = ZSTD_compressStream2(cctx, &out2, &in2, ZSTD_e_end); CHECK(r); } while (r);
            {   size_t const d = ZSTD_decompress(back, srcSize, dst, out2.pos);
                if (ZSTD_isError(d) || d != srcSize || memcmp(back, src, srcSize)) {
                    printf("iter %d: second frame does not decode: %s\n", iter, ZSTD_isError(d) ? ZSTD_getErrorName(d) : "content differs");
                    return 1;
                }
            }
        }
        ZSTD_freeCCtx(cctx);
    }
    ZSTD_freeThreadPool(tp);
    free(src); free(dst); free(back);
    printf("done, nothing observed\n");
    return 0;
}
