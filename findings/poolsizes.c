/* obs_3: unchecked size arithmetic in POOL_create_advanced() (reachable through the public
 * ZSTD_createThreadPool()).
 * build: clang -g -O1 -fsanitize=address -DZSTD_MULTITHREAD -I lib -I lib/common _seed/obs_3.c lib/common/pool.c lib/common/threading.c lib/common/debug.c -lpthread -o _seed/obs_3
 * run:   _seed/obs_3 1   -> ZSTD_createThreadPool(2^61+1): `numThreads * sizeof(ZSTD_pthread_t)` (pool.c:146)
 *                          wraps to 8 bytes; the creation loop (pool.c:152-153) keeps creating threads
 *                          and stores their handles past the 8-byte array (the store is made inside
 *                          libc's pthread_create, so ASAN only sees it when it reaches unmapped
 *                          memory): "AddressSanitizer: SEGV ... WRITE" in pthread_create <- pool.c:153
 *                          after some thousands of threads
 *        _seed/obs_3 2   -> POOL_create(1, SIZE_MAX/16): `ctx->queueSize * sizeof(POOL_job)` (pool.c:131)
 *                          wraps to 0 bytes; the first POOL_add() writes queue[0] (pool.c:284):
 *                          ASAN heap-buffer-overflow
 *        _seed/obs_3 3   -> POOL_create(1, SIZE_MAX): `queueSize + 1` (pool.c:130) wraps to 0;
 *                          zero-sized queue: POOL_add() writes queue[0] (pool.c:284, ASAN
 *                          heap-buffer-overflow) and then computes `% ctx->queueSize` with
 *                          queueSize==0 (pool.c:285): SIGFPE in a build without ASAN
 */
#include <stdio.h>
#include <stdlib.h>
#include <stdint.h>
#define ZSTD_STATIC_LINKING_ONLY
#include "zstd.h"
#include "pool.h"

static void nop(void* p) { (void)p; }

int main(int argc, char** argv)
{
    int const mode = argc > 1 ? atoi(argv[1]) : 1;
    if (mode == 1) {
        ZSTD_threadPool* const tp = ZSTD_createThreadPool(((size_t)1 << 61) + 1);
        printf("ZSTD_createThreadPool returned %p\n", (void*)tp);
        ZSTD_freeThreadPool(tp);
    } else if (mode == 2) {
        POOL_ctx* const p = POOL_create(1, SIZE_MAX / 16);
        printf("POOL_create(1, SIZE_MAX/16) returned %p\n", (void*)p);
        if (p) { POOL_add(p, nop, NULL); POOL_free(p); }
    } else {
        POOL_ctx* const p = POOL_create(1, SIZE_MAX);
        printf("POOL_create(1, SIZE_MAX) returned %p\n", (void*)p);
        fflush(stdout);
        if (p) { POOL_add(p, nop, NULL); POOL_free(p); }
    }
    return 0;
}
