/* ZDICT_addEntropyTablesFromBuffer with fewer than 8 content bytes */
#define ZDICT_STATIC_LINKING_ONLY
#define ZDICT_DISABLE_DEPRECATE_WARNINGS
#define ZSTD_STATIC_LINKING_ONLY
#include "zdict.h"
#include "zstd.h"
#include <stdio.h>
#include <stdlib.h>
#include <string.h>
int main(int argc,char**argv){
    size_t content = argc>1 ? (size_t)atoi(argv[1]) : 4;
    unsigned ns=100, i; size_t* sz=malloc(ns*sizeof*sz); size_t tot=0; char* buf=malloc(ns*600);
    for(i=0;i<ns;i++){ size_t k, n=300+(i*37)%300; sz[i]=n; for(k=0;k<n;k++) buf[tot+k]="the quick brown fox jumps over the lazy dog 0123456789"[(k*(i%7+1)+i)%54]; tot+=n; }
    size_t cap=4096; char* d=calloc(1,cap);
    memcpy(d+cap-content,"abcdefghijklmnopqrstuvwxyzabcdefghijklmnopqrstuvwxyzabcdefghijklmnopqrstuvwxyzabcdefghijklmnopqrstuvwxyzabcdefghijklmnopqrstuvwxyz",content);
    size_t r=ZDICT_addEntropyTablesFromBuffer(d,content,cap,buf,sz,ns);
    printf("content %zu bytes: addEntropyTables -> %zu (%s)\n",content,r,ZDICT_getErrorName(r));
    if(!ZDICT_isError(r)){
        ZSTD_CDict* c=ZSTD_createCDict(d,r,3); ZSTD_DDict* dd=ZSTD_createDDict(d,r);
        printf("dictID %u, header size: %s, CDict %s, DDict %s\n",ZDICT_getDictID(d,r),ZDICT_getErrorName(ZDICT_getDictHeaderSize(d,r)),c?"loads":"REFUSED",dd?"loads":"REFUSED");
        return !(c&&dd);
    }
    return 0;
}
