/* obs_8 (minor) : explicit block delimiters, ZSTD_c_validateSequences=1 : blocks described after the end of the source are
 * never looked at, so a list whose block lengths add up to MORE than the source is accepted as long as a block boundary
 * falls exactly on the end of the source : the loop of ZSTD_compressSequences_internal (zstd_compress.c:6904 `while (remaining)`,
 * :6982 `if (lastBlock) break;`) stops there and neither determine_blockSize (:6857) nor the caller compares seqPos.idx
 * with inSeqsSize afterwards.  (Lists that are too SHORT are refused : "Reached end of sequences without finding a block delimiter".)
 * The frame decodes to the source; only the verdict ("block lengths that disagree with the source => error") is off.
 *
 * build (from the worktree root):
 *   clang -g -O1 -fsanitize=address -DZSTD_MULTITHREAD -DZSTD_DISABLE_ASM -I lib -Wno-comment _seed/obs_8.c \
 *      lib/common/*.c lib/compress/*.c lib/decompress/*.c -lpthread -o _seed/obs_8
 */
#define ZSTD_STATIC_LINKING_ONLY
#include "zstd.h"
#include <stdio.h>
#include <string.h>
int main(void)
{
    char src[1000], dst[2000]; size_t i, r; int k, bad = 0;
    /* offset, litLength, matchLength, rep */
    ZSTD_Sequence seqs[5] = { {7, 7, 493, 0}, {0, 500, 0, 0},           /* block 1 : exactly the 1000 bytes of the source */
                              {9, 20, 300, 0}, {0xFFFFFF00u, 1, 2, 0}, {0, 77, 0, 0} };   /* block 2 : 400 more bytes, with an invalid sequence */
    for (i = 0; i < 1000; i++) src[i] = (char)(i < 500 ? i % 7 : (i * 2654435761u) >> 24);
    for (k = 2; k <= 5; k += 3) {
        ZSTD_CCtx* c = ZSTD_createCCtx();
        ZSTD_CCtx_setParameter(c, ZSTD_c_blockDelimiters, ZSTD_sf_explicitBlockDelimiters);
        ZSTD_CCtx_setParameter(c, ZSTD_c_validateSequences, 1);
        r = ZSTD_compressSequences(c, dst, sizeof(dst), seqs, (size_t)k, src, 1000);
        printf("%d entries (blocks describe %d bytes, source has 1000) : %s\n", k, k == 2 ? 1000 : 1400, ZSTD_isError(r) ? ZSTD_getErrorName(r) : "accepted");
        if (k == 5 && !ZSTD_isError(r)) bad = 1;
        ZSTD_freeCCtx(c);
    }
    return bad;
}
