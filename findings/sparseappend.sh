#!/bin/sh
# C19: explicit --sparse with stdout redirected in append mode.
# Before b2115f1: exit 0 and every run of zeroes is missing from `out`.
# usage: sparseappend.sh /path/to/zstd
Z=${1:-zstd}; T=$(mktemp -d); cd "$T" || exit 2
python3 -c "
import os
open('z','wb').write(b''.join(os.urandom(3000)+bytes(70000) for _ in range(4)))"
"$Z" -q z -o z.zst; : > out
"$Z" -dc --sparse z.zst >> out; echo "exit=$?"
cmp out z && echo "OK: identical" || echo "SILENT DAMAGE: $(wc -c < out) bytes written, $(wc -c < z) expected"
cd /; rm -rf "$T"
