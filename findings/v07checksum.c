// obs_1.c - UNMODIFIED tree, legacy support enabled (the default of `make -C lib` and of the CLI : ZSTD_LEGACY_SUPPORT=5)
//
// build (from the worktree root):
//   clang -g -O1 -fsanitize=address -DZSTD_LEGACY_SUPPORT=5 -DZSTD_DISABLE_ASM -I lib -I lib/common -I lib/legacy _seed/obs_1.c lib/common/*.c lib/compress/*.c lib/decompress/*.c lib/legacy/*.c -o _seed/obs_1
//
// A v0.7 frame carries a 22-bit checksum (XXH64>>11) in its end-of-frame mark and may carry a content size.
//  (a) one-shot decoding (ZSTD_decompress -> ZSTD_decompressLegacy -> ZSTDv07_decompressFrame, lib/legacy/zstd_v07.c:3784-3801)
//      feeds the XXH64 state (:3795) but never compares it : damaged content and a damaged stored checksum are
//      both accepted, altered bytes are returned as a success.
//      The streaming path (ZSTD_decompressStream -> ZBUFFv07 -> ZSTDv07_decompressContinue, :3972-3979) does compare it.
//  (b) streaming decoding of legacy frames (ZBUFFv07_decompressContinue, zstd_v07.c:4409-4415; v0.5/v0.6 look the same but were not reproduced) never
//      compares the regenerated size with the frame content size of the header : it returns 0 ("frame complete").
//      One-shot decoding does compare it (lib/decompress/zstd_decompress.c:1107-1112).
// exit status: 0 = nothing observed, 1 = violation(s) observed
#include <stdio.h>
#include <string.h>
#include <stdlib.h>
#define ZSTD_STATIC_LINKING_ONLY
#include "zstd.h"
#define XXH_STATIC_LINKING_ONLY
#include "xxhash.h"

#define N 40
static unsigned char frame[5 + 1 + 3 + N + 3];
static size_t const frameSize = sizeof(frame);

static void mkframe(unsigned fcs, const unsigned char* payload)
{
    unsigned char* p = frame;
    unsigned long long const h = XXH64(payload, N, 0);
    unsigned const c22 = (unsigned)(h >> 11) & ((1u<<22)-1);
    p[0]=0x27; p[1]=0xB5; p[2]=0x2F; p[3]=0xFD;      /* v0.7 magic */
    p[4]=0x24;                                        /* single segment + checksum, 1-byte content size */
    p[5]=(unsigned char)fcs;
    p[6]=0x40; p[7]=0; p[8]=N;                        /* raw block, N bytes */
    memcpy(p+9, payload, N);
    p[9+N]   = (unsigned char)(0xC0 | (c22>>16));     /* end mark + checksum */
    p[9+N+1] = (unsigned char)(c22>>8);
    p[9+N+2] = (unsigned char)c22;
}

static size_t oneshot(unsigned char* out, size_t cap) { return ZSTD_decompress(out, cap, frame, frameSize); }

/* returns 0 when the stream reported "frame complete", else the error / last hint */
static size_t stream(unsigned char* out, size_t cap, size_t* produced, size_t chunk)
{
    ZSTD_DCtx* const d = ZSTD_createDCtx();
    ZSTD_outBuffer o = { out, cap, 0 };
    size_t pos = 0, r = 1; int steps = 0;
    while (pos < frameSize && steps++ < 1000) {
        size_t const n = (frameSize - pos < chunk) ? frameSize - pos : chunk;
        ZSTD_inBuffer in = { frame + pos, n, 0 };
        r = ZSTD_decompressStream(d, &o, &in);
        if (ZSTD_isError(r)) break;
        pos += in.pos;
        if (r == 0) break;
        if (in.pos == 0 && n == chunk && chunk == frameSize) break;
    }
    *produced = o.pos;
    ZSTD_freeDCtx(d);
    return r;
}

int main(void)
{
    unsigned char payload[N], out[256]; size_t i, prod; int bad = 0;
    for (i=0;i<N;i++) payload[i] = (unsigned char)(i*7+3);

    mkframe(N, payload);
    {   size_t const r1 = oneshot(out, sizeof out);
        size_t const r2 = stream(out, sizeof out, &prod, 7);
        printf("valid v0.7 frame        : one-shot -> %s (%zu), stream -> %s (%zu bytes)\n",
               ZSTD_isError(r1)?ZSTD_getErrorName(r1):"ok", r1, ZSTD_isError(r2)?ZSTD_getErrorName(r2):(r2?"incomplete":"ok"), prod);
        if (r1 != N || r2 != 0 || prod != N) { printf("reference frame not accepted, test is void\n"); return 2; }
    }

    /* (a1) content damaged */
    mkframe(N, payload); frame[9+5] ^= 0x10;
    {   size_t const r1 = oneshot(out, sizeof out);
        size_t const r2 = stream(out, sizeof out, &prod, 7);
        printf("content byte flipped    : one-shot -> %s, stream -> %s\n",
               ZSTD_isError(r1)?ZSTD_getErrorName(r1):"ACCEPTED (altered bytes returned)", ZSTD_isError(r2)?ZSTD_getErrorName(r2):"ACCEPTED");
        if (!ZSTD_isError(r1)) bad = 1;
        if (!ZSTD_isError(r2)) bad = 1;
    }
    /* (a2) stored checksum damaged, every one of its 22 bits */
    {   int accepted1 = 0, accepted2 = 0, b;
        for (b=0; b<22; b++) {
            mkframe(N, payload);
            frame[9+N+2-(b/8)] ^= (unsigned char)(1u << (b%8));
            if (!ZSTD_isError(oneshot(out, sizeof out))) accepted1++;
            if (!ZSTD_isError(stream(out, sizeof out, &prod, 7))) accepted2++;
        }
        printf("stored checksum bit flip: one-shot accepted %d/22, stream accepted %d/22\n", accepted1, accepted2);
        if (accepted1 || accepted2) bad = 1;
    }
    /* (b) content size lies (checksum is right) */
    {   unsigned lies[3] = { N+1, N-1, 200 }; int k;
        for (k=0;k<3;k++) {
            size_t r1, r2;
            mkframe(lies[k], payload);
            r1 = oneshot(out, sizeof out);
            r2 = stream(out, sizeof out, &prod, 7);
            printf("content size %3u, real %d: one-shot -> %s, stream -> %s (%zu bytes)\n", lies[k], N,
                   ZSTD_isError(r1)?ZSTD_getErrorName(r1):"ACCEPTED",
                   ZSTD_isError(r2)?ZSTD_getErrorName(r2):(r2==0?"ACCEPTED (returned 0)":"incomplete"), prod);
            if (!ZSTD_isError(r1)) bad = 1;
            if (r2 == 0) bad = 1;
        }
    }
    printf(bad ? "VIOLATION observed\n" : "nothing observed\n");
    return bad;
}
