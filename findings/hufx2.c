// demo.c - literals-section sweep for the zstd decoder (property C04).
//
// Build + run, from the root of the worktree (about 1 minute to build, 5 seconds to run):
//
//   clang -g -O1 -fsanitize=address,undefined -fno-sanitize-recover=undefined -DZSTD_MULTITHREAD -I lib -I lib/common -I lib/compress _seed/demo.c lib/common/*.c lib/compress/*.c lib/decompress/*.c lib/decompress/huf_decompress_amd64.S -lpthread -o /tmp/c04_demo && /tmp/c04_demo
//
// (gcc works as well; the sanitizers are optional; add -DZSTD_DISABLE_ASM and drop the .S
//  file to run the C fast loops instead of the x86-64 assembly.)
//
/*
 * What it does
 * ------------
 * It hand-assembles small, specification-valid Zstandard frames whose
 * blocks carry a Literals_Section and no sequence, so that the content the
 * specification defines for the frame is known by construction: it is the
 * concatenation of the literals.  Every way the format allows to code a
 * literals section is swept:
 *     Raw / RLE literals with each Size_Format (1, 2, 3 byte headers),
 *     Huffman literals with 1 stream and with 4 streams, with each
 *     Size_Format that can hold the sizes, alphabets from 2 to 256 symbols,
 *     flat and skewed statistics, regenerated sizes from 2 bytes upwards,
 *     Treeless literals re-using the table of the previous block,
 * inside frames with / without Frame_Content_Size, with / without checksum
 * and with various window sizes.  The Huffman coder is driven WITHOUT the
 * "is it worth it" filter of the bundled compressor, so the sweep also
 * contains what the format allows but zstd itself never writes: 4 streams
 * for a handful of literals, streams of a few bytes, Huffman sections that
 * are not smaller than what they regenerate, ...
 *
 * Each frame is decoded through every public decoding path
 *     ZSTD_decompress (exact capacity / with slack), ZSTD_decompressDCtx on
 *     a re-used context, with ZSTD_d_disableHuffmanAssembly,
 *     ZSTD_decompressStream under several input / output segmentations,
 *     ZSTD_d_stableOutBuffer, and the buffer-less ZSTD_decompressContinue
 * and each result must be a success and equal to the expected content.
 *
 * exit 0 : every path returned the specified content for every frame.
 * exit 1 : at least one (frame, path) failed or returned something else.
 */
#define ZSTD_STATIC_LINKING_ONLY
#define ZSTD_DISABLE_DEPRECATE_WARNINGS
#include <stdio.h>
#include <stdlib.h>
#include <string.h>
#include <unistd.h>
#include <sys/types.h>
#include <sys/wait.h>
#include "zstd.h"
#include "common/huf.h"
#include "common/xxhash.h"
#include "compress/hist.h"

#define NB_CASES      6000
#define BATCH         50
#define MAX_CONTENT   (3 * 40000)
#define MAX_FRAME     (4 * MAX_CONTENT + 4096)

/* ---------- tiny PRNG ---------- */
static unsigned long long g_rng = 0x9E3779B97F4A7C15ULL;
static unsigned rnd(void)
{
    g_rng ^= g_rng << 13; g_rng ^= g_rng >> 7; g_rng ^= g_rng << 17;
    return (unsigned)(g_rng >> 16);
}
static unsigned rndRange(unsigned lo, unsigned hi) { return lo + rnd() % (hi - lo + 1); }

/* ---------- frame writer ---------- */
typedef unsigned char BYTE;
static BYTE  g_frame[MAX_FRAME];
static BYTE  g_expected[MAX_CONTENT];
static BYTE  g_out[MAX_CONTENT + (1 << 18)];
static char  g_desc[512];

static void putLE(BYTE* p, unsigned long long v, int n) { int i; for (i = 0; i < n; i++) p[i] = (BYTE)(v >> (8*i)); }

typedef enum { lt_raw = 0, lt_rle = 1, lt_huf = 2, lt_treeless = 3 } litType;

static HUF_CElt g_ctable[HUF_CTABLE_SIZE_ST(255)];
static unsigned g_ctableLog;
static unsigned g_ctableMaxSym;
static int      g_ctableValid;
static BYTE     g_tableSymbols[256];   /* symbols that own a code in g_ctable */
static unsigned g_nbTableSymbols;
static unsigned g_wksp[HUF_WORKSPACE_SIZE_U64 * 2 + HUF_CTABLE_WORKSPACE_SIZE_U32];

/* encodes src as one backward Huffman bitstream; returns its size */
static size_t huf1(BYTE* dst, size_t cap, const BYTE* src, size_t n)
{
    size_t const r = HUF_compress1X_usingCTable(dst, cap, src, n, g_ctable, 0);
    if (HUF_isError(r) || r == 0) { fprintf(stderr, "demo: internal: stream encoder refused (%zu symbols)\n", n); exit(2); }
    return r;
}

/* 4 streams + jump table, laid out as the specification says, for any n >= 6 */
static size_t huf4(BYTE* dst, size_t cap, const BYTE* src, size_t n)
{
    size_t const seg = (n + 3) / 4;
    BYTE* op = dst + 6;
    int s;
    for (s = 0; s < 4; s++) {
        size_t const start = seg * (size_t)s;
        size_t const len = (s < 3) ? seg : n - 3 * seg;
        size_t const c = huf1(op, cap - (size_t)(op - dst), src + start, len);
        if (c > 65535) { fprintf(stderr, "demo: internal: stream too large\n"); exit(2); }
        if (s < 3) putLE(dst + 2*s, c, 2);
        op += c;
    }
    return (size_t)(op - dst);
}

/* Writes one literals section; returns its size. *typePtr may be changed when the
 * requested coding cannot represent the data. */
static size_t writeLiterals(BYTE* dst, size_t cap, const BYTE* lits, size_t n, litType type, int fourStreams, char* what, size_t whatCap)
{
    if (type == lt_raw || type == lt_rle) {
        unsigned sf;
        size_t lh;
        if (n < 32) sf = rnd() % 4; else if (n < 4096) sf = (rnd() & 1) ? 1 : 3; else sf = 3;
        if (sf == 0 || sf == 2) { dst[0] = (BYTE)(type | (n << 3)); lh = 1; sf = (unsigned)((n & 1) << 1); }   /* 1-byte header: bit 3 already belongs to the size */
        else if (sf == 1)       { putLE(dst, type | (1u << 2) | (n << 4), 2); lh = 2; }
        else                    { putLE(dst, type | (3u << 2) | (n << 4), 3); lh = 3; }
        if (type == lt_raw) { memcpy(dst + lh, lits, n); snprintf(what, whatCap, "raw(sf%u,%zu)", sf, n); return lh + n; }
        dst[lh] = lits[0]; snprintf(what, whatCap, "rle(sf%u,%zu)", sf, n); return lh + 1;
    }
    {   BYTE* const payload = dst + 5;   /* moved down afterwards */
        size_t hSize = 0, cSize;
        unsigned sf;
        size_t lh;
        if (type == lt_huf) {
            unsigned count[256];
            unsigned maxSym = 255;
            size_t const largest = HIST_count(count, &maxSym, lits, n);
            size_t maxBits;
            unsigned s;
            if (HIST_isError(largest) || largest == n) { fprintf(stderr, "demo: internal: bad histogram\n"); exit(2); }
            maxBits = HUF_buildCTable_wksp(g_ctable, count, maxSym, 11, g_wksp, sizeof(g_wksp));
            if (HUF_isError(maxBits)) { fprintf(stderr, "demo: internal: buildCTable\n"); exit(2); }
            g_ctableLog = (unsigned)maxBits; g_ctableMaxSym = maxSym; g_ctableValid = 1;
            g_nbTableSymbols = 0;
            for (s = 0; s <= maxSym; s++) if (count[s]) g_tableSymbols[g_nbTableSymbols++] = (BYTE)s;
            hSize = HUF_writeCTable_wksp(payload, cap - 5, g_ctable, maxSym, g_ctableLog, g_wksp, sizeof(g_wksp));
            if (HUF_isError(hSize)) {   /* tree not describable (more than 128 weights that do not compress): the format has no way to carry it */
                g_ctableValid = 0;
                return writeLiterals(dst, cap, lits, n, lt_raw, 0, what, whatCap);
            }
        }
        if (n < 6) fourStreams = 0;
        cSize = hSize + (fourStreams ? huf4(payload + hSize, cap - 5 - hSize, lits, n)
                                     : huf1(payload + hSize, cap - 5 - hSize, lits, n));
        if (!fourStreams && (n > 1023 || cSize > 1023)) {   /* 1 stream only exists with 10-bit sizes */
            fourStreams = 1;
            cSize = hSize + huf4(payload + hSize, cap - 5 - hSize, lits, n);
        }
        if (!fourStreams) sf = 0;
        else {
            unsigned const minSf = (n <= 1023 && cSize <= 1023) ? 1 : (n <= 16383 && cSize <= 16383) ? 2 : 3;
            sf = rndRange(minSf, 3);
        }
        if (sf <= 1)      { putLE(dst, (unsigned long long)type | (sf << 2) | ((unsigned long long)n << 4) | ((unsigned long long)cSize << 14), 3); lh = 3; }
        else if (sf == 2) { putLE(dst, (unsigned long long)type | (2u << 2) | ((unsigned long long)n << 4) | ((unsigned long long)cSize << 18), 4); lh = 4; }
        else              { putLE(dst, (unsigned long long)type | (3u << 2) | ((unsigned long long)n << 4) | ((unsigned long long)cSize << 22), 5); lh = 5; }
        memmove(dst + lh, payload, cSize);
        snprintf(what, whatCap, "%s(%s,sf%u,regen=%zu,comp=%zu,tableLog=%u)", type == lt_huf ? "huf" : "treeless",
                 fourStreams ? "4streams" : "1stream", sf, n, cSize, g_ctableLog);
        return lh + cSize;
    }
}

static void fillLiterals(BYTE* lits, size_t n, const BYTE* alphabet, unsigned nbSym, int skewed)
{
    size_t i;
    for (i = 0; i < n; i++) {
        unsigned k;
        if (skewed) { unsigned r = rnd(); k = 0; while ((r & 1) && k + 1 < nbSym) { k++; r >>= 1; } if (rnd() % 5 == 0) k = rnd() % nbSym; }
        else k = rnd() % nbSym;
        lits[i] = alphabet[k];
    }
    /* a Huffman section needs at least 2 distinct symbols */
    if (n >= 2 && nbSym >= 2) { lits[0] = alphabet[0]; lits[n-1] = alphabet[1]; }
}

/* Builds one frame into g_frame, its content into g_expected. */
static void buildCase(size_t* frameSizePtr, size_t* contentSizePtr)
{
    BYTE* op = g_frame;
    size_t content = 0;
    unsigned const nbBlocks = rndRange(1, 3);
    unsigned b;
    int const checksum = rnd() & 1;
    unsigned fcsFlag = rnd() % 4;   /* 0: absent */
    unsigned windowLog;
    BYTE* fhd;
    BYTE* fcsPos;
    char* d = g_desc;
    size_t dcap = sizeof(g_desc);

    g_ctableValid = 0;
    putLE(op, 0xFD2FB528U, 4); op += 4;
    fhd = op++;
    windowLog = rndRange(17, 20);
    *op++ = (BYTE)(((windowLog - 10) << 3) | (rnd() & 7));   /* exponent + mantissa */
    fcsPos = op;
    op += (fcsFlag == 0) ? 0 : (fcsFlag == 1) ? 2 : (fcsFlag == 2) ? 4 : 8;

    for (b = 0; b < nbBlocks; b++) {
        size_t n;
        unsigned const sizeClass = rnd() % 10;
        litType type;
        int four = rnd() & 1;
        BYTE alphabet[256];
        unsigned nbSym, s;
        BYTE* const blockHeader = op;
        size_t litSecSize;
        char what[160];
        int wrote;

        if (sizeClass < 5) n = rndRange(2, 64); else if (sizeClass < 8) n = rndRange(65, 1023); else n = rndRange(1024, 40000);
        {   unsigned const t = rnd() % 10;
            type = (t < 6) ? lt_huf : (t < 8) ? lt_treeless : (t == 8) ? lt_raw : lt_rle;
        }
        if (type == lt_treeless && !g_ctableValid) type = lt_huf;
        if (type == lt_treeless) {
            nbSym = g_nbTableSymbols;
            memcpy(alphabet, g_tableSymbols, nbSym);
        } else {
            unsigned const maxSym = (unsigned)((n < 256) ? n : 256);
            unsigned const cls = rnd() % 4;
            nbSym = (cls == 0) ? 2 : (cls == 1) ? rndRange(2, maxSym < 16 ? maxSym : 16) : rndRange(2, maxSym);
            if (rnd() & 1) { for (s = 0; s < nbSym; s++) alphabet[s] = (BYTE)s; }           /* dense, low values */
            else { BYTE perm[256]; unsigned i; for (i = 0; i < 256; i++) perm[i] = (BYTE)i;
                   for (i = 0; i < nbSym; i++) { unsigned const j = i + rnd() % (256 - i); BYTE const t = perm[i]; perm[i] = perm[j]; perm[j] = t; alphabet[i] = perm[i]; } }
        }
        if (type == lt_rle) nbSym = 1;
        fillLiterals(g_expected + content, n, alphabet, nbSym, (int)(rnd() & 1));

        op += 3;
        litSecSize = writeLiterals(op, (size_t)(g_frame + MAX_FRAME - op), g_expected + content, n, type, four, what, sizeof(what));
        op += litSecSize;
        *op++ = 0;   /* Number_of_Sequences = 0 */
        {   size_t const blockSize = litSecSize + 1;
            unsigned const last = (b + 1 == nbBlocks);
            if (blockSize > (1u << 17)) { fprintf(stderr, "demo: internal: block too large\n"); exit(2); }
            putLE(blockHeader, last | (2u << 1) | ((unsigned long long)blockSize << 3), 3);
        }
        content += n;
        wrote = snprintf(d, dcap, "%s%s", b ? " + " : "", what);
        if (wrote > 0 && (size_t)wrote < dcap) { d += wrote; dcap -= (size_t)wrote; }
    }
    if (fcsFlag == 1 && (content < 256 || content > 65791)) {   /* 2-byte field cannot hold it: fall back to 4 bytes */
        memmove(fcsPos + 4, fcsPos + 2, (size_t)(op - (fcsPos + 2)));
        op += 2; fcsFlag = 2;
    }
    if (fcsFlag == 1) putLE(fcsPos, content - 256, 2);
    if (fcsFlag == 2) putLE(fcsPos, content, 4);
    if (fcsFlag == 3) putLE(fcsPos, content, 8);
    *fhd = (BYTE)((fcsFlag << 6) | (checksum << 2));
    if (checksum) { putLE(op, XXH64(g_expected, content, 0) & 0xFFFFFFFFU, 4); op += 4; }
    snprintf(d, dcap, " | wlog=%u fcs=%u chk=%d", windowLog, fcsFlag, checksum);
    *frameSizePtr = (size_t)(op - g_frame);
    *contentSizePtr = content;
}

/* ---------- decode paths ---------- */
static unsigned g_failures = 0;
static unsigned g_checks = 0;
static unsigned g_kind[3] = { 0, 0, 0 };   /* decoder error / wrong size / success with wrong content */

static void report(unsigned caseNb, const char* path, size_t ret, size_t contentSize)
{
    g_checks++;
    if (!ZSTD_isError(ret) && ret == contentSize && !memcmp(g_out, g_expected, contentSize)) return;
    g_failures++;
    g_kind[ZSTD_isError(ret) ? 0 : (ret != contentSize) ? 1 : 2]++;
    if (g_failures <= 10 || (g_kind[2] <= 3 && !ZSTD_isError(ret) && ret == contentSize)) {
        if (ZSTD_isError(ret)) printf("FAIL case %u [%s] path=%s : decoder error '%s'\n", caseNb, g_desc, path, ZSTD_getErrorName(ret));
        else if (ret != contentSize) printf("FAIL case %u [%s] path=%s : %zu bytes produced, %zu expected\n", caseNb, g_desc, path, ret, contentSize);
        else printf("FAIL case %u [%s] path=%s : success reported but content differs from the specified content\n", caseNb, g_desc, path);
    }
}

static size_t streamDecode(ZSTD_DCtx* dctx, const BYTE* src, size_t srcSize, size_t inChunk, size_t outChunk, size_t outCap, int stable)
{
    ZSTD_inBuffer in = { src, 0, 0 };
    ZSTD_outBuffer out = { g_out, stable ? outCap : 0, 0 };
    unsigned long long steps = 0;
    size_t hint = 1;
    ZSTD_DCtx_reset(dctx, ZSTD_reset_session_and_parameters);
    if (stable) ZSTD_DCtx_setParameter(dctx, ZSTD_d_stableOutBuffer, 1);
    while (hint != 0) {
        size_t const prevIn = in.pos, prevOut = out.pos;
        if (in.size < srcSize && in.pos == in.size) in.size = (in.size + inChunk < srcSize) ? in.size + inChunk : srcSize;
        if (!stable && out.pos == out.size) out.size = (out.size + outChunk < outCap) ? out.size + outChunk : outCap;
        hint = ZSTD_decompressStream(dctx, &out, &in);
        if (ZSTD_isError(hint)) return hint;
        if (++steps > 4000000ULL) return (size_t)-ZSTD_error_GENERIC;   /* step bound */
        if (hint != 0 && in.pos == prevIn && out.pos == prevOut && in.size == srcSize && in.pos == in.size && out.size == outCap)
            return (size_t)-ZSTD_error_srcSize_wrong;   /* wants more than the whole frame */
    }
    if (in.pos != srcSize) return (size_t)-ZSTD_error_srcSize_wrong;
    return out.pos;
}

static size_t bufferlessDecode(ZSTD_DCtx* dctx, const BYTE* src, size_t srcSize, size_t outCap)
{
    size_t ip = 0, pos = 0;
    unsigned long long steps = 0;
    ZSTD_DCtx_reset(dctx, ZSTD_reset_session_and_parameters);
    {   size_t const r = ZSTD_decompressBegin(dctx); if (ZSTD_isError(r)) return r; }
    for (;;) {
        size_t const n = ZSTD_nextSrcSizeToDecompress(dctx);
        size_t r;
        if (n == 0) break;
        if (n > srcSize - ip) return (size_t)-ZSTD_error_srcSize_wrong;
        r = ZSTD_decompressContinue(dctx, g_out + pos, outCap - pos, src + ip, n);
        if (ZSTD_isError(r)) return r;
        ip += n; pos += r;
        if (++steps > 1000000ULL) return (size_t)-ZSTD_error_GENERIC;
    }
    if (ip != srcSize) return (size_t)-ZSTD_error_srcSize_wrong;
    return pos;
}

static ZSTD_DCtx* g_reused;
static ZSTD_DCtx* g_noAsm;
static ZSTD_DCtx* g_zds;

static void decodeEveryPath(unsigned c, size_t fsz, size_t csz)
{
    memset(g_out, 0xA5, csz + 64);
    report(c, "ZSTD_decompress(exact capacity)", ZSTD_decompress(g_out, csz, g_frame, fsz), csz);
    memset(g_out, 0xA5, csz + 64);
    report(c, "ZSTD_decompress(capacity + 256 KB)", ZSTD_decompress(g_out, csz + (1 << 18), g_frame, fsz), csz);
    memset(g_out, 0xA5, csz + 64);
    report(c, "ZSTD_decompressDCtx(re-used context)", ZSTD_decompressDCtx(g_reused, g_out, csz + 100, g_frame, fsz), csz);
    memset(g_out, 0xA5, csz + 64);
    ZSTD_DCtx_reset(g_noAsm, ZSTD_reset_session_and_parameters);
    ZSTD_DCtx_setParameter(g_noAsm, ZSTD_d_disableHuffmanAssembly, 1);
    report(c, "ZSTD_decompressDCtx(disableHuffmanAssembly)", ZSTD_decompressDCtx(g_noAsm, g_out, csz, g_frame, fsz), csz);
    memset(g_out, 0xA5, csz + 64);
    report(c, "ZSTD_decompressStream(whole in, whole out)", streamDecode(g_zds, g_frame, fsz, fsz, csz + 1000, csz + 1000, 0), csz);
    memset(g_out, 0xA5, csz + 64);
    report(c, "ZSTD_decompressStream(in 7, out 13)", streamDecode(g_zds, g_frame, fsz, 7, 13, csz, 0), csz);
    if (fsz + csz < 6000) {
        memset(g_out, 0xA5, csz + 64);
        report(c, "ZSTD_decompressStream(in 1, out 1)", streamDecode(g_zds, g_frame, fsz, 1, 1, csz, 0), csz);
    }
    memset(g_out, 0xA5, csz + 64);
    report(c, "ZSTD_decompressStream(in 1000, out 100000)", streamDecode(g_zds, g_frame, fsz, 1000, 100000, csz + 5, 0), csz);
    memset(g_out, 0xA5, csz + 64);
    report(c, "ZSTD_decompressStream(stableOutBuffer, in 511)", streamDecode(g_zds, g_frame, fsz, 511, 0, csz, 1), csz);
    memset(g_out, 0xA5, csz + 64);
    report(c, "ZSTD_decompressContinue(buffer-less)", bufferlessDecode(g_zds, g_frame, fsz, csz), csz);
}

/* The frames are decoded in child processes, a batch at a time, so that a decoder
 * crash (sanitizer report, signal) is counted as a failure and the sweep goes on. */
int main(void)
{
    unsigned batchStart;
    unsigned nbExpanding = 0;
    unsigned nbCrashes = 0;
    g_reused = ZSTD_createDCtx(); g_noAsm = ZSTD_createDCtx(); g_zds = ZSTD_createDCtx();
    if (!g_reused || !g_noAsm || !g_zds) return 2;
    alarm(900);   /* watchdog */
    setvbuf(stdout, NULL, _IONBF, 0);

    for (batchStart = 0; batchStart < NB_CASES; batchStart += BATCH) {
        unsigned const batchEnd = (batchStart + BATCH < NB_CASES) ? batchStart + BATCH : NB_CASES;
        int fds[2];
        pid_t pid;
        unsigned c;
        if (pipe(fds) != 0) return 2;
        pid = fork();
        if (pid < 0) return 2;
        if (pid == 0) {   /* child : builds and decodes the batch */
            unsigned counters[5];
            close(fds[0]);
            if (nbCrashes >= 1) { if (!freopen("/dev/null", "w", stderr)) _exit(3); }   /* one sanitizer report is enough */
            for (c = batchStart; c < batchEnd; c++) {
                size_t fsz, csz;
                unsigned const progress[2] = { c, 0 };
                buildCase(&fsz, &csz);
                if (write(fds[1], progress, sizeof(progress)) != (ssize_t)sizeof(progress)) _exit(3);
                decodeEveryPath(c, fsz, csz);
            }
            counters[0] = g_checks; counters[1] = g_failures;
            counters[2] = g_kind[0]; counters[3] = g_kind[1]; counters[4] = g_kind[2];
            {   unsigned const done[2] = { 0xFFFFFFFFu, 0 };
                if (write(fds[1], done, sizeof(done)) != (ssize_t)sizeof(done)) _exit(3);
                if (write(fds[1], counters, sizeof(counters)) != (ssize_t)sizeof(counters)) _exit(3);
            }
            _exit(0);
        }
        /* parent : replays the generator to stay in step, then collects the verdict */
        close(fds[1]);
        for (c = batchStart; c < batchEnd; c++) {
            size_t fsz, csz;
            const char* p;
            buildCase(&fsz, &csz);
            p = g_desc;
            while ((p = strstr(p, "1stream")) != NULL) {   /* statistics only */
                size_t re = 0, co = 0;
                if (sscanf(p, "1stream,sf0,regen=%zu,comp=%zu", &re, &co) == 2 && co >= re) nbExpanding++;
                p++;
            }
        }
        {   unsigned msg[2];
            unsigned lastCase = batchStart;
            int finished = 0;
            int status = 0;
            while (read(fds[0], msg, sizeof(msg)) == (ssize_t)sizeof(msg)) {
                if (msg[0] == 0xFFFFFFFFu) {
                    unsigned counters[5];
                    if (read(fds[0], counters, sizeof(counters)) == (ssize_t)sizeof(counters)) {
                        g_checks = counters[0]; g_failures = counters[1];
                        g_kind[0] = counters[2]; g_kind[1] = counters[3]; g_kind[2] = counters[4];
                        finished = 1;
                    }
                    break;
                }
                lastCase = msg[0];
            }
            close(fds[0]);
            waitpid(pid, &status, 0);
            if (!finished) {
                nbCrashes++; g_failures++;
                if (nbCrashes <= 5)
                    printf("FAIL case %u : the decoder crashed (%s %d) while decoding this valid frame; cases %u..%u of the batch were not run\n",
                           lastCase, WIFSIGNALED(status) ? "signal" : "exit status", WIFSIGNALED(status) ? WTERMSIG(status) : WEXITSTATUS(status),
                           lastCase + 1, batchEnd - 1);
            }
        }
    }

    printf("%u frames, %u (frame, path) checks completed, %u single-stream Huffman sections not smaller than their content\n",
           (unsigned)NB_CASES, g_checks, nbExpanding);
    printf("%u failures : %u decoder errors, %u wrong sizes, %u successes with wrong content, %u decoder crashes\n",
           g_failures, g_kind[0], g_kind[1], g_kind[2], nbCrashes);
    if (g_failures) { printf("RESULT: FAIL - some decoding path does not yield the specified content for a valid frame\n"); return 1; }
    printf("RESULT: PASS - every decoding path yields the specified content for every frame\n");
    return 0;
}
