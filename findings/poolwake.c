/*
 * obs_unmodified.c - two side observations about the UNMODIFIED pool.c (not part of the seed demo)
 * Build:
 *   clang -g -O1 -DZSTD_MULTITHREAD -I lib -I lib/common _seed/obs_unmodified.c \
 *       lib/common/pool.c lib/common/threading.c lib/common/zstd_common.c \
 *       lib/common/error_private.c lib/common/debug.c -lpthread -o _seed/obs
 */
#include <stdio.h>
#include <stdatomic.h>
#include <pthread.h>
#include <unistd.h>
#include "pool.h"

static atomic_int release1, started, ran2, addReturned, joinReturned;
static POOL_ctx* ctx;

static void gated(void* p) { (void)p; atomic_fetch_add(&started, 1); while (!atomic_load(&release1)) usleep(100); }
static void job2(void* p) { (void)p; atomic_fetch_add(&ran2, 1); }

static void* joiner(void* p) { (void)p; POOL_joinJobs(ctx); atomic_store(&joinReturned, 1); return NULL; }
static void* pusher(void* p) { (void)p; POOL_add(ctx, job2, NULL); atomic_store(&addReturned, 1); return NULL; }

int main(void) {
    pthread_t tj, tp;
    /* Observation 1 : joinJobs and a blocked POOL_add share queuePushCond, the worker only signals once */
    ctx = POOL_create(1, 0);
    POOL_add(ctx, gated, NULL);
    while (!atomic_load(&started)) usleep(100);
    pthread_create(&tj, NULL, joiner, NULL);  usleep(50000);   /* joinJobs waits first */
    pthread_create(&tp, NULL, pusher, NULL);  usleep(50000);   /* POOL_add waits second */
    atomic_store(&release1, 1);                                /* job 1 ends : one cond_signal */
    sleep(1);
    printf("obs1: joinJobs returned=%d, POOL_add returned=%d, job2 ran=%d  (pool is idle and empty)\n",
           atomic_load(&joinReturned), atomic_load(&addReturned), atomic_load(&ran2));
    if (!atomic_load(&addReturned)) printf("obs1: blocking POOL_add is stuck although capacity exists\n");
    /* cannot free the pool cleanly if stuck; unblock the pusher by posting something */
    if (!atomic_load(&addReturned)) { /* a tryAdd + its completion signals queuePushCond */
        POOL_tryAdd(ctx, job2, NULL); sleep(1);
        printf("obs1: after an unrelated tryAdd: POOL_add returned=%d\n", atomic_load(&addReturned));
    }
    pthread_join(tj, NULL); pthread_join(tp, NULL);
    POOL_free(ctx);

    /* Observation 2 : hand-off pool, pusher blocked because busy==limit, resize up does not wake it */
    atomic_store(&release1, 0); atomic_store(&started, 0); atomic_store(&addReturned, 0); atomic_store(&ran2, 0);
    ctx = POOL_create(2, 0);
    POOL_resize(ctx, 1);
    POOL_add(ctx, gated, NULL);
    while (!atomic_load(&started)) usleep(100);
    pthread_create(&tp, NULL, pusher, NULL);  usleep(50000);   /* blocks : 1 busy == limit 1 */
    POOL_resize(ctx, 2);                                       /* capacity now exists */
    sleep(1);
    printf("obs2: after POOL_resize(1->2): POOL_add returned=%d, job2 ran=%d\n",
           atomic_load(&addReturned), atomic_load(&ran2));
    atomic_store(&release1, 1);
    pthread_join(tp, NULL);
    POOL_free(ctx);
    return 0;
}
