/* ZSTD_seekable_decompress with an offset beyond the end of the content */
#include "zstd.h"
#include "zstd_seekable.h"
#include <stdio.h>
#include <stdlib.h>
#include <string.h>
int main(void){
    size_t n=3000,i; char* src=malloc(n); for(i=0;i<n;i++) src[i]=(char)('a'+i%23);
    size_t cap=ZSTD_compressBound(n)+4096; char* z=malloc(cap); size_t zl=0;
    ZSTD_seekable_CStream* cs=ZSTD_seekable_createCStream(); ZSTD_seekable_initCStream(cs,3,1,1000);
    ZSTD_inBuffer in={src,n,0}; ZSTD_outBuffer out={z,cap,0};
    while(in.pos<in.size) ZSTD_seekable_compressStream(cs,&out,&in);
    while(ZSTD_seekable_endStream(cs,&out)) ; zl=out.pos;
    ZSTD_seekable* s=ZSTD_seekable_create(); size_t r=ZSTD_seekable_initBuff(s,z,zl); if(ZSTD_isError(r)){printf("init %s\n",ZSTD_getErrorName(r));return 2;}
    char dst[64]; int bad=0; unsigned long long offs[]={2990,3000,3001,3100,4000,100000}; int k;
    for(k=0;k<6;k++){ memset(dst,'#',sizeof dst); r=ZSTD_seekable_decompress(s,dst,20,offs[k]);
        printf("read(offset=%llu, len=20) on %zu bytes of content -> %s%zu%s\n",offs[k],n,ZSTD_isError(r)?"error: ":"",ZSTD_isError(r)?(size_t)0:r,ZSTD_isError(r)?ZSTD_getErrorName(r):"");
        if(!ZSTD_isError(r) && r>20) bad=1; }
    return bad;
}
