/* obs_1.c - C13 violations in the legacy (v0.4-v0.7) streaming decoders, which are part of the
 * default library build (lib/Makefile: ZSTD_LEGACY_SUPPORT ?= 5) and are reached through the
 * ordinary public entry point ZSTD_decompressStream().
 *
 * build (from the worktree root):
 *   clang -g -O1 -fsanitize=address -DZSTD_LEGACY_SUPPORT=4 -DZSTD_DISABLE_ASM -I lib -I lib/legacy \
 *     _seed/obs_1.c lib/common/*.c lib/decompress/*.c lib/legacy/zstd_v04.c lib/legacy/zstd_v05.c \
 *     lib/legacy/zstd_v06.c lib/legacy/zstd_v07.c \
 *     -Wl,--wrap=malloc -Wl,--wrap=calloc -o _seed/obs_1
 * run:  _seed/obs_1 1   |  _seed/obs_1 2   |  _seed/obs_1 3  | _seed/obs_1 4
 *
 * The legacy decoders call malloc() directly (they ignore the ZSTD_customMem of the DCtx, which is
 * in itself contrary to "all library allocations funnel through the three helpers"), so the fault
 * is injected by wrapping malloc/calloc at link time.
 *
 * mode 1: a DStream that decoded a v0.5 frame then meets a v0.6 frame while malloc fails:
 *         ZSTD_initLegacyStream() (lib/legacy/zstd_legacy.h:316) frees the v0.5 context, fails to
 *         create the v0.6 one and returns the error WITHOUT clearing *legacyContext; the DCtx keeps
 *         the dangling pointer with previousLegacyVersion==5 -> ZSTD_freeDCtx() frees it again
 *         (zstd_decompress.c:341)  => ASAN: attempting double-free.
 * mode 2: first v0.5 frame, 2nd malloc fails: ZBUFFv05_createDCtx() (zstd_v05.c:3804) does not check
 *         the result of ZSTDv05_createDCtx(); ZBUFFv05_decompressInitDictionary() then writes
 *         through the NULL zc => SEGV inside the failing call.
 * mode 3: first v0.7 frame (same code in v0.5/v0.6), the allocation of inBuff fails: the stream
 *         decoder records the new inBuffSize before testing the pointer
 *         (zstd_v07.c:4395-4397; same at zstd_v04.c:3431, zstd_v05.c:3900, zstd_v06.c:4018).
 *         The call returns memory_allocation; after ZSTD_DCtx_reset(session_only) the SAME DCtx
 *         retries with memory available, the size test says "large enough", and the decoder
 *         copies into the NULL inBuff => SEGV in the retry.
 * mode 4: like 3 but the outBuff allocation fails (zstd_v07.c:4402-4404; zstd_v04.c:3437, zstd_v05.c:3906,
 *         zstd_v06.c:4025) => the retry decodes into outBuff==NULL.
 *         (v0.4 has the mode-2 defect too: zstd_v04.c:3329 ZBUFF_createDCtx does not check zbc->zc.)
 * mode 5 <frame 0..3 = v0.4..v0.7> <k>: generic probe, streaming with allocation k failing, then
 *         ZSTD_DCtx_reset(session_only) and retry on the same DCtx.  Observed: k=2 crashes for v0.4 and
 *         v0.5, k=3 and k=4 crash (in the retry) for v0.4, v0.5, v0.6 and v0.7; k=1 is handled.
 * mode 6 <frame> <k>: same with one-shot ZSTD_decompressDCtx (no defect observed).
 */
#include <stdio.h>
#include <stdlib.h>
#include <string.h>
#define ZSTD_STATIC_LINKING_ONLY
#include "zstd.h"

/* the five frames (v0.4, v0.5, v0.6, v0.7, v0.8) of tests/legacy.c */
#define main legacy_c_main
#include "../tests/legacy.c"
#undef main

static long g_count = 0, g_failAt = 0;
void* __real_malloc(size_t);
void* __real_calloc(size_t, size_t);
void* __wrap_malloc(size_t s) { if (++g_count == g_failAt) return NULL; return __real_malloc(s); }
void* __wrap_calloc(size_t n, size_t s) { if (++g_count == g_failAt) return NULL; return __real_calloc(n, s); }

static const char* frameStart[8]; static size_t frameSize[8]; static int nbFrames;

static void splitFrames(void)
{
    const char* p = COMPRESSED; size_t left = COMPRESSED_SIZE;
    while (left) {
        size_t const fs = ZSTD_findFrameCompressedSize(p, left);
        if (ZSTD_isError(fs)) { printf("cannot split frames\n"); exit(2); }
        frameStart[nbFrames] = p; frameSize[nbFrames] = fs; nbFrames++;
        p += fs; left -= fs;
    }
}

/* streams one frame in small pieces; returns 0 or the error code */
static size_t streamFrame(ZSTD_DCtx* d, int f, char* out, size_t outCap, size_t* produced)
{
    ZSTD_inBuffer in = { frameStart[f], 0, 0 };
    ZSTD_outBuffer o = { out, outCap, 0 };
    size_t r = 1; int guard = 0;
    while (in.pos < frameSize[f] || r != 0) {
        in.size = in.pos + 7; if (in.size > frameSize[f]) in.size = frameSize[f];
        r = ZSTD_decompressStream(d, &o, &in);
        if (ZSTD_isError(r)) return r;
        if (++guard > 100000) { printf("no progress\n"); exit(2); }
        if (in.pos == frameSize[f] && r == 0) break;
    }
    *produced = o.pos;
    return 0;
}

int main(int argc, char** argv)
{
    int const mode = argc > 1 ? atoi(argv[1]) : 1;
    static char out[4096];
    size_t produced = 0;
    size_t const expectedOne = strlen(EXPECTED) / 5;   /* EXPECTED is 5 copies, one per frame */
    ZSTD_DCtx* d;
    splitFrames();
    if (nbFrames != 5) { printf("expected 5 frames, got %d\n", nbFrames); return 2; }
    d = ZSTD_createDCtx();
    if (mode == 1) {
        size_t r = streamFrame(d, 1 /* v0.5 */, out, sizeof out, &produced);
        printf("v0.5 frame: %s, %zu bytes\n", ZSTD_getErrorName(r), produced);
        g_count = 0; g_failAt = 1;
        r = streamFrame(d, 2 /* v0.6 */, out, sizeof out, &produced);
        g_failAt = 0;
        printf("v0.6 frame with the 1st malloc failing: %s\n", ZSTD_getErrorName(r));
        printf("ZSTD_freeDCtx ...\n"); fflush(stdout);
        ZSTD_freeDCtx(d);
        printf("no double free seen\n");
        return 0;
    }
    if (mode == 2) {
        size_t r;
        g_count = 0; g_failAt = 2;
        printf("v0.5 frame with the 2nd malloc failing ...\n"); fflush(stdout);
        r = streamFrame(d, 1, out, sizeof out, &produced);
        g_failAt = 0;
        printf("returned %s\n", ZSTD_getErrorName(r));
        ZSTD_freeDCtx(d);
        return 0;
    }
    if (mode == 5 || mode == 6) {   /* generic probe : obs_1 5|6 <frame 0..4> <k> ; 5 = streaming + reset + retry, 6 = one-shot */
        int const f = argc > 2 ? atoi(argv[2]) : 0; long const k = argc > 3 ? atol(argv[3]) : 1; size_t r;
        g_count = 0; g_failAt = k;
        if (mode == 5) r = streamFrame(d, f, out, sizeof out, &produced);
        else r = ZSTD_decompressDCtx(d, out, sizeof out, frameStart[f], frameSize[f]);
        g_failAt = 0;
        printf("frame %d, allocation %ld failing (%ld seen): %s\n", f, k, g_count, ZSTD_getErrorName(r));
        ZSTD_DCtx_reset(d, ZSTD_reset_session_only);
        if (mode == 5) r = streamFrame(d, f, out, sizeof out, &produced);
        else { r = ZSTD_decompressDCtx(d, out, sizeof out, frameStart[f], frameSize[f]); produced = r; }
        printf("retry: %s, content %s\n", ZSTD_getErrorName(r), (produced == expectedOne && !memcmp(out, EXPECTED, produced)) ? "ok" : "WRONG");
        ZSTD_freeDCtx(d);
        return 0;
    }
    {   /* modes 3 and 4 : sweep the failing allocation, then reset and retry on the same DCtx */
        int const f = 3; /* v0.7 */
        long n, k;
        size_t r;
        {   ZSTD_DCtx* const probe = ZSTD_createDCtx();
            g_count = 0; g_failAt = 0;   /* count the allocations of the streaming calls only */
            r = streamFrame(probe, f, out, sizeof out, &produced);
            n = g_count;
            ZSTD_freeDCtx(probe);
        }
        printf("fault-free: %s, %zu bytes (expected %zu), %ld allocations\n", ZSTD_getErrorName(r), produced, expectedOne, n);
        k = (mode == 3) ? n-1 : n;   /* inBuff is the last but one allocation, outBuff the last */
        g_count = 0; g_failAt = k;
        r = streamFrame(d, f, out, sizeof out, &produced);
        g_failAt = 0;
        printf("allocation %ld failing: %s\n", k, ZSTD_getErrorName(r));
        ZSTD_DCtx_reset(d, ZSTD_reset_session_only);
        printf("retry on the same DCtx after ZSTD_DCtx_reset(session_only), memory available ...\n"); fflush(stdout);
        r = streamFrame(d, f, out, sizeof out, &produced);
        printf("retry: %s, %zu bytes, content %s\n", ZSTD_getErrorName(r), produced,
               (produced == expectedOne && !memcmp(out, EXPECTED, produced)) ? "ok" : "WRONG");
        ZSTD_freeDCtx(d);
    }
    return 0;
}
