/* stable input buffer: a deferred first call followed by a session reset leaves
 * stableIn_notConsumed behind; the next frame rewinds its input by that amount. */
#define ZSTD_STATIC_LINKING_ONLY
#include "zstd.h"
#include <stdio.h>
#include <stdlib.h>
#include <string.h>
int main(void){
    ZSTD_CCtx* c=ZSTD_createCCtx();
    char* b1=malloc(1000); memset(b1,'a',1000);
    char* b2=malloc(500);  memset(b2,'b',500);
    char out[4096];
    ZSTD_CCtx_setParameter(c, ZSTD_c_stableInBuffer, 1);
    { ZSTD_inBuffer in={b1,1000,0}; ZSTD_outBuffer o={out,sizeof out,0};
      size_t r=ZSTD_compressStream2(c,&o,&in,ZSTD_e_continue);
      printf("frame 1, first call: ret=%zu in.pos=%zu (input accepted, compression deferred)\n",r,in.pos); }
    { size_t r=ZSTD_CCtx_reset(c, ZSTD_reset_session_only); printf("session reset: %s\n",ZSTD_getErrorName(r)); }
    { ZSTD_inBuffer in={b2,500,0}; ZSTD_outBuffer o={out,sizeof out,0};
      size_t r=ZSTD_compressStream2(c,&o,&in,ZSTD_e_end);
      printf("frame 2: ret=%zu (%s) in.pos=%zu out.pos=%zu\n",r,ZSTD_getErrorName(r),in.pos,o.pos);
      if(!ZSTD_isError(r)){ char d[4096]; size_t n=ZSTD_decompress(d,sizeof d,out,o.pos);
        printf("decoded %zu bytes (%s), matches the 500 input bytes: %d\n",n,ZSTD_getErrorName(n), n==500&&!memcmp(d,b2,500)); } }
    return 0;
}
