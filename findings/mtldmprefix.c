/* obs_2.c : nbWorkers>=1 + long distance matching + a raw-content prefix larger than 16 MiB + fast/dfast strategy,
 *           source size not pledged.
 *
 * build (worktree root, UNMODIFIED sources):
 *   release : clang -g -O1 -fsanitize=address -DZSTD_MULTITHREAD -DZSTD_DISABLE_ASM -I lib _seed/obs_2.c \
 *                 lib/common/[a-z]*.c lib/compress/[a-z]*.c lib/decompress/[a-z]*.c -lpthread -o _seed/obs_2
 *   asserts : same line plus -DDEBUGLEVEL=1   (-> assertion `offset_1 <= dictAndPrefixLength' zstd_fast.c:537)
 * run: _seed/obs_2 [level(default 1)] [prefixMB(default 40)]
 *
 * What happens:
 *  - ZSTDMT_initCStream_internal() turns the prefix into a local CDict. For ZSTD_fast/ZSTD_dfast the CDict uses
 *    "short cache" tagged indices, so ZSTD_loadDictionaryContent() (zstd_compress.c:4874-4891) silently keeps only
 *    the last (1<<24)-2 bytes of the dictionary.
 *  - ZSTDMT_serialState_reset() (zstdmt_compress.c:541-546) loads the WHOLE prefix into the long-distance matcher.
 *  - the first job attaches the CDict (dictMatchState) because the source size is unknown.
 *  - the LDM hands the first job a match that starts in the part of the prefix the CDict has dropped;
 *    ZSTD_ldm_blockCompress() stores it in rep[0] and calls ZSTD_compressBlock_fast_dictMatchState(), which
 *    requires offset_1 <= dictAndPrefixLength (only an assert). In a release build `repIndex = curr+1-offset_1`
 *    wraps below zero, is taken for a prefix index, and `base + repIndex` is dereferenced ~4 GiB away.
 */
#define ZSTD_STATIC_LINKING_ONLY
#include "zstd.h"
#include <stdio.h>
#include <stdlib.h>
#include <string.h>

#define CHECKZ(e) do { size_t const e_ = (e); if (ZSTD_isError(e_)) { printf("%s -> %s\n", #e, ZSTD_getErrorName(e_)); return 2; } } while (0)

int main(int argc, char** argv)
{
    int const level = argc > 1 ? atoi(argv[1]) : 1;
    size_t const prefixSize = (size_t)(argc > 2 ? atoi(argv[2]) : 40) << 20;
    size_t const srcSize = 8u << 20;
    unsigned char* const prefix = (unsigned char*)malloc(prefixSize);
    unsigned char* const src = (unsigned char*)malloc(srcSize);
    size_t const cap = ZSTD_compressBound(srcSize);
    unsigned char* const cbuf = (unsigned char*)malloc(cap);
    unsigned char* const back = (unsigned char*)malloc(srcSize);
    ZSTD_CCtx* const cctx = ZSTD_createCCtx();
    unsigned long long x = 88172645463325252ULL;
    size_t i, cSize;
    setvbuf(stdout, NULL, _IONBF, 0);
    for (i = 0; i < prefixSize; i++) { x ^= x << 13; x ^= x >> 7; x ^= x << 17; prefix[i] = (unsigned char)(x >> 32); }
    /* the source is made of 64 KiB pieces taken from the FIRST MiB of the prefix, separated by fresh noise */
    for (i = 0; i < srcSize; i++) { x ^= x << 13; x ^= x >> 7; x ^= x << 17; src[i] = (unsigned char)(x >> 32); }
    for (i = 0; i + (128 << 10) <= srcSize; i += 128 << 10) memcpy(src + i + 1000, prefix + (i % (1 << 20)) + 77, 64 << 10);

    printf("level %d, nbWorkers=1, LDM on, windowLog=27, raw prefix of %zu MiB, %zu MiB of source, size not pledged\n", level, prefixSize >> 20, srcSize >> 20);
    CHECKZ(ZSTD_CCtx_setParameter(cctx, ZSTD_c_compressionLevel, level));
    CHECKZ(ZSTD_CCtx_setParameter(cctx, ZSTD_c_nbWorkers, 1));
    CHECKZ(ZSTD_CCtx_setParameter(cctx, ZSTD_c_enableLongDistanceMatching, ZSTD_ps_enable));
    CHECKZ(ZSTD_CCtx_setParameter(cctx, ZSTD_c_windowLog, 27));
    CHECKZ(ZSTD_CCtx_refPrefix(cctx, prefix, prefixSize));
    {   ZSTD_inBuffer in = { src, 0, 0 }; ZSTD_outBuffer out = { cbuf, cap, 0 };
        for (;;) {
            size_t r;
            in.size = in.pos + (1u << 20) > srcSize ? srcSize : in.pos + (1u << 20);
            r = ZSTD_compressStream2(cctx, &out, &in, in.size == srcSize ? ZSTD_e_end : ZSTD_e_continue);
            CHECKZ(r);
            if (in.size == srcSize && r == 0) break;
        }
        cSize = out.pos;
    }
    printf("compressed %zu -> %zu\n", srcSize, cSize);
    {   ZSTD_DCtx* const d = ZSTD_createDCtx();
        size_t r;
        ZSTD_DCtx_setParameter(d, ZSTD_d_windowLogMax, 31);
        CHECKZ(ZSTD_DCtx_refPrefix(d, prefix, prefixSize));
        r = ZSTD_decompressDCtx(d, back, srcSize, cbuf, cSize);
        if (ZSTD_isError(r)) { printf("DECODE ERROR: %s\n", ZSTD_getErrorName(r)); return 1; }
        if (r != srcSize || memcmp(back, src, srcSize)) { printf("WRONG BYTES after round trip\n"); return 1; }
        ZSTD_freeDCtx(d);
    }
    printf("round trip ok\n");
    ZSTD_freeCCtx(cctx);
    free(prefix); free(src); free(cbuf); free(back);
    return 0;
}
