/* C08 observation 1 (UNMODIFIED tree): ZSTD_compressSequences() with a dictionary keeps
 * the dictionary's offset-code table in "valid, no check needed" mode until the first
 * block that is actually entropy-compressed, instead of until the end of the first block.
 * In ZSTD_compressSequences_internal() the downgrade FSE_repeat_valid -> FSE_repeat_check
 * sits only in the "compressed block" branch; the raw / RLE / too-small branches skip it
 * (ZSTD_compressBlock_internal, _targetCBlockSize and _splitBlock do it on every path).
 * So: ZDICT_finalizeDictionary() dictionary with 4 KB of content (offset codes 0..17 only),
 * block 1 and 2 = random bytes (stored raw), block 3 = matches at offsets > 256 KB (code 18),
 * fast strategy (level 1), < 1000 sequences -> set_repeat is chosen without looking at the
 * table, and code 18, which has no state in it, is FSE-encoded anyway.
 *
 * Build (worktree root, patch.diff NOT applied, i.e. `git apply -R _seed/patch.diff` first):
 *   cc -O1 -g -Ilib -DZSTD_DISABLE_ASM -o _seed/obs_1 _seed/obs_1.c lib/common/[a-z]*.c \
 *      lib/compress/[a-z]*.c lib/decompress/[a-z]*.c lib/dictBuilder/[a-z]*.c
 * Uses ZSTD_compressSequences (ZSTD_STATIC_LINKING_ONLY section of zstd.h).
 *
 * Observed output on the unmodified tree:
 *   dictionary: 4215 bytes, dictID 3080
 *   256 sequences, block 3 offsets: first 262144, second 131072
 *   level 1: ZSTD_compressSequences returned 268885 bytes (no error); decoding them: Data corruption detected
 *   level 5: round-trip ok (393216 -> 268101)
 *   (exit status 1)
 * The level 5 line is the control: same dictionary, same sequences (accepted by
 * ZSTD_c_validateSequences=1), but level 5 resolves to ZSTD_lazy here, and strategies
 * >= lazy cost the previous table before repeating it, so they notice that code 18 is
 * missing (gdb: same call with strategy=ZSTD_lazy, *repeatMode still FSE_repeat_valid,
 * returns set_compressed).
 * gdb on the level 1 run: ZSTD_selectEncodingType(FSELog=8 /offsets/, max=18, count[18]=127,
 * *repeatMode=FSE_repeat_valid, nbSeq=253, strategy=ZSTD_fast) returns set_repeat for block 3.
 */
#include <stdio.h>
#include <stdlib.h>
#include <string.h>
#define ZSTD_STATIC_LINKING_ONLY
#include "zstd.h"
#include "zdict.h"

#define BLOCK (128u << 10)
#define SRC_SIZE (3u * BLOCK)
#define DICT_CONTENT 4096u

static unsigned long long rng_state = 0x9E3779B97F4A7C15ULL;
static unsigned rnd(void)
{
    rng_state ^= rng_state << 13; rng_state ^= rng_state >> 7; rng_state ^= rng_state << 17;
    return (unsigned)(rng_state >> 32);
}

static const char* const words[] = { "alpha", "beta", "gamma", "delta", "epsilon", "zeta",
    "eta", "theta", "iota", "kappa", "lambda", "mu", "nu", "xi", "omicron", "pi", "rho",
    "sigma", "tau", "upsilon", "phi", "chi", "psi", "omega", "\"id\":", "\"name\":", "{", "}", ",\n" };

static void fillText(char* dst, size_t size)
{
    size_t pos = 0;
    while (pos < size) {
        const char* w = words[rnd() % (sizeof(words)/sizeof(words[0]))];
        size_t l = strlen(w);
        if (l > size - pos) l = size - pos;
        memcpy(dst + pos, w, l); pos += l;
        if (pos < size) dst[pos++] = ' ';
    }
}


#define MAXSEQ 1024

int main(void)
{
    enum { nbSamples = 64, sampleSize = 2048 };
    static char samples[nbSamples * sampleSize];
    static size_t sampleSizes[nbSamples];
    static char dictContent[DICT_CONTENT];
    static char dict[DICT_CONTENT + 1024];
    static ZSTD_Sequence seqs[MAXSEQ];
    size_t nbSeqs = 0;
    size_t dictSize;
    unsigned char* const src = (unsigned char*)malloc(SRC_SIZE);
    unsigned char* const out = (unsigned char*)malloc(SRC_SIZE);
    size_t const cCap = ZSTD_compressBound(SRC_SIZE);
    void* const cBuf = malloc(cCap);
    int bad = 0;
    int level;

    setvbuf(stdout, NULL, _IONBF, 0);
    {   int i; for (i = 0; i < nbSamples; i++) sampleSizes[i] = sampleSize; }
    fillText(samples, sizeof(samples));
    fillText(dictContent, sizeof(dictContent));
    {   ZDICT_params_t zp;
        memset(&zp, 0, sizeof(zp));
        zp.compressionLevel = 1;
        zp.dictID = 0xC08;
        dictSize = ZDICT_finalizeDictionary(dict, sizeof(dict), dictContent, sizeof(dictContent),
                                            samples, sampleSizes, nbSamples, zp);
        if (ZDICT_isError(dictSize)) { printf("finalizeDictionary: %s\n", ZDICT_getErrorName(dictSize)); return 2; }
    }
    printf("dictionary: %u bytes, dictID %u\n", (unsigned)dictSize, ZSTD_getDictID_fromDict(dict, dictSize));

    /* input and its sequences, with explicit block delimiters */
    {   size_t i;
        for (i = 0; i < 2 * BLOCK; i++) src[i] = (unsigned char)(rnd() >> 11);
        /* block 1, block 2: literals only */
        seqs[nbSeqs].offset = 0; seqs[nbSeqs].matchLength = 0; seqs[nbSeqs].litLength = BLOCK; seqs[nbSeqs].rep = 0; nbSeqs++;
        seqs[nbSeqs].offset = 0; seqs[nbSeqs].matchLength = 0; seqs[nbSeqs].litLength = BLOCK; seqs[nbSeqs].rep = 0; nbSeqs++;
        {   size_t pos = 2 * BLOCK; unsigned n = 0; unsigned lits = 0;
            while (pos < SRC_SIZE) {
                size_t const from = ((n & 1) ? BLOCK : 0) + (size_t)n * 520;
                size_t len = 500;
                if (len > SRC_SIZE - pos) len = SRC_SIZE - pos;
                memcpy(src + pos, src + from, len);
                if (len >= 8) {
                    seqs[nbSeqs].offset = (unsigned)(pos - from);
                    seqs[nbSeqs].litLength = lits;
                    seqs[nbSeqs].matchLength = (unsigned)len;
                    seqs[nbSeqs].rep = 0;
                    nbSeqs++; lits = 0;
                } else lits += (unsigned)len;
                pos += len;
                for (i = 0; i < 20 && pos < SRC_SIZE; i++) { src[pos++] = (unsigned char)(rnd() >> 11); lits++; }
                n++;
            }
            seqs[nbSeqs].offset = 0; seqs[nbSeqs].matchLength = 0; seqs[nbSeqs].litLength = lits; seqs[nbSeqs].rep = 0; nbSeqs++;
        }
    }
    printf("%u sequences, block 3 offsets: first %u, second %u\n", (unsigned)nbSeqs, seqs[2].offset, seqs[3].offset);

    for (level = 1; level <= 5; level += 4) {
        ZSTD_CCtx* const cctx = ZSTD_createCCtx();
        ZSTD_DCtx* const dctx = ZSTD_createDCtx();
        size_t cSize, r;
        ZSTD_CCtx_setParameter(cctx, ZSTD_c_compressionLevel, level);
        ZSTD_CCtx_setParameter(cctx, ZSTD_c_blockDelimiters, ZSTD_sf_explicitBlockDelimiters);
        ZSTD_CCtx_setParameter(cctx, ZSTD_c_validateSequences, 1);
        ZSTD_CCtx_loadDictionary(cctx, dict, dictSize);
        cSize = ZSTD_compressSequences(cctx, cBuf, cCap, seqs, nbSeqs, src, SRC_SIZE);
        if (ZSTD_isError(cSize)) {
            printf("level %d: ZSTD_compressSequences error: %s\n", level, ZSTD_getErrorName(cSize)); bad++;
        } else {
            r = ZSTD_decompress_usingDict(dctx, out, SRC_SIZE, cBuf, cSize, dict, dictSize);
            if (ZSTD_isError(r)) {
                printf("level %d: ZSTD_compressSequences returned %u bytes (no error); decoding them: %s\n",
                       level, (unsigned)cSize, ZSTD_getErrorName(r)); bad++;
            } else if (r != SRC_SIZE || memcmp(out, src, SRC_SIZE)) {
                printf("level %d: decoded %u bytes that differ from the input\n", level, (unsigned)r); bad++;
            } else {
                printf("level %d: round-trip ok (%u -> %u)\n", level, (unsigned)SRC_SIZE, (unsigned)cSize);
            }
        }
        ZSTD_freeCCtx(cctx); ZSTD_freeDCtx(dctx);
    }
    return bad ? 1 : 0;
}
