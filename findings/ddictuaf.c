/* obs_2: heap-use-after-free in one-shot decompression (ZSTD_decompressDCtx).
 * ZSTD_decompressMultiFrame() caches the content pointer of the DDict it was called with
 * ("dict"/"dictSize", for legacy frames).  With ZSTD_d_refMultipleDDicts, decoding a frame
 * whose dictID selects another DDict of the set makes ZSTD_DCtx_selectFrameDDict() call
 * ZSTD_clearDict(), which frees dctx->ddictLocal - the very DDict whose content was cached.
 * A legacy frame that follows in the same input is then decoded with the dangling pointer
 * (ZSTD_decompressLegacy(..., dict, dictSize)).
 *
 * sequence: ZSTD_DCtx_setParameter(d, ZSTD_d_refMultipleDDicts, 1); ZSTD_DCtx_refDDict(d, A);
 *           ZSTD_DCtx_loadDictionary(d, B);               (B becomes ddictLocal, set = {A})
 *           ZSTD_decompressDCtx(d, dst, cap, [frame compressed with A][v0.7 frame])
 * build: clang -g -O1 -fsanitize=address -DZSTD_LEGACY_SUPPORT=5 -DZSTD_DISABLE_ASM -I lib -I lib/common -I lib/legacy _seed/obs_2.c \
 *          lib/common/*.c lib/compress/*.c lib/decompress/*.c lib/dictBuilder/*.c lib/legacy/zstd_v0[567].c -o _seed/obs_2
 * result: AddressSanitizer: heap-use-after-free READ in ZSTDv07_decompress_insertDictionary, freed by ZSTD_clearDict
 * cause: lib/decompress/zstd_decompress.c:1088-1091 (dict cached) / :1103 (used) / :375 ZSTD_clearDict in ZSTD_DCtx_selectFrameDDict
 */
#define ZSTD_STATIC_LINKING_ONLY
#include "zstd.h"
#include "zdict.h"
#include <stdio.h>
#include <stdlib.h>
#include <string.h>
#define main legacy_main
#include "../tests/legacy.c"     /* COMPRESSED : hard-coded frames of v0.4 .. v0.8 */
#undef main

int main(void)
{
    char* samples = malloc(200000); size_t sizes[200]; int i;
    char dictA[4096]; size_t dictASize;
    static char dictB[3000];
    char frames[4096]; size_t fsize;
    char dst[8192];
    for (i = 0; i < 200000; i++) samples[i] = "snowden is snowed in / he's now then in his snow den "[(i * 7 + i / 53) % 53];
    for (i = 0; i < 200; i++) sizes[i] = 1000;
    dictASize = ZDICT_trainFromBuffer(dictA, sizeof dictA, samples, sizes, 200);
    if (ZDICT_isError(dictASize)) { printf("dict training failed\n"); return 2; }
    memset(dictB, 'b', sizeof dictB);    /* raw content dictionary */

    {   ZSTD_CCtx* c = ZSTD_createCCtx();
        fsize = ZSTD_compress_usingDict(c, frames, sizeof frames, samples, 500, dictA, dictASize, 3);
        ZSTD_freeCCtx(c);
        if (ZSTD_isError(fsize)) return 2; }
    {   /* append the v0.7 frame of tests/legacy.c */
        size_t s = 0, e = 0, k;
        for (k = 0; k + 4 <= COMPRESSED_SIZE; k++) {
            if (!memcmp(COMPRESSED + k, "\x27\xB5\x2F\xFD", 4)) s = k;
            if (!memcmp(COMPRESSED + k, "\x28\xB5\x2F\xFD", 4)) e = k;
        }
        memcpy(frames + fsize, COMPRESSED + s, e - s); fsize += e - s; }

    {   ZSTD_DCtx* d = ZSTD_createDCtx();
        ZSTD_DDict* A = ZSTD_createDDict(dictA, dictASize);
        size_t r;
        ZSTD_DCtx_setParameter(d, ZSTD_d_refMultipleDDicts, 1);
        ZSTD_DCtx_refDDict(d, A);
        ZSTD_DCtx_loadDictionary(d, dictB, sizeof dictB);
        r = ZSTD_decompressDCtx(d, dst, sizeof dst, frames, fsize);
        printf("ZSTD_decompressDCtx -> %s (%zu)\n", ZSTD_getErrorName(r), r);
        ZSTD_freeDCtx(d); ZSTD_freeDDict(A); }
    free(samples);
    return 0;
}
