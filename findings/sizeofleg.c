#define ZSTD_STATIC_LINKING_ONLY
#include "zstd.h"
#include <stdio.h>
#include <stdlib.h>
#include <string.h>
#include <malloc.h>
#include "legacy_data.h"
int main(void){
  /* find the v0.7 frame (magic 0xFD2FB527) inside the concatenated legacy frames */
  size_t off=0; for (size_t i=0;i+4<=COMPRESSED_SIZE;i++){ unsigned m; memcpy(&m,COMPRESSED+i,4); if (m==0xFD2FB527u){off=i;break;} }
  ZSTD_DCtx* d = ZSTD_createDCtx();
  char out[4096]; ZSTD_inBuffer in={COMPRESSED+off, 12, 0}; ZSTD_outBuffer o={out,sizeof out,0};
  size_t s0 = ZSTD_sizeof_DCtx(d); size_t h0 = mallinfo2().uordblks;
  size_t r = ZSTD_decompressStream(d,&o,&in);        /* feeds the start of a v0.7 frame: legacy stream context gets created */
  size_t s1 = ZSTD_sizeof_DCtx(d); size_t h1 = mallinfo2().uordblks;
  printf("v0.7 frame at %zu ; decompressStream -> %s\n", off, ZSTD_isError(r)?ZSTD_getErrorName(r):"ok");
  printf("heap held by the process grew by %zu bytes ; ZSTD_sizeof_DCtx grew by %zu bytes\n", h1-h0, s1-s0);
  ZSTD_freeDCtx(d); return (h1-h0) > (s1-s0) + 1024; }
