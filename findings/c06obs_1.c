/* obs_1: one-shot decoder accepts RLE / raw blocks larger than the frame's Block_Maximum_Size;
 * ZSTD_decompressBound() (nbBlocks * blockSizeMax) is then BELOW the size ZSTD_decompress() really produces,
 * and the streaming decoder disagrees with the one-shot decoder on the same bytes.
 *
 * exit status 1 and a message when the problem is present.
 */
// build (from the worktree root, unmodified tree):
//   clang -g -O1 -fsanitize=address,undefined -DZSTD_DISABLE_ASM -DZSTD_MULTITHREAD -I lib _seed/obs_1.c lib/common/*.c lib/compress/*.c lib/decompress/*.c -lpthread -o _seed/scratch/obs_1
#include <stdio.h>
#include <stdlib.h>
#include <string.h>
#define ZSTD_STATIC_LINKING_ONLY
#include "zstd.h"
#include "zstd_errors.h"

static int check(const char* name, const unsigned char* frame, size_t fsize, size_t expect)
{
    int bad = 0;
    unsigned long long const bound = ZSTD_decompressBound(frame, fsize);
    size_t const fcs = ZSTD_findFrameCompressedSize(frame, fsize);
    unsigned char* dst = malloc(expect);
    size_t const r = ZSTD_decompress(dst, expect, frame, fsize);
    printf("%s: findFrameCompressedSize=%zu decompressBound=%llu  ZSTD_decompress -> %s%zu\n",
           name, fcs, bound, ZSTD_isError(r) ? "error " : "", ZSTD_isError(r) ? (size_t)ZSTD_getErrorCode(r) : r);
    if (!ZSTD_isError(r) && bound != ZSTD_CONTENTSIZE_ERROR && bound < r) {
        printf("   VIOLATION: decompressBound (%llu) < actual decoded size (%zu)\n", bound, r);
        bad = 1;
    }
    /* streaming decoder on the same bytes */
    {   ZSTD_DCtx* d = ZSTD_createDCtx();
        ZSTD_inBuffer in = { frame, fsize, 0 };
        ZSTD_outBuffer out = { dst, expect, 0 };
        size_t const s = ZSTD_decompressStream(d, &out, &in);
        printf("   ZSTD_decompressStream -> %s (out.pos=%zu)\n", ZSTD_isError(s) ? ZSTD_getErrorName(s) : "ok", out.pos);
        if (ZSTD_isError(s) != ZSTD_isError(r)) { printf("   VIOLATION: one-shot and streaming decoders disagree\n"); bad = 1; }
        ZSTD_freeDCtx(d);
    }
    free(dst);
    return bad;
}

int main(void)
{
    int bad = 0;
    /* magic, FHD=0 (window descriptor follows, no FCS), WD=0 => windowSize = blockSizeMax = 1 KB */
    {   unsigned char f[10] = { 0x28,0xB5,0x2F,0xFD, 0x00, 0x00, 0,0,0, 0xAA };
        unsigned const rleSize = 1000000;                       /* >> 1 KB, >> 128 KB */
        unsigned const bh = (rleSize << 3) | (1u /*bt_rle*/ << 1) | 1u /*last*/;
        f[6] = (unsigned char)bh; f[7] = (unsigned char)(bh>>8); f[8] = (unsigned char)(bh>>16);
        bad |= check("RLE block of 1000000 bytes, window 1 KB", f, sizeof f, rleSize);
    }
    {   unsigned char f[10] = { 0x28,0xB5,0x2F,0xFD, 0x00, 0x00, 0,0,0, 0xAA };
        unsigned const rleSize = 3000;                          /* > blockSizeMax = 1 KB, small enough for the streaming decoder's buffer: rejected there by its own 'Decompressed Block Size Exceeds Maximum' check */
        unsigned const bh = (rleSize << 3) | (1u /*bt_rle*/ << 1) | 1u /*last*/;
        f[6] = (unsigned char)bh; f[7] = (unsigned char)(bh>>8); f[8] = (unsigned char)(bh>>16);
        bad |= check("RLE block of 3000 bytes, window 1 KB", f, sizeof f, rleSize);
    }
    {   unsigned const rawSize = 5000;                          /* > blockSizeMax = 1 KB */
        size_t const fsize = 9 + rawSize;
        unsigned char* f = calloc(1, fsize);
        unsigned const bh = (rawSize << 3) | (0u /*bt_raw*/ << 1) | 1u;
        f[0]=0x28; f[1]=0xB5; f[2]=0x2F; f[3]=0xFD; f[4]=0; f[5]=0;
        f[6] = (unsigned char)bh; f[7] = (unsigned char)(bh>>8); f[8] = (unsigned char)(bh>>16);
        memset(f+9, 'x', rawSize);
        bad |= check("raw block of 5000 bytes, window 1 KB", f, fsize, rawSize);
        free(f);
    }
    return bad;
}
