#include "zstd_seekable.h"
#include "zstd.h"
#include <stdio.h>
#include <stdlib.h>
#include <string.h>
int main(void){
  char src[3000]; memset(src,'x',sizeof src);
  char* dst = malloc(1<<16); ZSTD_seekable_CStream* zc = ZSTD_seekable_createCStream();
  ZSTD_seekable_initCStream(zc, 3, 0, 1000);
  ZSTD_inBuffer in={src,sizeof src,0}; ZSTD_outBuffer out={dst,1<<16,0};
  while(in.pos<in.size) ZSTD_seekable_compressStream(zc,&out,&in);
  while(ZSTD_seekable_endStream(zc,&out)>0);
  ZSTD_seekable* zs = ZSTD_seekable_create(); size_t r=ZSTD_seekable_initBuff(zs,dst,out.pos);
  unsigned n = ZSTD_seekable_getNumFrames(zs);
  printf("init=%zu frames=%u\n", r, n);
  size_t a = ZSTD_seekable_getFrameCompressedSize(zs, n);
  size_t b = ZSTD_seekable_getFrameDecompressedSize(zs, n);   /* index == numFrames must be refused */
  printf("cSize(n): %s ; dSize(n): %s\n", ZSTD_isError(a)?"error":"VALUE", ZSTD_isError(b)?"error":"VALUE");
  ZSTD_seekable_free(zs); ZSTD_seekable_freeCStream(zc); free(dst); return !ZSTD_isError(b); }
