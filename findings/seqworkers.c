/* obs_3 : ZSTD_compressSequences on a context with ZSTD_c_nbWorkers >= 1 and a source larger than
 * ZSTDMT_JOBSIZE_MIN (512 KiB).
 * ZSTD_CCtx_init_compressStream2 (zstd_compress.c:6344-6366) then only initialises the MT context and
 * never calls ZSTD_compressBegin_internal : cctx->blockSize, cctx->seqStore, cctx->blockState
 * (repcodes, entropy tables and their repeat modes) are whatever an earlier frame left there
 * (or nothing at all on a fresh context), and ZSTD_compressSequences_internal (:6880) uses them.
 *   scenario A : fresh context, valid parse    -> expected : a frame that decodes to the source
 *   scenario B : the same context first serves a smaller source (<= 512 KiB : run single-threaded, works), is reset
 *                (session only), then gets the large one : the block state of the first frame is still there
 *
 * build (from the worktree root):
 *   clang -g -O1 -fsanitize=address,undefined -DZSTD_MULTITHREAD -DZSTD_DISABLE_ASM -I lib _seed/obs_3.c \
 *      lib/common/*.c lib/compress/*.c lib/decompress/*.c -lpthread -o _seed/obs_3
 * run : _seed/obs_3 A    and    _seed/obs_3 B
 */
#define ZSTD_STATIC_LINKING_ONLY
#include "zstd.h"
#include <stdio.h>
#include <stdlib.h>
#include <string.h>

static unsigned rnd(unsigned* s) { *s = *s * 1103515245u + 12345u; return *s >> 8; }

int main(int argc, char** argv)
{
    int const scenario = (argc > 1) ? argv[1][0] : 'A';
    size_t const srcSize = 600 * 1024;
    unsigned char* src = malloc(srcSize);
    unsigned char* back = malloc(srcSize);
    size_t const dstCap = ZSTD_compressBound(srcSize) + 4096;
    void* dst = malloc(dstCap);
    ZSTD_Sequence* seqs = malloc(sizeof(ZSTD_Sequence) * (srcSize / 64 + 8));
    size_t nbSeqs = 0, pos = 0, r, d;
    unsigned seed = 7;
    int delim, fail = 0;

    /* source and a valid parse of it, built together : 2000 random bytes, then repeatedly
     * 40 literals followed by 60 bytes copied from 1000 back (every match has offset 1000) */
    {   size_t i; unsigned carry = 2000;
        for (i = 0; i < 2000; i++) src[pos++] = (unsigned char)rnd(&seed);
        while (pos + 100 <= srcSize) {
            for (i = 0; i < 40; i++) src[pos + i] = (unsigned char)rnd(&seed);
            pos += 40;
            for (i = 0; i < 60; i++) src[pos + i] = src[pos + i - 1000];
            pos += 60;
            seqs[nbSeqs].litLength = 40 + carry; seqs[nbSeqs].matchLength = 60; seqs[nbSeqs].offset = 1000; seqs[nbSeqs].rep = 0;
            carry = 0; nbSeqs++;
    }   }
    while (pos < srcSize) src[pos++] = (unsigned char)rnd(&seed);   /* trailing literals */

    for (delim = 0; delim <= 0; delim++) {
        ZSTD_CCtx* cctx = ZSTD_createCCtx();
        ZSTD_CCtx_setParameter(cctx, ZSTD_c_nbWorkers, 2);
        ZSTD_CCtx_setParameter(cctx, ZSTD_c_blockDelimiters, ZSTD_sf_noBlockDelimiters);
        ZSTD_CCtx_setParameter(cctx, ZSTD_c_validateSequences, 1);
        if (scenario == 'B') {   /* an earlier, smaller job on the same context : <= 512 KiB, so it is run single-threaded and works */
            size_t const n0 = 2900, size0 = 2000 + n0 * 100;
            size_t const c0 = ZSTD_compressSequences(cctx, dst, dstCap, seqs, n0, src, size0);
            size_t const d0 = ZSTD_isError(c0) ? c0 : ZSTD_decompress(back, srcSize, dst, c0);
            printf("earlier frame (%zu bytes) : %s\n", size0, (ZSTD_isError(d0) || d0 != size0 || memcmp(back, src, size0)) ? "FAILED" : "round trip ok");
            ZSTD_CCtx_reset(cctx, ZSTD_reset_session_only);
        }
        r = ZSTD_compressSequences(cctx, dst, dstCap, seqs, nbSeqs, src, srcSize);
        printf("scenario %c : nbWorkers=2, valid parse of %zu bytes : compressSequences -> %s (%zu)\n", scenario, srcSize,
               ZSTD_isError(r) ? ZSTD_getErrorName(r) : "ok", r);
        if (ZSTD_isError(r)) fail = 1;
        else {
            d = ZSTD_decompress(back, srcSize, dst, r);
            if (ZSTD_isError(d)) { printf("   frame does not decode : %s\n", ZSTD_getErrorName(d)); fail = 1; }
            else if (d != srcSize || memcmp(back, src, srcSize)) { printf("   frame decodes to DIFFERENT bytes\n"); fail = 1; }
            else printf("   round trip ok\n");
        }
        /* same call with nbWorkers=0 on a fresh context, for reference */
        {   ZSTD_CCtx* ref = ZSTD_createCCtx();
            ZSTD_CCtx_setParameter(ref, ZSTD_c_validateSequences, 1);
            r = ZSTD_compressSequences(ref, dst, dstCap, seqs, nbSeqs, src, srcSize);
            d = ZSTD_isError(r) ? r : ZSTD_decompress(back, srcSize, dst, r);
            printf("reference (nbWorkers=0) : %s\n", (ZSTD_isError(r) || ZSTD_isError(d) || memcmp(back, src, srcSize)) ? "FAILED" : "round trip ok");
            ZSTD_freeCCtx(ref);
        }
        ZSTD_freeCCtx(cctx);
    }
    free(seqs); free(dst); free(back); free(src);
    return fail;
}
