// obs_3.c - with ZSTD_c_validateSequences=1, a correct external sequence producer is refused as soon as a match
//           starts in an earlier block (wrong verdict : externalSequences_invalid on valid sequences).
// Build (from the repository root, UNMODIFIED sources):
//   clang -g -O1 -fsanitize=address -DZSTD_DISABLE_ASM -I lib -I _seed _seed/obs_3.c lib/common/*.c lib/compress/*.c lib/decompress/*.c -o _seed/obs_3
//   ASAN_OPTIONS=detect_leaks=0 ./_seed/obs_3
//
// Same cause as obs_2 : ZSTD_buildSeqStore() (lib/compress/zstd_compress.c:3339) restarts seqPos.posInSrc at 0 for every
// block, so ZSTD_validateSequence() (zstd_compress.c:6569) bounds every offset by the position inside the BLOCK :
// an offset that reaches the previous block - perfectly valid, well inside the window the producer was told about -
// is reported as "Offset too large". The same sequences, with validation off, give a frame that the specification
// decoder accepts.
#define ZSTD_STATIC_LINKING_ONLY
#include "zstd.h"
#include "strict_check.h"

#define BLOCK 131072
static unsigned char g_src[2 * BLOCK], g_dst[3 * BLOCK];
static const unsigned char* g_srcBase;

/* block 0 : literals only. block 1 : 8 literals, then the rest copied from one block earlier (offset 128 KB) */
static size_t producer(void* state, ZSTD_Sequence* outSeqs, size_t outSeqsCapacity, const void* src, size_t srcSize,
                       const void* dict, size_t dictSize, int level, size_t windowSize)
{
    size_t const P = (size_t)((const unsigned char*)src - g_srcBase);
    (void)state; (void)dict; (void)dictSize; (void)level; (void)outSeqsCapacity;
    if (P == 0 || windowSize < 2 * BLOCK) { outSeqs[0].litLength = (unsigned)srcSize; outSeqs[0].matchLength = 0; outSeqs[0].offset = 0; outSeqs[0].rep = 0; return 1; }
    outSeqs[0].litLength = 8; outSeqs[0].matchLength = (unsigned)(srcSize - 8); outSeqs[0].offset = BLOCK; outSeqs[0].rep = 0;
    outSeqs[1].litLength = 0; outSeqs[1].matchLength = 0; outSeqs[1].offset = 0; outSeqs[1].rep = 0;
    return 2;
}

int main(void)
{
    size_t i; unsigned s = 777; int validate; int bad = 0;
    for (i = 0; i < BLOCK; i++) { s = s * 1103515245u + 12345u; g_src[i] = (unsigned char)((s >> 16) & 15); }
    memcpy(g_src + BLOCK, g_src, BLOCK);
    g_srcBase = g_src;
    for (validate = 0; validate <= 1; validate++) {
        ZSTD_CCtx* const cctx = ZSTD_createCCtx(); size_t cSize;
        ZSTD_CCtx_setParameter(cctx, ZSTD_c_windowLog, 20);
        ZSTD_CCtx_setParameter(cctx, ZSTD_c_validateSequences, validate);
        ZSTD_CCtx_setParameter(cctx, ZSTD_c_enableSeqProducerFallback, 0);
        ZSTD_registerSequenceProducer(cctx, NULL, producer);
        cSize = ZSTD_compress2(cctx, g_dst, sizeof(g_dst), g_src, sizeof(g_src));
        printf("validateSequences=%d : ZSTD_compress2 -> %s\n", validate, ZSTD_isError(cSize) ? ZSTD_getErrorName(cSize) : "ok");
        if (!ZSTD_isError(cSize)) {
            char msg[300]; strict_expect_t e = strict_expect_default();
            int const v = strict_verify(g_dst, cSize, NULL, 0, g_src, sizeof(g_src), &e, msg, sizeof(msg));
            printf("   specification decoder : %s (window %llu, largest offset %llu)\n", v ? msg : "frame valid, content identical", g_strict.window_size, g_strict.max_offset_seen);
        } else if (validate) bad = 1;
        ZSTD_freeCCtx(cctx);
    }
    if (bad) printf("WRONG VERDICT : the sequences are valid (see validateSequences=0) but validation refuses them\n");
    return bad;
}
