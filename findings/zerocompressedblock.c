// build (from the worktree root; lib is a pristine copy of lib/, identical to lib/ after `git apply -R _seed/patch.diff`):
//   clang -w -g -O1 -fsanitize=address,undefined -DZSTD_MULTITHREAD -DZSTD_DISABLE_ASM -DZSTD_STATIC_LINKING_ONLY -I lib -I lib/common -I lib/compress -I lib/dictBuilder _seed/obs_d4.c lib/common/*.c lib/compress/*.c lib/decompress/*.c lib/dictBuilder/*.c -lpthread -o _seed/scratch/obs_d4
// run:   ASAN_OPTIONS=detect_leaks=0 ./_seed/scratch/obs_d4
/* obs_d4: a Compressed_Block with Block_Size 0 is refused by the one-shot decoder
 * (corruption_detected) but silently accepted as an "empty block" by ZSTD_decompressContinue(),
 * hence by ZSTD_decompressStream(): same bytes, two verdicts. */
#include <stdio.h>
#include <stdlib.h>
#include <string.h>
#include "zstd.h"
#include "zstd_errors.h"

int main(void)
{
    /* magic, FHD=0x20 (single segment, 1-byte FCS), FCS=5,
     * block 1: raw, 5 bytes, not last; block 2: type=compressed(2), size 0, last */
    static const unsigned char frame[] = { 0x28,0xB5,0x2F,0xFD, 0x20, 0x05,
                                           0x28,0x00,0x00, 'h','e','l','l','o',
                                           0x05,0x00,0x00 };
    unsigned char* src = malloc(sizeof frame); unsigned char out[16];
    size_t r;
    memcpy(src, frame, sizeof frame);
    printf("findFrameCompressedSize = %zu (frame is %zu bytes), contentSize = %llu\n",
           ZSTD_findFrameCompressedSize(src, sizeof frame), sizeof frame, ZSTD_getFrameContentSize(src, sizeof frame));
    r = ZSTD_decompress(out, sizeof out, src, sizeof frame);
    printf("ZSTD_decompress        : %s\n", ZSTD_isError(r) ? ZSTD_getErrorName(r) : "ok");
    {   ZSTD_DCtx* d = ZSTD_createDCtx();
        /* feed byte by byte so that the single-pass shortcut is not taken */
        ZSTD_inBuffer in = { src, 0, 0 }; ZSTD_outBuffer o = { out, sizeof out, 0 };
        size_t h = 1;
        while (in.size < sizeof frame) { in.size++; h = ZSTD_decompressStream(d, &o, &in); if (ZSTD_isError(h)) break; }
        if (ZSTD_isError(h)) printf("ZSTD_decompressStream  : %s\n", ZSTD_getErrorName(h));
        else printf("ZSTD_decompressStream  : returns %zu, consumed %zu, produced %zu bytes \"%.*s\"\n", h, in.pos, o.pos, (int)o.pos, out);
        ZSTD_freeDCtx(d);
    }
    {   /* bufferless API */
        ZSTD_DCtx* d = ZSTD_createDCtx(); size_t pos = 0, op = 0; size_t e = 0;
        ZSTD_decompressBegin(d);
        for (;;) {
            size_t n = ZSTD_nextSrcSizeToDecompress(d);
            if (n == 0) break;
            if (pos + n > sizeof frame) { printf("bufferless: wants more input\n"); break; }
            e = ZSTD_decompressContinue(d, out + op, sizeof out - op, src + pos, n);
            if (ZSTD_isError(e)) break;
            pos += n; op += e;
        }
        printf("ZSTD_decompressContinue: %s, consumed %zu, produced %zu\n", ZSTD_isError(e) ? ZSTD_getErrorName(e) : "frame completed", pos, op);
        ZSTD_freeDCtx(d);
    }
    free(src);
    return 0;
}
