// obs_8 : with legacy support compiled in (library default, ZSTD_LEGACY_SUPPORT=5) the streaming decoder's window limit
// does not apply to legacy frames : ZSTD_decompressStream() hands a v0.5-v0.7 frame to ZSTD_decompressLegacyStream()
// (zstd_decompress.c:2168-2182) before the limit check at :2261, and ZBUFFv07_decompressContinue() sizes its buffers
// from the frame header alone (legacy/zstd_v07.c:4388-4403, window up to 1<<27).
// A 9-byte input makes a decoder limited to 1 MB (ZSTD_DCtx_setMaxWindowSize / ZSTD_d_windowLogMax=20) allocate 128 MB.
// zstd.h:1735 "Any frame requesting a window size larger than max specified one will be rejected."
//
// build (from the worktree root):
//   clang -g -O1 -fsanitize=address -DZSTD_MULTITHREAD -DZSTD_DISABLE_ASM -DZSTD_LEGACY_SUPPORT=5 -I lib -I lib/legacy _seed/obs_8.c lib/common/*.c lib/compress/*.c lib/decompress/*.c lib/legacy/zstd_v05.c lib/legacy/zstd_v06.c lib/legacy/zstd_v07.c -lpthread -Wl,--wrap=malloc -Wl,--wrap=calloc -o _seed/obs_8
#define ZSTD_STATIC_LINKING_ONLY
#include "zstd.h"
#include <stdio.h>
#include <stdlib.h>
#include <string.h>

static unsigned long long g_bytes = 0, g_largest = 0;
void* __real_malloc(size_t s);
void* __real_calloc(size_t n, size_t s);
void* __wrap_malloc(size_t s) { g_bytes += s; if (s > g_largest) g_largest = s; return __real_malloc(s); }
void* __wrap_calloc(size_t n, size_t s) { g_bytes += n*s; if (n*s > g_largest) g_largest = n*s; return __real_calloc(n, s); }

int main(void)
{
    /* v0.7 magic, frame header descriptor 0 (window descriptor present, no content size), window descriptor (27-10)<<3, raw block header */
    static const unsigned char frame[] = { 0x27, 0xB5, 0x2F, 0xFD, 0x00, 0x88, 0x40, 0x00, 0x01 };
    static char out[1024];
    size_t const W = (size_t)1 << 20;
    ZSTD_DStream* const zds = ZSTD_createDStream();
    ZSTD_inBuffer in = { frame, sizeof(frame), 0 };
    ZSTD_outBuffer o = { out, sizeof(out), 0 };
    size_t r;
    setvbuf(stdout, NULL, _IONBF, 0);
    r = ZSTD_DCtx_setMaxWindowSize(zds, W);
    printf("ZSTD_DCtx_setMaxWindowSize(%zu) -> %s ; budget ZSTD_estimateDStreamSize(W) = %zu\n", W, ZSTD_getErrorName(r), ZSTD_estimateDStreamSize(W));
    g_bytes = 0; g_largest = 0;
    r = ZSTD_decompressStream(zds, &o, &in);
    printf("ZSTD_decompressStream(9 bytes) -> %s ; heap requested during the call : %llu bytes (largest block %llu) ; ZSTD_sizeof_DStream = %zu\n",
           ZSTD_isError(r) ? ZSTD_getErrorName(r) : "no error", g_bytes, g_largest, ZSTD_sizeof_DStream(zds));
    ZSTD_freeDStream(zds);
    if (g_bytes > ZSTD_estimateDStreamSize(W)) { printf("VIOLATION: frame above the window limit was not refused, decoder allocated beyond the budget of the limit\n"); return 1; }
    printf("ok\n");
    return 0;
}
