/* obs_1.c - UNMODIFIED tree.
 * ZSTD_c_stableInBuffer + ZSTD_flushStream()/ZSTD_endStream() while the frame is still in its
 * deferred-initialisation stage: the flush / end "completes" but the input that the earlier
 * ZSTD_compressStream2(ZSTD_e_continue) call reported as consumed is silently dropped.
 *
 * build (from the worktree root):
 *   clang -g -O1 -fsanitize=address -DZSTD_MULTITHREAD -DZSTD_DISABLE_ASM -I lib _seed/obs_1.c \
 *         lib/common/[!_]*.c lib/compress/[!_]*.c lib/decompress/[!_]*.c -lpthread -o _seed/obs_1
 * run: _seed/obs_1      (exit 1 = the violation was observed)
 */
#define ZSTD_STATIC_LINKING_ONLY
#include "zstd.h"
#include <stdio.h>
#include <stdlib.h>
#include <string.h>

static char src[4000];
static char dst[1<<16];
static char out[1<<16];

static size_t decodeAll(const void* c, size_t cSize, void* d, size_t dCap, size_t* hintOut)
{
    ZSTD_DCtx* const dctx = ZSTD_createDCtx();
    ZSTD_inBuffer in = { c, cSize, 0 };
    ZSTD_outBuffer o = { d, dCap, 0 };
    size_t h = 1;
    int guard = 0;
    while (in.pos < in.size && guard++ < 1000) {
        h = ZSTD_decompressStream(dctx, &o, &in);
        if (ZSTD_isError(h)) { printf("    decoder error: %s\n", ZSTD_getErrorName(h)); break; }
    }
    *hintOut = h;
    ZSTD_freeDCtx(dctx);
    return o.pos;
}

static int scenario(int useEndOnly)
{
    int bad = 0;
    ZSTD_CCtx* const cctx = ZSTD_createCCtx();
    ZSTD_inBuffer in = { src, 1000, 0 };
    ZSTD_outBuffer o = { dst, sizeof(dst), 0 };
    size_t r, hint = 0, dSize;
    ZSTD_CCtx_setParameter(cctx, ZSTD_c_stableInBuffer, 1);

    r = ZSTD_compressStream2(cctx, &o, &in, ZSTD_e_continue);
    printf("  compressStream2(continue, 1000 bytes) -> %s, in.pos=%zu out.pos=%zu\n",
            ZSTD_isError(r) ? ZSTD_getErrorName(r) : "ok", in.pos, o.pos);
    if (ZSTD_isError(r) || in.pos != 1000) { printf("  unexpected\n"); return 0; }

    if (!useEndOnly) {
        r = ZSTD_flushStream(cctx, &o);
        printf("  flushStream -> %zu (%s), out.pos=%zu\n", r, ZSTD_isError(r) ? ZSTD_getErrorName(r) : "ok", o.pos);
        if (r == 0) {
            /* (b) : flush complete => output so far must regenerate the 1000 consumed bytes */
            dSize = decodeAll(dst, o.pos, out, sizeof(out), &hint);
            printf("  after completed flush: decoder regenerates %zu bytes (consumed so far: 1000)\n", dSize);
            if (dSize != 1000 || memcmp(out, src, 1000)) { printf("  ** VIOLATION (b): completed flush is not decodable to the consumed input\n"); bad = 1; }
        }
    }
    r = ZSTD_endStream(cctx, &o);
    printf("  endStream -> %zu (%s), out.pos=%zu\n", r, ZSTD_isError(r) ? ZSTD_getErrorName(r) : "ok", o.pos);
    if (ZSTD_isError(r)) {
        printf("  ** VIOLATION (a): a valid finite stream cannot be finished: %s\n", ZSTD_getErrorName(r));
        bad = 1;
    } else if (r == 0) {
        dSize = decodeAll(dst, o.pos, out, sizeof(out), &hint);
        printf("  completed frame: decoder regenerates %zu bytes, final hint %zu (consumed: 1000)\n", dSize, hint);
        if (dSize != 1000 || memcmp(out, src, 1000)) { printf("  ** VIOLATION: frame reported complete does not contain the consumed input\n"); bad = 1; }
    }
    ZSTD_freeCCtx(cctx);
    return bad;
}

int main(void)
{
    int bad = 0;
    size_t i;
    for (i = 0; i < sizeof(src); i++) src[i] = (char)((i * 7) ^ (i >> 3));
    printf("scenario 1: stableInBuffer; compressStream2(continue) ; flushStream ; endStream\n");
    bad |= scenario(0);
    printf("scenario 2: stableInBuffer; compressStream2(continue) ; endStream\n");
    bad |= scenario(1);
    printf(bad ? "RESULT: violation observed\n" : "RESULT: ok\n");
    return bad;
}
