// obs_3.c - UNMODIFIED tree.
// A single-segment frame declaring 0 bytes of content gets blockSizeMax = 0. The streaming decoder
// (ZSTD_decompressContinue, block-header stage) compares the *stored* size of the next block with blockSizeMax,
// so it rejects an RLE block (stored size 1, regenerated size 0 - allowed by the format: "a block can contain
// any number of bytes (even zero)"). The one-shot decoder, and ZSTD_decompressStream() itself when it is handed
// the whole frame at once (single-pass shortcut), accept the same frame. So whether this finite frame can be
// finished depends on how the caller happens to chunk it (and a hint-following reader always fails).
//
// build (from the worktree root):
//   clang -g -O1 -fsanitize=address -DZSTD_MULTITHREAD -DZSTD_DISABLE_ASM -I lib _seed/obs_3.c lib/common/[!_]*.c lib/compress/[!_]*.c lib/decompress/[!_]*.c -lpthread -o _seed/obs_3
// run: _seed/obs_3     (exit 1 = the disagreement was observed)
#define ZSTD_STATIC_LINKING_ONLY
#include "zstd.h"
#include <stdio.h>
#include <string.h>

static int tryFrame(const char* name, const unsigned char* f, size_t fSize)
{
    char out[16]; int bad = 0; size_t r, k;
    printf("%s (%zu bytes)\n", name, fSize);
    r = ZSTD_decompress(out, sizeof(out), f, fSize);
    printf("  ZSTD_decompress                         : %s (%zu)\n", ZSTD_isError(r) ? ZSTD_getErrorName(r) : "ok", r);
    {   ZSTD_DCtx* const d = ZSTD_createDCtx(); ZSTD_inBuffer in = { f, fSize, 0 }; ZSTD_outBuffer o = { out, sizeof(out), 0 };
        r = ZSTD_decompressStream(d, &o, &in);
        printf("  ZSTD_decompressStream, whole frame      : %s (ret %zu, consumed %zu)\n", ZSTD_isError(r) ? ZSTD_getErrorName(r) : "ok", r, in.pos);
        ZSTD_freeDCtx(d); }
    for (k = 1; k < fSize; k++) {
        ZSTD_DCtx* const d = ZSTD_createDCtx(); ZSTD_inBuffer in = { f, k, 0 }; ZSTD_outBuffer o = { out, sizeof(out), 0 };
        r = ZSTD_decompressStream(d, &o, &in);
        if (!ZSTD_isError(r)) { in.size = fSize; r = ZSTD_decompressStream(d, &o, &in); }
        if (ZSTD_isError(r)) { printf("  ZSTD_decompressStream, split after %2zu    : ** %s\n", k, ZSTD_getErrorName(r)); bad = 1; }
        ZSTD_freeDCtx(d);
    }
    {   /* following the hints */
        ZSTD_DCtx* const d = ZSTD_createDCtx(); size_t pos = 0; size_t hint = ZSTD_initDStream(d); ZSTD_outBuffer o = { out, sizeof(out), 0 };
        while (hint && !ZSTD_isError(hint) && pos + hint <= fSize) { ZSTD_inBuffer in = { f, pos + hint, pos }; hint = ZSTD_decompressStream(d, &o, &in); pos = in.pos; }
        printf("  ZSTD_decompressStream, following hints  : %s (stopped at %zu/%zu)\n", ZSTD_isError(hint) ? ZSTD_getErrorName(hint) : "ok", pos, fSize);
        if (ZSTD_isError(hint)) bad = 1;
        ZSTD_freeDCtx(d); }
    return bad;
}

int main(void)
{
    /* A : magic, FHD=0x20 (single segment, 1-byte content size), content size 0, last RLE block of regenerated size 0, its byte */
    static const unsigned char A[] = { 0x28,0xB5,0x2F,0xFD, 0x20, 0x00, 0x03,0x00,0x00, 0x55 };
    /* A2 : same with a 4-byte content size field, a checksum, and a non-last RLE block of size 0 before the last one */
    static const unsigned char A2[] = { 0x28,0xB5,0x2F,0xFD, 0xA4, 0x00,0x00,0x00,0x00, 0x02,0x00,0x00, 0x11, 0x03,0x00,0x00, 0x22, 0x99,0xE9,0xD8,0x51 };
    int bad = 0;
    bad |= tryFrame("frame A : empty content, one RLE block of size 0", A, sizeof(A));
    bad |= tryFrame("frame A2: empty content, checksum, two RLE blocks of size 0", A2, sizeof(A2));
    printf(bad ? "RESULT: streaming decoder rejects frames that the one-shot decoder accepts\n" : "RESULT: ok\n");
    return bad;
}
