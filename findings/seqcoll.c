/* after ZSTD_generateSequences(cctx), does a later ZSTD_compress2(cctx) behave as on a fresh context? */
#define ZSTD_STATIC_LINKING_ONLY
#include "zstd.h"
#include <stdio.h>
#include <stdlib.h>
#include <string.h>
int main(void){
    size_t n=100000; char* src=malloc(n); for(size_t i=0;i<n;i++) src[i]="abcdefgh"[ (i*i>>3)&7 ];
    ZSTD_CCtx* c=ZSTD_createCCtx();
    size_t cap=ZSTD_compressBound(n); char* a=malloc(cap), *b=malloc(cap);
    size_t ns=ZSTD_sequenceBound(n); ZSTD_Sequence* seqs=malloc(ns*sizeof*seqs);
    size_t r=ZSTD_generateSequences(c,seqs,ns,src,n);
    printf("generateSequences -> %zu (%s)\n",r,ZSTD_isError(r)?ZSTD_getErrorName(r):"ok");
    if (getenv("FREE_SEQS")) free(seqs);
    ZSTD_CCtx_reset(c, ZSTD_reset_session_and_parameters);
    size_t ra=ZSTD_compress2(c,a,cap,src,n);
    ZSTD_CCtx* f=ZSTD_createCCtx();
    size_t rb=ZSTD_compress2(f,b,cap,src,n);
    printf("reused ctx: %zu (%s)  fresh ctx: %zu\n",ra,ZSTD_isError(ra)?ZSTD_getErrorName(ra):"ok",rb);
    if(!ZSTD_isError(ra)){
        char* d=malloc(n); size_t rd=ZSTD_decompress(d,n,a,ra);
        printf("decode of reused-ctx frame: %s\n", ZSTD_isError(rd)?ZSTD_getErrorName(rd):(rd==n&&!memcmp(d,src,n)?"round trip ok":"WRONG BYTES"));
    }
    printf("identical: %d\n", ra==rb && !memcmp(a,b,ra));
    return 0;
}
