/* Side observation on the UNMODIFIED tree (not part of the seeded change):
 * with a dictionary, a long context history changes the output.
 * When match-finder indices cross ZSTD_CURRENT_MAX (3500 MB) in the middle of a frame,
 * ZSTD_overflowCorrectIfNeeded() drops the dictionary (loadedDictEnd = 0, dictMatchState = NULL)
 * although a fresh context would still be allowed to use it (input so far < window size).
 * Build: clang -O2 -g -DZSTD_DISABLE_ASM -I lib _seed/side_unmodified.c lib/common/[a-z]*.c lib/compress/[a-z]*.c lib/decompress/[a-z]*.c -o /tmp/seed3-C07-side
 * Prints "eq=0" for the last frame on the unmodified sources (round trip still ok). */
#define ZSTD_STATIC_LINKING_ONLY
#include "zstd.h"
#include <stdio.h>
#include <stdlib.h>
#include <string.h>
static char* dict; static size_t dn = 100<<10;
static void cfg(ZSTD_CCtx* c){ ZSTD_CCtx_reset(c, ZSTD_reset_session_and_parameters);
  ZSTD_CCtx_setParameter(c, ZSTD_c_compressionLevel, 3);
  ZSTD_CCtx_setParameter(c, ZSTD_c_windowLog, 25);
  ZSTD_CCtx_loadDictionary_advanced(c, dict, dn, ZSTD_dlm_byCopy, ZSTD_dct_rawContent); }
static size_t enc(ZSTD_CCtx* c, char* dst, size_t cap, const char* src, size_t n){ cfg(c); ZSTD_outBuffer out={dst,cap,0}; size_t p=0; while(p<n){ size_t pc = n-p<(1<<20)?n-p:(1<<20); ZSTD_inBuffer in={src+p,pc,0}; int last = p+pc==n; size_t r; do { r=ZSTD_compressStream2(c,&out,&in,last?ZSTD_e_end:ZSTD_e_continue); if (ZSTD_isError(r)) {printf("err %s\n", ZSTD_getErrorName(r)); exit(2);} } while(last? r!=0 : in.pos<in.size); p+=pc;} return out.pos; }
int main(void){
  size_t n = 64<<20; char* fill = malloc(n); size_t cap=ZSTD_compressBound(n); char* dst = malloc(cap); char* dst2=malloc(cap); size_t i;
  size_t sn = 30<<20; char* src = malloc(sn); dict = malloc(dn);
  unsigned long long s=1; for(i=0;i<dn;i++){ s=s*6364136223846793005ULL+1442695040888963407ULL; dict[i]=(char)(s>>40);} 
  for(i=0;i<sn;i++){ s=s*6364136223846793005ULL+1442695040888963407ULL; src[i]= (i>70000 && (s>>60)<13) ? src[i-1-((s>>20)%65000)] : (char)('a'+((s>>33)%20)); }
  for(i=0;i<10;i++) memcpy(src + (24<<20) + i*dn, dict, dn);   /* dictionary content quoted 24 MB into the input */
  for(i=0;i<n;i++) fill[i]=(char)(i&4095)*7;
  ZSTD_CCtx* f = ZSTD_createCCtx(); size_t rs = enc(f,dst2,cap,src,sn); printf("ref %zu\n", rs);
  ZSTD_CCtx* c = ZSTD_createCCtx();
  size_t r0 = enc(c,dst,cap,src,sn); printf("warm %zu eq=%d\n", r0, r0==rs && !memcmp(dst,dst2,rs));
  unsigned long long consumed = sn+dn, target = 3500ULL*(1<<20) - (20<<20);
  while(consumed<target){ size_t m = target-consumed<n? target-consumed : n; ZSTD_CCtx_reset(c, ZSTD_reset_session_and_parameters); ZSTD_CCtx_setParameter(c, ZSTD_c_compressionLevel, 1); ZSTD_compress2(c,dst,cap,fill,m); consumed+=m; }
 
  r0 = enc(c,dst,cap,src,sn); printf("test %zu eq=%d\n", r0, r0==rs && !memcmp(dst,dst2,rs));
  { ZSTD_DCtx* d = ZSTD_createDCtx(); char* back = malloc(sn); ZSTD_DCtx_loadDictionary_advanced(d, dict, dn, ZSTD_dlm_byCopy, ZSTD_dct_rawContent); size_t r = ZSTD_decompressDCtx(d, back, sn, dst, r0); printf("roundtrip %s\n", (r==sn && !memcmp(back,src,sn))?"ok":"BAD"); }
  return 0; }
