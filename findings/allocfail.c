#define ZSTD_STATIC_LINKING_ONLY
#include "zstd.h"
#include <stdio.h>
#include <stdlib.h>
#include <string.h>
/* counting allocator with a 64-byte header: freeing one of its blocks with free() is an error ASan reports */
static int g_count, g_failAt, g_live;
static void* cAlloc(void* o, size_t s){ (void)o; if (++g_count == g_failAt) return NULL; char* p = malloc(s+64); if(!p) return NULL; g_live++; return p+64; }
static void cFree(void* o, void* p){ (void)o; if(!p) return; g_live--; free((char*)p-64); }
int main(int argc,char**argv){
  int ldm = argc>1;
  size_t N=1<<20; char* src=malloc(N); for(size_t i=0;i<N;i++) src[i]=(char)(i*7); char* dst=malloc(ZSTD_compressBound(N));
  for (int n=1;n<60;n++){
    g_count=0; g_failAt=n; g_live=0;
    ZSTD_customMem cm={cAlloc,cFree,NULL};
    ZSTD_CCtx* c=ZSTD_createCCtx_advanced(cm); if(!c) continue;
    ZSTD_CCtx_setParameter(c,ZSTD_c_nbWorkers,2);
    if (ldm) ZSTD_CCtx_setParameter(c,ZSTD_c_enableLongDistanceMatching,1);
    size_t r=ZSTD_compress2(c,dst,ZSTD_compressBound(N),src,N);
    ZSTD_freeCCtx(c);
    printf("failAt=%d -> %s ; live after free=%d\n", n, ZSTD_isError(r)?ZSTD_getErrorName(r):"ok", g_live);
    if (g_count < n) break;
  }
  return 0; }
