/* obs_1.c - one-shot compression (ZSTD_compress2 / ZSTD_compressCCtx / ZSTD_compress): the frame bytes depend on
 * dstCapacity. With a destination only a few bytes larger than the frame the library would otherwise produce,
 * the last block comes out RAW (or the call fails with dstSize_tooSmall although the regular frame would fit).
 * build: clang -g -O1 -fsanitize=address -DZSTD_MULTITHREAD -DZSTD_DISABLE_ASM -I lib _seed/obs_1.c lib/common/[a-z]*.c lib/compress/[a-z]*.c lib/decompress/[a-z]*.c -lpthread -o _seed/obs_1
 *
 * Cause: the entropy stage needs sizeof(size_t) spare bytes behind the bitstream it writes
 *   (lib/common/bitstream.h:161 endPtr = start + dstCapacity - sizeof(bitContainer); :239 "overflow detected";
 *    lib/compress/huf_compress.c:862 / :979 likewise), so it reports dstSize_tooSmall for a block that fits, and
 *   ZSTD_entropyCompressSeqStore() (lib/compress/zstd_compress.c:3034-3040) turns that into "block not compressible":
 *       if ((cSize == ERROR(dstSize_tooSmall)) & (srcSize <= dstCapacity)) return 0;   // -> raw block
 */
#define ZSTD_STATIC_LINKING_ONLY
#include "zstd.h"
#include <stdio.h>
#include <stdlib.h>
#include <string.h>

static unsigned long long rs = 88172645463325252ULL;
static unsigned rnd(void) { rs ^= rs << 13; rs ^= rs >> 7; rs ^= rs << 17; return (unsigned)(rs >> 11); }

int main(void)
{
    unsigned char src[600], ref[2048], out[2048], dec[600];
    ZSTD_CCtx* const cctx = ZSTD_createCCtx();
    int it, shown = 0, nbDiff = 0, nbSpurious = 0, nbCases = 0;
    for (it = 0; it < 3000; it++) {
        size_t const n = 20 + rnd() % 400;
        int const level = (int)(rnd() % 19) + 1;
        size_t refSize, cap, i;
        for (i = 0; i < n; i++) src[i] = (unsigned char)("aaaaabbbcd"[rnd() % 10]);
        ZSTD_CCtx_reset(cctx, ZSTD_reset_session_and_parameters);
        ZSTD_CCtx_setParameter(cctx, ZSTD_c_compressionLevel, level);
        refSize = ZSTD_compress2(cctx, ref, sizeof(ref), src, n);            /* ample destination */
        if (ZSTD_isError(refSize)) { printf("unexpected error\n"); return 2; }
        {   int diff = 0, spurious = 0; char map[400]; int mp = 0;
            for (cap = refSize; cap < refSize + 12; cap++) {
                size_t const r = ZSTD_compress2(cctx, out, cap, src, n);
                if (ZSTD_isError(r)) { spurious++; mp += sprintf(map + mp, " %zu:ERR", cap); continue; }
                if (r != refSize || memcmp(out, ref, r)) {
                    size_t const d = ZSTD_decompress(dec, sizeof(dec), out, r);
                    diff++; mp += sprintf(map + mp, " %zu:%zuB%s", cap, r, (d == n && !memcmp(dec, src, n)) ? "" : "(UNDECODABLE)");
                } else mp += sprintf(map + mp, " %zu:same", cap);
            }
            nbCases++; nbDiff += diff != 0; nbSpurious += spurious != 0;
            if (diff && shown < 4) { shown++;
                printf("srcSize %zu level %d: dstCapacity 2048 -> %zu bytes;  dstCapacity:result ->%s\n", n, level, refSize, map); }
        }
    }
    printf("%d inputs: %d get a different (valid) frame for some dstCapacity >= size of the regular frame; %d get dstSize_tooSmall for some such capacity\n",
           nbCases, nbDiff, nbSpurious);
    ZSTD_freeCCtx(cctx);
    return nbDiff != 0;
}
