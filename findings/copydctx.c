/* obs_7.c - ZSTD_copyDCtx() duplicates the ownership of a dictionary loaded into the source context
 *
 * build: clang -g -O1 -fsanitize=address,undefined -DZSTD_MULTITHREAD -DZSTD_DISABLE_ASM -I lib \
 *        _seed/obs_7.c lib/common/[a-z]*.c lib/compress/[a-z]*.c lib/decompress/[a-z]*.c -lpthread -o _seed/obs_7
 *
 * ZSTD_copyDCtx() (zstd_decompress.c:353) is a memcpy of everything up to `inBuff`, which includes ddictLocal (the DDict
 * owned by the context after ZSTD_DCtx_loadDictionary()) and ddictSet (the table of ZSTD_d_refMultipleDDicts).
 * After the copy both contexts own the same objects : the second ZSTD_freeDCtx() is a double free (and whatever the
 * destination owned before is leaked). The compression-side sibling ZSTD_copyCCtx() copies tables, never owning pointers.
 */
#define ZSTD_STATIC_LINKING_ONLY
#define ZSTD_DISABLE_DEPRECATE_WARNINGS
#include <stdio.h>
#include <stdlib.h>
#include <string.h>
#include "zstd.h"

int main(void)
{
    static char dict[5000], src[3000], cbuf[4000], out[3000]; size_t i, c, r;
    ZSTD_CCtx* cctx = ZSTD_createCCtx(); ZSTD_DCtx* a = ZSTD_createDCtx(); ZSTD_DCtx* b = ZSTD_createDCtx();
    for (i = 0; i < sizeof(dict); i++) dict[i] = (char)('a' + (i * i / 11) % 26);
    memcpy(src, dict + 1000, sizeof(src));
    c = ZSTD_compress_usingDict(cctx, cbuf, sizeof(cbuf), src, sizeof(src), dict, sizeof(dict), 3);
    ZSTD_DCtx_loadDictionary(a, dict, sizeof(dict));      /* a owns a DDict */
    ZSTD_copyDCtx(b, a);                                  /* "duplicate the prepared context" */
    r = ZSTD_decompressDCtx(b, out, sizeof(out), cbuf, c);
    printf("decode with the copy : %s\n", (r == sizeof(src) && !memcmp(out, src, r)) ? "round trip ok" : ZSTD_getErrorName(r)); fflush(stdout);
    ZSTD_freeDCtx(b);
    ZSTD_freeDCtx(a);                                     /* double free of the DDict */
    ZSTD_freeCCtx(cctx);
    printf("done\n");
    return 0;
}
