// Side observations about the UNMODIFIED tree (not part of the seed; informational, always exits 0).
// Build: clang -g -O1 -fsanitize=address -DZSTD_MULTITHREAD -DZSTD_DISABLE_ASM -I lib -I lib/common _seed/probe_unmodified.c lib/common/*.c lib/compress/*.c lib/decompress/*.c -lpthread -o /tmp/c17_probe
#define ZSTD_STATIC_LINKING_ONLY
#include "zstd.h"
#include <stdio.h>
#include <stdlib.h>
#include <string.h>

typedef unsigned char BYTE;
static unsigned long long g = 88172645463325252ULL;
static unsigned rnd(void) { g ^= g << 13; g ^= g >> 7; g ^= g << 17; return (unsigned)(g >> 16); }

static BYTE cbuf[1 << 20], dbuf[1 << 20];

static void probe1(void)
{
    /* offset 4 at position 2 : beyond the history, but equal to the frame-initial repcode rep[1]=4 */
    BYTE src[64]; ZSTD_Sequence s[2]; size_t r;
    ZSTD_CCtx* c = ZSTD_createCCtx();
    memset(src, 'a', sizeof(src));
    s[0].litLength = 2; s[0].offset = 4; s[0].matchLength = 40; s[0].rep = 0;
    s[1].litLength = 22; s[1].offset = 0; s[1].matchLength = 0; s[1].rep = 0;
    ZSTD_CCtx_setParameter(c, ZSTD_c_blockDelimiters, ZSTD_sf_explicitBlockDelimiters);
    ZSTD_CCtx_setParameter(c, ZSTD_c_validateSequences, 1);
    ZSTD_CCtx_setParameter(c, ZSTD_c_searchForExternalRepcodes, ZSTD_ps_enable);
    r = ZSTD_compressSequences(c, cbuf, sizeof(cbuf), s, 2, src, sizeof(src));
    printf("probe1 (offset 4 at position 2, validateSequences=1): compressSequences -> %s\n",
           ZSTD_isError(r) ? ZSTD_getErrorName(r) : "ACCEPTED");
    if (!ZSTD_isError(r)) {
        size_t d = ZSTD_decompress(dbuf, sizeof(dbuf), cbuf, r);
        printf("        decode of that frame -> %s\n", ZSTD_isError(d) ? ZSTD_getErrorName(d) : (memcmp(dbuf, src, sizeof(src)) ? "wrong content" : "ok"));
    }
    ZSTD_freeCCtx(c);
}

static void probe2(void)
{
    /* valid extracted parse that reaches into a refPrefix() prefix, validateSequences=1 */
    size_t const n = 20000, pn = 5000; size_t i, nb, r;
    BYTE* src = malloc(n); BYTE* pre = malloc(pn);
    ZSTD_Sequence* seqs = malloc(ZSTD_sequenceBound(n) * sizeof(ZSTD_Sequence));
    ZSTD_CCtx* c = ZSTD_createCCtx();
    for (i = 0; i < pn; i++) pre[i] = (BYTE)rnd();
    for (i = 0; i < n; i++) src[i] = pre[i % pn];
    ZSTD_CCtx_refPrefix(c, pre, pn);
    nb = ZSTD_generateSequences(c, seqs, ZSTD_sequenceBound(n), src, n);
    ZSTD_CCtx_reset(c, ZSTD_reset_session_and_parameters);
    ZSTD_CCtx_setParameter(c, ZSTD_c_blockDelimiters, ZSTD_sf_explicitBlockDelimiters);
    ZSTD_CCtx_setParameter(c, ZSTD_c_validateSequences, 1);
    ZSTD_CCtx_refPrefix(c, pre, pn);
    r = ZSTD_compressSequences(c, cbuf, sizeof(cbuf), seqs, nb, src, n);
    printf("probe2 (extracted parse with refPrefix, first seq ll=%u off=%u ml=%u, validateSequences=1): compressSequences -> %s\n",
           seqs[0].litLength, seqs[0].offset, seqs[0].matchLength, ZSTD_isError(r) ? ZSTD_getErrorName(r) : "accepted");
    ZSTD_CCtx_reset(c, ZSTD_reset_session_and_parameters);
    ZSTD_CCtx_setParameter(c, ZSTD_c_blockDelimiters, ZSTD_sf_explicitBlockDelimiters);
    ZSTD_CCtx_setParameter(c, ZSTD_c_validateSequences, 0);
    ZSTD_CCtx_refPrefix(c, pre, pn);
    r = ZSTD_compressSequences(c, cbuf, sizeof(cbuf), seqs, nb, src, n);
    if (!ZSTD_isError(r)) {
        ZSTD_DCtx* d = ZSTD_createDCtx(); size_t dr;
        ZSTD_DCtx_refPrefix(d, pre, pn);
        dr = ZSTD_decompressDCtx(d, dbuf, sizeof(dbuf), cbuf, r);
        printf("        same list, validateSequences=0 -> accepted, decode %s\n",
               (!ZSTD_isError(dr) && dr == n && !memcmp(dbuf, src, n)) ? "== source (so the parse is valid)" : "differs");
        ZSTD_freeDCtx(d);
    }
    ZSTD_freeCCtx(c); free(src); free(pre); free(seqs);
}

static void probe3(void)
{
    /* extraction : a repcode sequence whose litLength is exactly 65536 */
    int level, delta; int found = 0;
    for (level = 1; level <= 22 && !found; level++) for (delta = -3; delta <= 3 && !found; delta++) {
        size_t const cap = 200000; BYTE* src = malloc(cap); size_t p = 0, i, nb, n;
        ZSTD_Sequence* seqs;
        ZSTD_CCtx* c = ZSTD_createCCtx();
        g = 12345;
        for (i = 0; i < 64; i++) src[p++] = (BYTE)rnd();
        for (i = 0; i < 64; i++, p++) src[p] = src[p - 64];           /* match, offset 64 */
        for (i = 0; i < 100; i++) src[p++] = (BYTE)rnd();
        for (i = 0; i < 100; i++, p++) src[p] = src[p - 100];         /* match, offset 100 : rep = {100,64,..} */
        for (i = 0; i < (size_t)(65536 + delta); i++) src[p++] = (BYTE)rnd();
        for (i = 0; i < 100; i++, p++) src[p] = src[p - 100];         /* match, offset 100 = rep[0] after ~65536 literals */
        for (i = 0; i < 10; i++) src[p++] = (BYTE)rnd();
        for (i = 0; i < 90; i++, p++) src[p] = src[p - 100];          /* repcode 1 again, with literals */
        for (i = 0; i < 500; i++) src[p++] = (BYTE)rnd();
        for (i = 0; i < 60000; i++) src[p++] = (BYTE)("sequence "[i % 9]);   /* keep the block compressible */
        n = p;
        seqs = malloc(ZSTD_sequenceBound(n) * sizeof(ZSTD_Sequence));
        ZSTD_CCtx_setParameter(c, ZSTD_c_compressionLevel, level);
        nb = ZSTD_generateSequences(c, seqs, ZSTD_sequenceBound(n), src, n);
        if (getenv("PROBE_VERBOSE") && !ZSTD_isError(nb)) for (i = 0; i < nb; i++) if (seqs[i].litLength > 60000) printf("   level %d delta %d: #%zu ll=%u off=%u ml=%u rep=%u\n", level, delta, i, seqs[i].litLength, seqs[i].offset, seqs[i].matchLength, seqs[i].rep);
        if (!ZSTD_isError(nb)) for (i = 0; i < nb; i++) if (seqs[i].litLength == 65536 && seqs[i].rep) {
            size_t r, k;
            found = 1;
            printf("probe3 level=%d noise=%d : extracted seq #%zu has litLength 65536 and rep=%u; following seqs:", level, 65536 + delta, i, seqs[i].rep);
            for (k = i; k < nb && k < i + 3; k++) printf(" (ll=%u off=%u ml=%u rep=%u)", seqs[k].litLength, seqs[k].offset, seqs[k].matchLength, seqs[k].rep);
            printf("\n");
            ZSTD_CCtx_reset(c, ZSTD_reset_session_and_parameters);
            ZSTD_CCtx_setParameter(c, ZSTD_c_compressionLevel, level);
            ZSTD_CCtx_setParameter(c, ZSTD_c_blockDelimiters, ZSTD_sf_explicitBlockDelimiters);
            ZSTD_CCtx_setParameter(c, ZSTD_c_validateSequences, 1);
            r = ZSTD_compressSequences(c, cbuf, sizeof(cbuf), seqs, nb, src, n);
            if (ZSTD_isError(r)) printf("        compressSequences -> %s\n", ZSTD_getErrorName(r));
            else { size_t d = ZSTD_decompress(dbuf, sizeof(dbuf), cbuf, r);
                   printf("        compressSequences ok, decode -> %s\n", ZSTD_isError(d) ? ZSTD_getErrorName(d) : (d == n && !memcmp(dbuf, src, n)) ? "== source" : "DIFFERS from source"); }
            break;
        }
        ZSTD_freeCCtx(c); free(src); free(seqs);
    }
    if (!found) printf("probe3: no extracted sequence with litLength==65536 and a repcode was produced\n");
}

int main(void) { probe1(); probe2(); probe3(); return 0; }
