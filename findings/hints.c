/* follow ZSTD_decompressStream's size hints exactly; does the decoder ever ask past the end of the current frame? */
#define ZSTD_STATIC_LINKING_ONLY
#include "zstd.h"
#include <stdio.h>
#include <stdlib.h>
#include <string.h>
static int follow(const char* name, const unsigned char* frame, size_t fsize){
    ZSTD_DCtx* d=ZSTD_createDCtx(); char out[1<<16]; size_t pos=0, hint=ZSTD_initDStream(d); int calls=0, bad=0;
    while(1){
        if (pos+hint>fsize){ printf("  %s: call %d asks for %zu bytes but only %zu remain in the frame (asks %zu past its end)\n",name,calls,hint,fsize-pos,pos+hint-fsize); bad=1; hint=fsize-pos; }
        ZSTD_inBuffer in={frame+pos,hint,0}; ZSTD_outBuffer o={out,sizeof out,0};
        size_t r=ZSTD_decompressStream(d,&o,&in); calls++;
        if(ZSTD_isError(r)){printf("  %s: error %s\n",name,ZSTD_getErrorName(r));return 2;}
        pos+=in.pos; if(r==0) break; hint=r; if(calls>100){printf("  %s: too many calls\n",name);return 2;}
    }
    printf("%s: frame %zu bytes, consumed %zu in %d calls: %s\n",name,fsize,pos,calls,bad?"ASKED PAST THE FRAME":"hints stayed inside the frame");
    ZSTD_freeDCtx(d); return bad;
}
int main(void){
    int bad=0; unsigned n;
    for(n=0;n<5;n++){ unsigned char f[16]; char nm[40]; size_t s=ZSTD_writeSkippableFrame(f,sizeof f,"abcd",n,0); sprintf(nm,"skippable frame, %u user bytes",n); bad|=follow(nm,f,s); }
    { unsigned char f[200]; char src[100]; memset(src,'x',100); size_t s=ZSTD_compress(f,sizeof f,src,100,1); bad|=follow("regular frame, 100 bytes",f,s);
      s=ZSTD_compress(f,sizeof f,src,0,1); bad|=follow("regular empty frame",f,s); }
    return bad;
}
