/* obs_2 : ZSTD_c_validateSequences=1 accepts offsets 0xFFFFFFFD..0xFFFFFFFF (far beyond any window)
 * because OFFSET_TO_OFFBASE(offset) = offset+3 wraps in 32 bits before the comparison in
 * ZSTD_validateSequence (zstd_compress.c:6571, called from :6631 and :6767 with
 * OFFSET_TO_OFFBASE(inSeqs[idx].offset)); the wrapped value (0, 1 or 2) is then stored as the
 * sequence's offBase by ZSTD_finalizeOffBase (:6580), i.e. as "repcode 1/2" or as the invalid code 0.
 * Both delimiter modes.
 *
 * build (from the worktree root):
 *   clang -g -O1 -fsanitize=address,undefined -DZSTD_MULTITHREAD -DZSTD_DISABLE_ASM -I lib _seed/obs_2.c \
 *      lib/common/*.c lib/compress/*.c lib/decompress/*.c -lpthread -o _seed/obs_2
 */
#define ZSTD_STATIC_LINKING_ONLY
#include "zstd.h"
#include <stdio.h>
#include <stdlib.h>
#include <string.h>

int main(void)
{
    size_t const srcSize = 4096;
    unsigned char* src = malloc(srcSize);
    unsigned char* back = malloc(srcSize);
    size_t const dstCap = ZSTD_compressBound(srcSize);
    void* dst = malloc(dstCap);
    int bad = 0;
    unsigned off; int mode; size_t i;
    for (i = 0; i < srcSize; i++) src[i] = (unsigned char)((i * 2654435761u) >> 24);
    memcpy(src + 2000, src + 1000, 500);   /* one genuine match, offset 1000 */

    /* 0xFFFFFFFD last : it wraps to offBase 0 and ZSTD_updateRep (zstd_compress_internal.h:744) indexes rep[-1..] with it */
    static const unsigned offs[3] = { 0xFFFFFFFEu, 0xFFFFFFFFu, 0xFFFFFFFDu };
    int k;
    for (k = 0; k < 3; k++)
    for (mode = 0; mode <= 1; mode++) {
        off = offs[k];
        {
        ZSTD_Sequence seqs[3];
        size_t n = 0, r;
        ZSTD_CCtx* cctx = ZSTD_createCCtx();
        memset(seqs, 0, sizeof(seqs));
        seqs[n].litLength = 2000; seqs[n].matchLength = 500; seqs[n].offset = off; n++;
        if (mode == 1) { seqs[n].litLength = (unsigned)(srcSize - 2500); n++; }   /* delimiter */
        ZSTD_CCtx_setParameter(cctx, ZSTD_c_blockDelimiters, mode);
        ZSTD_CCtx_setParameter(cctx, ZSTD_c_validateSequences, 1);
        r = ZSTD_compressSequences(cctx, dst, dstCap, seqs, n, src, srcSize);
        printf("delimiters=%d offset=0x%08X : compressSequences -> %s", mode, off,
               ZSTD_isError(r) ? ZSTD_getErrorName(r) : "ACCEPTED");
        if (!ZSTD_isError(r)) {
            size_t const d = ZSTD_decompress(back, srcSize, dst, r);
            bad++;
            if (ZSTD_isError(d)) printf(" ; frame does not decode : %s", ZSTD_getErrorName(d));
            else printf(" ; frame decodes, %s the source", (d == srcSize && !memcmp(back, src, srcSize)) ? "equal to" : "DIFFERENT from");
        }
        printf("\n");
        ZSTD_freeCCtx(cctx);
        fflush(stdout);
    }   }
    printf("%d invalid lists accepted with validation enabled\n", bad);
    return bad != 0;
}
