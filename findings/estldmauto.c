// obs_1 : ZSTD_estimateCCtxSize_usingCCtxParams() / ZSTD_estimateCStreamSize_usingCCtxParams()
// do not resolve ZSTD_c_enableLongDistanceMatching == auto (zstd_compress.c:1763, :1820), the context does (:6327).
//
// build (from the worktree root):
//   clang -g -O1 -fsanitize=address -DZSTD_MULTITHREAD -DZSTD_DISABLE_ASM -I lib _seed/obs_1.c lib/common/*.c lib/compress/*.c lib/decompress/*.c -lpthread -o _seed/obs_1
//
/*
 * A ZSTD_CCtx_params object that only carries {windowLog=27, strategy=btopt} (or just level 22)
 * leaves enableLdm on "auto". The estimators size the context without any LDM table;
 * ZSTD_CCtx_init_compressStream2() resolves auto -> enable (strategy>=btopt && windowLog>=27)
 * and ZSTD_resetCCtx_internal() then needs the LDM hash table + bucket offsets + rawSeq store,
 * so the static context of exactly the estimated size answers memory_allocation.
 */
#define ZSTD_STATIC_LINKING_ONLY
#include "zstd.h"
#include <stdio.h>
#include <stdlib.h>
#include <string.h>

static int run(int streaming)
{
    ZSTD_CCtx_params* const p = ZSTD_createCCtxParams();
    size_t est, r;
    void* wksp;
    ZSTD_CCtx* cctx;
    int bad = 0;
    ZSTD_CCtxParams_setParameter(p, ZSTD_c_windowLog, 27);
    ZSTD_CCtxParams_setParameter(p, ZSTD_c_strategy, ZSTD_btopt);
    ZSTD_CCtxParams_setParameter(p, ZSTD_c_hashLog, 10);
    ZSTD_CCtxParams_setParameter(p, ZSTD_c_chainLog, 10);
    ZSTD_CCtxParams_setParameter(p, ZSTD_c_searchLog, 1);
    ZSTD_CCtxParams_setParameter(p, ZSTD_c_minMatch, 4);
    ZSTD_CCtxParams_setParameter(p, ZSTD_c_targetLength, 8);
    est = streaming ? ZSTD_estimateCStreamSize_usingCCtxParams(p) : ZSTD_estimateCCtxSize_usingCCtxParams(p);
    if (ZSTD_isError(est)) { printf("estimate error\n"); return 1; }
    wksp = malloc(est);
    cctx = ZSTD_initStaticCCtx(wksp, est);
    if (!cctx) { printf("initStatic failed\n"); return 1; }
    r = ZSTD_CCtx_setParametersUsingCCtxParams(cctx, p);
    if (ZSTD_isError(r)) { printf("setParams: %s\n", ZSTD_getErrorName(r)); return 1; }
    if (streaming) {
        static char src[1000]; static char dst[4096];
        ZSTD_inBuffer in = { src, sizeof(src), 0 };
        ZSTD_outBuffer out = { dst, sizeof(dst), 0 };
        r = ZSTD_compressStream2(cctx, &out, &in, ZSTD_e_continue);   /* source size unknown : windowLog stays 27 */
        printf("streaming : estimate=%zu  ZSTD_compressStream2 -> %s\n", est, ZSTD_isError(r) ? ZSTD_getErrorName(r) : "ok");
        bad = ZSTD_isError(r);
    } else {
        size_t const srcSize = ((size_t)64 << 20) + 1;    /* > 64 MB : windowLog stays 27 */
        char* const src = calloc(1, srcSize);
        size_t const cap = ZSTD_compressBound(srcSize);
        char* const dst = malloc(cap);
        r = ZSTD_compress2(cctx, dst, cap, src, srcSize);
        printf("one-shot  : estimate=%zu  ZSTD_compress2 -> %s\n", est, ZSTD_isError(r) ? ZSTD_getErrorName(r) : "ok");
        bad = ZSTD_isError(r);
        free(src); free(dst);
    }
    free(wksp);
    ZSTD_freeCCtxParams(p);
    return bad;
}

int main(void)
{
    int bad = 0;
    setvbuf(stdout, NULL, _IONBF, 0);
    bad |= run(1);
    bad |= run(0);
    if (bad) { printf("VIOLATION: static context of the estimated size refused the operation\n"); return 1; }
    printf("ok\n");
    return 0;
}
