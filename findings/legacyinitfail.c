/* obs_7 (allocation-failure path): double free / use-after-free of the legacy streaming context.
 * ZSTD_initLegacyStream() (lib/legacy/zstd_legacy.h:311) frees the context of the previous legacy
 * version before it creates the new one; when that creation fails it returns memory_allocation but
 * leaves dctx->legacyContext pointing to the freed object and previousLegacyVersion unchanged
 * (zstd_decompress.c:2176-2179 only updates them on success).  ZSTD_freeDCtx() (or the next legacy
 * frame) then frees / uses the dangling context.
 * sequence: ZSTD_decompressStream(v0.7 frame) ; ZSTD_decompressStream(v0.5 frame) with malloc failing once ;
 *           ZSTD_freeDCtx()
 * build: clang -g -O1 -fsanitize=address -DZSTD_LEGACY_SUPPORT=5 -DZSTD_DISABLE_ASM -Wl,--wrap=malloc -I lib -I lib/common -I lib/legacy \
 *          _seed/obs_7.c lib/common/*.c lib/decompress/*.c lib/legacy/zstd_v0[567].c -o _seed/obs_7
 * result: AddressSanitizer heap-use-after-free in ZBUFFv07_freeDCtx called from ZSTD_freeDCtx
 */
#include "zstd.h"
#include <stdio.h>
#include <stdlib.h>
#include <string.h>
#define main legacy_main
#include "../tests/legacy.c"
#undef main

void* __real_malloc(size_t);
static int failNext = 0;
void* __wrap_malloc(size_t n) { if (failNext) { failNext = 0; return NULL; } return __real_malloc(n); }

static size_t frame_of(int v, const char** start)
{
    char magic[4] = { (char)(0x20 + v), (char)0xB5, 0x2F, (char)0xFD };
    char next[4]  = { (char)(0x21 + v), (char)0xB5, 0x2F, (char)0xFD };
    size_t s = 0, e = 0, k;
    for (k = 0; k + 4 <= COMPRESSED_SIZE; k++) {
        if (!memcmp(COMPRESSED + k, magic, 4)) s = k;
        if (!memcmp(COMPRESSED + k, next, 4)) e = k;
    }
    *start = COMPRESSED + s; return e - s;
}

int main(void)
{
    static char out[1 << 17];
    ZSTD_DCtx* d = ZSTD_createDCtx();
    const char* f; size_t n; size_t r = 1;
    n = frame_of(7, &f);
    {   ZSTD_inBuffer in = { f, n, 0 };
        while (r != 0 && !ZSTD_isError(r)) { ZSTD_outBuffer o = { out, sizeof out, 0 }; r = ZSTD_decompressStream(d, &o, &in); }
        printf("v0.7 frame : %s\n", ZSTD_getErrorName(r)); }
    n = frame_of(5, &f);
    {   ZSTD_inBuffer in = { f, n, 0 }; ZSTD_outBuffer o = { out, sizeof out, 0 };
        failNext = 1;                      /* the next allocation fails : ZBUFFv05_createDCtx() */
        r = ZSTD_decompressStream(d, &o, &in);
        printf("v0.5 frame, allocation failure : %s\n", ZSTD_getErrorName(r)); }
    fflush(stdout);
    ZSTD_freeDCtx(d);                      /* frees the v0.7 context a second time */
    printf("done\n");
    return 0;
}
