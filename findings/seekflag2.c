/* triage: seekable compressor with a non-zero checksumFlag other than 1.
 * clang -g -O1 -fsanitize=address -DZSTD_DISABLE_ASM -I/repo/lib -I/repo/lib/common -I/repo/contrib/seekable_format seekflag2.c /repo/contrib/seekable_format/zstdseek_compress.c /repo/contrib/seekable_format/zstdseek_decompress.c /repo/lib/common/*.c /repo/lib/compress/*.c /repo/lib/decompress/*.c -o seekflag2 */
#include "zstd_seekable.h"
#include "zstd.h"
#include <stdio.h>
#include <string.h>
int main(void){
    unsigned char x[3000], arc[8192], out[3000]; size_t i; int flag, bad=0;
    for(i=0;i<sizeof x;i++) x[i]=(unsigned char)(i*37+11+(i>>5));
    for (flag=0; flag<=3; flag++) {
        ZSTD_seekable_CStream* zcs=ZSTD_seekable_createCStream(); ZSTD_inBuffer in={x,sizeof x,0}; ZSTD_outBuffer o={arc,sizeof arc,0};
        ZSTD_seekable* zs=ZSTD_seekable_create(); size_t r;
        ZSTD_seekable_initCStream(zcs,1,flag,1000);
        while(in.pos<in.size) ZSTD_seekable_compressStream(zcs,&o,&in);
        while(ZSTD_seekable_endStream(zcs,&o)>0){}
        r=ZSTD_seekable_initBuff(zs,arc,o.pos);
        if (!ZSTD_isError(r)) r=ZSTD_seekable_decompress(zs,out,sizeof x,0);
        if (ZSTD_isError(r) || r!=sizeof x || memcmp(out,x,sizeof x)) { printf("checksumFlag=%d: the reader cannot read the archive the compressor wrote (%s)\n",flag,ZSTD_isError(r)?ZSTD_getErrorName(r):"wrong content"); bad++; }
        else printf("checksumFlag=%d: ok\n",flag);
        ZSTD_seekable_freeCStream(zcs); ZSTD_seekable_free(zs);
    }
    return bad!=0;
}
