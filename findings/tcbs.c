/* ZSTD_c_targetCBlockSize with a tiny destination: is anything written beyond dst + dstCapacity ? */
#define ZSTD_STATIC_LINKING_ONLY
#include "zstd.h"
#include <stdio.h>
#include <stdlib.h>
#include <string.h>
int main(void){
    size_t n=20000,i; char* src=malloc(n); unsigned s=12345;
    for(i=0;i<n;i++){ s=s*1103515245u+12345u; src[i]="eeeeeeetttttaaaooiinnsshhrrdlcumwfgypbvk ,."[(s>>16)%44]; }
    int bad=0; size_t cap;
    for(cap=0;cap<=64;cap++){
        char* dst=malloc(cap?cap:1);                 /* exact-size heap block: ASan sees any overrun */
        ZSTD_CCtx* c=ZSTD_createCCtx();
        ZSTD_CCtx_setParameter(c,ZSTD_c_compressionLevel,3);
        ZSTD_CCtx_setParameter(c,ZSTD_c_targetCBlockSize,1340);
        size_t r=ZSTD_compress2(c,dst,cap,src,n);
        if(!ZSTD_isError(r) && r>cap){printf("cap %zu: returned %zu > capacity\n",cap,r);bad=1;}
        ZSTD_freeCCtx(c); free(dst);
    }
    printf("swept capacities 0..64: %s\n",bad?"BAD":"no overrun reported");
    return bad;
}
