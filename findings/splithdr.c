/* streaming decode of a valid frame whose 13-byte header is split across two calls; content-size field = 0x184D2A50 */
#define ZSTD_STATIC_LINKING_ONLY
#include "zstd.h"
#include <stdio.h>
#include <stdlib.h>
#include <string.h>
int main(void){
    /* frame: magic, FHD=0xE0 (single segment, 8-byte FCS), FCS = 0x184D2A50, then RLE blocks of 'x' */
    unsigned long long const fcs=0x184D2A50ULL; size_t const blk=131072; size_t nb=(size_t)(fcs/blk), rem=(size_t)(fcs%blk), i;
    size_t flen=4+1+8+(nb+(rem?1:0))*4; unsigned char* f=malloc(flen); unsigned char* p=f;
    p[0]=0x28;p[1]=0xB5;p[2]=0x2F;p[3]=0xFD;p[4]=0xE0; p+=5; for(i=0;i<8;i++) *p++=(unsigned char)(fcs>>(8*i));
    for(i=0;i<nb+(rem?1:0);i++){ size_t sz=(i<nb)?blk:rem; int last=(i==nb+(rem?1:0)-1); unsigned h=(unsigned)(last|(1<<1)|(sz<<3)); p[0]=(unsigned char)h;p[1]=(unsigned char)(h>>8);p[2]=(unsigned char)(h>>16);p[3]='x';p+=4; }
    flen=(size_t)(p-f);
    char* out=malloc((size_t)fcs);
    size_t one=ZSTD_decompress(out,(size_t)fcs,f,flen);
    printf("frame of %zu bytes; ZSTD_decompress -> %s%zu\n",flen,ZSTD_isError(one)?ZSTD_getErrorName(one):"",ZSTD_isError(one)?(size_t)0:one);
    ZSTD_DCtx* d=ZSTD_createDCtx();
    ZSTD_inBuffer in1={f,5,0}; ZSTD_outBuffer o={out,(size_t)fcs,0};
    size_t r1=ZSTD_decompressStream(d,&o,&in1);
    ZSTD_inBuffer in2={f+5,8,0};
    size_t r2=ZSTD_decompressStream(d,&o,&in2);
    printf("streaming: call 1 (5 bytes) -> %zu ; call 2 (next 8 bytes) -> %zu%s, output so far %zu bytes\n",r1,r2,ZSTD_isError(r2)?ZSTD_getErrorName(r2):"",o.pos);
    if(r2==0){ printf("a 13-byte prefix of a %zu-byte frame is reported as a completely decoded frame\n",flen); return 1; }
    return 0;
}
