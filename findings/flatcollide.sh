#!/bin/sh
# C19: --rm with --output-dir-flat and two sources of one base name.
# Before 191e51a: exit 0, out/x.zst = d2/x only, d1/x and d2/x both removed (d1/x is lost).
# usage: flatcollide.sh /path/to/zstd
Z=${1:-zstd}; T=$(mktemp -d); cd "$T" || exit 2
mkdir d1 d2 out; echo AAAA > d1/x; echo BBBB > d2/x
"$Z" -q -f --rm --output-dir-flat out d1/x d2/x; echo "exit=$?"
ls d1 d2 out
[ -f d1/x ] && [ -f d2/x ] && echo "sources kept: OK" || echo "DATA LOSS: a source was removed although its output was overwritten"
cd /; rm -rf "$T"
