/* obs_1: a static DCtx never initialises dctx->customMem, but ZSTD_DCtx_refPrefix() /
 * ZSTD_DCtx_loadDictionary*() / ZSTD_initDStream_usingDict() hand it to
 * ZSTD_createDDict_advanced(), which calls through it.
 *   - workspace holding non-zero bytes (any reused buffer): call through a garbage
 *     function pointer (SEGV / arbitrary jump)
 *   - workspace that happens to be zeroed: the "never malloc()" static context silently
 *     malloc()s a DDict that nothing can free (ZSTD_freeDCtx refuses static contexts)
 * The compression side refuses (ZSTD_CCtx_loadDictionary: "static CCtx can't allocate").
 *
 * build: clang -g -O1 -fsanitize=address -DZSTD_DISABLE_ASM -I lib _seed/obs_1.c lib/common/*.c lib/decompress/*.c -o _seed/obs_1
 * run:   _seed/obs_1 dirty   -> SEGV on a call to 0xaaaaaaaaaaaaaaaa
 *        _seed/obs_1 zero    -> LeakSanitizer: DDict leaked by a static context
 * cause: lib/decompress/zstd_decompress.c:289 ZSTD_initStaticDCtx (customMem not set),
 *        :1727 ZSTD_DCtx_loadDictionary_advanced (no staticSize check)
 */
#define ZSTD_STATIC_LINKING_ONLY
#include "zstd.h"
#include <stdio.h>
#include <stdlib.h>
#include <string.h>

int main(int argc, char** argv)
{
    size_t const wsSize = ZSTD_estimateDStreamSize(1 << 17);
    void* const ws = malloc(wsSize);
    int const dirty = (argc > 1 && !strcmp(argv[1], "dirty"));
    ZSTD_DCtx* d;
    static const char prefix[] = "some prefix content, only referenced";
    memset(ws, dirty ? 0xAA : 0, wsSize);
    d = ZSTD_initStaticDCtx(ws, wsSize);
    if (!d) { printf("init failed\n"); return 2; }
    {   size_t const r = ZSTD_DCtx_refPrefix(d, prefix, sizeof prefix);
        printf("ZSTD_DCtx_refPrefix on a static DCtx -> %s\n", ZSTD_getErrorName(r)); }
    free(ws);   /* the only way to release a static context */
    return 0;
}
