/* triage: ZSTD_estimateCStreamSize_usingCCtxParams under-estimates when the strategy comes from the level and
 * the row match finder gets selected (hashLog > chainLog + 2).
 * clang -g -O1 -fsanitize=address -DZSTD_DISABLE_ASM -I/repo/lib cstreamest.c /repo/lib/common/*.c /repo/lib/compress/*.c /repo/lib/decompress/*.c -o cstreamest */
#define ZSTD_STATIC_LINKING_ONLY
#include "zstd.h"
#include <stdio.h>
#include <stdlib.h>
#include <string.h>
int main(void){
    int level, bad=0;
    static char src[100000], dst[200000];
    { unsigned s=1; size_t i; for(i=0;i<sizeof src;i++){ s=s*1103515245u+12345u; src[i]=(char)('a'+((s>>16)%11)); } }
    for (level=1; level<=19; level++) {
        ZSTD_CCtx_params* p=ZSTD_createCCtxParams();
        size_t est; void* mem; ZSTD_CStream* zs; size_t r;
        ZSTD_inBuffer in={src,sizeof src,0}; ZSTD_outBuffer out={dst,sizeof dst,0};
        ZSTD_CCtxParams_setParameter(p,ZSTD_c_compressionLevel,level);
        ZSTD_CCtxParams_setParameter(p,ZSTD_c_hashLog,22);
        ZSTD_CCtxParams_setParameter(p,ZSTD_c_chainLog,6);
        est=ZSTD_estimateCStreamSize_usingCCtxParams(p);
        if (ZSTD_isError(est)) { printf("level %d: estimate error\n",level); continue; }
        mem=malloc(est); zs=ZSTD_initStaticCStream(mem,est);
        if (!zs) { printf("level %d: initStatic failed\n",level); bad++; free(mem); continue; }
        ZSTD_CCtx_setParametersUsingCCtxParams(zs,p);
        r=ZSTD_compressStream2(zs,&out,&in,ZSTD_e_continue);
        if (!ZSTD_isError(r)) r=ZSTD_compressStream2(zs,&out,&in,ZSTD_e_end);
        if (ZSTD_isError(r)) { printf("level %d: estimate %zu bytes, static CStream of that size: %s\n",level,est,ZSTD_getErrorName(r)); bad++; }
        free(mem); ZSTD_freeCCtxParams(p);
    }
    printf("%d level(s) where the estimated static CStream cannot compress\n",bad);
    return bad!=0;
}
