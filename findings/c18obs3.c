/* obs_3: the optimisers never return for k = UINT_MAX (0xFFFFFFFF).
 *
 * ZDICT_optimizeTrainFromBuffer_cover (cover.c:1248) and ZDICT_optimizeTrainFromBuffer_fastCover (fastcover.c:716) run
 *     for (k = kMinK; k <= kMaxK; k += kStepSize)
 * with `unsigned k`.  When the caller fixes k, kMinK == kMaxK == k and kStepSize == 1 ; for k == UINT_MAX the
 * increment wraps to 0 and `k <= kMaxK` is true for every value, so the loop has no exit.  The up-front test
 * (cover.c:1204 / fastcover.c:669, kMinK < kMaxD || kMaxK < kMinK) accepts it, and the per-iteration
 * COVER_checkParameters only `continue`s.  After the wrap the optimiser trains with every k in [d, capacity] - values
 * the caller never asked for - then spins through 4 billion rejected values and starts over, for ever.
 * The non-optimising siblings return parameter_outOfBound immediately for the same parameters (k > capacity).
 *
 * expected : parameter_outOfBound.   observed : no return (the watchdog below fires after 20 s per call).
 */
// build: clang -g -O1 -DZSTD_MULTITHREAD -DZSTD_DISABLE_ASM -I lib _seed/obs_3.c lib/common/*.c lib/compress/*.c lib/decompress/*.c lib/dictBuilder/*.c -lpthread -o _seed/obs_3
// run:   ./_seed/obs_3 cover ; ./_seed/obs_3 fastcover
#define ZDICT_STATIC_LINKING_ONLY
#include "zdict.h"
#include <stdio.h>
#include <stdlib.h>
#include <string.h>
#include <signal.h>
#include <unistd.h>
static const char* g_who = "";
static void onAlarm(int s) { (void)s; printf("OBSERVED: %s with k=0xFFFFFFFF has not returned after 20 s (it never does)\n", g_who); fflush(stdout); _exit(1); }
int main(int argc, char** argv)
{
    int const fast = (argc > 1 && !strcmp(argv[1], "fastcover"));
    enum { NB = 50, SZ = 200 };
    static unsigned char buf[NB * SZ]; static size_t sizes[NB]; static unsigned char dict[4096];
    unsigned i, seed = 1; size_t r;
    for (i = 0; i < NB; i++) sizes[i] = SZ;
    for (i = 0; i < NB * SZ; i++) { seed = seed * 1103515245 + 12345; buf[i] = (unsigned char)("abcdefgh"[(seed >> 16) & 7]); }
    signal(SIGALRM, onAlarm);
    {   ZDICT_cover_params_t p; memset(&p, 0, sizeof(p)); p.d = 8; p.k = 0xFFFFFFFFu;
        r = ZDICT_trainFromBuffer_cover(dict, sizeof(dict), buf, sizes, NB, p);
        printf("ZDICT_trainFromBuffer_cover k=0xFFFFFFFF -> %s\n", ZDICT_isError(r) ? ZDICT_getErrorName(r) : "dictionary"); fflush(stdout);
    }
    alarm(20);
    if (!fast) {
        ZDICT_cover_params_t p; memset(&p, 0, sizeof(p)); p.d = 8; p.k = 0xFFFFFFFFu;
        g_who = "ZDICT_optimizeTrainFromBuffer_cover";
        r = ZDICT_optimizeTrainFromBuffer_cover(dict, sizeof(dict), buf, sizes, NB, &p);
    } else {
        ZDICT_fastCover_params_t p; memset(&p, 0, sizeof(p)); p.d = 8; p.k = 0xFFFFFFFFu;
        g_who = "ZDICT_optimizeTrainFromBuffer_fastCover";
        r = ZDICT_optimizeTrainFromBuffer_fastCover(dict, sizeof(dict), buf, sizes, NB, &p);
    }
    printf("%s k=0xFFFFFFFF -> %s\n", g_who, ZDICT_isError(r) ? ZDICT_getErrorName(r) : "dictionary");
    return 0;
}
