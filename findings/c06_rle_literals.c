// build (from the worktree root; _seed/orig/lib is a pristine copy of lib/, identical to lib/ after `git apply -R _seed/patch.diff`):
//   clang -w -g -O1 -fsanitize=address,undefined -DZSTD_MULTITHREAD -DZSTD_DISABLE_ASM -DZSTD_STATIC_LINKING_ONLY -I _seed/orig/lib -I _seed/orig/lib/common -I _seed/orig/lib/compress -I _seed/orig/lib/dictBuilder _seed/obs_c3.c _seed/orig/lib/common/*.c _seed/orig/lib/compress/*.c _seed/orig/lib/decompress/*.c _seed/orig/lib/dictBuilder/*.c -lpthread -o _seed/scratch/obs_c3
// run:   ASAN_OPTIONS=detect_leaks=0 ./_seed/scratch/obs_c3
/* obs_c3.c : same defect as obs_c2.c, but with the library's own match finder (no sequence producer).
 * Second block = (4 x 'a' + an 8-byte snippet of block 1) repeated : with strategy greedy / minMatch 6 every
 * snippet is a match and every literal is 'a' => literals section type set_rle with > 4095 literals.
 * With ZSTD_c_targetCBlockSize set and exactly 6 bytes of dst left at the start of block 2,
 * ZSTD_compressRleLiteralsBlock() writes 4 bytes at dst+3 : 1 byte beyond the destination.
 */
#include <stdio.h>
#include <stdlib.h>
#include <string.h>
#include "zstd.h"

#define B1 (128*1024)
#define RLEN 20000
#define NCHUNK 1500

int main(void)
{
    unsigned char* src = (unsigned char*)calloc(1, B1 + NCHUNK*12 + 128);
    static unsigned char usedHead[65536], usedTail[65536];
    size_t i, n, cap, full, p, nb = 0;
    unsigned s = 2024;
    ZSTD_CCtx* c = ZSTD_createCCtx();
    /* block 1 (128 KB) : random bytes (no 'a'), with an 8-byte run of 'z' every 1000 bytes : the short runs are matched,
     * which keeps the greedy parser from switching to lazy skipping (every position gets indexed),
     * but the block stays incompressible => emitted as a raw block, which fits its capacity exactly. */
    for (i=0;i<B1;i++) {
        unsigned char b;
        do { s = s*1103515245u+12345u; b = (unsigned char)(s>>16); } while (b=='a' || b=='z');
        src[i] = ((i % 1000) >= 992) ? 'z' : b;
    }
    /* block 2 */
    n = B1;
    for (p=0; p+8 < RLEN && nb < NCHUNK; p += 9 + (src[p]&3)) {
        unsigned const head = src[p] | (src[p+1]<<8), tail = src[p+6] | (src[p+7]<<8);
        int ok = 1; size_t k;
        for (k=0;k<8;k++) if (src[p+k]=='z') ok = 0;
        if (!ok || usedHead[head] || usedTail[tail]) continue;
        usedHead[head] = usedTail[tail] = 1;
        memset(src+n, 'a', 4); memcpy(src+n+4, src+p, 8); n += 12; nb++;
    }
    memset(src+n, 'a', 64); n += 64;   /* tail : matched at offset 1, so that the last snippet is not left as last literals */
    printf("block 2 : %zu snippets, %zu literals 'a' ; srcSize = %zu\n", nb, nb*4, n);

    ZSTD_CCtx_setParameter(c, ZSTD_c_compressionLevel, 5);
    ZSTD_CCtx_setParameter(c, ZSTD_c_strategy, ZSTD_greedy);
    ZSTD_CCtx_setParameter(c, ZSTD_c_minMatch, 6);
    ZSTD_CCtx_setParameter(c, ZSTD_c_useRowMatchFinder, ZSTD_ps_disable);
    ZSTD_CCtx_setParameter(c, ZSTD_c_targetCBlockSize, ZSTD_TARGETCBLOCKSIZE_MAX);

    {   size_t const bound = ZSTD_compressBound(n);
        unsigned char* d = (unsigned char*)malloc(bound);
        unsigned char* back = (unsigned char*)malloc(n);
        full = ZSTD_compress2(c, d, bound, src, n);
        printf("full compress: %zu (%s)\n", full, ZSTD_getErrorName(full));
        if (!ZSTD_isError(full)) {
            size_t const r = ZSTD_decompress(back, n, d, full);
            printf("roundtrip: %s\n", (r==n && !memcmp(back,src,n)) ? "ok" : "BAD");
        }
        free(d); free(back);
    }
    fflush(stdout);
    for (cap = B1 - 16; cap <= B1 + 64; cap++) {   /* the interesting capacity is 9 (frame header) + 131075 (raw block) + 6 = 131090 */
        unsigned char* d = (unsigned char*)malloc(cap ? cap : 1);   /* exact-size heap buffer */
        size_t const r = ZSTD_compress2(c, d, cap, src, n);
        if (!ZSTD_isError(r) && cap < full + 8) printf("cap=%zu -> %zu\n", cap, r);
        free(d);
    }
    printf("sweep done without sanitizer report\n");
    return 0;
}
