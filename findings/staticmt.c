// obs_2 : a static CCtx calls malloc()/spawns threads ("zstd will never resize nor malloc() when using a static buffer")
//
// build (from the worktree root):
//   clang -g -O1 -fsanitize=address -DZSTD_MULTITHREAD -DZSTD_DISABLE_ASM -I lib _seed/obs_2.c lib/common/*.c lib/compress/*.c lib/decompress/*.c -lpthread -Wl,--wrap=malloc -Wl,--wrap=calloc -o _seed/obs_2
//
// (a) ZSTD_CCtx_setParameter(ZSTD_c_nbWorkers) is refused on a static CCtx (zstd_compress.c:728) but
//     ZSTD_CCtx_setParametersUsingCCtxParams() copies nbWorkers without looking at staticSize (zstd_compress.c:1186);
//     ZSTD_CCtx_init_compressStream2() then creates a ZSTDMT context with the (zeroed) customMem = malloc (zstd_compress.c:6352).
//     Nothing can ever release it: ZSTD_freeCCtx() refuses static contexts.
// (b) ZSTD_CCtx_loadDictionary_byReference() is accepted on a static CCtx (only the byCopy branch is refused, zstd_compress.c:1298)
//     and ZSTD_initLocalDict() mallocs a CDict at the first compression (zstd_compress.c:1269).
#define ZSTD_STATIC_LINKING_ONLY
#include "zstd.h"
#include <stdio.h>
#include <stdlib.h>
#include <string.h>

static int g_track = 0;
static unsigned long g_nbAllocs = 0;
static unsigned long long g_bytes = 0;
void* __real_malloc(size_t s);
void* __real_calloc(size_t n, size_t s);
void* __wrap_malloc(size_t s) { if (g_track) { g_nbAllocs++; g_bytes += s; } return __real_malloc(s); }
void* __wrap_calloc(size_t n, size_t s) { if (g_track) { g_nbAllocs++; g_bytes += n*s; } return __real_calloc(n, s); }

#define SRCSIZE ((size_t)4 << 20)

int main(void)
{
    int bad = 0;
    char* const src = malloc(SRCSIZE);
    setvbuf(stdout, NULL, _IONBF, 0);
    size_t const cap = ZSTD_compressBound(SRCSIZE);
    char* const dst = malloc(cap);
    size_t i;
    for (i = 0; i < SRCSIZE; i++) src[i] = (char)((i * 2654435761u) >> 27);

    {   /* (a) multithreading through a params object */
        size_t const est = ZSTD_estimateCStreamSize(3);
        void* const wksp = malloc(est);
        ZSTD_CCtx* const cctx = ZSTD_initStaticCCtx(wksp, est);
        ZSTD_CCtx_params* const p = ZSTD_createCCtxParams();
        size_t r;
        r = ZSTD_CCtx_setParameter(cctx, ZSTD_c_nbWorkers, 2);
        printf("(a) setParameter(nbWorkers=2) on static cctx -> %s\n", ZSTD_getErrorName(r));
        ZSTD_CCtxParams_setParameter(p, ZSTD_c_compressionLevel, 3);
        ZSTD_CCtxParams_setParameter(p, ZSTD_c_nbWorkers, 2);
        r = ZSTD_CCtx_setParametersUsingCCtxParams(cctx, p);
        printf("(a) setParametersUsingCCtxParams(nbWorkers=2) on static cctx -> %s\n", ZSTD_getErrorName(r));
        g_track = 1; g_nbAllocs = 0; g_bytes = 0;
        r = ZSTD_compress2(cctx, dst, cap, src, SRCSIZE);
        g_track = 0;
        printf("(a) compress2 -> %s ; heap allocations made by the static cctx : %lu (%llu bytes) ; ZSTD_freeCCtx -> %s\n",
               ZSTD_isError(r) ? ZSTD_getErrorName(r) : "ok", g_nbAllocs, g_bytes, ZSTD_getErrorName(ZSTD_freeCCtx(cctx)));
        if (g_nbAllocs) bad = 1;
        ZSTD_freeCCtxParams(p);
        /* the only way to get the memory and the threads back */
        ZSTD_CCtx_setParameter(cctx, ZSTD_c_nbWorkers, 0);
        free(wksp);    /* mtctx + worker threads are now unreachable : LeakSanitizer reports them at exit */
    }

    {   /* (b) dictionary by reference */
        size_t const est = ZSTD_estimateCCtxSize(3);
        void* const wksp = malloc(est);
        ZSTD_CCtx* const cctx = ZSTD_initStaticCCtx(wksp, est);
        size_t r = ZSTD_CCtx_loadDictionary(cctx, src, 100000);
        printf("(b) loadDictionary (by copy) on static cctx -> %s\n", ZSTD_getErrorName(r));
        r = ZSTD_CCtx_loadDictionary_byReference(cctx, src, 100000);
        printf("(b) loadDictionary_byReference on static cctx -> %s\n", ZSTD_getErrorName(r));
        g_track = 1; g_nbAllocs = 0; g_bytes = 0;
        r = ZSTD_compress2(cctx, dst, cap, src + 100000, 200000);
        g_track = 0;
        printf("(b) compress2 -> %s ; heap allocations made by the static cctx : %lu (%llu bytes)\n",
               ZSTD_isError(r) ? ZSTD_getErrorName(r) : "ok", g_nbAllocs, g_bytes);
        if (g_nbAllocs) bad = 1;
        free(wksp);    /* the CDict is leaked */
    }
    free(src); free(dst);
    if (bad) { printf("VIOLATION: a static context asked the heap for memory\n"); return 1; }
    printf("ok\n");
    return 0;
}
