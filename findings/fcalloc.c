/* triage: allocation failure inside ZDICT_trainFromBuffer_fastCover (dictBuilder uses malloc/calloc directly).
 * every dictBuilder source is compiled with -Dmalloc=t_malloc -Dcalloc=t_calloc; the k-th allocation fails.
 * clang -g -O1 -fsanitize=address -DZSTD_DISABLE_ASM -Dmalloc=t_malloc -Dcalloc=t_calloc -I/repo/lib -I/repo/lib/dictBuilder -include fcalloc.h ... */
#define ZDICT_STATIC_LINKING_ONLY
#include "zdict.h"
#include <stdio.h>
#include <string.h>
#undef malloc
#undef calloc
#include <stdlib.h>
long t_count, t_fail;
void* t_malloc(size_t n){ if (++t_count==t_fail) return NULL; return malloc(n); }
void* t_calloc(size_t a, size_t b){ if (++t_count==t_fail) return NULL; return calloc(a,b); }
int main(int argc, char** argv){
    enum { NS=40, SS=600 };
    static char samples[NS*SS]; size_t sizes[NS]; char dict[8192]; unsigned s=5; int i; long k, kmax;
    for(i=0;i<NS*SS;i++){ s=s*1103515245u+12345u; samples[i]=(char)('a'+((s>>16)%13)); }
    for(i=0;i<NS;i++) sizes[i]=SS;
    { ZDICT_fastCover_params_t p; memset(&p,0,sizeof p); p.k=200; p.d=8; p.f=18; p.accel=1;
      t_fail=0; t_count=0; ZDICT_trainFromBuffer_fastCover(dict,sizeof dict,samples,sizes,NS,p); kmax=t_count; }
    printf("%ld allocations in a clean run\n",kmax);
    for (k=1;k<=kmax;k++) {
        ZDICT_fastCover_params_t p; size_t r; memset(&p,0,sizeof p); p.k=200; p.d=8; p.f=18; p.accel=1;
        t_fail=k; t_count=0; printf("allocation #%ld fails: ",k); fflush(stdout);
        r=ZDICT_trainFromBuffer_fastCover(dict,sizeof dict,samples,sizes,NS,p);
        printf("%s\n", ZDICT_isError(r)?ZDICT_getErrorName(r):"ok");
    }
    return 0;
}
