/* obs_2: ZDICT_optimizeTrainFromBuffer_fastCover uses `f` before validating it.
 *
 * ZDICT_trainFromBuffer_fastCover() rejects f == 0 || f > FASTCOVER_MAX_F (31) through FASTCOVER_checkParameters()
 * before doing anything (fastcover.c:573).  The optimiser only calls FASTCOVER_checkParameters() inside its k loop
 * (fastcover.c:739), AFTER FASTCOVER_ctx_init(..., f, ...) (fastcover.c:703) has already
 *   - allocated the frequency table with calloc((U64)1 << f, 4)          (fastcover.c:387 : shift by >= 64 is undefined)
 *   - hashed every dmer into it with ZSTD_hash8Ptr(p, f) = x >> (64-f)   (fastcover.c:297-298)
 * f = 64 : 1<<64 evaluates to 1 on x86-64, so a 1-entry table is indexed with a full 64-bit hash -> SEGV.
 * f = 65..: both shifts are undefined behaviour (UBSan), the call then "fails" with an error.
 * f = 32..63 : tries to allocate 2^f * 4 bytes (16 GiB .. 32 EiB) before reporting the parameter error.
 *
 * expected : parameter_outOfBound, as the non-optimising sibling returns.  observed : f=64 crashes in
 * FASTCOVER_computeFrequency (fastcover.c:298) ; f=65 UBSan "shift exponent 65 is too large" at fastcover.c:387
 * and "shift exponent 4294967295" in zstd_compress_internal.h:841.
 */
// build: clang -g -O1 -fsanitize=address,undefined -DZSTD_MULTITHREAD -DZSTD_DISABLE_ASM -I lib _seed/obs_2.c lib/common/*.c lib/compress/*.c lib/decompress/*.c lib/dictBuilder/*.c -lpthread -o _seed/obs_2
// run:   ./_seed/obs_2 64     (or 65, 31, 32)
#define ZDICT_STATIC_LINKING_ONLY
#include "zdict.h"
#include <stdio.h>
#include <stdlib.h>
#include <string.h>
int main(int argc, char** argv)
{
    unsigned const f = argc > 1 ? (unsigned)atoi(argv[1]) : 64;
    enum { NB = 50, SZ = 200 };
    static unsigned char buf[NB * SZ]; static size_t sizes[NB]; static unsigned char dict[4096];
    unsigned i, seed = 1; size_t r;
    for (i = 0; i < NB; i++) sizes[i] = SZ;
    for (i = 0; i < NB * SZ; i++) { seed = seed * 1103515245 + 12345; buf[i] = (unsigned char)("abcdefgh"[(seed >> 16) & 7]); }
    {   ZDICT_fastCover_params_t p; memset(&p, 0, sizeof(p)); p.d = 8; p.k = 64; p.f = f;
        r = ZDICT_trainFromBuffer_fastCover(dict, sizeof(dict), buf, sizes, NB, p);
        printf("ZDICT_trainFromBuffer_fastCover        f=%u -> %s\n", f, ZDICT_isError(r) ? ZDICT_getErrorName(r) : "dictionary"); fflush(stdout);
    }
    {   ZDICT_fastCover_params_t p; memset(&p, 0, sizeof(p)); p.d = 8; p.k = 64; p.f = f;
        r = ZDICT_optimizeTrainFromBuffer_fastCover(dict, sizeof(dict), buf, sizes, NB, &p);
        printf("ZDICT_optimizeTrainFromBuffer_fastCover f=%u -> %s\n", f, ZDICT_isError(r) ? ZDICT_getErrorName(r) : "dictionary");
    }
    return 0;
}
