// obs_4.c - UNMODIFIED tree (side observation, adjacent to C10: a call history on a reused streaming context).
// Multi-threaded streaming with a dictionary loaded by ZSTD_CCtx_loadDictionary(): the job of the running frame
// references the CCtx's local CDict. ZSTD_CCtx_reset(session_only) abandons the frame WITHOUT waiting for the
// workers, so the context looks idle (stage = init) and ZSTD_CCtx_loadDictionary() / ZSTD_CCtx_reset(parameters)
// is accepted and frees that CDict (ZSTD_clearAllDicts) while the worker is still compressing with it.
//
// build (from the worktree root):
//   clang -g -O1 -fsanitize=address -DZSTD_MULTITHREAD -DZSTD_DISABLE_ASM -I lib _seed/obs_4.c lib/common/[!_]*.c lib/compress/[!_]*.c lib/decompress/[!_]*.c -lpthread -o _seed/obs_4
// run: _seed/obs_4 [1|2]   (AddressSanitizer: heap-use-after-free in a worker thread = the problem was observed)
#define ZSTD_STATIC_LINKING_ONLY
#include "zstd.h"
#include <stdio.h>
#include <stdlib.h>
#include <string.h>
#include <unistd.h>

int main(int argc, char** argv)
{
    int const variant = (argc > 1) ? atoi(argv[1]) : 1;   /* 1 : reset(session_only) + loadDictionary(NULL) ; 2 : reset(session_and_parameters) alone */
    size_t const srcSize = 4u << 20, dictSize = 100000;
    unsigned char* const src = malloc(srcSize); unsigned char* const dict = malloc(dictSize);
    unsigned char* const dst = malloc(ZSTD_compressBound(srcSize));
    ZSTD_CCtx* const cctx = ZSTD_createCCtx();
    size_t i; unsigned x = 1; size_t r;
    for (i = 0; i < srcSize; i++) { x = x * 1103515245u + 12345u; src[i] = (unsigned char)('a' + ((x >> 16) & 7)); }
    memcpy(dict, src + 12345, dictSize);
    ZSTD_CCtx_setParameter(cctx, ZSTD_c_compressionLevel, 19);
    ZSTD_CCtx_setParameter(cctx, ZSTD_c_nbWorkers, 1);
    ZSTD_CCtx_setParameter(cctx, ZSTD_c_jobSize, 1 << 20);
    ZSTD_CCtx_setParameter(cctx, ZSTD_c_windowLog, 20);   /* keeps overlap <= job size, so that 1 MB of input makes a job */
    r = ZSTD_CCtx_loadDictionary(cctx, dict, dictSize);
    if (ZSTD_isError(r)) { printf("loadDictionary: %s\n", ZSTD_getErrorName(r)); return 2; }
    {   ZSTD_inBuffer in = { src, srcSize, 0 };
        ZSTD_outBuffer out = { dst, ZSTD_compressBound(srcSize), 0 };
        r = ZSTD_compressStream2(cctx, &out, &in, ZSTD_e_continue);   /* posts job 0 (1 MB at level 19 : runs for a while) and returns */
        printf("compressStream2(continue) -> %s, consumed %zu\n", ZSTD_isError(r) ? ZSTD_getErrorName(r) : "ok", in.pos);
    }
    usleep(20000);
    if (variant == 2) {
        r = ZSTD_CCtx_reset(cctx, ZSTD_reset_session_and_parameters);  /* abandon the frame and drop the dictionary, in one call */
        printf("reset(session_and_parameters) -> %s\n", ZSTD_isError(r) ? ZSTD_getErrorName(r) : "ok");
    } else {
        r = ZSTD_CCtx_reset(cctx, ZSTD_reset_session_only);           /* abandon the frame : does not wait for the worker */
        printf("reset(session_only) -> %s\n", ZSTD_isError(r) ? ZSTD_getErrorName(r) : "ok");
        r = ZSTD_CCtx_loadDictionary(cctx, NULL, 0);                   /* accepted (stage == init) : frees the CDict used by job 0 */
        printf("loadDictionary(NULL) -> %s\n", ZSTD_isError(r) ? ZSTD_getErrorName(r) : "ok");
    }
    sleep(3);                                                          /* let the worker run into the freed memory */
    ZSTD_freeCCtx(cctx);
    printf("no sanitizer report\n");
    free(src); free(dict); free(dst);
    return 0;
}
