/* dictionary whose match-length table stops at symbol 10 (< MaxML) and whose Huffman table is "valid":
 * the optimal parser seeds its statistics from symbolTT[0..MaxML] of the dictionary's CTable. */
#define ZSTD_STATIC_LINKING_ONLY
#include "zstd.h"
#include "common/huf.h"
#include "common/fse.h"
#include "common/mem.h"
#include <stdio.h>
#include <stdlib.h>
#include <string.h>
static size_t putNCount(BYTE* p, size_t cap, unsigned maxSym, unsigned log){
    unsigned cnt[64]; short norm[64]; size_t total=0; unsigned s;
    for(s=0;s<=maxSym;s++){ cnt[s]= 1+ (s*7)%5; total+=cnt[s]; }
    { size_t r=FSE_normalizeCount(norm,log,cnt,total,maxSym,1); if(FSE_isError(r)){printf("norm err\n");exit(2);} }
    { size_t r=FSE_writeNCount(p,cap,norm,maxSym,log); if(FSE_isError(r)){printf("write err\n");exit(2);} return r; }
}
int main(int argc,char**argv){
    unsigned mlMax = argc>1? (unsigned)atoi(argv[1]) : 10;
    BYTE* d=malloc(1<<16); BYTE* p=d; size_t n;
    MEM_writeLE32(p,ZSTD_MAGIC_DICTIONARY); p+=4; MEM_writeLE32(p,0x1234); p+=4;
    {   unsigned cnt[256]; HUF_CElt ct[HUF_CTABLE_SIZE_ST(255)]; U64 wk[HUF_WORKSPACE_SIZE_U64]; int s;
        for(s=0;s<256;s++) cnt[s]=1+(s%7);
        n=HUF_buildCTable_wksp(ct,cnt,255,11,wk,sizeof wk); if(HUF_isError(n)){printf("huf build\n");return 2;}
        n=HUF_writeCTable_wksp(p,1000,ct,255,(unsigned)n,wk,sizeof wk); if(HUF_isError(n)){printf("huf write\n");return 2;} p+=n; }
    p+=putNCount(p,200,31,8);
    p+=putNCount(p,200,mlMax,6);
    p+=putNCount(p,200,35,8);
    MEM_writeLE32(p,1);p+=4;MEM_writeLE32(p,4);p+=4;MEM_writeLE32(p,8);p+=4;
    {   int i; for(i=0;i<2000;i++) *p++=(BYTE)("the quick brown fox "[i%20]); }
    {   size_t dsz=(size_t)(p-d); size_t sn=5000; char* src=malloc(sn); char* out=malloc(ZSTD_compressBound(sn)); char* back=malloc(sn); size_t i;
        for(i=0;i<sn;i++) src[i]="the quick brown fox jumps over the lazy dog "[ (i*i/7)%44 ];
        ZSTD_CCtx* c=ZSTD_createCCtx();
        size_t r=ZSTD_compress_usingDict(c,out,ZSTD_compressBound(sn),src,sn,d,dsz,19);
        printf("dict %zu bytes, ML table up to symbol %u; compress -> %zu (%s)\n",dsz,mlMax,r,ZSTD_getErrorName(r));
        if(!ZSTD_isError(r)){ ZSTD_DCtx* dc=ZSTD_createDCtx(); size_t k=ZSTD_decompress_usingDict(dc,back,sn,out,r,d,dsz);
            printf("decompress -> %zu (%s) %s\n",k,ZSTD_getErrorName(k), k==sn&&!memcmp(back,src,sn)?"round trip ok":"MISMATCH"); }
    }
    return 0;
}
