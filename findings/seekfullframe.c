// obs_5.c - UNMODIFIED tree, seekable format reader (contrib/seekable_format)
//
// build (from the worktree root):
//   clang -g -O1 -fsanitize=address -DZSTD_DISABLE_ASM -I lib -I lib/common -I contrib/seekable_format _seed/obs_5.c contrib/seekable_format/zstdseek_compress.c contrib/seekable_format/zstdseek_decompress.c lib/common/*.c lib/compress/*.c lib/decompress/*.c -o _seed/obs_5
//
// A seekable archive whose frames carry the regular 4-byte zstd checksum AND whose seek table carries per-frame checksums.
// ZSTD_seekable_decompressFrame(zs, dst, size, i) and ZSTD_seekable_decompress() for a range that ends exactly at a frame
// end return damaged content as a success : neither checksum is verified.
//   contrib/seekable_format/zstdseek_decompress.c:523  `while (zs->decompressedOffset < offset + len)` stops as soon as the
//   requested bytes are produced.  The reader feeds ZSTD_decompressStream() exactly the amount it asks for (:583), so the
//   input ends after the last block : the call that flushes the last bytes returns 4 (checksum still expected), not 0.
//   The `toRead == 0` branch (:562-570), the only place where the seek-table checksum is compared, is never reached, and
//   the 4 checksum bytes of the frame are never read either.  With frames that have no zstd checksum the last block and
//   the "return 0" coincide and the seek-table checksum is verified (reference lines below).
//   A read that continues into the next frame does detect the damage.
// exit status: 0 = nothing observed, 1 = violation observed
#include <stdio.h>
#include <stdlib.h>
#include <string.h>
#define ZSTD_STATIC_LINKING_ONLY
#include "zstd.h"
#define XXH_STATIC_LINKING_ONLY
#include "xxhash.h"
#include "zstd_seekable.h"

static unsigned g_seed = 4242;
static unsigned rnd(void) { g_seed = g_seed * 1103515245u + 12345u; return g_seed >> 8; }

#define FRAME 20000
#define NBF 3
static unsigned char src[NBF*FRAME], arc[NBF*FRAME + 4096], out[NBF*FRAME];

static size_t build(int frameChecksum, size_t* frameStart)
{
    ZSTD_frameLog* const fl = ZSTD_seekable_createFrameLog(1 /* seek table checksums */);
    size_t pos = 0; int i;
    for (i = 0; i < NBF; i++) {
        ZSTD_CCtx* const c = ZSTD_createCCtx(); size_t cs, k;
        for (k=0;k<FRAME;k++) src[i*FRAME+k] = (unsigned char)rnd();    /* incompressible : raw blocks, damage goes straight to the output */
        ZSTD_CCtx_setParameter(c, ZSTD_c_checksumFlag, frameChecksum);
        cs = ZSTD_compress2(c, arc+pos, sizeof arc - pos, src + i*FRAME, FRAME);
        ZSTD_freeCCtx(c);
        if (ZSTD_isError(cs)) { printf("compress2 failed\n"); exit(2); }
        frameStart[i] = pos;
        ZSTD_seekable_logFrame(fl, (unsigned)cs, FRAME, (unsigned)(XXH64(src + i*FRAME, FRAME, 0) & 0xFFFFFFFFU));
        pos += cs;
    }
    frameStart[NBF] = pos;
    {   ZSTD_outBuffer o = { arc, sizeof arc, pos };
        if (ZSTD_seekable_writeSeekTable(fl, &o) != 0) { printf("writeSeekTable failed\n"); exit(2); }
        pos = o.pos; }
    ZSTD_seekable_freeFrameLog(fl);
    return pos;
}

int main(void)
{
    int fc, bad = 0;
    for (fc = 0; fc < 2; fc++) {
        size_t fstart[NBF+1];
        size_t const asz = build(fc, fstart);
        ZSTD_seekable* zs = ZSTD_seekable_create();
        size_t r = ZSTD_seekable_initBuff(zs, arc, asz);
        if (ZSTD_isError(r)) { printf("init: %s\n", ZSTD_getErrorName(r)); return 2; }
        r = ZSTD_seekable_decompress(zs, out, sizeof out, 0);
        printf("[frames %s zstd checksum] intact archive, read everything -> %s\n", fc ? "with" : "without", (r == sizeof src && !memcmp(out, src, sizeof src)) ? "ok" : "PROBLEM");
        if (r != sizeof src) return 2;
        ZSTD_seekable_free(zs);

        arc[fstart[1] + 200] ^= 0x40;      /* one content bit of frame 1 */

        zs = ZSTD_seekable_create(); ZSTD_seekable_initBuff(zs, arc, asz);
        r = ZSTD_seekable_decompressFrame(zs, out, sizeof out, 1);
        printf("    one bit of frame 1 flipped : ZSTD_seekable_decompressFrame(1)            -> %s\n",
               ZSTD_isError(r) ? ZSTD_getErrorName(r) : (memcmp(out, src+FRAME, FRAME) ? "ACCEPTED, altered bytes returned" : "accepted, bytes intact"));
        if (!ZSTD_isError(r)) bad = 1;
        ZSTD_seekable_free(zs);

        zs = ZSTD_seekable_create(); ZSTD_seekable_initBuff(zs, arc, asz);
        r = ZSTD_seekable_decompress(zs, out, 2*FRAME, 0);
        printf("                                 ZSTD_seekable_decompress([0, end of frame 1)) -> %s\n",
               ZSTD_isError(r) ? ZSTD_getErrorName(r) : (memcmp(out, src, 2*FRAME) ? "ACCEPTED, altered bytes returned" : "accepted, bytes intact"));
        if (!ZSTD_isError(r)) bad = 1;
        ZSTD_seekable_free(zs);

        zs = ZSTD_seekable_create(); ZSTD_seekable_initBuff(zs, arc, asz);
        r = ZSTD_seekable_decompress(zs, out, sizeof out, 0);
        printf("                                 ZSTD_seekable_decompress(everything)           -> %s\n",
               ZSTD_isError(r) ? ZSTD_getErrorName(r) : "ACCEPTED");
        ZSTD_seekable_free(zs);
    }
    printf(bad ? "VIOLATION observed : damaged content returned as a success\n" : "nothing observed\n");
    return bad;
}
