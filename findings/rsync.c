#define ZSTD_STATIC_LINKING_ONLY
#include "zstd.h"
#include <stdio.h>
int main(void){
  ZSTD_bounds b = ZSTD_cParam_getBounds(ZSTD_c_rsyncable);
  ZSTD_CCtx* c = ZSTD_createCCtx(); int v=-1;
  size_t r = ZSTD_CCtx_setParameter(c, ZSTD_c_rsyncable, 5);
  ZSTD_CCtx_getParameter(c, ZSTD_c_rsyncable, &v);
  printf("bounds [%d,%d]; set(5) -> %s ; get -> %d\n", b.lowerBound, b.upperBound, ZSTD_isError(r)?ZSTD_getErrorName(r):"accepted", v);
  return (v<b.lowerBound || v>b.upperBound); }
