/* obs_4 : a context that has just completed ZSTD_compressSequences successfully is left in the middle of a
 * streaming session : ZSTD_compressSequences (zstd_compress.c:7011) calls ZSTD_CCtx_init_compressStream2, which
 * sets cctx->streamStage = zcss_load (:6388) and records pledgedSrcSizePlusOne, and nothing puts the context back
 * to zcss_init when the frame is complete (ZSTD_compressStream2 does ZSTD_CCtx_reset(session_only) at that point).
 * Consequences shown here, all on the documented "both delimiter modes / with or without dictionary" surface :
 *   - switching ZSTD_c_blockDelimiters (or ZSTD_c_validateSequences, ZSTD_c_nbWorkers, ...) for the next call is refused (stage_wrong)
 *   - ZSTD_CCtx_refPrefix / loadDictionary for the next call is refused (stage_wrong)
 *   - an ordinary ZSTD_compressStream2(e_end) of another buffer fails with srcSize_wrong
 *   - a caller that does not test the setter's result has its explicit-delimiter list read in the old mode :
 *     a valid explicit-delimiter parse is then compressed into a frame that does not decode to the source.
 *
 * build (from the worktree root):
 *   clang -g -O1 -fsanitize=address -DZSTD_MULTITHREAD -DZSTD_DISABLE_ASM -I lib -Wno-comment _seed/obs_4.c \
 *      lib/common/*.c lib/compress/*.c lib/decompress/*.c -lpthread -o _seed/obs_4
 */
#define ZSTD_STATIC_LINKING_ONLY
#include "zstd.h"
#include <stdio.h>
#include <stdlib.h>
#include <string.h>
int main(void)
{
    char src[1000]; char dst[2000]; char back[1000]; size_t i, r; int bad = 0;
    ZSTD_Sequence noDelim[1]  = { {7, 7, 900, 0} };                    /* offset, litLength, matchLength, rep */
    ZSTD_Sequence withDelim[2] = { {7, 7, 900, 0}, {0, 93, 0, 0} };
    ZSTD_CCtx* c = ZSTD_createCCtx();
    for (i = 0; i < 1000; i++) src[i] = (char)(i % 7);
    for (i = 907; i < 1000; i++) src[i] = (char)(i * 31 >> 3);

    r = ZSTD_compressSequences(c, dst, sizeof(dst), noDelim, 1, src, 1000);
    printf("1st call (no delimiters)          : %s\n", ZSTD_getErrorName(r));
    r = ZSTD_CCtx_setParameter(c, ZSTD_c_blockDelimiters, ZSTD_sf_explicitBlockDelimiters);
    printf("set ZSTD_c_blockDelimiters after  : %s\n", ZSTD_getErrorName(r)); bad += ZSTD_isError(r);
    r = ZSTD_CCtx_setParameter(c, ZSTD_c_validateSequences, 1);
    printf("set ZSTD_c_validateSequences after: %s\n", ZSTD_getErrorName(r)); bad += ZSTD_isError(r);
    r = ZSTD_CCtx_refPrefix(c, src, 100);
    printf("ZSTD_CCtx_refPrefix after         : %s\n", ZSTD_getErrorName(r)); bad += ZSTD_isError(r);
    /* the caller meant : explicit delimiters */
    r = ZSTD_compressSequences(c, dst, sizeof(dst), withDelim, 2, src, 1000);
    printf("2nd call (explicit delimiters)    : %s\n", ZSTD_getErrorName(r));
    if (!ZSTD_isError(r)) {
        size_t const d = ZSTD_decompress(back, sizeof(back), dst, r);
        int const ok = !ZSTD_isError(d) && d == 1000 && !memcmp(back, src, 1000);
        printf("   decoding its frame             : %s\n", ZSTD_isError(d) ? ZSTD_getErrorName(d) : (ok ? "source" : "DIFFERENT bytes"));
        bad += !ok;
    }
    {   ZSTD_inBuffer in = { src, 500, 0 }; ZSTD_outBuffer out = { dst, sizeof(dst), 0 };
        r = ZSTD_compressStream2(c, &out, &in, ZSTD_e_end);
        printf("ZSTD_compressStream2(e_end, 500 B): %s\n", ZSTD_getErrorName(r)); bad += ZSTD_isError(r);
    }
    ZSTD_freeCCtx(c);
    return bad != 0;
}
