/* triage: seekable reader, checksummed archive, a corrupted frame that regenerates MORE bytes than its seek-table entry:
 * the surplus is taken as the content of the following offsets and returned as success without any verification.
 * clang -g -O1 -fsanitize=address -DZSTD_DISABLE_ASM -I/repo/lib -I/repo/lib/common -I/repo/contrib/seekable_format seeksurplus.c /repo/contrib/seekable_format/zstdseek_compress.c /repo/contrib/seekable_format/zstdseek_decompress.c /repo/lib/common/*.c /repo/lib/compress/*.c /repo/lib/decompress/*.c -o seeksurplus */
#include "zstd_seekable.h"
#include "zstd.h"
#include <stdio.h>
#include <stdlib.h>
#include <string.h>
int main(void){
    unsigned char x[17], arc[4096], out[64]; size_t i, asz; int bit, pos, wrongOk=0, total=0;
    for(i=0;i<17;i++) x[i]=(unsigned char)(i*37+11);
    { ZSTD_seekable_CStream* zcs=ZSTD_seekable_createCStream(); ZSTD_inBuffer in={x,17,0}; ZSTD_outBuffer o={arc,sizeof arc,0};
      ZSTD_seekable_initCStream(zcs,1,1,1);
      while(in.pos<in.size) ZSTD_seekable_compressStream(zcs,&o,&in);
      while(ZSTD_seekable_endStream(zcs,&o)>0){}
      asz=o.pos; ZSTD_seekable_freeCStream(zcs); }
    printf("archive %zu bytes\n",asz);
    for (pos=0; pos<(int)asz; pos++) for (bit=0; bit<8; bit++) {
        unsigned char c[4096]; ZSTD_seekable* zs=ZSTD_seekable_create(); size_t r;
        memcpy(c,arc,asz); c[pos]^=(unsigned char)(1<<bit);
        if (!ZSTD_isError(ZSTD_seekable_initBuff(zs,c,asz))) {
            memset(out,0,sizeof out);
            r=ZSTD_seekable_decompress(zs,out,17,0);
            total++;
            if (!ZSTD_isError(r) && (r!=17 || memcmp(out,x,17))) { if (wrongOk<4) printf("flip byte %d bit %d: returns %zu with wrong content\n",pos,bit,r); wrongOk++; }
        }
        ZSTD_seekable_free(zs);
    }
    printf("%d of %d single-bit corruptions are returned as success with wrong data\n",wrongOk,total);
    return wrongOk!=0;
}
