/* C17 observation 1 (UNMODIFIED tree) : with ZSTD_c_validateSequences=1 and a full zstd dictionary
 * (magic + entropy tables + content), an offset that reaches beyond the history available at the start
 * of its match is accepted : the validation bound uses the size of the whole dictionary buffer
 * (cctx->dictContentSize = dictSize, header included) instead of the size of its content.
 * Offsets in ] position + contentSize , position + dictSize ] pass validation, ZSTD_compressSequences()
 * returns a frame, and the decoder rejects that frame (corruption_detected).
 *
 * Build (from the worktree root) :
 *   cc -O1 -g -DZSTD_DISABLE_ASM -Wno-deprecated-declarations -Ilib -Ilib/common _seed/obs_1.c \
 *      lib/common/[a-z]*.c lib/compress/[a-z]*.c lib/decompress/[a-z]*.c lib/dictBuilder/[a-z]*.c -o _seed/obs_1
 *
 * Observed output on the unmodified tree (exit status 1) :
 *   dictionary : 4222 bytes = 126 bytes of header + 4096 bytes of content
 *   oldest byte of the history     : offset 4196 at position 100 -> ZSTD_compressSequences : accepted
 *       frame of 557 bytes
 *       decoding the frame : 1000 bytes, identical to the source
 *   16 bytes beyond the history    : offset 4212 at position 100 -> ZSTD_compressSequences : accepted
 *       frame of 557 bytes
 *       decoding the frame : Data corruption detected
 *   beyond the dictionary buffer   : offset 4323 at position 100 -> ZSTD_compressSequences : External sequences are not valid
 *   DEFECT : an offset beyond the available history passed validation
 */
#define ZSTD_STATIC_LINKING_ONLY
#define ZDICT_STATIC_LINKING_ONLY
#include "zstd.h"
#include "zdict.h"
#include <stdio.h>
#include <stdlib.h>
#include <string.h>

#define CONTENT_SIZE 4096
#define SRC_SIZE 1000

static unsigned rng_state = 12345u;
static unsigned rng(void) { rng_state = rng_state * 1664525u + 1013904223u; return rng_state >> 8; }

#define CHECK_Z(call) do { size_t const r_ = (call); if (ZSTD_isError(r_)) { \
        printf("%s failed : %s\n", #call, ZSTD_getErrorName(r_)); return 2; } } while (0)

static size_t try_offset(const void* dict, size_t dictSize, const unsigned char* src, unsigned offset, const char* what)
{
    ZSTD_CCtx* const cctx = ZSTD_createCCtx();
    ZSTD_DCtx* const dctx = ZSTD_createDCtx();
    ZSTD_Sequence seqs[2];
    char dst[2048];
    unsigned char back[SRC_SIZE];
    size_t cSize;
    seqs[0].litLength = 100; seqs[0].matchLength = 8; seqs[0].offset = offset; seqs[0].rep = 0;
    seqs[1].litLength = SRC_SIZE - 108; seqs[1].matchLength = 0; seqs[1].offset = 0; seqs[1].rep = 0;
    ZSTD_CCtx_setParameter(cctx, ZSTD_c_blockDelimiters, ZSTD_sf_explicitBlockDelimiters);
    ZSTD_CCtx_setParameter(cctx, ZSTD_c_validateSequences, 1);
    ZSTD_CCtx_loadDictionary(cctx, dict, dictSize);
    cSize = ZSTD_compressSequences(cctx, dst, sizeof(dst), seqs, 2, src, SRC_SIZE);
    printf("%s : offset %u at position 100 -> ZSTD_compressSequences : %s\n", what, offset,
           ZSTD_isError(cSize) ? ZSTD_getErrorName(cSize) : "accepted");
    if (!ZSTD_isError(cSize)) printf("    frame of %u bytes\n", (unsigned)cSize);
    if (!ZSTD_isError(cSize)) {
        size_t const dSize = ZSTD_decompress_usingDict(dctx, back, sizeof(back), dst, cSize, dict, dictSize);
        if (ZSTD_isError(dSize)) printf("    decoding the frame : %s\n", ZSTD_getErrorName(dSize));
        else printf("    decoding the frame : %u bytes, %s\n", (unsigned)dSize,
                    (dSize == SRC_SIZE && !memcmp(back, src, SRC_SIZE)) ? "identical to the source" : "DIFFERENT from the source");
    }
    ZSTD_freeCCtx(cctx); ZSTD_freeDCtx(dctx);
    return cSize;
}

int main(void)
{
    unsigned char content[CONTENT_SIZE];
    unsigned char samples[16 * 512];
    size_t sampleSizes[16];
    unsigned char dict[CONTENT_SIZE + 2048];
    unsigned char src[SRC_SIZE];
    ZDICT_params_t zp;
    size_t dictSize, headerSize, i;

    for (i = 0; i < CONTENT_SIZE; i++) content[i] = (unsigned char)("abcdefghijklmnop"[rng() & 15]);
    for (i = 0; i < sizeof(samples); i++) samples[i] = content[(i * 7) % CONTENT_SIZE];
    for (i = 0; i < 16; i++) sampleSizes[i] = 512;
    memset(&zp, 0, sizeof(zp));
    zp.dictID = 4242;
    dictSize = ZDICT_finalizeDictionary(dict, sizeof(dict), content, CONTENT_SIZE, samples, sampleSizes, 16, zp);
    if (ZDICT_isError(dictSize)) { printf("ZDICT_finalizeDictionary failed : %s\n", ZDICT_getErrorName(dictSize)); return 2; }
    headerSize = ZDICT_getDictHeaderSize(dict, dictSize);
    if (ZDICT_isError(headerSize)) { printf("ZDICT_getDictHeaderSize failed\n"); return 2; }
    printf("dictionary : %u bytes = %u bytes of header + %u bytes of content\n",
           (unsigned)dictSize, (unsigned)headerSize, (unsigned)(dictSize - headerSize));
    if (headerSize < 24) { printf("header too small for this demo\n"); return 2; }

    /* compressible literals (the 16-symbol alphabet of the dictionary samples), so that the block is emitted as a compressed block */
    for (i = 0; i < SRC_SIZE; i++) src[i] = (unsigned char)("abcdefghijklmnop"[rng() & 15]);
    /* the match at position 100 copies the first 8 bytes of the dictionary content */
    memcpy(src + 100, dict + headerSize, 8);

    {   unsigned const contentSize = (unsigned)(dictSize - headerSize);
        size_t const ok  = try_offset(dict, dictSize, src, 100 + contentSize, "oldest byte of the history    ");
        size_t const bad = try_offset(dict, dictSize, src, 100 + contentSize + 16, "16 bytes beyond the history   ");
        size_t const far = try_offset(dict, dictSize, src, 100 + (unsigned)dictSize + 1, "beyond the dictionary buffer  ");
        (void)far;
        if (ZSTD_isError(ok)) { printf("unexpected : the valid offset was refused\n"); return 2; }
        if (!ZSTD_isError(bad)) {
            printf("DEFECT : an offset beyond the available history passed validation\n");
            return 1;
        }
    }
    printf("no defect observed\n");
    return 0;
}
