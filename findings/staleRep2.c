/* obs_7 : block-level sequence producer that fails on some blocks, ZSTD_c_enableSeqProducerFallback=1,
 * ZSTD_c_searchForExternalRepcodes = ZSTD_ps_enable (which is also what ZSTD_ps_auto means for compression level >= 10),
 * strategy fast .. btlazy2 : ZSTD_compress2 returns a frame that decodes WITHOUT error to bytes different from the source.
 * The first wrong byte is always in a producer block that follows a fallback block : the internal parsers of these
 * strategies only maintain rep[0] and rep[1] of nextCBlock->rep (rep[2] keeps the value copied at zstd_compress.c:3264-3267),
 * whereas ZSTD_copySequencesToSeqStoreExplicitBlockDelim (:6613) seeds its repcode search with all three entries of
 * prevCBlock->rep and ZSTD_finalizeOffBase (:6586) turns an offset equal to the stale rep[2] into "repcode 3", which the
 * decoder resolves to another distance. Never seen with btopt/btultra (they track three repcodes) or with repcode search disabled.
 * Small windows make it frequent only because they make many blocks.
 *
 * build (from the worktree root):
 *   clang -g -O1 -fsanitize=address -DZSTD_MULTITHREAD -DZSTD_DISABLE_ASM -I lib -Wno-comment _seed/obs_7.c \
 *      lib/common/*.c lib/compress/*.c lib/decompress/*.c -lpthread -o _seed/obs_7
 * run : ASAN_OPTIONS=detect_leaks=0 _seed/obs_7 1500      (random trials; prints the broken ones, exit 1 if any)
 */
#define ZSTD_STATIC_LINKING_ONLY
#include "zstd.h"
#include <stdio.h>
#include <stdlib.h>
#include <string.h>
typedef unsigned char BYTE; typedef unsigned U32;
static unsigned long long g_rng = 88172645463325252ULL;
static U32 rnd(void) { g_rng ^= g_rng << 13; g_rng ^= g_rng >> 7; g_rng ^= g_rng << 17; return (U32)(g_rng >> 16); }
typedef struct { int failEvery; int calls; int minMatch; } prod_t;
static size_t producer(void* st, ZSTD_Sequence* out, size_t cap, const void* src, size_t srcSize,
                       const void* dict, size_t dictSize, int level, size_t windowSize)
{
    prod_t* const p = (prod_t*)st;
    const BYTE* const s = (const BYTE*)src;
    static int head[1 << 12];
    size_t pos = 0, anchor = 0, n = 0;
    (void)dict; (void)dictSize; (void)level; (void)cap;
    p->calls++;
    if (p->failEvery && (p->calls % p->failEvery) == 0) return ZSTD_SEQUENCE_PRODUCER_ERROR;
    memset(head, 0xFF, sizeof(head));
    while (pos + 4 <= srcSize) {
        U32 const h = ((s[pos] | (s[pos+1] << 8) | (s[pos+2] << 16)) * 2654435761u) >> 20;
        int const cand = head[h];
        head[h] = (int)pos;
        if (cand >= 0 && pos - (size_t)cand <= windowSize) {
            size_t ml = 0;
            while (pos + ml < srcSize && s[cand + ml] == s[pos + ml]) ml++;
            if (ml >= (size_t)p->minMatch) {
                out[n].offset = (U32)(pos - (size_t)cand); out[n].litLength = (U32)(pos - anchor); out[n].matchLength = (U32)ml; out[n].rep = 0; n++;
                pos += ml; anchor = pos; continue;
        }   }
        pos++;
    }
    out[n].offset = 0; out[n].matchLength = 0; out[n].litLength = (U32)(srcSize - anchor); out[n].rep = 0; n++;
    return n;
}
int main(int argc, char** argv)
{
    size_t const srcSize = 150000;
    BYTE* src = malloc(srcSize); BYTE* back = malloc(srcSize);
    size_t const cap = ZSTD_compressBound(srcSize) * 2; void* dst = malloc(cap);
    int trial, bad = 0; int const trials = argc > 1 ? atoi(argv[1]) : 200;
    for (trial = 0; trial < trials; trial++) {
        size_t pos = 0, r, d; prod_t ps = { 0, 0, 3 };
        int const level = 1 + rnd() % 9 /* used as strategy */, wlog = 10 + rnd() % 4, fe = 2 + rnd() % 3, val = rnd() & 1, rep = rnd() % 3, mm = 3 + rnd() % 5;
        ZSTD_CCtx* cctx = ZSTD_createCCtx();
        while (pos < srcSize) {
            size_t len = 1 + rnd() % 60, i; if (len > srcSize - pos) len = srcSize - pos;
            if (pos > 100 && (rnd() % 3)) { size_t off = 1 + rnd() % (pos < 3000 ? pos : 3000); for (i = 0; i < len; i++) src[pos + i] = src[pos + i - off]; }
            else for (i = 0; i < len; i++) src[pos + i] = (BYTE)('a' + rnd() % 17);
            pos += len;
        }
        ps.failEvery = fe;
        ZSTD_CCtx_setParameter(cctx, ZSTD_c_strategy, level);
        ZSTD_CCtx_setParameter(cctx, ZSTD_c_windowLog, wlog);
        ZSTD_CCtx_setParameter(cctx, ZSTD_c_minMatch, mm);
        ZSTD_CCtx_setParameter(cctx, ZSTD_c_validateSequences, val);
        ZSTD_CCtx_setParameter(cctx, ZSTD_c_searchForExternalRepcodes, rep);
        ZSTD_CCtx_setParameter(cctx, ZSTD_c_enableSeqProducerFallback, 1);
        ZSTD_registerSequenceProducer(cctx, &ps, producer);
        r = ZSTD_compress2(cctx, dst, cap, src, srcSize);
        if (ZSTD_isError(r)) { printf("trial %d strat=%d wlog=%d fe=%d val=%d rep=%d mm=%d: compress error %s\n", trial, level, wlog, fe, val, rep, mm, ZSTD_getErrorName(r)); bad++; }
        else { d = ZSTD_decompress(back, srcSize, dst, r);
            if (!ZSTD_isError(d)) { size_t k; for (k = 0; k < srcSize && back[k] == src[k]; k++) {} if (k < srcSize) printf("first difference at %zu = block %zu + %zu\n", k, k >> wlog, k & ((1u << wlog) - 1)); }
            if (ZSTD_isError(d) || d != srcSize || memcmp(back, src, srcSize)) { printf("trial %d strat=%d wlog=%d fe=%d val=%d rep=%d mm=%d: round trip broken (%s)\n", trial, level, wlog, fe, val, rep, mm, ZSTD_isError(d) ? ZSTD_getErrorName(d) : "bytes differ"); bad++; } }
        ZSTD_freeCCtx(cctx);
    }
    printf("%d broken\n", bad);
    free(dst); free(back); free(src);
    return bad != 0;
}
