#define ZSTD_STATIC_LINKING_ONLY
#include "zstd.h"
#include <stdio.h>
#include <stdlib.h>
#include <string.h>
/* usage: mtabort <workers-before> <workers-after> <bytes-fed-MB> */
int main(int argc, char** argv){
    int w0 = atoi(argv[1]), w1 = atoi(argv[2]); size_t feed = (size_t)atoi(argv[3])<<20;
    size_t const N = 64u<<20;
    char* src = malloc(N); unsigned s=1; for(size_t i=0;i<N;i++){ s=s*1103515245+12345; src[i]=(char)((s>>16)&0x3f);} 
    size_t cap = ZSTD_compressBound(N); char* dst = malloc(cap); char* back = malloc(N);
    ZSTD_CCtx* c = ZSTD_createCCtx();
    ZSTD_CCtx_setParameter(c, ZSTD_c_compressionLevel, 19);
    ZSTD_CCtx_setParameter(c, ZSTD_c_nbWorkers, w0);
    ZSTD_inBuffer in = { src, feed, 0 }; ZSTD_outBuffer out = { dst, 1<<10, 0 };
    for (int k=0;k<((argc>4)?1:3);k++){ size_t r = ZSTD_compressStream2(c,&out,&in,(argc>4)?ZSTD_e_flush:ZSTD_e_continue); if(ZSTD_isError(r)){printf("err %s\n",ZSTD_getErrorName(r));return 1;} }
    printf("consumed %zu of %zu, aborting\n", in.pos, feed);
    ZSTD_CCtx_reset(c, ZSTD_reset_session_only);
    ZSTD_CCtx_setParameter(c, ZSTD_c_nbWorkers, w1);
    ZSTD_CCtx_setParameter(c, ZSTD_c_compressionLevel, 3);
    { size_t r = ZSTD_compress2(c, dst, cap, src, 8<<20); printf("second: %s\n", ZSTD_isError(r)?ZSTD_getErrorName(r):"ok");
      if(!ZSTD_isError(r)){ size_t d = ZSTD_decompress(back, N, dst, r); printf("roundtrip %s\n", (d==(8<<20) && !memcmp(back,src,d))?"ok":"BAD"); } }
    ZSTD_freeCCtx(c); free(src); free(dst); free(back); return 0; }
