/* side observation (UNMODIFIED tree): ZSTD_freeCCtx() in the middle of a frame when the workers
 * come from a shared ZSTD_threadPool (ZSTD_CCtx_refThreadPool).
 * clang -g -O1 -fsanitize=address -DZSTD_MULTITHREAD -DZSTD_DISABLE_ASM -I lib _seed/side_refThreadPool.c lib/common/[a-z]*.c lib/compress/[a-z]*.c lib/decompress/[a-z]*.c -lpthread -o _seed/side_asan
 */
#define ZSTD_STATIC_LINKING_ONLY
#include "zstd.h"
#include <stdio.h>
#include <stdlib.h>
#include <unistd.h>
int main(void)
{
    size_t const n = 8u << 20;
    unsigned char* const src = malloc(n);
    unsigned char* const dst = malloc(ZSTD_compressBound(n));
    ZSTD_threadPool* const tp = ZSTD_createThreadPool(2);
    ZSTD_CCtx* const cctx = ZSTD_createCCtx();
    size_t i; unsigned r = 1;
    for (i = 0; i < n; i++) { r = r * 1103515245u + 12345u; src[i] = (unsigned char)((r >> 16) & ((i & 64) ? 0xFF : 0x0F)); }
    ZSTD_CCtx_refThreadPool(cctx, tp);
    ZSTD_CCtx_setParameter(cctx, ZSTD_c_nbWorkers, 2);
    ZSTD_CCtx_setParameter(cctx, ZSTD_c_compressionLevel, 19);   /* slow jobs */
    ZSTD_CCtx_setParameter(cctx, ZSTD_c_jobSize, 1 << 20);
    {   ZSTD_inBuffer in = { src, n, 0 };
        ZSTD_outBuffer out = { dst, 16, 0 };
        size_t const z = ZSTD_compressStream2(cctx, &out, &in, ZSTD_e_continue);
        printf("compressStream2 -> %s, consumed %lu\n", ZSTD_getErrorName(z), (unsigned long)in.pos);
    }
    ZSTD_freeCCtx(cctx);      /* frame abandoned, a job is still running on the shared pool */
    printf("cctx freed, waiting for the shared pool's workers\n"); fflush(stdout);
    sleep(3);
    ZSTD_freeThreadPool(tp);
    printf("done\n");
    return 0;
}
