/* triage: ZSTD_DCtx_reset(session_and_parameters) must drop dictionaries; DDicts referenced into the
 * multi-DDict set survive it.
 * clang -g -O1 -fsanitize=address -DZSTD_DISABLE_ASM -I/repo/lib -I/repo/lib/dictBuilder ddictreset.c /repo/lib/common/*.c /repo/lib/compress/*.c /repo/lib/decompress/*.c /repo/lib/dictBuilder/*.c -o ddictreset */
#define ZSTD_STATIC_LINKING_ONLY
#define ZDICT_STATIC_LINKING_ONLY
#include "zstd.h"
#include "zdict.h"
#include <stdio.h>
#include <stdlib.h>
#include <string.h>
static void fill(unsigned char* d, size_t n, unsigned seed){ size_t i; for(i=0;i<n;i++){ seed=seed*1103515245u+12345u; d[i]=(unsigned char)('a'+((seed>>16)%7)); } }
enum { DS=8192, N=3000 };
int main(void){
    static unsigned char content[2][DS], dict[2][DS+4096], src[N], c[8192], out[N];
    size_t dsz[2], csz, r; ZSTD_DDict* dd[2]; int i, bad=0;
    for (i=0;i<2;i++) { size_t ss[4]={DS/4,DS/4,DS/4,DS/4}; ZDICT_params_t p; memset(&p,0,sizeof p); p.dictID=1000+i;
        fill(content[i],DS,17+i*31); dsz[i]=ZDICT_finalizeDictionary(dict[i],sizeof dict[i],content[i],DS,content[i],ss,4,p);
        dd[i]=ZSTD_createDDict(dict[i],dsz[i]); }
    memcpy(src, content[0]+700, N);
    { ZSTD_CCtx* cc=ZSTD_createCCtx(); ZSTD_CCtx_loadDictionary(cc,dict[0],dsz[0]); csz=ZSTD_compress2(cc,c,sizeof c,src,N); ZSTD_freeCCtx(cc); }
    { ZSTD_DCtx* dc=ZSTD_createDCtx(); ZSTD_inBuffer in={c,csz,0}; ZSTD_outBuffer o={out,N,0};
      ZSTD_DCtx_setParameter(dc,ZSTD_d_refMultipleDDicts,ZSTD_rmd_refMultipleDDicts);
      ZSTD_DCtx_refDDict(dc,dd[0]);
      ZSTD_DCtx_reset(dc,ZSTD_reset_session_and_parameters);     /* documented: drops dictionaries */
      ZSTD_freeDDict(dd[0]);                                     /* the caller is done with dictionary 0 */
      ZSTD_DCtx_setParameter(dc,ZSTD_d_refMultipleDDicts,ZSTD_rmd_refMultipleDDicts);
      ZSTD_DCtx_refDDict(dc,dd[1]);
      r=ZSTD_decompressStream(dc,&o,&in);
      if (!ZSTD_isError(r)) { printf("frame needing dictionary 1000 decoded after the reset that dropped it (and after it was freed)\n"); bad=1; }
      else printf("refused as expected: %s\n",ZSTD_getErrorName(r));
      ZSTD_freeDCtx(dc); }
    ZSTD_freeDDict(dd[1]);
    return bad;
}
