/* obs_4.c - allocations of a context created with a custom allocator that bypass that allocator
 * (unmodified tree, default options).  Contradicts the first mechanism of C13 ("all library
 * allocations funnel through the three helpers honouring the caller's allocator"): a caller whose
 * allocator enforces a budget or lives in an arena gets blocks from plain malloc() instead.
 *
 * build (from the worktree root):
 *   clang -g -O1 -DZSTD_MULTITHREAD -DZSTD_DISABLE_ASM -I lib _seed/obs_4.c lib/common/*.c lib/compress/*.c \
 *     -lpthread -Wl,--wrap=malloc -Wl,--wrap=calloc -o _seed/obs_4
 * run:  _seed/obs_4      (exit 1 when a library allocation by-passed the custom allocator)
 *
 * case 1: ZSTD_c_nbWorkers>=1 with ZSTD_c_enableLongDistanceMatching: ZSTDMT_serialState_reset()
 *         (lib/compress/zstdmt_compress.c:509) takes the allocator from params.customMem, i.e. from
 *         cctx->requestedParams.customMem, which nothing ever sets from cctx->customMem (it stays
 *         {NULL,NULL,NULL}) => the LDM hash table and bucket table (here 2 blocks, 133120 bytes) come from malloc().
 * case 2: ZSTD_generateSequences() (lib/compress/zstd_compress.c:3497) allocates its scratch output
 *         with ZSTD_defaultCMem instead of zc->customMem.
 */
#include <stdio.h>
#include <stdlib.h>
#include <string.h>
#include <pthread.h>
#define ZSTD_STATIC_LINKING_ONLY
#define ZSTD_DISABLE_DEPRECATE_WARNINGS
#include "zstd.h"

static pthread_mutex_t mu = PTHREAD_MUTEX_INITIALIZER;
static int g_on = 0; static __thread int g_inCustom = 0;
static long g_direct = 0; static size_t g_directBytes = 0; static long g_custom = 0;
void* __real_malloc(size_t);
void* __real_calloc(size_t, size_t);
static void note(size_t s) { pthread_mutex_lock(&mu); if (g_on && !g_inCustom) { g_direct++; g_directBytes += s; } pthread_mutex_unlock(&mu); }
void* __wrap_malloc(size_t s) { note(s); return __real_malloc(s); }
void* __wrap_calloc(size_t n, size_t s) { note(n * s); return __real_calloc(n, s); }
static void* cAlloc(void* op, size_t s) { void* p; (void)op; g_inCustom = 1; p = malloc(s); g_inCustom = 0; pthread_mutex_lock(&mu); g_custom++; pthread_mutex_unlock(&mu); return p; }
static void cFree(void* op, void* p) { (void)op; free(p); }

int main(void)
{
    static char src[1500 * 1024], dst[1700 * 1024]; static ZSTD_Sequence seqs[60000];
    ZSTD_customMem const cm = { cAlloc, cFree, NULL };
    ZSTD_CCtx* c; size_t r; unsigned i, x = 1; long bad = 0;
    for (i = 0; i < sizeof src; i++) { x = x * 1103515245u + 12345u; src[i] = (char)('a' + ((x >> 16) % 5)); }
    g_on = 1;
    c = ZSTD_createCCtx_advanced(cm);
    ZSTD_CCtx_setParameter(c, ZSTD_c_nbWorkers, 1);
    ZSTD_CCtx_setParameter(c, ZSTD_c_enableLongDistanceMatching, 1);
    r = ZSTD_compress2(c, dst, sizeof dst, src, sizeof src);
    printf("case 1: MT + LDM ZSTD_compress2: %s ; %ld allocations through the custom allocator, %ld (%zu bytes) directly from malloc/calloc\n",
           ZSTD_getErrorName(r), g_custom, g_direct, g_directBytes);
    bad += g_direct;
    ZSTD_freeCCtx(c);
    g_direct = 0; g_directBytes = 0; g_custom = 0;
    c = ZSTD_createCCtx_advanced(cm);
    r = ZSTD_generateSequences(c, seqs, 60000, src, 100000);
    printf("case 2: ZSTD_generateSequences: %s ; %ld allocations through the custom allocator, %ld (%zu bytes) directly from malloc/calloc\n",
           ZSTD_getErrorName(r), g_custom, g_direct, g_directBytes);
    bad += g_direct;
    ZSTD_freeCCtx(c);
    g_on = 0;
    return bad ? 1 : 0;
}
