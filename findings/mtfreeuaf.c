/* obs_4.c - an interrupted multithreaded frame followed by ZSTD_CCtx_reset(session_and_parameters)
 * frees the context's local dictionary (CDict) while worker jobs are still compressing with it.
 * build: clang -g -O1 -fsanitize=address -DZSTD_MULTITHREAD -DZSTD_DISABLE_ASM -I lib _seed/obs_4.c lib/common/[a-z]*.c lib/compress/[a-z]*.c lib/decompress/[a-z]*.c -lpthread -o _seed/obs_4
 * run: _seed/obs_4        (reset, then wait)   or   _seed/obs_4 free   (ZSTD_freeCCtx() directly: ZSTD_freeCCtxContent()
 *      calls ZSTD_clearAllDicts() before ZSTDMT_freeCCtx() has waited for the jobs)
 * expected on the unmodified tree: AddressSanitizer heap-use-after-free in a worker thread
 * (ZSTD_compressBlock_*_dictMatchState* reading the CDict tables freed by ZSTD_clearAllDicts()).
 */
#define ZSTD_STATIC_LINKING_ONLY
#include "zstd.h"
#include <stdio.h>
#include <stdlib.h>
#include <string.h>
#include <unistd.h>

int main(int argc, char** argv)
{
    int const freeDirectly = argc > 1 && !strcmp(argv[1], "free");   /* variant: ZSTD_freeCCtx() on the interrupted frame, no reset */
    size_t const srcSize = 8u << 20, dictSize = 100u << 10;
    unsigned char* const src = (unsigned char*)malloc(srcSize);
    unsigned char* const dict = (unsigned char*)malloc(dictSize);
    unsigned char* const dst = (unsigned char*)malloc(ZSTD_compressBound(srcSize));
    ZSTD_CCtx* const cctx = ZSTD_createCCtx();
    unsigned s = 1; size_t i;
    for (i = 0; i < dictSize; i++) { s = s * 1103515245u + 12345u; dict[i] = (unsigned char)("abcdefgh"[(s >> 16) & 7]); }
    for (i = 0; i < srcSize; i++)  { s = s * 1103515245u + 12345u; src[i]  = (unsigned char)("abcdefgh"[(s >> 16) & 7]); }

    ZSTD_CCtx_setParameter(cctx, ZSTD_c_compressionLevel, 12);   /* lazy2 + row match finder: jobs run for a while */
    ZSTD_CCtx_setParameter(cctx, ZSTD_c_nbWorkers, 2);
    ZSTD_CCtx_setParameter(cctx, ZSTD_c_jobSize, 1 << 20);
    ZSTD_CCtx_setParameter(cctx, ZSTD_c_forceAttachDict, ZSTD_dictForceAttach);
    ZSTD_CCtx_loadDictionary(cctx, dict, dictSize);              /* local dictionary: becomes a CDict owned by the context */
    {   ZSTD_inBuffer in = { src, srcSize, 0 };
        ZSTD_outBuffer out = { dst, 16, 0 };                      /* tiny output: the call returns while jobs are running */
        size_t const r = ZSTD_compressStream2(cctx, &out, &in, ZSTD_e_continue);
        printf("compressStream2 -> %s, consumed %zu\n", ZSTD_isError(r) ? ZSTD_getErrorName(r) : "ok", in.pos);
    }
    /* the caller gives up on this frame */
    if (!freeDirectly) {
        size_t const r = ZSTD_CCtx_reset(cctx, ZSTD_reset_session_and_parameters);
        printf("ZSTD_CCtx_reset(session_and_parameters) -> %s\n", ZSTD_isError(r) ? ZSTD_getErrorName(r) : "ok");
        sleep(2);   /* workers keep running on the freed CDict */
    }
    ZSTD_freeCCtx(cctx);
    printf("done (no report: not reproduced)\n");
    free(src); free(dict); free(dst);
    return 0;
}
