// build (from the worktree root; _seed/orig/lib is a pristine copy of lib/, identical to lib/ after `git apply -R _seed/patch.diff`):
//   clang -w -g -O1 -fsanitize=address,undefined -DZSTD_MULTITHREAD -DZSTD_DISABLE_ASM -DZSTD_STATIC_LINKING_ONLY -I _seed/orig/lib -I _seed/orig/lib/common -I _seed/orig/lib/compress -I _seed/orig/lib/dictBuilder _seed/obs_c6.c _seed/orig/lib/common/*.c _seed/orig/lib/compress/*.c _seed/orig/lib/decompress/*.c _seed/orig/lib/dictBuilder/*.c -lpthread -o _seed/scratch/obs_c6
// run:   ASAN_OPTIONS=detect_leaks=0 ./_seed/scratch/obs_c6
/* obs_c6.c : the post block splitter can derive more than ZSTD_MAX_NB_BLOCK_SPLITS (196) splits for one block,
 * and then writes partitions[196..] : beyond U32 partitions[ZSTD_MAX_NB_BLOCK_SPLITS] of ZSTD_blockSplitCtx
 * (ZSTD_deriveBlockSplitsHelper stores midIdx after its left recursion without re-checking splits->idx,
 *  and ZSTD_deriveBlockSplits stores the final nbSeq at partitions[idx], idx can be 196 or more).
 * The source comment claims the limit "is actually impossible to reach" : with 3-byte sequences
 * (minMatch 3 / sequence producer) a 128 KB block holds up to 43690 sequences, i.e. up to 291 leaves of >= 150.
 *
 * One 128 KB block made of 38400 sequences (ll 0/1, ml 3), arranged in 256 leaves of 150 sequences whose
 * statistics differ (offset code, literal byte) so that every dyadic split is estimated as a gain.
 * Evidence : number of blocks the single 128 KB input block is emitted as (> 197 => partitions[196+] were used).
 */
#include <stdio.h>
#include <stdlib.h>
#include <string.h>
#include "zstd.h"

#define BLK     131072
#define HIST    ((size_t)BLK * 136)      /* 17 MB of random history (raw blocks) */
#define NLEAF   256
#define SEQLEAF 150
#define LITLEAF 62
#define NSEQ    (NLEAF*SEQLEAF)

static const unsigned char* g_base;
static ZSTD_Sequence* g_seqs;   /* NSEQ + 1 */

static unsigned rs = 4321;
static unsigned rnd(void) { rs = rs*1103515245u + 12345u; return rs >> 8; }

static size_t producer(void* state, ZSTD_Sequence* out, size_t cap,
                       const void* src, size_t srcSize, const void* dict, size_t dictSize,
                       int level, size_t windowSize)
{
    size_t const pos = (size_t)((const unsigned char*)src - g_base);
    (void)state; (void)dict; (void)dictSize; (void)level; (void)windowSize;
    if (pos < HIST) {
        out[0].offset = 0; out[0].litLength = (unsigned)srcSize; out[0].matchLength = 0; out[0].rep = 0;
        return 1;
    }
    if (cap < NSEQ+1) return ZSTD_SEQUENCE_PRODUCER_ERROR;
    memcpy(out, g_seqs, (NSEQ+1)*sizeof(ZSTD_Sequence));
    return NSEQ+1;
}

static void count_blocks(const unsigned char* d, size_t sz)
{
    size_t pos = ZSTD_frameHeaderSize(d, sz); int last = 0; unsigned nb = 0, nbAfter = 0; size_t regen = 0;
    unsigned types[4] = {0,0,0,0};
    while (!last && pos + 3 <= sz) {
        unsigned const bh = d[pos] | (d[pos+1]<<8) | (d[pos+2]<<16);
        unsigned const type = (bh>>1)&3, bs = bh>>3;
        last = bh & 1;
        if (nb >= HIST/BLK) { nbAfter++; types[type]++; }
        (void)regen;
        pos += 3 + (type==1 ? 1 : bs); nb++;
    }
    printf("blocks in frame: %u ; blocks produced for the last 128 KB input block: %u (raw=%u rle=%u compressed=%u)\n",
           nb, nbAfter, types[0], types[1], types[2]);
    printf("=> number of splits = %u ; ZSTD_MAX_NB_BLOCK_SPLITS = 196, partitions[] has 196 entries and needs nbSplits+1\n", nbAfter-1);
}

int main(void)
{
    size_t const n = HIST + BLK;
    unsigned char* src = (unsigned char*)malloc(n);
    size_t i, p, k, s;
    ZSTD_CCtx* c = ZSTD_createCCtx();
    g_seqs = (ZSTD_Sequence*)calloc(NSEQ+1, sizeof(ZSTD_Sequence));
    g_base = src;
    for (i=0; i<HIST; i++) src[i] = (unsigned char)rnd();
    p = HIST; s = 0;
    for (k=0; k<NLEAF; k++) {
        unsigned const code = 4 + 4*((unsigned)(k>>2) % 5) + (unsigned)(k&3);   /* offset code of this leaf : 4..23 */
        size_t j;
        for (j=0; j<SEQLEAF; j++, s++) {
            /* one run of literals at the start of the leaf : 64 (> 63, so that the literals section is typed set_rle) for the first 224 leaves */
            unsigned const ll = (j == 0) ? (k < 224 ? 64 : 48) : 0;
            unsigned const offBase = (1u<<code) + (rnd() & ((1u<<code)-1));
            unsigned off = offBase - 3;
            { unsigned q; for (q=0; q<ll; q++) src[p++] = (unsigned char)(k>>1); }   /* literal byte is specific to a pair of leaves */
            if (off < 8) off = 8 + (off & 3);
            src[p] = src[p-off]; src[p+1] = src[p+1-off]; src[p+2] = src[p+2-off];
            p += 3;
            g_seqs[s].offset = off; g_seqs[s].litLength = ll; g_seqs[s].matchLength = 3; g_seqs[s].rep = 0;
        }
    }
    g_seqs[NSEQ].offset = 0; g_seqs[NSEQ].litLength = 0; g_seqs[NSEQ].matchLength = 0;
    if (p != n) { printf("internal: p=%zu n=%zu\n", p, n); return 1; }

    ZSTD_CCtx_setParameter(c, ZSTD_c_compressionLevel, 19);
    ZSTD_CCtx_setParameter(c, ZSTD_c_windowLog, 25);
    ZSTD_CCtx_setParameter(c, ZSTD_c_useBlockSplitter, ZSTD_ps_enable);
    ZSTD_CCtx_setParameter(c, ZSTD_c_searchForExternalRepcodes, ZSTD_ps_disable);
    ZSTD_registerSequenceProducer(c, NULL, producer);

    {   size_t const cap = n + n/64;
        unsigned char* d = (unsigned char*)malloc(cap);
        unsigned char* back = (unsigned char*)malloc(n);
        size_t const r = ZSTD_compress2(c, d, cap, src, n);
        printf("ZSTD_compress2 -> %s\n", ZSTD_isError(r) ? ZSTD_getErrorName(r) : "ok");
        if (!ZSTD_isError(r)) {
            size_t const dr = ZSTD_decompress(back, n, d, r);
            printf("cSize=%zu roundtrip: %s\n", r, (dr==n && !memcmp(back,src,n)) ? "ok" : ZSTD_isError(dr) ? ZSTD_getErrorName(dr) : "BAD");
            count_blocks(d, r);
        }
        free(d); free(back);
    }
    ZSTD_freeCCtx(c); free(src); free(g_seqs);
    return 0;
}
