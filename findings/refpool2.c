/* obs_3.c - UNMODIFIED tree.
 * ZSTD_CCtx_refThreadPool() only records the pool in cctx->pool (zstd_compress.c:1340); the pool is handed
 * to the ZSTDMT context once, when that one is created (zstd_compress.c:6352), and kept in mtctx->factory for
 * ever. Re-assigning the pool (another pool, or NULL = "use an internal thread pool" as zstd.h says) after a
 * first MT frame is silently ignored: the next frame still posts its jobs to the first pool,
 * which the application believes is no longer referenced by this context, and may have freed.
 *
 * build (from the worktree root):
 *   clang -g -O1 -fsanitize=address -DZSTD_MULTITHREAD -DZSTD_DISABLE_ASM -I lib \
 *       _seed/obs_3.c lib/common/[a-z]*.c lib/compress/[a-z]*.c lib/decompress/[a-z]*.c -lpthread -o _seed/obs_3
 */
#ifndef ZSTD_STATIC_LINKING_ONLY
#define ZSTD_STATIC_LINKING_ONLY
#endif
#include "zstd.h"
#include <stdio.h>
#include <stdlib.h>
#include <string.h>

#define CHECK(e) do { size_t const r_ = (e); if (ZSTD_isError(r_)) { printf("line %d: %s\n", __LINE__, ZSTD_getErrorName(r_)); exit(2); } } while (0)

int main(void)
{
    size_t const srcSize = 4u << 20;
    char* const src = (char*)malloc(srcSize);
    size_t const dstCap = ZSTD_compressBound(srcSize);
    char* const dst = (char*)malloc(dstCap);
    ZSTD_threadPool* poolA = ZSTD_createThreadPool(2);
    ZSTD_CCtx* const cctx = ZSTD_createCCtx();
    { size_t i; unsigned s = 1; for (i = 0; i < srcSize; i++) { s = s * 1103515245u + 12345u; src[i] = (char)((s >> 16) % 23); } }

    CHECK(ZSTD_CCtx_setParameter(cctx, ZSTD_c_nbWorkers, 2));
    CHECK(ZSTD_CCtx_refThreadPool(cctx, poolA));
    CHECK(ZSTD_compress2(cctx, dst, dstCap, src, srcSize));      /* frame 1, on pool A */

    CHECK(ZSTD_CCtx_refThreadPool(cctx, NULL));                  /* back to an internal pool (accepted: returns 0) */
    ZSTD_freeThreadPool(poolA);                                  /* nobody references pool A any more ... */
    CHECK(ZSTD_compress2(cctx, dst, dstCap, src, srcSize));      /* ... but frame 2 posts its jobs to it */

    ZSTD_freeCCtx(cctx);
    free(src); free(dst);
    printf("done, nothing observed\n");
    return 0;
}
