// Side observation on the UNMODIFIED sources (not related to patch.diff): a failed worker-count increase leaves the MT context unusable.
// Build: clang -g -O1 -fsanitize=address -DZSTD_MULTITHREAD -DZSTD_DISABLE_ASM -I lib _seed/side_mt_resize.c lib/common/*.c lib/compress/*.c lib/decompress/*.c -lpthread -o _seed/side_mt_resize
// Run:   ASAN_OPTIONS=detect_leaks=0 ./_seed/side_mt_resize 3      (argument = which allocation after the first frame fails; 3..9 all misbehave)
#define ZSTD_STATIC_LINKING_ONLY
#include <stdio.h>
#include <stdlib.h>
#include <string.h>
#include "zstd.h"
static long cnt, failAt;
static void* A(void* o, size_t s){ (void)o; cnt++; if (failAt && cnt==failAt) return NULL; return malloc(s);} 
static void F(void* o, void* p){ (void)o; free(p);} 
int main(int argc, char** argv){
  ZSTD_customMem cm = {A,F,NULL}; size_t n = 1500000; char* src = malloc(n); char* dst = malloc(ZSTD_compressBound(n)); size_t i;
  long k = atol(argv[1]);
  for(i=0;i<n;i++) src[i]=(char)((i*7)%251 ^ (i>>9));
  ZSTD_CCtx* c = ZSTD_createCCtx_advanced(cm);
  ZSTD_CCtx_setParameter(c, ZSTD_c_nbWorkers, 1);
  size_t r = ZSTD_compress2(c,dst,ZSTD_compressBound(n),src,n); printf("1 worker: %s (allocs so far %ld)\n", ZSTD_getErrorName(r), cnt);
  ZSTD_CCtx_setParameter(c, ZSTD_c_nbWorkers, 4);
  failAt = cnt + k;
  r = ZSTD_compress2(c,dst,ZSTD_compressBound(n),src,n); printf("4 workers, fault at +%ld: %s\n", k, ZSTD_getErrorName(r));
  failAt = 0;
  ZSTD_CCtx_reset(c, ZSTD_reset_session_only);
  r = ZSTD_compress2(c,dst,ZSTD_compressBound(n),src,n); printf("4 workers, retry, memory available: %s\n", ZSTD_getErrorName(r));
  ZSTD_CCtx_reset(c, ZSTD_reset_session_only);
  ZSTD_CCtx_setParameter(c, ZSTD_c_nbWorkers, 1);
  r = ZSTD_compress2(c,dst,ZSTD_compressBound(n),src,n); printf("back to 1 worker: %s\n", ZSTD_getErrorName(r));
  ZSTD_freeCCtx(c); return 0; }
