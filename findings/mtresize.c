#define ZSTD_STATIC_LINKING_ONLY
#include "zstd.h"
#include <stdio.h>
#include <stdlib.h>
#include <string.h>
int main(void){
    size_t const N = 64u<<20;
    char* src = malloc(N); unsigned s=1; for(size_t i=0;i<N;i++){ s=s*1103515245+12345; src[i]=(char)((s>>16)&0x3f);} 
    size_t cap = ZSTD_compressBound(N); char* dst = malloc(cap);
    ZSTD_CCtx* c = ZSTD_createCCtx();
    ZSTD_CCtx_setParameter(c, ZSTD_c_compressionLevel, 19);
    ZSTD_CCtx_setParameter(c, ZSTD_c_nbWorkers, 1);
    ZSTD_inBuffer in = { src, N, 0 }; ZSTD_outBuffer out = { dst, 1<<10, 0 };
    /* feed input, tiny output so that jobs stay in flight, then abort the frame */
    for (int k=0;k<3;k++){ size_t r = ZSTD_compressStream2(c,&out,&in,ZSTD_e_continue); if(ZSTD_isError(r)){printf("err %s\n",ZSTD_getErrorName(r));return 1;} }
    printf("consumed %zu, aborting\n", in.pos);
    ZSTD_CCtx_reset(c, ZSTD_reset_session_only);
    ZSTD_CCtx_setParameter(c, ZSTD_c_nbWorkers, 6);   /* bigger job table, bigger pools */
    { size_t r = ZSTD_compress2(c, dst, cap, src, 1<<20); printf("second: %s\n", ZSTD_isError(r)?ZSTD_getErrorName(r):"ok"); }
    ZSTD_freeCCtx(c); free(src); free(dst); return 0; }
