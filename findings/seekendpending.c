/* obs_5 : compression call history "explicit ZSTD_seekable_endFrame() into an output buffer that is too small,
 * then go on compressing".  zstd_seekable.h says "At any time, call ZSTD_seekable_endFrame() to end the current frame
 * and start a new one" and gives no meaning to its return value (only endStream is documented as "call again").
 * When ZSTD_endStream could not flush everything, ZSTD_seekable_endFrame returns >0 WITHOUT logging the frame ;
 * the next ZSTD_seekable_compressStream flushes the rest, zstd starts a NEW zstd frame, and the seekable layer
 * keeps accumulating into the same log entry.  The seek table then has one entry that covers two zstd frames.
 * A regular decoder regenerates the content, but the seekable reader cannot read it back :
 *   - with checksums : corruption_detected on an intact archive ;
 *   - without checksums, FILE or callback mode : endless loop (same mechanism as obs_2), memory mode : seekableIO.
 *
 * build (from the worktree root) :
 *   clang -g -O1 -fsanitize=address,undefined -DZSTD_DISABLE_ASM -I lib -I lib/common -I contrib/seekable_format \
 *      _seed/obs_5.c contrib/seekable_format/zstdseek_compress.c contrib/seekable_format/zstdseek_decompress.c \
 *      lib/common/[a-z]*.c lib/compress/[a-z]*.c lib/decompress/[a-z]*.c -o _seed/obs_5
 */
#include <stdio.h>
#include <stdlib.h>
#include <string.h>
#include <signal.h>
#include <unistd.h>
#define ZSTD_STATIC_LINKING_ONLY
#include "zstd.h"
#include "zstd_seekable.h"

static void onAlarm(int s) { (void)s; printf("VIOLATION: seekable read of an archive produced by the seekable compressor hangs (>5 s)\n"); _exit(1); }

int main(void)
{
    enum { SRC = 3000 };
    static unsigned char src[SRC], arc[8192], out[SRC];
    size_t arcSize = 0, r;
    int bad = 0;
    setvbuf(stdout, NULL, _IONBF, 0);
    for (int i = 0; i < SRC; i++) src[i] = (unsigned char)((i * 2654435761u) >> 13);

    for (int checksum = 1; checksum >= 0; checksum--) {
        ZSTD_seekable_CStream* const zcs = ZSTD_seekable_createCStream();
        ZSTD_inBuffer in = { src, 1000, 0 };
        ZSTD_outBuffer o = { arc, sizeof(arc), 0 };
        if (ZSTD_isError(ZSTD_seekable_initCStream(zcs, 3, checksum, 0))) return 2;
        while (in.pos < in.size) if (ZSTD_isError(ZSTD_seekable_compressStream(zcs, &o, &in))) return 2;
        /* end the frame, but the caller's buffer has only 100 bytes of room this time */
        {   ZSTD_outBuffer small = { arc, o.pos + 100, o.pos };
            r = ZSTD_seekable_endFrame(zcs, &small);
            printf("checksum=%d : endFrame with 100 bytes of room -> %zu\n", checksum, r);
            if (ZSTD_isError(r)) return 2;
            o.pos = small.pos;
        }
        in.size = SRC;   /* the next 2000 bytes, big output buffer again */
        while (in.pos < in.size) if (ZSTD_isError(ZSTD_seekable_compressStream(zcs, &o, &in))) return 2;
        while ((r = ZSTD_seekable_endStream(zcs, &o)) != 0) if (ZSTD_isError(r)) return 2;
        arcSize = o.pos;
        ZSTD_seekable_freeCStream(zcs);

        /* a regular decoder is happy */
        {   ZSTD_DCtx* const d = ZSTD_createDCtx();
            ZSTD_inBuffer di = { arc, arcSize, 0 };
            ZSTD_outBuffer dout = { out, SRC, 0 };
            while (di.pos < di.size) { r = ZSTD_decompressStream(d, &dout, &di); if (ZSTD_isError(r)) break; }
            printf("  regular decoder : %s, %zu bytes, %s\n", ZSTD_isError(r) ? ZSTD_getErrorName(r) : "ok", dout.pos,
                   (dout.pos == SRC && !memcmp(out, src, SRC)) ? "equal" : "DIFFERENT");
            ZSTD_freeDCtx(d);
        }
        {   ZSTD_seekable* const zs = ZSTD_seekable_create();
            if (ZSTD_isError(ZSTD_seekable_initBuff(zs, arc, arcSize))) return 2;
            printf("  seek table : %u frames", ZSTD_seekable_getNumFrames(zs));
            for (unsigned f = 0; f < ZSTD_seekable_getNumFrames(zs); f++)
                printf("  [c=%zu d=%zu]", ZSTD_seekable_getFrameCompressedSize(zs, f), ZSTD_seekable_getFrameDecompressedSize(zs, f));
            printf("\n");
            memset(out, 0, SRC);
            r = ZSTD_seekable_decompress(zs, out, SRC, 0);
            printf("  memory mode : decompress(0,%d) -> %s\n", SRC, ZSTD_isError(r) ? ZSTD_getErrorName(r) : "success");
            if (ZSTD_isError(r) || memcmp(out, src, SRC)) bad = 1;
            ZSTD_seekable_free(zs);
        }
        {   FILE* const f = tmpfile();
            ZSTD_seekable* const zs = ZSTD_seekable_create();
            if (!f || fwrite(arc, 1, arcSize, f) != arcSize) return 2;
            fflush(f);
            if (ZSTD_isError(ZSTD_seekable_initFile(zs, f))) return 2;
            signal(SIGALRM, onAlarm);
            alarm(5);
            r = ZSTD_seekable_decompress(zs, out, SRC, 0);
            alarm(0);
            printf("  file mode   : decompress(0,%d) -> %s\n", SRC, ZSTD_isError(r) ? ZSTD_getErrorName(r) : "success");
            ZSTD_seekable_free(zs);
            fclose(f);
        }
    }
    if (bad) printf("VIOLATION: archive written through the seekable compressor does not read back\n");
    return bad;
}
