/* obs_3.c - ZSTD_compressStream2(): same input, same parameters, same calls (chunks + directives), but the
 * frame bytes depend on the CAPACITY of the output buffer given to the final ZSTD_e_end call.
 * build: clang -g -O1 -fsanitize=address -DZSTD_MULTITHREAD -DZSTD_DISABLE_ASM -I lib _seed/obs_3.c lib/common/[a-z]*.c lib/compress/[a-z]*.c lib/decompress/[a-z]*.c -lpthread -o _seed/obs_3
 *
 * Cause: ZSTD_compressStream_generic(), case zcss_load (lib/compress/zstd_compress.c ~6097):
 *     if ( (flushMode == ZSTD_e_end) && ((size_t)(oend-op) >= ZSTD_compressBound(iend-ip) || ...) && (zcs->inBuffPos == 0) )
 *         -> "shortcut to compression pass directly into output buffer"
 * With enough output room (and the internal input ring just wrapped, inBuffPos == 0) the rest of the input is
 * compressed straight from the caller's memory as one contiguous segment; with less room it goes through the
 * internal ring buffer (windowSize + blockSize), which re-segments the window every lap (extDict block compressors,
 * overwritten history). Both frames are valid but differ. Shows up once the input exceeds the window.
 */
#define ZSTD_STATIC_LINKING_ONLY
#include "zstd.h"
#include <stdio.h>
#include <stdlib.h>
#include <string.h>

static unsigned g = 1;
static unsigned rnd(void) { g = g * 1103515245u + 12345u; return g >> 16; }

/* stream [src, srcSize) : first `head` bytes with ZSTD_e_continue, the rest with ZSTD_e_end.
 * endRoom = capacity offered to each ZSTD_e_end call (0 = everything that is left) */
static size_t stream(const unsigned char* src, size_t srcSize, size_t head, int level, int wlog, unsigned char* dst, size_t cap, size_t endRoom)
{
    ZSTD_CCtx* const cctx = ZSTD_createCCtx();
    ZSTD_inBuffer in; ZSTD_outBuffer out; size_t opos = 0, r;
    ZSTD_CCtx_setParameter(cctx, ZSTD_c_compressionLevel, level);
    ZSTD_CCtx_setParameter(cctx, ZSTD_c_windowLog, wlog);
    in.src = src; in.size = head; in.pos = 0;
    while (in.pos < in.size) { out.dst = dst + opos; out.size = cap - opos; out.pos = 0; r = ZSTD_compressStream2(cctx, &out, &in, ZSTD_e_continue); if (ZSTD_isError(r)) return r; opos += out.pos; }
    in.src = src + head; in.size = srcSize - head; in.pos = 0;
    do { out.dst = dst + opos; out.size = endRoom ? endRoom : cap - opos; out.pos = 0; r = ZSTD_compressStream2(cctx, &out, &in, ZSTD_e_end); if (ZSTD_isError(r)) return r; opos += out.pos; } while (r != 0);
    ZSTD_freeCCtx(cctx);
    return opos;
}

int main(void)
{
    size_t const srcSize = 40000, cap = ZSTD_compressBound(srcSize) + 1024;
    unsigned char* const src = (unsigned char*)malloc(srcSize);
    unsigned char* const o1 = (unsigned char*)malloc(cap); unsigned char* const o2 = (unsigned char*)malloc(cap);
    unsigned char* const dec = (unsigned char*)malloc(srcSize);
    int trial, bad = 0;
    for (trial = 0; trial < 40 && bad < 3; trial++) {
        int const wlog = 10 + trial % 3, level = 1 + (trial * 7) % 12;
        size_t const blockSize = (size_t)1 << wlog;
        size_t const head = 2 * blockSize * (1 + trial % 4);     /* whole laps of the ring: inBuffPos is back to 0 */
        size_t i = 0, a, b;
        while (i < srcSize) { size_t l = 3 + rnd() % 40, k; if (l > srcSize - i) l = srcSize - i;
            if (i > 600 && (rnd() & 1)) { size_t const o = 1 + rnd() % 600; for (k = 0; k < l; k++) src[i + k] = src[i + k - o]; }
            else for (k = 0; k < l; k++) src[i + k] = (unsigned char)("abcdefgh "[rnd() % 9]);
            i += l; }
        a = stream(src, srcSize, head, level, wlog, o1, cap, 0);       /* ample output room for the e_end call */
        b = stream(src, srcSize, head, level, wlog, o2, cap, 1000);    /* 1000 bytes of output room per e_end call */
        if (ZSTD_isError(a) || ZSTD_isError(b)) { printf("error\n"); return 2; }
        if (a != b || memcmp(o1, o2, a)) {
            size_t const d1 = ZSTD_decompress(dec, srcSize, o1, a); int const ok1 = d1 == srcSize && !memcmp(dec, src, srcSize);
            size_t const d2 = ZSTD_decompress(dec, srcSize, o2, b); int const ok2 = d2 == srcSize && !memcmp(dec, src, srcSize);
            printf("level %d windowLog %d, %zu bytes e_continue then %zu bytes e_end: ample output room -> %zu bytes (decodes:%d), 1000-byte output buffers -> %zu bytes (decodes:%d)  DIFFERENT\n",
                   level, wlog, head, srcSize - head, a, ok1, b, ok2);
            bad++;
        }
    }
    printf("%d differing pairs\n", bad);
    free(src); free(o1); free(o2); free(dec);
    return bad != 0;
}
