/* triage: a dictionary larger than the short-cache index range (16 MiB) whose repcodes point into the part
 * that a fast/dfast CDict does not load.
 * clang -g -O1 -fsanitize=address -DZSTD_DISABLE_ASM -I/repo/lib -I/repo/lib/dictBuilder bigdictrep.c /repo/lib/common/*.c /repo/lib/compress/*.c /repo/lib/decompress/*.c /repo/lib/dictBuilder/*.c -o bigdictrep */
#define ZSTD_STATIC_LINKING_ONLY
#define ZDICT_STATIC_LINKING_ONLY
#include "zstd.h"
#include "zdict.h"
#include <stdio.h>
#include <stdlib.h>
#include <string.h>
static void wr32(unsigned char* p, unsigned v){ p[0]=v; p[1]=v>>8; p[2]=v>>16; p[3]=v>>24; }
int main(void){
    size_t const S = 18u<<20;            /* content size */
    unsigned char* small = malloc(1<<16); unsigned char* samples=malloc(1<<16); size_t ss[8]; size_t i, hs, dsz;
    unsigned char* big; size_t bigSize; int level, bad=0;
    unsigned s=3; for(i=0;i<(1<<16);i++){ s=s*1103515245u+12345u; samples[i]=(unsigned char)('a'+((s>>16)%9)); }
    for(i=0;i<8;i++) ss[i]=8192;
    { ZDICT_params_t p; memset(&p,0,sizeof p); p.dictID=4242; dsz=ZDICT_finalizeDictionary(small,1<<16,samples,4096,samples,ss,8,p); }
    if (ZDICT_isError(dsz)) { printf("finalize failed\n"); return 2; }
    hs=ZDICT_getDictHeaderSize(small,dsz);
    bigSize=hs+S; big=malloc(bigSize);
    memcpy(big,small,hs);
    wr32(big+hs-12,(unsigned)S-5); wr32(big+hs-8,(unsigned)S-6); wr32(big+hs-4,8);
    for(i=0;i<S;i++){ s=s*1103515245u+12345u; big[hs+i]=(unsigned char)('a'+((s>>16)%9)); }
    for (level=1; level<=19; level+=(level<6?1:6)) {
        ZSTD_CDict* cd=ZSTD_createCDict(big,bigSize,level);
        ZSTD_DDict* dd=ZSTD_createDDict(big,bigSize);
        printf("level %d: CDict %s, DDict %s\n",level,cd?"loads":"refused",dd?"loads":"refused");
        if (cd && dd) {
            ZSTD_CCtx* cc=ZSTD_createCCtx(); ZSTD_DCtx* dc=ZSTD_createDCtx(); static unsigned char src[3000], c[8000], out[3000]; size_t r, d;
            memcpy(src, big+hs+S-3000-77, 3000);
            r=ZSTD_compress_usingCDict(cc,c,sizeof c,src,sizeof src,cd);
            if (ZSTD_isError(r)) printf("  compress: %s\n",ZSTD_getErrorName(r));
            else { d=ZSTD_decompress_usingDDict(dc,out,sizeof out,c,r,dd);
                   if (ZSTD_isError(d)||d!=sizeof src||memcmp(out,src,sizeof src)) { printf("  ROUND TRIP FAILS (%s)\n", ZSTD_isError(d)?ZSTD_getErrorName(d):"content differs"); bad++; } else printf("  round trip ok (%zu bytes)\n",r); }
            ZSTD_freeCCtx(cc); ZSTD_freeDCtx(dc);
        }
        ZSTD_freeCDict(cd); ZSTD_freeDDict(dd);
    }
    return bad!=0;
}
