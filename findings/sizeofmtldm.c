// obs_4 : ZSTD_sizeof_CCtx() under-reports a multithreaded context that uses long-distance matching.
// ZSTDMT_sizeof_CCtx() (zstdmt_compress.c:1051) sums the pools, the job table and the round buffer but not the
// serial state's LDM hash table and bucket offsets, which ZSTDMT_serialState_reset() allocates
// (zstdmt_compress.c:527 and :531) and ZSTDMT_serialState_free() releases (:579).
// Also under-reported: ZSTD_sizeof_DDict() of a DDict built by ZSTD_initStaticDDict(byCopy) returns sizeof(ZSTD_DDict)
// although the object holds sizeof(ZSTD_DDict)+dictSize bytes of the caller's block (zstd_ddict.c:200-206 pass
// ZSTD_dlm_byRef to the initialiser so dictBuffer stays NULL, and :233 only counts dictSize when dictBuffer != NULL).
//
// build (from the worktree root):
//   clang -g -O1 -fsanitize=address -DZSTD_MULTITHREAD -DZSTD_DISABLE_ASM -I lib _seed/obs_4.c lib/common/*.c lib/compress/*.c lib/decompress/*.c -lpthread -Wl,--wrap=malloc -Wl,--wrap=calloc -Wl,--wrap=free -o _seed/obs_4
//
// Side observation shown by the same run: those two tables are obtained with params.customMem (zstdmt_compress.c:509),
// i.e. the allocator stored in the *parameters* (all-zero unless the parameters came from ZSTD_createCCtxParams_advanced),
// not with the context's allocator : a context made by ZSTD_createCCtx_advanced(customMem) takes them from malloc().
#define ZSTD_STATIC_LINKING_ONLY
#include "zstd.h"
#include <stdio.h>
#include <stdlib.h>
#include <string.h>
#include <pthread.h>

static pthread_mutex_t g_mtx = PTHREAD_MUTEX_INITIALIZER;
static size_t g_live = 0;      /* bytes live, obtained through the custom allocator */
static size_t g_heapLive = 0;  /* bytes live, obtained by calling malloc/calloc directly (zstd library + this file) */
void* __real_malloc(size_t s);
void __real_free(void* p);
void* __wrap_malloc(size_t s)
{
    size_t* p = (size_t*)__real_malloc(s + 16);
    if (!p) return NULL;
    p[0] = s;
    pthread_mutex_lock(&g_mtx); g_heapLive += s; pthread_mutex_unlock(&g_mtx);
    return (char*)p + 16;
}
void* __wrap_calloc(size_t n, size_t s) { void* const p = __wrap_malloc(n*s); if (p) memset(p, 0, n*s); return p; }
void __wrap_free(void* a)
{
    size_t* p;
    if (!a) return;
    p = (size_t*)((char*)a - 16);
    pthread_mutex_lock(&g_mtx); g_heapLive -= p[0]; pthread_mutex_unlock(&g_mtx);
    __real_free(p);
}
static void* cAlloc(void* opaque, size_t size)
{
    size_t* p = (size_t*)__real_malloc(size + 16);
    (void)opaque;
    if (!p) return NULL;
    p[0] = size;
    pthread_mutex_lock(&g_mtx); g_live += size; pthread_mutex_unlock(&g_mtx);
    return (char*)p + 16;
}
static void cFree(void* opaque, void* address)
{
    size_t* p;
    (void)opaque;
    if (!address) return;
    p = (size_t*)((char*)address - 16);
    pthread_mutex_lock(&g_mtx); g_live -= p[0]; pthread_mutex_unlock(&g_mtx);
    __real_free(p);
}

#define SRCSIZE ((size_t)8 << 20)

int main(void)
{
    int bad = 0;
    ZSTD_customMem const cmem = { cAlloc, cFree, NULL };
    char* const src = malloc(SRCSIZE);
    size_t const cap = ZSTD_compressBound(SRCSIZE);
    char* const dst = malloc(cap);
    size_t i;
    int ldm;
    setvbuf(stdout, NULL, _IONBF, 0);
    for (i = 0; i < SRCSIZE; i++) src[i] = (char)((i * 2654435761u) >> 26);

    for (ldm = 0; ldm <= 1; ldm++) {
        size_t const heapBefore = g_heapLive;
        ZSTD_CCtx* const cctx = ZSTD_createCCtx_advanced(cmem);
        size_t r;
        ZSTD_CCtx_setParameter(cctx, ZSTD_c_compressionLevel, 1);
        ZSTD_CCtx_setParameter(cctx, ZSTD_c_nbWorkers, 2);
        ZSTD_CCtx_setParameter(cctx, ZSTD_c_enableLongDistanceMatching, ldm ? ZSTD_ps_enable : ZSTD_ps_disable);
        r = ZSTD_compress2(cctx, dst, cap, src, SRCSIZE);
        if (ZSTD_isError(r)) { printf("compress2: %s\n", ZSTD_getErrorName(r)); return 2; }
        {   size_t const reported = ZSTD_sizeof_CCtx(cctx);
            size_t const heapDelta = g_heapLive - heapBefore;
            size_t const held = g_live + heapDelta;
            printf("nbWorkers=2 ldm=%d : live bytes from customMem = %zu, live bytes taken from malloc() behind its back = %zu ; ZSTD_sizeof_CCtx = %zu%s\n",
                   ldm, g_live, heapDelta, reported, reported < held ? "   <-- UNDER-REPORTS" : "");
            if (reported < held) { printf("    missing %zu bytes\n", held - reported); bad = 1; }
        }
        ZSTD_freeCCtx(cctx);
        if (g_live) { printf("leak: %zu live after free\n", g_live); bad = 1; }
    }

    {   /* (c) buffers handed to jobs are not in the pool and are not counted : ZSTDMT_sizeof_bufferPool() (zstdmt_compress.c:144)
         * only sees the buffers currently parked in the pool, also once the session has been abandoned and the context is idle */
        ZSTD_CCtx* const cctx = ZSTD_createCCtx_advanced(cmem);
        ZSTD_inBuffer in = { src, SRCSIZE, 0 };
        ZSTD_outBuffer o = { dst, 1000, 0 };   /* small output : jobs cannot be flushed and keep their buffers */
        ZSTD_CCtx_setParameter(cctx, ZSTD_c_compressionLevel, 1);
        ZSTD_CCtx_setParameter(cctx, ZSTD_c_nbWorkers, 2);
        ZSTD_compressStream2(cctx, &o, &in, ZSTD_e_continue);
        ZSTD_compressStream2(cctx, &o, &in, ZSTD_e_continue);
        ZSTD_CCtx_reset(cctx, ZSTD_reset_session_only);   /* session abandoned : the context is idle */
        {   size_t const reported = ZSTD_sizeof_CCtx(cctx);
            printf("nbWorkers=2, frame abandoned with ZSTD_CCtx_reset(session_only) : live bytes from customMem = %zu ; ZSTD_sizeof_CCtx = %zu%s\n",
                   g_live, reported, reported < g_live ? "   <-- UNDER-REPORTS" : "");
            if (reported < g_live) { printf("    missing %zu bytes\n", g_live - reported); bad = 1; }
        }
        ZSTD_freeCCtx(cctx);
    }

    {   size_t const dictSize = 100000;
        size_t const est = ZSTD_estimateDDictSize(dictSize, ZSTD_dlm_byCopy);
        void* const buf = malloc(est);
        const ZSTD_DDict* const dd = ZSTD_initStaticDDict(buf, est, src, dictSize, ZSTD_dlm_byCopy, ZSTD_dct_rawContent);
        size_t const reported = ZSTD_sizeof_DDict(dd);
        printf("static DDict byCopy, dictSize=%zu : block used = %zu ; ZSTD_sizeof_DDict = %zu%s\n",
               dictSize, est, reported, reported < est ? "   <-- UNDER-REPORTS" : "");
        if (reported < est) bad = 1;
        free(buf);
    }
    free(src); free(dst);
    if (bad) { printf("VIOLATION: sizeof_* under-reports what the object holds\n"); return 1; }
    printf("ok\n");
    return 0;
}
