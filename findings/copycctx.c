// obs_1.c - ZSTD_copyCCtx() ignores the failure of its internal reset.
// Build (from the repository root, UNMODIFIED sources):
//   clang -g -O1 -fsanitize=address -DZSTD_DISABLE_ASM -DZSTD_DISABLE_DEPRECATE_WARNINGS -I lib _seed/obs_1.c lib/common/*.c lib/compress/*.c lib/decompress/*.c -o _seed/obs_1
//
// ZSTD_copyCCtx_internal() (lib/compress/zstd_compress.c:2545) calls ZSTD_resetCCtx_internal() on the destination
// context and discards its result. When the reset fails (the destination is a static context whose workspace is
// too small for the source's parameters - or any allocation failure), the function goes on and memcpy()s the
// source's hash / chain tables over whatever tables the destination had before : heap overflow, and ZSTD_copyCCtx()
// returns 0 (success) so that the caller then compresses with a half-initialised context.
#define ZSTD_STATIC_LINKING_ONLY
#include "zstd.h"
#include <stdio.h>
#include <stdlib.h>
#include <string.h>
int main(void)
{
    /* destination : static context sized for level 1 */
    size_t const wsSize = ZSTD_estimateCCtxSize(1);
    void* const ws = malloc(wsSize);
    ZSTD_CCtx* const dst = ZSTD_initStaticCCtx(ws, wsSize);
    ZSTD_CCtx* const src = ZSTD_createCCtx();
    static char dict[100000]; static char in[100000]; static char out[200000];
    size_t r; int i;
    setvbuf(stdout, NULL, _IONBF, 0);
    for (i = 0; i < (int)sizeof(dict); i++) dict[i] = (char)(i * 7 + (i >> 8));
    memcpy(in, dict, sizeof(in));
    if (!dst) { printf("static cctx creation failed\n"); return 2; }
    /* give the destination small tables first */
    r = ZSTD_compressBegin(dst, 1);
    printf("ZSTD_compressBegin(dst, level 1) : %s\n", ZSTD_getErrorName(r));
    /* source : large tables (level 19, big dictionary) */
    r = ZSTD_compressBegin_usingDict(src, dict, sizeof(dict), 19);
    printf("ZSTD_compressBegin_usingDict(src, level 19) : %s\n", ZSTD_getErrorName(r));
    r = ZSTD_copyCCtx(dst, src, 0);
    printf("ZSTD_copyCCtx(dst, src) : %s   <- should be an error, the static workspace (%u bytes) cannot hold the copy\n", ZSTD_getErrorName(r), (unsigned)wsSize);
    r = ZSTD_compressEnd(dst, out, sizeof(out), in, sizeof(in));
    printf("ZSTD_compressEnd(dst) : %s\n", ZSTD_isError(r) ? ZSTD_getErrorName(r) : "ok");
    return 0;
}
