/* ZDICT_optimizeTrainFromBuffer_cover with 4 threads and notificationLevel 2: the display-refresh clock g_time */
#define ZDICT_STATIC_LINKING_ONLY
#include "zdict.h"
#include <stdio.h>
#include <stdlib.h>
#include <string.h>
int main(void){
    unsigned ns=200, i; size_t* sz=malloc(ns*sizeof*sz); size_t tot=0; char* buf=malloc(ns*2000);
    for(i=0;i<ns;i++){ size_t k, n=500+(i*37)%1500; sz[i]=n; for(k=0;k<n;k++) buf[tot+k]="the quick brown fox jumps over the lazy dog 0123456789"[(k*(i%7+1)+i)%54]; tot+=n; }
    char* d=malloc(16384);
    ZDICT_cover_params_t p; memset(&p,0,sizeof p); p.nbThreads=4; p.steps=8; p.d=8; p.zParams.notificationLevel=3;
    size_t r=ZDICT_optimizeTrainFromBuffer_cover(d,16384,buf,sz,ns,&p);
    fprintf(stderr,"\nresult %zu (%s)\n",r,ZDICT_getErrorName(r));
    return 0;
}
