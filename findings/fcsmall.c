/* triage: fastCover optimiser with a training part shorter than 8 bytes (empty leading samples).
 * clang -g -O1 -fsanitize=address -DZSTD_DISABLE_ASM -DZSTD_MULTITHREAD -I/repo/lib -I/repo/lib/dictBuilder fcsmall.c /repo/lib/common/*.c /repo/lib/compress/*.c /repo/lib/decompress/*.c /repo/lib/dictBuilder/*.c -lpthread -o fcsmall */
#define ZDICT_STATIC_LINKING_ONLY
#include "zdict.h"
#include <stdio.h>
#include <stdlib.h>
#include <string.h>
int main(void){
    size_t sizes[10]={0,0,0,0,0,0,0,0,2000,2000};
    char* buf=malloc(4000); char* dict=malloc(4096); size_t i, r;
    ZDICT_fastCover_params_t p; memset(&p,0,sizeof p); p.steps=4;
    for(i=0;i<4000;i++) buf[i]=(char)('a'+(i*7+i/13)%17);
    r=ZDICT_optimizeTrainFromBuffer_fastCover(dict,4096,buf,sizes,10,&p);
    printf("fastCover optimise: %s\n", ZDICT_isError(r)?ZDICT_getErrorName(r):"ok");
    r=ZDICT_trainFromBuffer(dict,4096,buf,sizes,10);
    printf("ZDICT_trainFromBuffer: %s\n", ZDICT_isError(r)?ZDICT_getErrorName(r):"ok");
    { ZDICT_cover_params_t c; memset(&c,0,sizeof c); c.steps=4; c.splitPoint=0.75;
      r=ZDICT_optimizeTrainFromBuffer_cover(dict,4096,buf,sizes,10,&c);
      printf("cover optimise (split 0.75): %s\n", ZDICT_isError(r)?ZDICT_getErrorName(r):"ok"); }
    free(buf); free(dict); return 0;
}
