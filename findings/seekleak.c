#include "zstd_seekable.h"
#include "zstd.h"
#include <stdio.h>
#include <stdlib.h>
#include <string.h>
typedef struct { const char* p; size_t size, pos; int reads, failAt; } mem_t;
static int rd(void* o, void* buf, size_t n){ mem_t* m=o; if (++m->reads==m->failAt) return -1; if(m->pos+n>m->size) return -1; memcpy(buf,m->p+m->pos,n); m->pos+=n; return 0; }
static int sk(void* o, long long off, int origin){ mem_t* m=o; long long np = origin==SEEK_SET?off: origin==SEEK_END?(long long)m->size+off:(long long)m->pos+off; if(np<0||np>(long long)m->size) return -1; m->pos=(size_t)np; return 0; }
int main(void){
  size_t const NF=20000; char* src=malloc(NF); memset(src,'x',NF); size_t cap=NF*40+100; char* dst=malloc(cap);
  ZSTD_seekable_CStream* zc=ZSTD_seekable_createCStream(); ZSTD_seekable_initCStream(zc,1,0,1);
  ZSTD_inBuffer in={src,NF,0}; ZSTD_outBuffer out={dst,cap,0};
  while(in.pos<in.size) { size_t r=ZSTD_seekable_compressStream(zc,&out,&in); if(ZSTD_isError(r)){puts("cerr");return 2;} }
  while(ZSTD_seekable_endStream(zc,&out)>0); ZSTD_seekable_freeCStream(zc);
  for (int failAt=1; failAt<6; failAt++){
    mem_t m={dst,out.pos,0,0,failAt}; ZSTD_seekable_customFile f={&m,rd,sk};
    ZSTD_seekable* zs=ZSTD_seekable_create(); size_t r=ZSTD_seekable_initAdvanced(zs,f);
    printf("fail read #%d: init -> %s\n", failAt, ZSTD_isError(r)?ZSTD_getErrorName(r):"ok");
    ZSTD_seekable_free(zs);
  }
  free(src); free(dst); return 0; }
