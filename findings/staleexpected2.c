/* obs_3.c - ZSTD_c_stableInBuffer : input accepted by ZSTD_e_continue calls before the first block is complete is
 *           lost when the frame is finished with ZSTD_endStream() (or flushed with ZSTD_flushStream()).
 *
 * build (from the worktree root):
 *   clang -g -O1 -fsanitize=address,undefined -DZSTD_DISABLE_ASM -I lib _seed/obs_3.c lib/common/*.c lib/compress/*.c lib/decompress/*.c -o _seed/obs_3
 * run: _seed/obs_3
 *
 * history : setParameter(ZSTD_c_stableInBuffer,1) ; compressStream2(in={x,N,0}, continue) [N < 128 KB : returns with in.pos==N]
 *           ; ZSTD_endStream(out) until 0.
 * ZSTD_endStream() and ZSTD_flushStream() rebuild the stable input from zcs->expectedInBuffer only when
 * zcs->appliedParams.inBufferMode == ZSTD_bm_stable, but appliedParams is still the one of the previous session (or zero)
 * while ZSTD_compressStream2() postpones the initialisation.
 */
#define ZSTD_STATIC_LINKING_ONLY
#include <stdio.h>
#include <stdlib.h>
#include <string.h>
#include "zstd.h"

static int run(size_t n, int useEndStream, int previousSessionStable)
{
    unsigned char* const x = malloc(n + 1);
    size_t const cCap = ZSTD_compressBound(n) + 1000;
    unsigned char* const c = malloc(cCap);
    unsigned char* const out = malloc(n + 1);
    ZSTD_CCtx* const cctx = ZSTD_createCCtx();
    size_t i, r, cSize = 0;
    int rc = 0;
    for (i = 0; i < n; i++) x[i] = (unsigned char)('a' + (i * 7 + (i >> 5)) % 19);
    printf("N=%zu, finish with %s, previous session %s\n", n, useEndStream ? "ZSTD_endStream" : "ZSTD_flushStream + compressStream2(end)", previousSessionStable ? "used a stable input" : "none/buffered");
    ZSTD_CCtx_setParameter(cctx, ZSTD_c_stableInBuffer, 1);
    if (previousSessionStable) {
        ZSTD_inBuffer in = { x, n, 0 }; ZSTD_outBuffer o = { c, cCap, 0 };
        r = ZSTD_compressStream2(cctx, &o, &in, ZSTD_e_end);
        if (r != 0) { printf("  warm-up failed\n"); return 2; }
    }
    {   ZSTD_inBuffer in = { x, n, 0 };
        ZSTD_outBuffer o = { c, cCap, 0 };
        r = ZSTD_compressStream2(cctx, &o, &in, ZSTD_e_continue);
        printf("  compressStream2(continue) -> ret=%zu%s, in.pos=%zu/%zu, out.pos=%zu\n", r, ZSTD_isError(r) ? " (error)" : "", in.pos, in.size, o.pos);
        if (ZSTD_isError(r) || in.pos != n) return 2;
        cSize = o.pos;
        if (useEndStream) {
            int k = 0;
            do { ZSTD_outBuffer o2 = { c + cSize, cCap - cSize, 0 };
                 r = ZSTD_endStream(cctx, &o2);
                 if (ZSTD_isError(r)) { printf("  => VIOLATION : ZSTD_endStream -> error %s : a valid history cannot be completed\n", ZSTD_getErrorName(r)); rc = 1; goto _done; }
                 cSize += o2.pos;
            } while (r != 0 && ++k < 1000);
            printf("  ZSTD_endStream -> 0, %zu compressed bytes\n", cSize);
        } else {
            ZSTD_outBuffer o2 = { c + cSize, cCap - cSize, 0 };
            r = ZSTD_flushStream(cctx, &o2);
            if (ZSTD_isError(r)) { printf("  => VIOLATION : ZSTD_flushStream -> error %s\n", ZSTD_getErrorName(r)); rc = 1; goto _done; }
            cSize += o2.pos;
            printf("  ZSTD_flushStream -> %zu, %zu compressed bytes so far\n", r, cSize);
            {   ZSTD_inBuffer in3 = { x, n, n };
                ZSTD_outBuffer o3 = { c + cSize, cCap - cSize, 0 };
                r = ZSTD_compressStream2(cctx, &o3, &in3, ZSTD_e_end);
                if (ZSTD_isError(r)) { printf("  => VIOLATION : compressStream2(end) -> error %s : ZSTD_flushStream returned 0 without emitting the %zu bytes already accepted, and the frame cannot be completed\n", ZSTD_getErrorName(r), n); rc = 1; goto _done; }
                cSize += o3.pos;
                printf("  compressStream2(end) -> %zu, %zu compressed bytes\n", r, cSize);
            }
        }
    }
    r = ZSTD_decompress(out, n, c, cSize);
    if (ZSTD_isError(r)) { printf("  => decoding the emitted bytes : ERROR %s\n", ZSTD_getErrorName(r)); rc = 1; }
    else if (r != n || memcmp(out, x, n)) { printf("  => VIOLATION : %zu bytes were consumed, the emitted frame decodes to %zu bytes\n", n, r); rc = 1; }
    else printf("  => round trip OK\n");
_done:
    ZSTD_freeCCtx(cctx); free(x); free(c); free(out);
    return rc;
}

/* variant B : a session with a stable input is abandoned; the next session (default parameters) writes an empty frame
 * with ZSTD_endStream() : the stale ZSTD_inBuffer of the abandoned session is compressed into it. */
static int runB(void)
{
    size_t const n = 200000;
    unsigned char* x = malloc(n);
    unsigned char c[300000]; unsigned char out[300000];
    ZSTD_CCtx* const cctx = ZSTD_createCCtx();
    size_t r, i, cSize = 0;
    for (i = 0; i < n; i++) x[i] = (unsigned char)('a' + (i * 7 + (i >> 5)) % 19);
    printf("variant B : session 1 stable input, abandoned; session 2 : ZSTD_CCtx_reset(session_and_parameters) then ZSTD_endStream()\n");
    ZSTD_CCtx_setParameter(cctx, ZSTD_c_stableInBuffer, 1);
    {   ZSTD_inBuffer in = { x, n, 0 }; ZSTD_outBuffer o = { c, 10, 0 };
        r = ZSTD_compressStream2(cctx, &o, &in, ZSTD_e_flush);
        printf("  session 1 : compressStream2(flush, cap=10) -> %zu, in.pos=%zu/%zu\n", r, in.pos, in.size);
    }
    ZSTD_CCtx_reset(cctx, ZSTD_reset_session_only);   /* the stable-input parameter stays requested */
    free(x); x = NULL;     /* the caller is done with that buffer */
    {   int k = 0;
        do { ZSTD_outBuffer o = { c + cSize, sizeof(c) - cSize, 0 };
             r = ZSTD_endStream(cctx, &o);
             if (ZSTD_isError(r)) { printf("  ZSTD_endStream -> error %s\n", ZSTD_getErrorName(r)); return 1; }
             cSize += o.pos;
        } while (r != 0 && ++k < 1000);
    }
    r = ZSTD_decompress(out, sizeof(out), c, cSize);
    printf("  session 2 : nothing was given, ZSTD_endStream emitted %zu bytes which decode to %zu bytes (%s)\n", cSize, r, ZSTD_isError(r) ? ZSTD_getErrorName(r) : "expected 0");
    ZSTD_freeCCtx(cctx);
    return r != 0;
}

int main(void)
{
    int bad = 0;
    setvbuf(stdout, NULL, _IONBF, 0);
    bad |= run(1000, 1, 0);
    bad |= run(100000, 1, 0);
    bad |= run(1000, 0, 0);
    bad |= run(1000, 1, 1);
    bad |= run(1000, 0, 1);
    bad |= runB();     /* last : AddressSanitizer aborts here (heap-use-after-free); without it, stale bytes are emitted */
    return bad;
}
