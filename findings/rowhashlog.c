/* obs_1 : ZSTD_compress_advanced() accepts hashLog 29..30 with a row-hash strategy, and the row
 *         match finder then hashes with more than 32 bits : undefined shift (UBSan), failed
 *         assert(h <= 32) in assertion builds.
 *
 * build (from the worktree root):
 *   clang -g -O1 -fsanitize=address,undefined -fno-sanitize-recover=undefined -DZSTD_DISABLE_ASM -I lib _seed/obs_1.c lib/common/*.c lib/compress/*.c lib/decompress/*.c -o _seed/obs_1
 *   (add -DDEBUGLEVEL=1 to see the assertion instead)
 * needs ~3 GB of memory (hash table of 1<<29 entries + tag table).
 *
 * ZSTD_compress2()/ZSTD_CCtx_setParameter go through ZSTD_adjustCParams_internal(), which clamps
 * hashLog to 24+rowLog for the row match finder ("we can't hash more than 32 bits in total").
 * ZSTD_compress_advanced() only runs ZSTD_checkCParams() (hashLog <= 30 is accepted) and hands the
 * parameters to ZSTD_resetCCtx_internal() unadjusted : rowHashLog = 29 - 4 = 25, and
 * ZSTD_hashPtrSalted(ip, rowHashLog + 8 = 33, mls=4) evaluates  x >> (32 - 33).
 */
#define ZSTD_STATIC_LINKING_ONLY
#define ZSTD_DISABLE_DEPRECATE_WARNINGS
#include "zstd.h"
#include <stdio.h>
#include <stdlib.h>
#include <string.h>

int main(void)
{
    size_t const n = 1 << 20;
    unsigned char* src = malloc(n); size_t const bound = ZSTD_compressBound(n);
    unsigned char* dst = malloc(bound); unsigned char* out = malloc(n);
    ZSTD_CCtx* cctx = ZSTD_createCCtx();
    ZSTD_parameters p; size_t i, c, d;
    for (i = 0; i < n; i++) src[i] = (unsigned char)("abcdefgh"[(i * 7 + i / 13) & 7]);
    memset(&p, 0, sizeof(p));
    p.cParams.windowLog = 17; p.cParams.chainLog = 6; p.cParams.hashLog = 29; p.cParams.searchLog = 1;
    p.cParams.minMatch = 4; p.cParams.targetLength = 0; p.cParams.strategy = ZSTD_greedy;
    p.fParams.contentSizeFlag = 1;
    printf("ZSTD_checkCParams: %s\n", ZSTD_getErrorName(ZSTD_checkCParams(p.cParams)));
    c = ZSTD_compress_advanced(cctx, dst, bound, src, n, NULL, 0, p);
    if (ZSTD_isError(c)) { printf("compress: %s\n", ZSTD_getErrorName(c)); return 2; }
    d = ZSTD_decompress(out, n, dst, c);
    printf("compressed %zu -> %zu, decompressed %zu, %s\n", n, c, d, (d == n && !memcmp(src, out, n)) ? "identical" : "DIFFERENT");
    return 0;
}
