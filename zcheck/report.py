"""Verdict bookkeeping: instances, violations, known findings, evidence, exit status."""
import json
import os
import time

from .facts import VERIF, Broken


class Result:
    """collects the outcome of every rule instance evaluated for one property run."""

    def __init__(self, prop, tier):
        self.prop = prop
        self.tier = tier
        self.t0 = time.time()
        self.instances = []   # dicts: rule, key, status, where, detail
        self.samples = []
        self.info = {}
        self.counts = {}
        self.min_required = {}

    # -- recording -----------------------------------------------------------------------
    def ok(self, rule, key, where="", detail=""):
        self.instances.append({"rule": rule, "key": key, "status": "holds", "where": where, "detail": detail})

    def bad(self, rule, key, where, detail):
        self.instances.append({"rule": rule, "key": key, "status": "violation", "where": where, "detail": detail})

    def check(self, cond, rule, key, where="", detail="", fail_detail=None):
        if cond:
            self.ok(rule, key, where, detail)
        else:
            self.bad(rule, key, where, fail_detail or detail)
        return cond

    def need(self, rule, n):
        """minimum number of instances of `rule` confirmed by hand on the reference tree;
        fewer evaluated instances = analysis broken (a rule matching nothing passes forever)."""
        self.min_required[rule] = n

    def count(self, what, n=1):
        self.counts[what] = self.counts.get(what, 0) + n

    def sample(self, s):
        if len(self.samples) < 12:
            self.samples.append(s)

    # -- finishing ------------------------------------------------------------------------
    def finish(self, explanation, not_decided, assumptions=None):
        per_rule = {}
        for i in self.instances:
            per_rule[i["rule"]] = per_rule.get(i["rule"], 0) + 1
        known = load_known()
        viol = [i for i in self.instances if i["status"] == "violation"]
        if not [v for v in viol if match_known(known, self.prop, v) is None]:
            # a rule that matches fewer instances than were confirmed by hand is broken, not
            # passing; (violations already found are reported first: they are real either way)
            for rule, n in self.min_required.items():
                if per_rule.get(rule, 0) < n:
                    raise Broken("rule %s matched %d instances, %d were confirmed by hand on the reference tree"
                                 % (rule, per_rule.get(rule, 0), n))
        unlisted = []
        base = os.environ.get("ZCHECK_OUT") or VERIF   # selftest mutants write elsewhere
        outdir = os.path.join(base, "out", self.prop)
        os.makedirs(outdir, exist_ok=True)
        for old in os.listdir(outdir):
            if old.endswith(".json"):
                os.unlink(os.path.join(outdir, old))
        n_known = 0
        for v in viol:
            kf = match_known(known, self.prop, v)
            if kf is not None:
                n_known += 1
                print("KNOWN-FINDING: property=%s %s" % (self.prop, kf["what"]))
                continue
            unlisted.append(v)
        for n, v in enumerate(unlisted):
            path = os.path.join(outdir, "%d.json" % n)
            with open(path, "w") as fh:
                json.dump({"property": self.prop, **v}, fh, indent=1)
            print("  %s [%s] %s\n      at %s\n      %s" % (self.prop, v["rule"], v["key"], v["where"], v["detail"]))
            print("VIOLATION property=%s replay=%s" % (self.prop, path))
        holds = len([i for i in self.instances if i["status"] == "holds"])
        samples = list(self.samples)
        if not samples:
            samples = [{"rule": i["rule"], "instance": i["key"], "where": i["where"], "status": i["status"]}
                       for i in self.instances[:8]]
        nontrivial = len({(i["rule"], i["key"]) for i in self.instances})
        ev = {
            "property_id": self.prop,
            "tier": self.tier,
            "seed": int(os.environ.get("VERIF_SEED", "0") or 0),
            "level": "other",
            "coverage": {
                "explanation": explanation,
                "not_decided": not_decided,
                "obligations": len(self.instances),
                "discharged": holds,
                "evaluations": len(self.instances),
                "distinct_nontrivial": nontrivial,
                "rule": "one evaluation = one rule instance (a named guard, call site, field, table cell, "
                        "path cut) decided on the CFG/AST of /repo's current sources; distinct = distinct "
                        "(rule, instance key)",
                "instances_per_rule": per_rule,
                "min_instances_required": self.min_required,
                "samples": samples,
                "counts": self.counts,
                "analysed": self.info,
                "known_findings_matched": n_known,
                "exhaustive": True,
                "trusted_base": ["clang 14 front end and CFG builder", "tools/zsx extractor",
                                 "zcheck rule engine", "frozen instance tables in zcheck/props"],
            },
            "assumptions": assumptions or [],
            "wall_s": round(time.time() - self.t0, 2),
            "violations": len(unlisted),
        }
        os.makedirs(os.path.join(base, "evidence"), exist_ok=True)
        with open(os.path.join(base, "evidence", "%s.json" % self.prop), "w") as fh:
            json.dump(ev, fh, indent=1)
        print("%s: %d rule instances over %s; %d hold, %d known findings, %d violations (%.1fs)"
              % (self.prop, len(self.instances), ", ".join("%s=%d" % kv for kv in sorted(per_rule.items())),
                 holds, n_known, len(unlisted), time.time() - self.t0))
        return 1 if unlisted else 0


def load_known():
    p = os.path.join(VERIF, "known_findings.json")
    if not os.path.exists(p):
        return []
    with open(p) as fh:
        return json.load(fh).get("findings", [])


def match_known(known, prop, v):
    for k in known:
        if k.get("property") == prop and k.get("rule") == v["rule"] and k.get("key") == v["key"]:
            return k
    return None
