"""C09 — truncation, size lies and checksum damage are reported, never accepted.
Every bullet is an edge cut (T3): with the legitimate edges removed, no success return /
end-of-frame transition is reachable.  See DESIGN.md §4 C09."""
from ..facts import extract, Broken
from ..ir import Program, walk, is_call, strip_casts, const_val
from ..report import Result
from ..rules import guards
from ..rules.guards import Want, mentions, cond_edges

UNKNOWN = -1   # ZSTD_CONTENTSIZE_UNKNOWN == (0ULL - 1), as clang evaluates it in 64 bits


def fcs_unknown_edges(f):
    """edges on which `frameContentSize != ZSTD_CONTENTSIZE_UNKNOWN` is false (no size in the header)."""
    e = cond_edges(f, lambda c: c.get("k") == "bin" and c.get("op") == "!=" and
                   mentions(fields=["frameContentSize"], consts=[UNKNOWN])(c), "false")
    e += cond_edges(f, lambda c: c.get("k") == "bin" and c.get("op") == "==" and
                    mentions(fields=["frameContentSize"], consts=[UNKNOWN])(c), "true")
    return e


def flag_edges(f, field, which):
    return cond_edges(f, lambda c: c.get("k") == "mem" and c["f"] == field, which)


def stage_writes(f, enum_names):
    def pred(x):
        if x.get("k") != "asg":
            return False
        t = strip_casts(x["lhs"])
        if t.get("k") != "mem" or t["f"] != "stage":
            return False
        r = strip_casts(x["rhs"])
        return r.get("k") == "ref" and r.get("n") in enum_names
    return f.find_roots(pred)


def case_blocks(f, names):
    out = []
    for bid, b in f.blocks.items():
        lab = b.get("label")
        if lab and lab.get("k") == "case" and lab.get("n") in names:
            out.append(bid)
    return out


def mt_pledge_control(prog, res):
    """The multithreaded branch of ZSTD_compressStream2 must control the pledged size itself: a frame made of several
    jobs passes through ZSTD_compressEnd only for its last job, whose own pledge is that job's size.  After every call of
    ZSTDMT_compressStream_generic: (too much) no success return is reachable, and (too few) the end-of-frame session
    reset is not reachable, without the passing edge of a comparison of consumedSrcSize with pledgedSrcSizePlusOne —
    except when no size was pledged or the call itself failed; and the failing edges lead to srcSize_wrong."""
    R = "T3.cut"
    f = prog.fn("ZSTD_compressStream2")
    calls = f.call_roots("ZSTDMT_compressStream_generic")
    if not calls:
        if any(d.startswith("-DZSTD_MULTITHREAD") for d in res.info.get("defines", [])) if isinstance(res.info, dict) else False:
            raise Broken("ZSTD_compressStream2 no longer calls ZSTDMT_compressStream_generic in a multithreaded build")
        return
    starts = [(b, i + 1) for b, i in calls]
    region = f.flow(starts)

    def cmp_branches(ops):
        out = []
        for bid, cond, t, fl in f.branches():
            if (bid, len(f.blocks[bid]["el"])) not in region:
                continue
            c = strip_casts(f.resolve_x(cond))
            neg = False
            while c is not None and c.get("k") == "un" and c.get("op") == "!":
                c = strip_casts(f.resolve_x(c["e"])); neg = not neg
            hit = None
            for y in f.walk_deep(c):
                if y.get("k") == "bin" and y.get("op") in ops:
                    fs = {z.get("f") for z in f.walk_deep(y) if z.get("k") == "mem"}
                    if {"consumedSrcSize", "pledgedSrcSizePlusOne"} <= fs:
                        hit = y
            if hit is None:
                continue
            # the branch is taken (towards the failure) when the comparison holds, unless negated
            out.append((bid, fl if not neg else t, t if not neg else fl, hit))
        return out

    nopledge = cond_edges(f, lambda x: x.get("k") == "bin" and x["op"] == "!=" and
                          mentions(fields=["pledgedSrcSizePlusOne"], consts=[0])(x), "false")
    nopledge += cond_edges(f, lambda x: x.get("k") == "bin" and x["op"] == "==" and
                           mentions(fields=["pledgedSrcSizePlusOne"], consts=[0])(x), "true")
    nopledge = [e for e in nopledge if (e[0], len(f.blocks[e[0]]["el"])) in region]
    failed = cond_edges(f, lambda x: x.get("k") == "call" and x.get("c") in ("ERR_isError", "ZSTD_isError"), "true")
    failed = [e for e in failed if (e[0], len(f.blocks[e[0]]["el"])) in region]
    # tests of the same conjunction written inline (`endOp == ZSTD_e_end && flushMin == 0 && consumed+1 != pledged`): when the
    # directive is not `end`, or the flush is not complete, the frame does not end in this call - those edges cannot lead to the
    # end-of-frame reset of this iteration and are ways around the "too few" comparison
    res_names = {strip_casts(x["lhs"]).get("n") for b, i, x in f.events(lambda y: y.get("k") == "asg") if any(is_call(z, "ZSTDMT_compressStream_generic") for z in walk(x["rhs"]))}
    res_names |= {v.get("n") for b, i, x in f.events(lambda y: y.get("k") == "decl") for v in x.get("vars", []) if v.get("init") is not None and any(is_call(z, "ZSTDMT_compressStream_generic") for z in walk(v["init"]))}
    notend = guards.rel_edges(f, lambda a_: True, "==", lambda b_: strip_casts(b_).get("n") == "ZSTD_e_end", truth=False)
    notdone = guards.rel_edges(f, lambda a_: strip_casts(a_).get("k") == "ref" and strip_casts(a_).get("n") in res_names, "==", lambda b_: const_val(strip_casts(b_)) == 0, truth=False)
    notyet = [e for e in notend + notdone if (e[0], len(f.blocks[e[0]]["el"])) in region]
    much = cmp_branches((">", "<", ">=", "<="))
    few = cmp_branches(("!=", "=="))
    # a `!=` inside a `&&` chain whose value is stored: the branch found is the one on the stored value; an `==` form passes on its true edge
    few_pass = [(b, p if h["op"] == "!=" else q) for b, p, q, h in few]
    few_fail = [(b, q if h["op"] == "!=" else p) for b, p, q, h in few]
    much_pass = [(b, p) for b, p, q, h in much]
    much_fail = [(b, q) for b, p, q, h in much]
    succ = [t for t in guards.success_nodes(f) if t in region]
    from ..ir import err_name
    errs = [t for t in f.find_roots(lambda x: bool(x.get("err")) and err_name(x) == "srcSize_wrong") if t in region]
    ok = bool(much) and bool(succ) and f.must_pass(via_roots=errs, via_edges=much_pass + nopledge + failed, starts=starts, targets=succ)
    res.check(ok, R, "compressStream2:mt-not-more-than-pledged", f.loc,
              "after ZSTDMT_compressStream_generic no success return without the passing edge of `consumedSrcSize+1 > pledgedSrcSizePlusOne` (%d comparison(s))" % len(much),
              "the multithreaded branch can return success without comparing the bytes consumed with the pledged size "
              "(more input than pledged is accepted and the frame header lies)")
    ends = [t for t in f.call_roots("ZSTD_CCtx_reset") if t in region]
    ok = bool(few) and bool(ends) and f.must_pass(via_roots=errs, via_edges=few_pass + nopledge + failed + notyet, starts=starts, targets=ends)
    res.check(ok, R, "compressStream2:mt-exactly-pledged-at-end", f.loc,
              "the end-of-frame session reset is reached only through the passing edge of `consumedSrcSize+1 != pledgedSrcSizePlusOne` (%d comparison(s))" % len(few),
              "the multithreaded branch can complete a frame without comparing the bytes consumed with the pledged size "
              "(a frame ending with fewer bytes than pledged is accepted)")
    # the failing edges end in srcSize_wrong: no success return from them without executing an ERROR(srcSize_wrong) root
    fe = much_fail + few_fail
    ok = bool(fe) and bool(errs) and f.must_pass(via_roots=errs, starts=[(s, 0) for b, s in fe], targets=succ)
    res.check(ok, R, "compressStream2:mt-pledge-failure-is-srcSize_wrong", f.loc, "both failing edges produce srcSize_wrong",
              "a failed pledged-size comparison in the multithreaded branch no longer produces srcSize_wrong")


def stream_session_reset(prog, res):
    """T13: the streaming decoder keeps positions across calls (bytes of the current item already buffered, flushed and
    produced offsets of the output buffer, loaded header size).  A session can be abandoned at any point (truncated
    stream, then ZSTD_DCtx_reset / ZSTD_initDStream); the next stream starts in the zdss_init stage, which must zero EVERY
    such position: the fields ZSTD_decompressStream advances with += / -= (derived from its own code).  A stale position
    makes `expected == inPos` true on the first item of the next frame: a truncated frame is reported complete."""
    R = "T13.dstream-session-reset"
    f = prog.fn("ZSTD_decompressStream")
    acc = {}
    for b, i, x in f.events(lambda y: y.get("k") == "asg" and y.get("op") in ("+=", "-=")):
        l = strip_casts(x["lhs"])
        if l.get("k") == "mem" and l.get("rec") == "ZSTD_DCtx_s":
            acc.setdefault(l["f"], x.get("l"))
    init = case_blocks(f, {"zdss_init"})
    nxt = set(case_blocks(f, {"zdss_loadHeader"}))
    res.check(len(init) == 1 and acc, R, "anchors", f.loc, "positions advanced by the streaming decoder: %s" % sorted(acc), "zdss_init case or accumulators not found")
    if len(init) != 1:
        return
    region = {n[0] for n in f.flow([(init[0], 0)], cut_blocks=nxt)}
    zeroed = set()
    for b in region:
        for r in f.blocks[b]["el"]:
            for x in walk(r):
                if x.get("k") == "asg" and x.get("op") == "=":
                    l = strip_casts(x["lhs"])
                    if l.get("k") == "mem" and l.get("rec") == "ZSTD_DCtx_s":
                        zeroed.add(l["f"])
    for fld in sorted(acc):
        res.check(fld in zeroed, R, "zdss_init:" + fld, f.loc, "zeroed when a stream starts",
                  "zds->%s is advanced by ZSTD_decompressStream (line %s) but not reset in the zdss_init stage: after an abandoned stream and a "
                  "session reset the stale position is taken for progress on the next frame (a truncated frame can be reported complete, or the "
                  "load stage writes past the input buffer)" % (fld, acc[fld]))
    res.need(R, 3)


def legacy_checksum_siblings(prog, res):
    """T9 (siblings): of the legacy formats only v0.7 carries a frame checksum.  Every legacy decoder function that feeds decoded
    bytes into the frame hash (XXH64_update) also compares the digest, with a checksum_wrong exit; and when the feeding sits in
    the function's own block loop (the one-shot decoder), no path leads from it to a non-error return without passing the
    digest or the edge on which the frame has no checksum."""
    R = "T9.legacy-accumulate-implies-verify"
    n = 0
    for f in prog.all_functions():
        if not f.file.startswith("lib/legacy/"):
            continue
        upd = f.call_roots(("XXH64_update", "ZSTD_XXH64_update"))
        if not upd:
            continue
        n += 1
        dig = f.call_roots(("XXH64_digest", "ZSTD_XXH64_digest"))
        cmp_ = [g for g in guards.guard_sites(f) if "checksum_wrong" in g.codes and g.op == "!="]
        res.check(bool(dig) and bool(cmp_), R, f.name + ":digest-compared", f.loc, "the digest is compared and a mismatch returns checksum_wrong",
                  "%s feeds the frame hash and never compares it: a damaged v0.7 frame is decoded with success (altered bytes returned)" % f.name)
        looped = [t for t in upd if t in f.flow([(t[0], t[1] + 1)])]
        if looped:
            noflag = flag_edges(f, "checksumFlag", "false")
            okret = [(b, i) for b, i, r in f.returns() if r.get("e") is not None and strip_casts(r["e"]).get("k") == "bin" and strip_casts(r["e"]).get("op") == "-"
                     and not any("ZSTD_error_" in (y.get("n") or "") for y in walk(r["e"]))]
            # the loop is left from its end-of-frame arm (`case bt_end`); starting there keeps the infeasible path
            # "some other case, then `blockType == bt_end`" out of the question
            ends = case_blocks(f, ("bt_end",))
            ok = bool(dig) and bool(okret) and bool(ends) and f.must_pass(via_roots=dig, via_edges=noflag, starts=[(b, 0) for b in ends], targets=okret)
            res.check(ok, R, f.name + ":loop-ends-through-the-digest", f.loc, "the end-of-frame arm reaches the size return only through the digest (or without checksum)",
                      "%s: a path from the end-of-frame arm to the success return skips the digest" % f.name)
            n += 1
    res.need(R, 3)


def legacy_stream_content_size(prog, res):
    """T3 (cut): a legacy frame streamed through ZSTD_decompressStream ends with the same verdict on its content size as the one-shot
    path gives (ZSTD_decompressMultiFrame compares for legacy frames too).  Every call of ZSTD_decompressLegacyStream in the
    streaming decoder goes through the one wrapper that counts the output, and that wrapper returns a value that is not an error only
    past the comparison of the count with the header's size (or on the edges where the frame is not finished / the size unknown)."""
    R = "T3.cut"
    users = sorted({f.name for f in prog.fns_in("decompress/zstd_decompress.c") if f.call_roots("ZSTD_decompressLegacyStream")})
    if not users and not prog.has_fn("ZSTD_decompressLegacyStream_counted"):
        return
    res.check(users == ["ZSTD_decompressLegacyStream_counted"], R, "legacy-stream:one-counting-wrapper", "lib/decompress/zstd_decompress.c",
              "ZSTD_decompressLegacyStream is only called by its counting wrapper", "ZSTD_decompressLegacyStream is called directly by %s: what those calls produce is not counted" % users)
    w = prog.fn("ZSTD_decompressLegacyStream_counted")
    gs = [g for g in guards.guard_sites(w) if "corruption_detected" in g.codes]
    ok = bool(gs) and any({"f:legacyDecodedSize", "f:legacyExpectedSize"} <= (g.L | g.R) or ("f:legacyDecodedSize" in (g.L | g.R)) for g in gs)
    acc = w.find_roots(lambda x: x.get("k") == "asg" and x.get("op") == "+=" and strip_casts(x["lhs"]).get("f") == "legacyDecodedSize")
    res.check(ok and bool(acc) and w.must_pass(via_roots=acc, targets=guards.success_nodes(w)), R, "legacy-stream:content-size-at-frame-end", w.loc,
              "the output of every legacy streaming call is counted and compared with the header's content size when the frame ends",
              "the legacy streaming path no longer verifies the regenerated size: a v0.7 frame whose header announces 41 bytes for 40 bytes of content is decoded with "
              "success by ZSTD_decompressStream, where ZSTD_decompress answers corruption_detected")


def run(tier):
    res = Result("C09", tier)
    tus, info = extract(["decompress", "compress", "legacy"])
    prog = Program(tus)
    res.info = info
    legacy_checksum_siblings(prog, res)
    legacy_stream_content_size(prog, res)
    R = "T3.cut"

    # ---- ZSTD_decompressFrame -----------------------------------------------------------
    f = prog.fn("ZSTD_decompressFrame")
    sites = guards.guard_sites(f)
    guards.require(f, res, R, "decompressFrame:content-size",
                   Want("corruption_detected", "!=", {"p:1"}, {"f:frameContentSize"}), "success",
                   alt_edges=fcs_unknown_edges(f), sites=sites,
                   why="(a frame whose regenerated size differs from its header would be accepted)")
    noflag = flag_edges(f, "checksumFlag", "false")
    guards.require(f, res, R, "decompressFrame:checksum-present",
                   Want("checksum_wrong", "<", {"p:4"}, {"k:4"}), "success", alt_edges=noflag, sites=sites,
                   why="(a frame truncated before its checksum would be accepted)")
    guards.require(f, res, R, "decompressFrame:checksum-compare",
                   Want("checksum_wrong", "!=", {"c:MEM_readLE32"}, {"m:XXH64_digest", "f:xxhState"}), "success",
                   alt_edges=noflag + flag_edges(f, "forceIgnoreChecksum", "true"), sites=sites,
                   why="(a damaged checksum or damaged content would be accepted)")
    res.check(len(noflag) == 1, R, "decompressFrame:checksum-flag-test", f.loc, "one test of fParams.checksumFlag",
              "checksumFlag tested %d times" % len(noflag))
    dec = f.call_roots(("ZSTD_decompressBlock_internal", "ZSTD_copyRawBlock", "ZSTD_setRleBlock"))
    res.check(len(dec) == 3, R, "decompressFrame:block-decoders", f.loc, "3 block decoders", "block decoder calls: %d" % len(dec))
    guards.require(f, res, R, "decompressFrame:block-within-input",
                   Want("srcSize_wrong", ">", {"c:ZSTD_getcBlockSize"}, {"p:4"}), dec, sites=sites,
                   why="(a block running past the supplied input would be decoded)")
    guards.require(f, res, R, "decompressFrame:min-size",
                   Want("srcSize_wrong", "<", {"p:4"}, {"m:ZSTD_FRAMEHEADERSIZE_MIN"}), "success", sites=sites)
    guards.require(f, res, R, "decompressFrame:header-within-input",
                   Want("srcSize_wrong", "<", {"p:4"}, {"c:ZSTD_frameHeaderSize_internal"}), "success", sites=sites)
    upd = f.find_roots(lambda x: x.get("k") == "call" and "XXH64_update" in (x.get("c") or "") and
                       "xxhState" in {y["f"] for y in walk(x["a"][0]) if y.get("k") == "mem"})
    ok = bool(upd) and bool(dec) and f.must_pass(via_roots=upd, via_edges=flag_edges(f, "validateChecksum", "false"),
                                                  starts=[(b, i + 1) for b, i in dec],
                                                  targets=guards.success_nodes(f))
    res.check(ok, R, "decompressFrame:checksum-covers-every-block", f.loc,
              "every decoded block passes XXH64_update(&dctx->xxhState, ...) under validateChecksum",
              "a decoded block can reach the end of the frame without entering the checksum")

    # ---- ZSTD_decompressContinue (buffer-less / streaming core) ---------------------------
    g = prog.fn("ZSTD_decompressContinue")
    gs = guards.guard_sites(g)
    guards.require(g, res, R, "decompressContinue:exact-input",
                   Want("srcSize_wrong", "!=", {"p:4"}, {"c:ZSTD_nextSrcSizeToDecompressWithInputSize"}), "success", sites=gs)
    starts = [(b, 0) for b in case_blocks(g, {"ZSTDds_decodeBlockHeader", "ZSTDds_decompressLastBlock", "ZSTDds_decompressBlock"})]
    res.check(len(starts) == 3, R, "decompressContinue:block-stages", g.loc, "3 block-level stage cases",
              "block-level cases found: %d" % len(starts))
    eof = stage_writes(g, {"ZSTDds_checkChecksum", "ZSTDds_getFrameHeaderSize"})
    reach = g.flow(starts)
    eof = [t for t in eof if t in reach]
    res.check(len(eof) >= 4, R, "decompressContinue:end-of-frame-transitions", g.loc, "%d end-of-frame transitions" % len(eof),
              "end-of-frame transitions reachable from the block stages: %d" % len(eof))
    guards.require(g, res, R, "decompressContinue:content-size-at-every-end-of-frame",
                   Want("corruption_detected", "!=", {"f:decodedSize"}, {"f:frameContentSize"}), eof,
                   alt_edges=fcs_unknown_edges(g), sites=gs, starts=starts,
                   why="(some way of ending a frame — e.g. an empty last block — skips the content-size comparison)")
    ck = [(b, 0) for b in case_blocks(g, {"ZSTDds_checkChecksum"})]
    after_ck = stage_writes(g, {"ZSTDds_getFrameHeaderSize"})
    after_ck = [t for t in after_ck if t in g.flow(ck)]
    guards.require(g, res, R, "decompressContinue:checksum-compare",
                   Want("checksum_wrong", "!=", {"c:MEM_readLE32"}, {"m:XXH64_digest", "f:xxhState"}), after_ck,
                   alt_edges=flag_edges(g, "validateChecksum", "false"), sites=gs, starts=ck)
    dec2 = g.call_roots(("ZSTD_decompressBlock_internal", "ZSTD_copyRawBlock", "ZSTD_setRleBlock"))
    upd2 = g.find_roots(lambda x: x.get("k") == "call" and "XXH64_update" in (x.get("c") or ""))
    ok = bool(upd2) and len(dec2) == 3 and g.must_pass(via_roots=upd2, via_edges=flag_edges(g, "validateChecksum", "false"),
                                                       starts=[(b, i + 1) for b, i in dec2], targets=guards.success_nodes(g))
    res.check(ok, R, "decompressContinue:checksum-covers-every-block", g.loc, "every decoded block enters the checksum",
              "a decoded block can be returned without entering the checksum")
    # the streaming wrapper checks blocks against blockSizeMax before asking for them
    guards.require(g, res, R, "decompressContinue:block-size-bounded",
                   Want("corruption_detected", ">", {"c:ZSTD_getcBlockSize"}, {"f:blockSizeMax"}),
                   g.find_roots(lambda x: x.get("k") == "asg" and strip_casts(x["lhs"]).get("f") == "expected" and
                                "c:ZSTD_getcBlockSize" in g.anchors(x["rhs"])),
                   sites=gs)

    # ---- ZSTD_decodeFrameHeader: checksum validation armed from the header -----------------
    h = prog.fn("ZSTD_decodeFrameHeader")
    wr = h.find_roots(lambda x: x.get("k") == "asg" and strip_casts(x["lhs"]).get("f") == "validateChecksum")
    ok = False
    for b, i in wr:
        r = h.blocks[b]["el"][i]
        for x in walk(r):
            if x.get("k") == "asg" and strip_casts(x["lhs"]).get("f") == "validateChecksum":
                names = {y["f"] for y in walk(x["rhs"]) if y.get("k") == "mem"}
                # rhs may reference the other operand evaluated elsewhere (&&): use anchors
                anc = h.anchors(x["rhs"])
                ok = ("f:checksumFlag" in anc and "f:forceIgnoreChecksum" in anc)
    res.check(ok and len(wr) == 1, R, "decodeFrameHeader:validateChecksum-provenance", h.loc,
              "validateChecksum = checksumFlag && !forceIgnoreChecksum",
              "validateChecksum no longer derives from the header's checksumFlag and forceIgnoreChecksum")
    rs = h.find_roots(lambda x: x.get("k") == "call" and "XXH64_reset" in (x.get("c") or ""))
    res.check(bool(rs) and h.must_pass(via_roots=rs, via_edges=flag_edges(h, "validateChecksum", "false"),
                                       targets=guards.success_nodes(h)), R, "decodeFrameHeader:checksum-reset", h.loc,
              "XXH64_reset precedes every successful return when validating", "a frame can start with a stale checksum state")

    # ---- ZSTD_decompressMultiFrame ----------------------------------------------------------
    m = prog.fn("ZSTD_decompressMultiFrame")
    ms = guards.guard_sites(m)
    guards.require(m, res, R, "decompressMultiFrame:trailing-bytes",
                   Want("srcSize_wrong", "nonzero", {"p:4"}), "success", sites=ms,
                   why="(trailing bytes that are not a frame would be ignored)")
    # prefix_unknown after >= 1 frame is converted into srcSize_wrong
    conv = [gg for gg in ms if "srcSize_wrong" in gg.codes and gg.op == "==" and ("k:1" in gg.L | gg.R)]
    res.check(len(conv) == 1, R, "decompressMultiFrame:garbage-after-frame", m.loc,
              "unknown magic after at least one decoded frame is reported as srcSize_wrong",
              "conversion of prefix_unknown after a decoded frame is gone")

    # ---- ZSTD_findFrameSizeInfo ----------------------------------------------------------------
    s = prog.fn("ZSTD_findFrameSizeInfo")

    def fsi_failure(ff, b, i, r):
        return any(is_call(x, "ZSTD_errorFrameSizeInfo") for x in walk(r))
    ss = guards.guard_sites(s, fsi_failure)
    # error codes are inside the helper call's argument
    def codes_of(gsite):
        c = set()
        for bb in s.reachable([gsite.fail]):
            for r in s.blocks[bb]["el"]:
                for x in walk(r):
                    if x.get("err"):
                        from ..ir import err_name
                        c.add(err_name(x))
        return c
    for gsite in ss:
        gsite.codes = codes_of(gsite)
    guards.require(s, res, R, "findFrameSizeInfo:block-within-input",
                   Want("srcSize_wrong", ">", {"g:ZSTD_blockHeaderSize", "c:ZSTD_getcBlockSize"}, {"p:1"}), "success",
                   sites=ss, extra_failure=fsi_failure,
                   alt_roots=s.call_roots(("readSkippableFrameSize", "ZSTD_findFrameSizeInfoLegacy")))
    guards.require(s, res, R, "findFrameSizeInfo:checksum-within-input",
                   Want("srcSize_wrong", "<", {"p:1"}, {"k:4"}), "success", sites=ss, extra_failure=fsi_failure,
                   alt_edges=flag_edges(s, "checksumFlag", "false"),
                   alt_roots=s.call_roots(("readSkippableFrameSize", "ZSTD_findFrameSizeInfoLegacy")))

    # ---- compression: pledged source size ---------------------------------------------------------
    c = prog.fn("ZSTD_compressContinue_internal")
    cs = guards.guard_sites(c)
    nopledge = cond_edges(c, lambda x: x.get("k") == "bin" and x["op"] == "!=" and
                          mentions(fields=["pledgedSrcSizePlusOne"], consts=[0])(x), "false")
    guards.require(c, res, R, "compressContinue:not-more-than-pledged",
                   Want("srcSize_wrong", ">", {"f:consumedSrcSize", "k:1"}, {"f:pledgedSrcSizePlusOne"}),
                   [t for t in guards.success_nodes(c) if t in c.flow([(b, i + 1) for b, i in c.call_roots(
                       ("ZSTD_compress_frameChunk", "ZSTD_compressBlock_internal"))])],
                   alt_edges=nopledge, sites=cs, starts=[(b, i + 1) for b, i in c.call_roots(
                       ("ZSTD_compress_frameChunk", "ZSTD_compressBlock_internal"))],
                   why="(more input than pledged would be accepted)")
    e = prog.fn("ZSTD_compressEnd_public")
    es = guards.guard_sites(e)
    nopledge2 = cond_edges(e, lambda x: x.get("k") == "bin" and x["op"] == "!=" and
                           mentions(fields=["pledgedSrcSizePlusOne"], consts=[0])(x), "false")
    guards.require(e, res, R, "compressEnd:exactly-pledged",
                   Want("srcSize_wrong", "!=", {"f:pledgedSrcSizePlusOne"}, {"f:consumedSrcSize", "k:1"}), "success",
                   alt_edges=nopledge2, sites=es, why="(a frame could end with fewer bytes than pledged)")
    res.check(len(nopledge) == 1 and len(nopledge2) == 1, R, "pledge-known-tests", c.loc, "pledged-size-known tests present",
              "`pledgedSrcSizePlusOne != 0` tests: %d/%d" % (len(nopledge), len(nopledge2)))
    mt_pledge_control(prog, res)
    stream_session_reset(prog, res)
    # the MT path ends frames through the same function (worker-side)
    if prog.has_fn("ZSTDMT_compressionJob"):
        j = prog.fn("ZSTDMT_compressionJob")
        res.check("ZSTD_compressEnd_public" in j.callees(), "T10.gate", "mt-frame-end-through-compressEnd", j.loc,
                  "MT jobs end the frame through ZSTD_compressEnd_public (same pledged-size test)",
                  "MT worker no longer ends frames through ZSTD_compressEnd_public")
    res.need(R, 22)
    return res.finish(
        explanation="Edge-cut (must-pass-through) rules over the CFG of the frame decoders, the frame inspectors and "
                    "the compression end-of-frame functions: no success return / end-of-frame stage transition is "
                    "reachable from the entry without taking the passing edge of the named comparison (content "
                    "size, checksum presence and value, truncation tests, trailing bytes, pledged size), except "
                    "through the edges on which the corresponding header field is absent.",
        not_decided="that the runtime quantities compared are the right ones (e.g. that op-ostart is the produced "
                    "size); the rule pins the fields, parameters and calls compared, not their values",
        assumptions=["guards are identified by error code, relational operator and global-name anchors of the operands"])
