"""C17 — sequence-level compression: valid parses round-trip, invalid ones are refused.
Static clauses: with validation enabled every stored sequence passed a checked
ZSTD_validateSequence whose position argument is the amount decoded at the START of the
match (T3 + provenance); the validator has both structural tests (T3); stores are bounded by
the sequence-store capacity and, with explicit delimiters, by the block size agreed with the
source (T8); the block size is determined and checked before the copier runs (T3 ordering);
the two copiers agree on their features (T9); the external producer's result is post-processed,
bounded and either falls back or fails as configured (T3); extraction writes inside the
caller's array (T8).  Not decided: that a valid parse round-trips (value arithmetic of the
delimiter-free splitter — see seeded/C17-noDelim-split-remainder, recorded as missed)."""
from ..facts import extract, Broken
from ..ir import Program, walk, is_call, strip_casts, const_val
from ..report import Result
from ..rules import guards, reset
from ..rules.guards import Want, cond_edges
from . import t4_common

COPIERS = ("ZSTD_copySequencesToSeqStoreExplicitBlockDelim", "ZSTD_copySequencesToSeqStoreNoBlockDelim")


def copier_rules(prog, res):
    R = "T3.validated-before-stored"
    feats = {}
    for name in COPIERS:
        f = prog.fn(name)
        store = [(b, i, c) for b, i, c in f.calls("ZSTD_storeSeq")]
        val = [(b, i, c) for b, i, c in f.calls("ZSTD_validateSequence")]
        res.check(len(store) == 1 and len(val) == 1, R, name + ":anchors", f.loc, "one store site, one validation site", "store/validation sites changed (%d/%d)" % (len(store), len(val)))
        if len(store) != 1 or len(val) != 1:
            continue
        sb, si, sc = store[0]
        vb, vi, vc = val[0]
        LL = strip_casts(sc["a"][1]).get("n")
        ML = strip_casts(sc["a"][5]).get("n")
        OFF = strip_casts(sc["a"][4]).get("n")
        # (1) under validateSequences the store is reached only through the checked validation
        on = set(cond_edges(f, lambda c: c.get("k") == "mem" and c.get("f") == "validateSequences", "false"))
        gs = [g for g in guards.guard_sites(f) if g.cond is not None and any(is_call(y, "ZSTD_validateSequence") for y in f.walk_resolved(g.cond))
              or (g.cond is not None and "c:ZSTD_validateSequence" in (g.L | g.R))]
        ok = bool(on) and bool(gs) and f.must_pass(via_edges=on | {(g.bid, g.ok) for g in gs}, targets=[(sb, si)])
        res.check(ok, R, name + ":store-needs-checked-validation", "%s:%s" % (f.file, sc.get("l")), "with validateSequences every ZSTD_storeSeq follows a successful ZSTD_validateSequence",
                  "a sequence can be stored without (successful) validation although validateSequences is set")
        # (2) the validated values are the stored ones
        a = vc["a"]
        # the stored offBase may have been folded into a repcode; the validated value is the caller's offset it derives from
        # (an earlier version of this rule demanded the very same variable, which the repaired code no longer satisfies)
        offsrc = {x for x in f.anchors(a[0], depth=3) if x.startswith("f:offset")}
        same = bool(offsrc) and offsrc <= f.anchors(sc["a"][4], depth=3) and strip_casts(a[1]).get("n") == ML
        res.check(same, R, name + ":validates-what-it-stores", "%s:%s" % (f.file, vc.get("l")), "the offset validated is the one the stored offBase derives from; matchLength validated is the one stored", "validation looks at other values than the ones stored")
        an = [f.anchors(x, depth=1) for x in a]
        ok = "f:minMatch" in an[2] and "f:posInSrc" in an[3] and "f:windowLog" in an[4] and ("f:dictContentSize" in f.anchors(a[5], depth=3) or "f:dictSize" in f.anchors(a[5], depth=3))
        res.check(ok, R, name + ":validation-arguments", "%s:%s" % (f.file, vc.get("l")), "minMatch, posInSrc, windowLog and the dictionary size are passed in their positions", "validation arguments changed")
        # (3) position = decoded amount at the start of the match: before the call posInSrc advanced by the literals only; the match
        # length is added after the validation and before the next sequence
        adv = [(b, i, x) for b, i, x in f.events(lambda y: y.get("k") == "asg" and y.get("op") == "+=") if strip_casts(x["lhs"]).get("f") == "posInSrc"]
        before = [(b, i, x) for b, i, x in adv if f.must_pass(via_roots=[(b, i)], targets=[(vb, vi)]) and f.must_pass(via_edges=on, targets=[(b, i)]) is not None
                  and (b, i) != (vb, vi) and (vb, vi) in f.flow([(b, i + 1)])]
        before = [t for t in before if not f.must_pass(via_roots=[(vb, vi)], targets=[(t[0], t[1])])]
        names_before = set()
        for b, i, x in before:
            names_before |= {y.get("n") for y in walk(x["rhs"]) if y.get("k") == "ref"}
        after = [(b, i, x) for b, i, x in adv if f.must_pass(via_roots=[(vb, vi)], targets=[(b, i)]) and any(y.get("n") == ML for y in walk(x["rhs"]))]
        ok = bool(before) and LL in names_before and ML not in names_before and bool(after) and f.must_pass(via_roots=[(b, i) for b, i, _ in after] , via_edges=on, targets=[(sb, si)])
        res.check(ok, R, name + ":position-is-match-start", "%s:%s" % (f.file, vc.get("l")),
                  "before validation posInSrc advances by the literal length only; the match length is added afterwards",
                  "the position handed to ZSTD_validateSequence already includes the match itself: an offset may exceed the history available at the start of its match by up to matchLength and still be accepted")
        # (4) capacity
        w = [g for g in guards.guard_sites(f) if "externalSequences_invalid" in g.codes and "f:maxNbSeq" in (g.L | g.R)]
        ok = bool(w) and f.must_pass(via_edges={(g.bid, g.ok) for g in w}, targets=[(sb, si)]) and any(g.op in (">=", "<=") for g in w)
        res.check(ok, "T8.sequence-store-capacity", name, "%s:%s" % (f.file, sc.get("l")), "stores are cut by `idx - start >= maxNbSeq`", "a sequence can be stored beyond the sequence store's capacity")
        # features for the sibling comparison
        rep_src = any(is_call(c, ("memcpy", "__builtin_memcpy")) and "f:prevCBlock" in f.anchors(c["a"][1], depth=0) and "f:rep" in f.anchors(c["a"][1], depth=0) for b, i, c in f.calls(("memcpy", "__builtin_memcpy")))
        rep_dst = any("f:nextCBlock" in f.anchors(c["a"][0], depth=0) and "f:rep" in f.anchors(c["a"][0], depth=0) for b, i, c in f.calls(("memcpy", "__builtin_memcpy")))
        dict_src = {y["f"] for b, i, x in f.events(lambda y: y.get("k") == "asg") if strip_casts(x["lhs"]).get("k") == "ref" for y in walk(x["rhs"]) if y.get("k") == "mem" and y["f"] in ("dictContentSize", "dictSize")}
        feats[name] = {"validation": len(val), "capacity-guard": bool(w), "repcodes-from-prevCBlock": rep_src, "repcodes-to-nextCBlock": rep_dst, "dict-size-sources": tuple(sorted(dict_src)),
                       "repcode-search": bool(f.calls("ZSTD_finalizeOffBase")) and bool(f.calls("ZSTD_updateRep"))}
    res.need(R, 8)
    res.need("T8.sequence-store-capacity", 2)
    if len(feats) == 2:
        a, b = feats[COPIERS[0]], feats[COPIERS[1]]
        for k in sorted(a):
            res.check(a[k] == b[k] and a[k] not in (False, 0, ()), "T9.copiers-agree", k, "lib/compress/zstd_compress.c", "both copiers: %s" % (a[k],), "the two sequence copiers disagree on %s: %s vs %s" % (k, a[k], b[k]))
    res.need("T9.copiers-agree", 6)
    # explicit-delimiter copier: success requires the block to end exactly where the delimiter says
    f = prog.fn(COPIERS[0])
    g = [x for x in guards.guard_sites(f) if "externalSequences_invalid" in x.codes and x.op == "!=" and x.cond is not None and all(strip_casts(x.cond[s]).get("k") == "ref" for s in ("lhs", "rhs"))]
    res.check(bool(g) and f.must_pass(via_edges={(x.bid, x.ok) for x in g}, targets=reset.success_returns(f)), "T8.block-agrees-with-source", "explicit:ip==iend", f.loc,
              "success only when the sequences consumed exactly the block", "block lengths disagreeing with the source can be accepted")


def validator_rules(prog, res):
    R = "T3.validator"
    f = prog.fn("ZSTD_validateSequence")
    sites = guards.guard_sites(f)
    # orientation-free: offset (param 0) above a bound fails; match length (param 1) below a bound fails
    off = [g for g in sites if "externalSequences_invalid" in g.codes and ((g.op == ">" and "p:0" in g.L) or (g.op == "<" and "p:0" in g.R))]
    ml = [g for g in sites if "externalSequences_invalid" in g.codes and ((g.op == "<" and "p:1" in g.L) or (g.op == ">" and "p:1" in g.R))]
    succ = reset.success_returns(f)
    res.check(bool(off) and f.must_pass(via_edges={(g.bid, g.ok) for g in off}, targets=succ), R, "offset-bound", f.loc, "offBase > OFFSET_TO_OFFBASE(bound) is refused", "offset test missing")
    res.check(bool(ml) and f.must_pass(via_edges={(g.bid, g.ok) for g in ml}, targets=succ), R, "match-length-bound", f.loc, "matchLength below the minimum is refused", "match length test missing")
    # the offset bound: window once position exceeds it, else position + dictionary
    bd = None
    for n, ds in f.local_defs().items():
        for d in ds:
            dd = strip_casts(d) if d is not None else None
            if dd is not None and dd.get("k") == "cond":
                an = f.anchors(dd, depth=2)
                if {"p:3", "p:5", "p:4"} <= an:
                    bd = dd
    ok = bd is not None
    if ok:
        c = strip_casts(f.resolve_x(bd["c"]))
        ok = c is not None and c.get("k") == "bin" and c["op"] == ">" and "p:3" in f.anchors(c["lhs"], depth=0) and "p:4" in f.anchors(c["rhs"], depth=2)
        t, e = strip_casts(f.resolve_x(bd["t"])), strip_casts(f.resolve_x(bd["f"]))
        ok = ok and "p:4" in f.anchors(t, depth=2) and {"p:3", "p:5"} <= f.anchors(e, depth=1)
    res.check(ok, R, "bound=window-or-position+dictionary", f.loc, "bound = posInSrc > windowSize ? windowSize : posInSrc + dictSize", "offset bound expression changed")
    mn = [d for n, ds in f.local_defs().items() for d in ds if d is not None and strip_casts(d).get("k") == "cond" and {const_val(f.resolve_x(strip_casts(d)["t"])), const_val(f.resolve_x(strip_casts(d)["f"]))} == {3, 4}]
    res.check(len(mn) == 1, R, "minimum=3-or-4", f.loc, "minimum match length is 3 (minMatch 3 or external producer) or 4", "match length minimum changed")
    res.need(R, 4)


def ordering_rules(prog, res):
    R = "T3.block-size-before-copy"
    f = prog.fn("ZSTD_compressSequences_internal")
    det = f.call_roots("determine_blockSize")
    cop = []
    for b, i, r in f.roots():
        for y in walk(r):
            if y.get("k") == "call" and y.get("c") is None:
                fn = strip_casts(y.get("fn"))
                d = f.single_def(fn["n"]) if fn is not None and fn.get("k") == "ref" and fn.get("rk") in ("l", "sl") else None
                if d is not None and any(is_call(z, "ZSTD_selectSequenceCopier") for z in walk(d)):
                    cop.append((b, i))
    ent = f.call_roots("ZSTD_entropyCompressSeqStore")
    gs = [g for g in guards.guard_sites(f) if "<forwarded>" in g.codes]
    det_checked = [g for g in gs if g.cond is not None and "c:determine_blockSize" in f.anchors(g.cond, depth=2)]
    ok = len(det) == 1 and len(cop) == 1 and bool(det_checked) and f.must_pass(via_edges={(g.bid, g.ok) for g in det_checked}, targets=cop)
    res.check(ok, R, "determine-then-copy", f.loc, "the block size is determined and its error checked before the copier runs (keeps the copier's reads inside the sequence array)",
              "the copier can run with an undetermined or erroneous block size")
    cop_checked = [g for g in gs if g.cond is not None and not ("c:determine_blockSize" in f.anchors(g.cond, depth=2)) and not any(is_call(y) and y.get("c") for y in f.walk_resolved(g.cond) if y.get("c") not in (None, "ERR_isError", "ZSTD_isError"))]
    ok = bool(ent) and bool(cop) and any(f.must_pass(via_edges={(g.bid, g.ok)}, targets=ent) and (g.bid, 0) in f.flow([(cop[0][0], cop[0][1] + 1)]) for g in cop_checked)
    res.check(ok, R, "copy-checked-before-entropy", f.loc, "the copier's result is checked before the block is entropy-coded", "entropy stage can run after a failed copy")
    rs = f.call_roots("ZSTD_resetSeqStore")
    res.check(bool(rs) and bool(cop) and f.must_pass(via_roots=rs, targets=cop), R, "seqstore-reset-per-block", f.loc, "the sequence store is reset before each block's copy", "sequence store not reset per block")
    d = prog.fn("determine_blockSize")
    big = [g for g in guards.guard_sites(d) if "externalSequences_invalid" in g.codes and g.op == ">"]
    nd = d.call_roots("blockSize_noDelimiter")
    tg = [t for t in reset.success_returns(d) if t not in nd]
    res.check(len(big) >= 2 and bool(tg) and d.must_pass(via_edges={(g.bid, g.ok) for g in big if "p:1" in g.L | g.R}, via_roots=nd, targets=tg)
              and d.must_pass(via_edges={(g.bid, g.ok) for g in big if "p:2" in g.L | g.R}, via_roots=nd, targets=tg), R,
              "explicit-size-within-block-and-source", d.loc, "an explicit block larger than the block size or than the remaining source is refused", "explicit block size no longer bounded")
    e = prog.fn("blockSize_explicitDelimiter")
    gs2 = [g for g in guards.guard_sites(e) if "externalSequences_invalid" in g.codes]
    res.check(len(gs2) >= 2 and e.must_pass(via_edges={(g.bid, g.ok) for g in gs2}, targets=reset.success_returns(e)), R, "delimiter-present-and-well-formed", e.loc,
              "a missing delimiter or a delimiter with a match length is refused", "malformed/missing delimiters can be accepted")
    lp = cond_edges(e, lambda c: c.get("k") == "bin" and c["op"] == "<" and "p:1" in e.anchors(c["rhs"], depth=0), "true")
    rd = [(b, i) for b, i, r in e.roots() for y in walk(r) if y.get("k") == "idx"]
    res.check(bool(lp) and bool(rd) and e.must_pass(via_edges=set(lp), targets=rd), R, "delimiter-scan-in-bounds", e.loc, "the scan reads inSeqs[i] only for i < inSeqsSize", "delimiter scan can read past the array")
    # the explicit-delimiter list is made of blocks: the loop's success exit is reached with every block consumed, or validation is off
    used = guards.rel_edges(f, lambda a: any(y.get("k") == "mem" and y.get("f") == "idx" for y in f.walk_resolved(a)), "!=",
                            lambda b_: strip_casts(b_).get("pi") == 4, truth=False)
    noval = guards.truthy_edges(f, lambda c: c.get("k") == "mem" and c.get("f") == "validateSequences", truth=False)
    nodelim = guards.rel_edges(f, lambda a: any(y.get("k") == "mem" and y.get("f") == "blockDelimiters" for y in f.walk_resolved(a)), "==",
                               lambda b_: any(y.get("n") == "ZSTD_sf_explicitBlockDelimiters" for y in walk(b_)), truth=False)
    okr = [t for t in reset.success_returns(f) if t in f.flow([(b, i + 1) for b, i in cop])] if cop else []
    res.check(bool(used) and bool(okr) and f.must_pass(via_edges=used + noval + nodelim, starts=[(b, i + 1) for b, i in cop], targets=okr), R, "every-explicit-block-consumed", f.loc,
              "after the block loop, success needs seqPos.idx == inSeqsSize when validating an explicit-delimiter list",
              "ZSTD_compressSequences_internal accepts an explicit-delimiter list that describes blocks after the end of the source (block lengths that disagree "
              "with the source) although validation is on")
    res.need(R, 7)


def producer_rules(prog, res):
    R = "T3.external-producer"
    f = prog.fn("ZSTD_buildSeqStore")
    pp = [(b, i, c) for b, i, c in f.calls("ZSTD_postProcessSequenceProducerResult")]
    cp = f.call_roots("ZSTD_copySequencesToSeqStoreExplicitBlockDelim")
    ok = len(pp) == 1 and len(cp) == 1
    res.check(ok, R, "anchors", f.loc, "post-processing and transcription sites present", "anchors vanished")
    if ok:
        b, i, c = pp[0]
        ind = [y for y in f.walk_resolved(c["a"][1]) if y.get("k") == "call" and y.get("c") is None]
        res.check(bool(ind) or any(y.get("k") == "call" and y.get("c") is None for n, ds in f.local_defs().items() for d in ds if d is not None for y in walk(d)), R, "producer-result-post-processed", f.loc,
                  "the producer's return value goes through ZSTD_postProcessSequenceProducerResult", "producer result used raw")
        okedge = set(cond_edges(f, lambda q: is_call(q, ("ZSTD_isError", "ERR_isError")) and "c:ZSTD_postProcessSequenceProducerResult" in f.anchors(q, depth=2), "false"))
        res.check(bool(okedge) and f.must_pass(via_edges=okedge, targets=cp), R, "transcribe-only-on-success", f.loc, "sequences are transcribed only when post-processing succeeded", "failed producer output can be transcribed")
        gs = [g for g in guards.guard_sites(f) if "externalSequences_invalid" in g.codes and "c:ZSTD_fastSequenceLengthSum" in (g.L | g.R)]
        res.check(bool(gs) and f.must_pass(via_edges={(g.bid, g.ok) for g in gs}, targets=cp), R, "length-sum-within-block", f.loc, "sum of sequence lengths <= block size before transcription", "producer output may describe more than the block")
        fb = set(cond_edges(f, lambda q: q.get("k") == "mem" and q.get("f") == "enableMatchFinderFallback", "true"))
        sel = f.call_roots("ZSTD_selectBlockCompressor")
        errb = set(cond_edges(f, lambda q: is_call(q, ("ZSTD_isError", "ERR_isError")) and "c:ZSTD_postProcessSequenceProducerResult" in f.anchors(q, depth=2), "true"))
        after = [s for s in sel if errb and f.must_pass(via_edges=errb, targets=[s])]
        res.check(bool(fb) and bool(after) and f.must_pass(via_edges=fb, targets=after), R, "fallback-only-if-enabled", f.loc, "after a producer failure the internal parser runs only under enableMatchFinderFallback",
                  "fallback taken although it is disabled (or never taken)")
        # a fallback block is parsed by a match finder that (below btopt) maintains two repcodes only; the next block's external
        # sequences are searched against all three: after the fallback parser, every path to the exit completes rep[2]
        reach = f.flow([(b_, i_ + 1) for b_, i_ in after]) if after else set()
        ind = [(b_, i_) for b_, i_, r in f.roots() if (b_, i_) in reach and
               any(y.get("k") == "call" and y.get("c") is None and any(z.get("k") == "mem" and z.get("f") == "rep" for a in y.get("a", []) for z in walk(a)) for y in walk(r))]
        w2 = f.find_roots(lambda x: x.get("k") == "asg" and x.get("op") == "=" and strip_casts(x["lhs"]).get("k") == "idx" and const_val(strip_casts(x["lhs"])["i"]) == 2
                          and {"rep", "nextCBlock"} <= {z.get("f") for z in walk(x["lhs"]) if z.get("k") == "mem"})
        ok2 = bool(ind) and bool(w2) and all(f.must_pass(via_roots=w2, starts=[(b_, i_ + 1)]) for b_, i_ in ind)
        res.check(ok2, R, "fallback-block-completes-the-history", f.loc, "after the fallback parser nextCBlock->rep[2] is rewritten on every path (%d parser call(s))" % len(ind),
                  "ZSTD_buildSeqStore: a block parsed by the fallback match finder leaves the previous block's rep[2] in nextCBlock->rep: the repcode search of the next "
                  "producer block turns an offset equal to that stale value into repcode 3 and the frame decodes, without error, to other bytes")
        # validation of a producer's block starts at the block's position in the FRAME (the decoder's history), which
        # ZSTD_compress_frameChunk records before each block: the copier is reached only after seqPos.posInSrc was set from it
        setpos = f.find_roots(lambda x: x.get("k") == "asg" and x.get("op") == "=" and strip_casts(x["lhs"]).get("k") == "mem" and strip_casts(x["lhs"]).get("f") == "posInSrc"
                              and any(z.get("k") == "mem" and z.get("f") == "blockStartPos" for z in f.walk_deep(x["rhs"])))
        res.check(bool(setpos) and f.must_pass(via_roots=setpos, targets=cp), R, "validation-starts-at-the-frame-position", f.loc,
                  "seqPos.posInSrc is set from the block's position in the frame before the transcription",
                  "ZSTD_buildSeqStore validates a producer's offsets from position 0 of every block: valid matches into an earlier block are refused and, with a dictionary, "
                  "offsets beyond the window are accepted in every block")
        fc = prog.fn("ZSTD_compress_frameChunk")
        rec = fc.find_roots(lambda x: x.get("k") == "asg" and x.get("op") == "=" and strip_casts(x["lhs"]).get("k") == "mem" and strip_casts(x["lhs"]).get("f") == "blockStartPos"
                            and any(z.get("k") == "mem" and z.get("f") == "consumedSrcSize" for z in fc.walk_deep(x["rhs"])))
        blk = fc.call_roots(("ZSTD_compressBlock_internal", "ZSTD_compressBlock_targetCBlockSize", "ZSTD_compressBlock_splitBlock"))
        okp = bool(rec) and len(blk) >= 3 and fc.must_pass(via_roots=rec, targets=blk) and all(fc.must_pass(via_roots=rec, starts=[(b_, i_ + 1)], targets=blk) for b_, i_ in blk)
        res.check(okp, R, "frame-position-recorded-per-block", fc.loc, "blockStartPos = consumedSrcSize + offset in the chunk, before each block compressor call",
                  "ZSTD_compress_frameChunk no longer records the position of each block before compressing it")
    p = prog.fn("ZSTD_postProcessSequenceProducerResult")
    gs = guards.guard_sites(p)
    res.check(len([g for g in gs if {"sequenceProducer_failed"} & g.codes]) >= 2, R, "postProcess:failure-tests", p.loc, "too many sequences / zero sequences for a non-empty block are failures", "producer failure tests vanished")
    cap = [g for g in gs if "sequenceProducer_failed" in g.codes and g.op in ("==", ">=", ">") and {"p:1", "p:2"} <= (g.L | g.R)]
    wr = p.call_roots(("memset", "__builtin_memset"))
    res.check(bool(cap) and bool(wr) and p.must_pass(via_edges={(g.bid, g.ok) for g in cap}, targets=wr), R, "postProcess:delimiter-appended-within-capacity", p.loc,
              "a missing final delimiter is appended only when the array has room", "delimiter can be written past the producer's array")
    res.need(R, 9)
    R2 = "T8.sequence-extraction"
    c = prog.fn("ZSTD_copyBlockSequences")
    gs = [g for g in guards.guard_sites(c) if "dstSize_tooSmall" in g.codes and "f:maxSequences" in (g.L | g.R)]
    wr = [(b, i) for b, i, x in c.events(lambda y: y.get("k") == "asg") if any(z.get("k") == "idx" for z in walk(x["lhs"]))]
    res.check(bool(gs) and bool(wr) and c.must_pass(via_edges={(g.bid, g.ok) for g in gs}, targets=wr), R2, "copyBlockSequences:room-tested-before-writes", c.loc,
              "`nbOutSequences > maxSequences - seqIndex` cuts every write into the caller's array", "extracted sequences can overflow the caller's array")
    # extraction turns a repcode into the raw offset it stands for: the history it is resolved against must be the one at the
    # START of the block (partition).  The object handed to ZSTD_copyBlockSequences may not have been given to anything that
    # advances it (ZSTD_seqStore_resolveOffCodes, ZSTD_updateRep ...) on a path from the function's entry to the call.
    nsite = 0
    for f in prog.fns_in("compress/zstd_compress.c"):
        for b, i, c in f.calls("ZSTD_copyBlockSequences"):
            nsite += 1
            a = strip_casts(f.resolve_x(c["a"][2]))
            base = a
            while base is not None and base.get("k") in ("mem", "idx", "un"):
                base = strip_casts(f.resolve_x(base.get("b") if base.get("k") in ("mem", "idx") else base.get("e")))
            bn = base.get("n") if base is not None and base.get("k") == "ref" else None
            fieldpath = [y.get("f") for y in walk(a) if y.get("k") == "mem"]
            reach0 = f.flow([f.entry_node()], cut_roots=[(b, i)])
            before = {t for t in reach0 if t != (b, i) and (b, i) in f.flow([(t[0], t[1] + 1)])}     # roots that can run before the call
            advanced = []
            if "prevCBlock" in fieldpath:
                # the context's own history of the previous block: it only moves when the block state is confirmed (prev/next swap)
                advanced = ["ZSTD_blockState_confirmRepcodesAndEntropyTables"] if any(t in before for t in f.call_roots("ZSTD_blockState_confirmRepcodesAndEntropyTables")) else []
                bn = bn or "zc"
            elif bn is not None:
                for bb, ii, r in f.roots():
                    if (bb, ii) == (b, i) or (bb, ii) not in before:
                        continue
                    for y in walk(r):
                        if y.get("k") == "call" and y.get("c") not in (None, "ZSTD_copyBlockSequences", "ZSTD_memcpy", "memcpy", "__builtin_memcpy") and \
                                any(strip_casts(f.resolve_x(z)) is not None and strip_casts(f.resolve_x(z)).get("k") == "ref" and strip_casts(f.resolve_x(z)).get("n") == bn
                                    for z in y.get("a", [])):
                            advanced.append(y.get("c"))
            ok = bn is not None and not advanced
            res.check(ok, R2, "%s:history-at-block-start@%s" % (f.name, c.get("l")), "%s:%s" % (f.file, c.get("l")),
                      "repcodes are resolved against a history nothing has advanced since the block started",
                      "%s hands ZSTD_copyBlockSequences a repcode history that %s may already have advanced: extracted repcode matches are resolved against "
                      "the END of the partition, the list is not a parse of the source (ZSTD_generateSequences with the block splitter)" % (f.name, ", ".join(sorted(set(advanced))) or "?"))
    res.check(nsite >= 2, R2, "extraction-sites", "lib/compress/zstd_compress.c", "%d extraction call sites" % nsite, "extraction call sites: %d" % nsite)
    m = prog.fn("ZSTD_mergeBlockDelimiters")
    lp = cond_edges(m, lambda q: q.get("k") == "bin" and q["op"] == "<" and "p:1" in m.anchors(q["rhs"], depth=0), "true")
    acc = [(b, i) for b, i, r in m.roots() for y in walk(r) if y.get("k") == "idx"]
    res.check(bool(lp) and bool(acc) and m.must_pass(via_edges=set(lp), targets=acc), R2, "mergeBlockDelimiters:loop-bounded", m.loc, "every array access is inside `in < seqsSize`", "merge loop can run past the array")
    res.need(R2, 5)


PRE_VALIDATION = ("blockSize_explicitDelimiter", "ZSTD_fastSequenceLengthSum", "determine_blockSize", "ZSTD_postProcessSequenceProducerResult")


def wide_length_arithmetic(prog, res):
    """T12: the functions that size a block from caller-supplied sequences run before any length has been bounded; their
    arithmetic on litLength / matchLength (32-bit fields) must be carried out in a 64-bit type, otherwise two large lengths
    wrap to a small sum and pass every size test."""
    R = "T12.wide-length-arithmetic"

    def is32(t):
        t = (t or "").replace("const", "").strip()
        return t in ("unsigned int", "U32", "unsigned", "int", "uint32_t")
    n = 0
    for name in PRE_VALIDATION:
        f = prog.fn(name)
        ltypes = {}
        for b, i, r in f.roots():
            for x in walk(r):
                if x.get("k") == "decl":
                    for v in x.get("vars", []):
                        ltypes[v["n"]] = v.get("t")

        def seq_len(e, depth=2):
            """(is a sequence length, its type)"""
            e = f.resolve_x(e)
            if e is None:
                return False, None
            if e.get("k") == "cast":
                ok, _ = seq_len(e["e"], depth)
                return ok, e.get("t")
            if e.get("k") == "mem" and e.get("rec") == "ZSTD_Sequence" and e.get("f") in ("litLength", "matchLength"):
                return True, e.get("t")
            if e.get("k") == "ref" and e.get("rk") in ("l", "sl") and depth > 0:
                d = f.single_def(e["n"])
                ok, _ = seq_len(d, depth - 1) if d is not None else (False, None)
                return ok, ltypes.get(e["n"]) or e.get("t")
            return False, None
        for b, i, r in f.roots():
            for x in walk(r):
                if x.get("k") == "bin" and x.get("op") == "+" and "v" not in x:
                    (la, lt), (ra, rt) = seq_len(x["lhs"]), seq_len(x["rhs"])
                    if la and ra:
                        n += 1
                        res.check(not (is32(lt) and is32(rt)), R, "%s:sum@%s" % (name, x.get("l")), "%s:%s" % (f.file, x.get("l")), "sum of two sequence lengths computed in a 64-bit type",
                                  "%s adds two caller-supplied 32-bit lengths in 32-bit arithmetic: 0x80000000 + 0x80000004 is 4, which passes every block-size test" % name)
                elif x.get("k") == "asg" and x.get("op") == "+=":
                    ra, rt = seq_len(x["rhs"])
                    if not ra:
                        # rhs may itself be a (checked above) sum
                        ra = any(seq_len(y)[0] for y in walk(x["rhs"]) if y.get("k") in ("mem", "ref"))
                    if ra:
                        l = strip_casts(x["lhs"])
                        lt = ltypes.get(l.get("n")) or l.get("t")
                        n += 1
                        res.check(not is32(lt), R, "%s:accumulator@%s" % (name, x.get("l")), "%s:%s" % (f.file, x.get("l")), "sequence lengths accumulated into a 64-bit variable (%s)" % (lt,),
                                  "%s accumulates caller-supplied sequence lengths into a 32-bit variable: the total wraps and an over-long list passes the size test" % name)
    res.need(R, 4)


COPIERS = ("ZSTD_copySequencesToSeqStoreExplicitBlockDelim", "ZSTD_copySequencesToSeqStoreNoBlockDelim")


def validated_quantities(prog, res):
    """What the validator is given, and what the extractor reports:
    (supplied-offset) ZSTD_validateSequence bounds an OFFSET; a repcode passes it unconditionally.  Its offset argument
    must derive from the offset field of the caller's ZSTD_Sequence and not from ZSTD_finalizeOffBase(), which folds an
    offset equal to a history entry into a repcode;
    (per-frame dictionary size) cctx->prefixDict is single-use: ZSTD_CCtx_init_compressStream2 clears it when the frame
    starts.  Nothing that runs inside a frame may read it (the size of the dictionary in use is cctx->dictContentSize);
    (full literal length) the sequence store keeps 16-bit lengths plus one long-length marker: a zero test of a stored
    litLength decides `ll0` correctly only together with a test against the long-length position."""
    R = "T9.validated-quantities"
    for name in COPIERS:
        f = prog.fn(name)
        calls = [c for b, i, c in f.calls("ZSTD_validateSequence")]
        res.check(len(calls) == 1, R, name + ":validator-call", f.loc, "one validator call", "validator calls: %d" % len(calls))
        for c in calls:
            anc = f.anchors(c["a"][0], depth=3)
            ok = "f:offset" in anc and "c:ZSTD_finalizeOffBase" not in anc
            res.check(ok, R, name + ":supplied-offset", "%s:%s" % (f.file, c.get("l")),
                      "the validated offset derives from ZSTD_Sequence.offset and not from ZSTD_finalizeOffBase()",
                      "the offset handed to ZSTD_validateSequence went through ZSTD_finalizeOffBase(): an out-of-range offset that equals "
                      "an entry of the repcode history is folded into a repcode, passes validation, and the frame cannot be decoded")
            anc5 = f.anchors(c["a"][5], depth=3)
            res.check("f:prefixDict" not in anc5 and ("f:dictContentSize" in anc5), R, name + ":dictionary-size", "%s:%s" % (f.file, c.get("l")),
                      "the dictionary size is the frame's recorded dictContentSize",
                      "the dictionary size used for validation does not come from the frame's recorded dictContentSize (cctx->prefixDict is "
                      "already cleared inside a frame: a valid parse reaching into a prefix is refused)")
    # who may read cctx->prefixDict: only the functions that run before / while a frame is initialised
    allowed = {"ZSTD_CCtx_refPrefix_advanced", "ZSTD_CCtx_init_compressStream2", "ZSTD_clearAllDicts", "ZSTD_CCtx_loadDictionary_advanced",
               "ZSTD_CCtx_refCDict", "ZSTD_CCtx_refPrefix"}
    readers = set()
    for g in prog.fns_in("compress/zstd_compress.c"):
        if any(x.get("k") == "mem" and x.get("f") == "prefixDict" and x.get("rec") == "ZSTD_CCtx_s" for _, _, r in g.roots() for x in walk(r)):
            readers.add(g.name)
    res.check(bool(readers) and readers <= allowed, R, "prefixDict:readers", "lib/compress/zstd_compress.c",
              "cctx->prefixDict is only touched by %s" % sorted(readers),
              "cctx->prefixDict (single-use, cleared when a frame starts) is read by %s" % sorted(readers - allowed))
    # zero tests of a stored (16-bit) literal length
    n = 0
    for g in prog.fns_in("compress/zstd_compress.c", "compress/zstd_compress_superblock.c"):
        for b, i, r in g.roots():
            for x in walk(r):
                if x.get("k") != "bin" or x.get("op") not in ("==", "!="):
                    continue
                l, rr = strip_casts(x["lhs"]), strip_casts(x["rhs"])
                for a, z in ((l, rr), (rr, l)):
                    if a.get("k") == "mem" and a.get("f") == "litLength" and a.get("rec") == "seqDef_s" and const_val(z) == 0:
                        n += 1
                        # the enclosing root must also consult the long-length position
                        ok = False
                        for _, _, r2 in g.roots():
                            for y in walk(r2):
                                if y.get("k") == "bin" and y.get("op") == "&&":
                                    inner = list(g.walk_resolved(y))
                                    if any(z.get("id") == x.get("id") for z in inner) and any(
                                            z.get("k") == "bin" and z.get("op") in ("==", "!=") and z.get("id") != x.get("id") and
                                            "f:longLengthPos" in g.anchors(z, depth=3) for z in inner):
                                        ok = True
                        res.check(ok, R, "%s:stored-litLength-zero-test@%s" % (g.name, x.get("l") or r.get("l")), g.loc,
                                  "the zero test of the stored litLength is combined with the long-length position",
                                  "%s decides `litLength == 0` on the 16-bit stored field alone: a literal run of exactly 65536 bytes is stored as 0 "
                                  "with the long-length marker, the repcode history is rotated as for a zero-literal sequence and following "
                                  "repcodes resolve to wrong offsets" % g.name)
    res.count("stored_litLength_zero_tests", n)
    res.need(R, 7)


def merge_conserves_literals(prog, res):
    """T8: ZSTD_mergeBlockDelimiters drops the delimiters of an extracted parse; the literals a delimiter carries belong to
    the next real sequence.  Several delimiters can follow each other (a block without any sequence), so a delimiter's
    literals must be ACCUMULATED: every statement that moves a litLength out of a dropped entry is a `+=` (or an `a + b`),
    never a plain overwrite; kept entries are whole-struct copies."""
    R = "T8.merge-conserves-literals"
    f = prog.fn("ZSTD_mergeBlockDelimiters")
    n = 0
    for b, i, x in f.events(lambda y: y.get("k") == "asg"):
        reads = [y for y in f.walk_resolved(x["rhs"]) if y.get("k") == "mem" and y.get("f") == "litLength"]
        if not reads:
            continue
        n += 1
        adds = x.get("op") == "+=" or any(y.get("k") == "bin" and y.get("op") == "+" for y in f.walk_resolved(x["rhs"]))
        res.check(adds, R, "moves-litLength@%s" % x.get("l"), "%s:%s" % (f.file, x.get("l")), "literals of a dropped delimiter are added to what is already owed",
                  "ZSTD_mergeBlockDelimiters overwrites a literal count with a delimiter's litLength instead of adding it: with two delimiters in a row "
                  "(a block without sequences) the first one's literals vanish, every following match sits too early and the merged list is no longer a "
                  "parse of the source")
    res.check(n >= 1, R, "site", f.loc, "%d statement(s) move a delimiter's literals" % n, "ZSTD_mergeBlockDelimiters no longer moves the delimiters' literals")
    res.need(R, 2)


def confirm_only_compressed_blocks(prog, res):
    """T3: ZSTD_blockState_confirmRepcodesAndEntropyTables makes the block's repcode history and entropy tables the decoder's
    starting point for the next block.  The decoder only sees them for a block emitted as a compressed block: after a raw or
    an RLE block its history is unchanged.  In ZSTD_compressSequences_internal the confirmation must therefore lie on the
    `compressed size != 1` (not RLE) and `!= 0` (not raw) edges."""
    R = "T3.confirm-only-compressed-blocks"
    f = prog.fn("ZSTD_compressSequences_internal")
    conf = f.call_roots("ZSTD_blockState_confirmRepcodesAndEntropyTables")
    rle = f.call_roots("ZSTD_rleCompressBlock")
    raw = f.call_roots("ZSTD_noCompressBlock")
    res.check(len(conf) == 1 and len(rle) == 1 and len(raw) >= 1, R, "shape", f.loc, "one confirmation, one RLE emitter, raw emitter(s)",
              "ZSTD_compressSequences_internal: confirmations %d, RLE emitters %d, raw emitters %d" % (len(conf), len(rle), len(raw)))
    sized = lambda a: "c:ZSTD_entropyCompressSeqStore" in f.anchors(a, depth=3)
    not_rle = guards.rel_edges(f, sized, "==", lambda b_: const_val(strip_casts(b_)) == 1, truth=False)
    ok = bool(conf) and bool(not_rle) and f.must_pass(via_edges=not_rle, targets=conf)
    res.check(ok, R, "not-for-rle", f.loc, "the confirmation is reached only on the `compressed size != 1` edge",
              "ZSTD_compressSequences_internal confirms repcodes and entropy tables for a block it emits as RLE: the decoder's history does not move for that "
              "block, the next block's repcodes resolve differently on the two sides and the frame decodes to other bytes")
    # the same block cannot both be emitted RLE and confirmed: no path from the RLE emitter to the confirmation without starting the next block
    res.need(R, 2)


def api_session(prog, res):
    """T3: ZSTD_compressSequences starts its frame through ZSTD_CCtx_init_compressStream2 (like ZSTD_compressStream2) and
    then encodes blocks with the context's OWN block state.  (a) With workers that initialisation prepares the MT context
    only: the block loop may be reached only on the edge where the applied parameters have no worker.  (b) The
    initialisation moves the context to the loading stage: every path to a successful return goes through a session
    reset, as the frame end of ZSTD_compressStream2 does."""
    R = "T3.sequence-api-session"
    f = prog.fn("ZSTD_compressSequences")
    init = f.call_roots("ZSTD_CCtx_init_compressStream2")
    loop = f.call_roots("ZSTD_compressSequences_internal")
    res.check(len(init) == 1 and len(loop) == 1, R, "anchors", f.loc, "initialisation and block loop present", "anchors vanished")
    isw = lambda a: any(y.get("k") == "mem" and y.get("f") == "nbWorkers" for y in f.walk_resolved(a))
    k = lambda v: (lambda b_: const_val(strip_casts(b_)) == v)
    single = guards.rel_edges(f, isw, ">=", k(1), truth=False) + guards.rel_edges(f, isw, ">", k(0), truth=False) + guards.rel_edges(f, isw, "==", k(0), truth=True) + \
        guards.truthy_edges(f, lambda c: c.get("k") == "mem" and c.get("f") == "nbWorkers", truth=False)
    res.check(bool(single) and f.must_pass(via_edges=single, targets=loop), R, "block-loop-only-without-workers", f.loc,
              "ZSTD_compressSequences_internal is reached only on the `no worker` edge",
              "ZSTD_compressSequences runs its block loop on a context initialised for workers: the context's own block state was never started "
              "(SEGV on a fresh context; on a reused one the frame decodes to other bytes)")
    rs = f.call_roots("ZSTD_CCtx_reset")
    ok_ret = guards.success_nodes(f)
    res.check(bool(rs) and bool(ok_ret) and f.must_pass(via_roots=rs, starts=[(b, i + 1) for b, i in init], targets=ok_ret), R, "session-ended-on-success", f.loc,
              "every successful return passes ZSTD_CCtx_reset(session)",
              "ZSTD_compressSequences returns success with the context left in the loading stage: the next setParameter(blockDelimiters) / refPrefix is refused "
              "(stage_wrong) and ZSTD_compressStream2(e_end) of another buffer fails with srcSize_wrong")
    res.need(R, 3)


def dictionary_bound_is_the_content(prog, res):
    """T9: the validator may let an offset reach the decoded data plus the dictionary's CONTENT.  cctx->dictContentSize is what it is
    given: every store into that field takes its value from the loaded match state (ZSTD_loadedDictContentSize), from another
    context's field (copy), from the single-use prefix (raw content by definition) or is 0 - never the size of a dictionary buffer,
    which for a zstd-format dictionary includes its header and entropy tables."""
    R = "T9.validated-quantities"
    n = 0
    for f in prog.fns_in("compress/zstd_compress.c"):
        for b, i, x in f.events(lambda y: y.get("k") == "asg" and y.get("op") == "=" and strip_casts(y["lhs"]).get("k") == "mem" and strip_casts(y["lhs"]).get("f") == "dictContentSize"
                                and strip_casts(y["lhs"]).get("rec") == "ZSTD_CCtx_s"):
            n += 1
            leaves = []

            def src_ok(node):
                node = strip_casts(f.resolve_x(node))
                if node is None:
                    return False
                if const_val(node) == 0:
                    return True
                if node.get("k") == "cond":
                    return all(src_ok(a) for a in (node.get("t"), node.get("f")) if isinstance(a, dict))
                if is_call(node, "ZSTD_loadedDictContentSize"):
                    return True
                if node.get("k") == "mem" and node.get("f") == "dictContentSize" and node.get("rec") == "ZSTD_CCtx_s":
                    return True
                if node.get("k") == "mem" and node.get("f") == "dictSize" and any((y.get("k") == "mem" and y.get("f") == "prefixDict") or
                                                                                 (y.get("k") == "ref" and "ZSTD_prefixDict" in (y.get("t") or "")) for y in f.walk_deep(node)):
                    return True
                if node.get("k") == "ref" and node.get("rk") in ("l", "sl") and f.single_def(node["n"]) is not None:
                    return src_ok(f.single_def(node["n"]))
                return False
            res.check(src_ok(x["rhs"]), R, "%s:dictContentSize@%s" % (f.name, x.get("l")), "%s:%s" % (f.file, x.get("l")),
                      "the dictionary bound of the validator comes from the loaded content",
                      "%s stores a dictionary BUFFER size into cctx->dictContentSize: with a zstd-format dictionary the validator accepts offsets reaching into the "
                      "dictionary's header, and the frame is refused by the decoder (corruption_detected)" % f.name)
    res.check(n >= 4, R, "dictContentSize-stores", "lib/compress/zstd_compress.c", "%d stores" % n, "stores into cctx->dictContentSize: %d" % n)


def run(tier):
    res = Result("C17", tier)
    tus, info = extract(["compress", "common"])
    prog = Program(tus)
    res.info = info
    copier_rules(prog, res)
    validator_rules(prog, res)
    ordering_rules(prog, res)
    producer_rules(prog, res)
    wide_length_arithmetic(prog, res)
    validated_quantities(prog, res)
    confirm_only_compressed_blocks(prog, res)
    merge_conserves_literals(prog, res)
    api_session(prog, res)
    dictionary_bound_is_the_content(prog, res)
    # frozen guards of lib/compress for the error codes this property owns (shared inventory, split by code)
    import json as _json, os as _os
    from ..rules import guards as _guards
    _inv = [e for e in _json.load(open(_os.path.join(_os.path.dirname(_os.path.abspath(__file__)), "inv", "compress_all.json"))) if set(e["codes"]) & {'externalSequences_invalid', 'sequenceProducer_failed'}]
    _guards.check_inventory(prog, res, 'T8.frozen-guards(sequences)', _inv)
    res.need('T8.frozen-guards(sequences)', 13)
    return res.finish(
        explanation="With validation on, both copiers store a sequence only after a successful validation of the very values "
                    "they store, at the position decoded when the match starts; the validator bounds the offset by the window or "
                    "position+dictionary and the match length by 3/4; stores are cut by the sequence-store capacity; the block "
                    "size is determined, bounded by block size and source, and checked before the copier runs; delimiters must "
                    "exist and be well formed; the copiers agree on their features; producer output is post-processed, bounded, "
                    "transcribed only on success and falls back only when configured; extraction stays inside the caller's array.",
        not_decided="decode(compressSequences(s, x)) == x for valid parses; the split arithmetic of the delimiter-free copier "
                    "(seed C17-noDelim-split-remainder is NOT detected); memory safety for lists outside the documented validation scope",
        assumptions=["ZSTD_storeSeq's argument order (seqStore, litLength, literals, litLimit, offBase, matchLength)"])
