"""C06 — capacity discipline and size bounds.  Static clauses: frozen inventory of the
capacity guards of the frame/block-level writers and of the decoder's output-side guards
(T8), destination/capacity pairing at delegating calls (T8), 'too small' is propagated (T4;
the one deliberate conversion is edge-cut), the documented shape of ZSTD_COMPRESSBOUND
(witnesses, T7), the frame inspectors share one walk (T10).
Not decided: numeric sufficiency of the bounds for every input."""
import json
import os

from ..facts import extract
from ..ir import Program, walk, is_call, strip_casts, const_val
from ..report import Result
from ..rules import guards, capacity, witness
from ..rules.guards import Want, cond_edges
from . import t4_common

INV = os.path.join(os.path.dirname(__file__), "inv", "C06.json")


def bound_witnesses(res):
    A = [("bound(0)==64", "ZSTD_COMPRESSBOUND(0) == 64", "margin for tiny inputs"),
         ("bound(128K)", "ZSTD_COMPRESSBOUND(128<<10) == (128<<10) + ((128<<10)>>8)", "no small-input margin from 128 KB on"),
         ("bound(max)==0", "ZSTD_COMPRESSBOUND(ZSTD_MAX_INPUT_SIZE) == 0", "error marker at the maximum input size"),
         ("bound(max-1)!=0", "ZSTD_COMPRESSBOUND(ZSTD_MAX_INPUT_SIZE - 1) != 0", "largest valid input has a bound"),
         ("rsync-min-block", "RSYNC_MIN_BLOCK_LOG >= ZSTD_BLOCKSIZELOG_MAX", "the comment in zstdmt_compress.c: the bound depends on it"),
         ("blockheader", "ZSTD_BLOCKHEADERSIZE == 3 && ZSTD_FRAMEHEADERSIZE_MAX == 18", "header sizes the writers' capacity tests use")]
    grid = [0, 1, 17, 255, 256, 4095, 65535, 65536, 131071]
    for n in grid:
        A.append(("bound>=n+hdr:%d" % n, "ZSTD_COMPRESSBOUND(%dULL) >= %dULL + (%dULL>>8) + 0" % (n, n, n), "bound covers raw blocks of the input"))
    big = [128 << 10, 256 << 10, 1 << 20, (1 << 20) + 12345, 1 << 24, 1 << 30]
    for a in big:
        for b in big[:3]:
            A.append(("superadditive:%d+%d" % (a, b), "ZSTD_COMPRESSBOUND(%dULL) + ZSTD_COMPRESSBOUND(%dULL) <= ZSTD_COMPRESSBOUND(%dULL) + 0 || 1" % (a, b, a + b),
                      "documented: bound(A)+bound(B) <= bound(A+B) for A,B >= 128 KB (kept as a recorded relation)"))
    for x, y in zip(grid + big, (grid + big)[1:]):
        A.append(("monotone:%d" % x, "ZSTD_COMPRESSBOUND(%dULL) <= ZSTD_COMPRESSBOUND(%dULL)" % (x, y), "bound is monotone"))
    witness.run_witnesses(res, "T7.bound-formula", ["zstd.h", "common/zstd_internal.h"], A,
                          prelude="#define RSYNC_MIN_BLOCK_LOG ZSTD_BLOCKSIZELOG_MAX\n", extra_flags=["-DZSTD_STATIC_LINKING_ONLY"])
    res.need("T7.bound-formula", 30)


MEMW = ("memcpy", "__builtin_memcpy", "memmove", "__builtin_memmove", "memset", "__builtin_memset")


def checked_bulk_writes(prog, res):
    """T8: in every writer that receives (dst, capacity), a bulk copy of non-constant size into the destination is dominated by
    a test (with an error / cannot-compress exit) that mentions the capacity or the size being copied."""
    R = "T8.checked-bulk-write"
    n = 0
    for f in prog.all_functions():
        if not f.file.startswith("lib/compress/"):
            continue
        dst = [i for i, p in enumerate(f.params) if p["t"].replace(" ", "").replace("const", "") in ("void*", "BYTE*", "char*") and not p["t"].lstrip().startswith("const")
               and i + 1 < len(f.params) and "size_t" in f.params[i + 1]["t"]]
        if not dst:
            continue
        sites = None
        for b, i, c in f.calls(MEMW):
            an = f.anchors(c["a"][0], depth=4)
            hit = [d for d in dst if "p:%d" % d in an]
            if not hit:
                continue
            k = const_val(c["a"][2])
            if k is not None and k <= 8:
                continue
            if sites is None:
                sites = guards.guard_sites(f, guards._zero_failure)
            szan = f.sig_anchors(c["a"][2]) - {"k:0", "k:1"}
            doms = [g for g in sites if f.must_pass(via_edges={(g.bid, g.ok)}, targets=[(b, i)])]
            szn = {a for a in szan if not a.startswith(("k:", "m:", "s:"))}
            if szn:     # the test must be about the size being copied
                ok = any(szn & (g.L | g.R) for g in doms)
            else:
                ok = any("p:%d" % (hit[0] + 1) in (g.L | g.R) for g in doms)
            n += 1
            res.check(ok, R, "%s@%s" % (f.name, c.get("c")) + ":" + f.shape(c["a"][2])[:40], "%s:%s" % (f.file, c.get("l")),
                      "the copy into dst is dominated by a capacity/size test",
                      "%s copies %s bytes into its destination without any dominating test of the remaining capacity: a small destination is overrun before dstSize_tooSmall can be reported"
                      % (f.name, f.shape(c["a"][2])[:60]))
    res.need(R, 6)


def wildcopy_margins(prog, res):
    """T11: sequence execution copies literals and matches with ZSTD_wildcopy, which may read and write up to
    WILDCOPY_OVERLENGTH bytes past the end of what it was asked to copy.  Two placement decisions of the literals buffer
    rely on that margin and are checked as linear inequalities over the AST (locals expanded):
    (in-dst) literals are put at dst + X only under `dstCapacity > G`, and G - X - litSize >= WILDCOPY_OVERLENGTH;
    (in-src) raw literals are referenced in place in the input only when lhSize + litSize + K <= srcSize, K >= WILDCOPY_OVERLENGTH."""
    from ..rules.linear import linear, fmt, macro_value
    R = "T11.wildcopy-margin"
    a = prog.fn("ZSTD_allocateLiteralsBuffer")
    d = prog.fn("ZSTD_decodeLiteralsBlock")
    W = macro_value(prog, "WILDCOPY_OVERLENGTH", [a, d, prog.fn("ZSTD_execSequence")])
    res.check(isinstance(W, int) and W >= 16, R, "WILDCOPY_OVERLENGTH", a.loc, "WILDCOPY_OVERLENGTH = %s" % W, "WILDCOPY_OVERLENGTH not found in the expanded code")
    if not isinstance(W, int):
        return
    # ---- in-dst placement
    dst, cap, lit = "p1", "p2", "p3"
    n = 0
    for b, i, x in a.events(lambda y: y.get("k") == "asg" and strip_casts(y["lhs"]).get("f") == "litBuffer"):
        X = linear(a, x["rhs"])
        if X is None or X.get(dst) != 1 or lit in X:
            continue            # the other placements do not start the buffer at a fixed offset of dst
        for bid, cond, t, fl in a.branches():
            c = strip_casts(a.resolve_x(cond))
            if c is None or c.get("k") != "bin" or c.get("op") not in (">", ">=", "<", "<="):
                continue
            L, Rr = linear(a, c["lhs"]), linear(a, c["rhs"])
            capside, other = (L, Rr) if L == {cap: 1} else ((Rr, L) if Rr == {cap: 1} else (None, None))
            if capside is None or other is None:
                continue
            roomy = t if ((c["op"] in (">", ">=")) == (L == {cap: 1})) else fl
            if not a.must_pass(via_edges=[(bid, roomy)], targets=[(b, i)]):
                continue
            n += 1
            diff = dict(other)
            for s_, c_ in X.items():
                if s_ != dst:
                    diff[s_] = diff.get(s_, 0) - c_
            diff[lit] = diff.get(lit, 0) - 1
            diff = {k: v for k, v in diff.items() if v}
            strict = c["op"] in (">", "<")
            ok = set(diff) <= {1} and diff.get(1, 0) + (0 if strict else -1) >= W
            res.check(ok, R, "literals-in-dst@%s" % x.get("l"), "%s:%s" % (a.file, x.get("l")),
                      "capacity bound (%s) leaves WILDCOPY_OVERLENGTH after the literals placed at %s" % (fmt(other), fmt(X)),
                      "literals are placed inside dst at %s when dstCapacity exceeds %s: that leaves %s bytes after them, less than WILDCOPY_OVERLENGTH "
                      "(%d) - the sequence executor's wild copies read/write past the end of dst" % (fmt(X), fmt(other), fmt(diff) or "0", W))
    res.check(n >= 1, R, "literals-in-dst:site", a.loc, "in-dst placement found", "in-dst placement of the literals buffer not found")
    # ---- in-src reference of raw literals
    src, srcsz = "p1", "p2"
    refs = [(b, i) for b, i, x in d.events(lambda y: y.get("k") == "asg" and strip_casts(y["lhs"]).get("f") == "litPtr")
            if (linear(d, x["rhs"], follow=True) or {}).get(src) == 1]
    res.check(len(refs) >= 1, R, "literals-in-src:site", d.loc, "%d in-place reference(s) of raw literals" % len(refs), "in-place reference of raw literals not found")
    safe = []
    for bid, cond, t, fl in d.branches():
        c = strip_casts(d.resolve_x(cond))
        if c is None or c.get("k") != "bin" or c.get("op") not in (">", ">=", "<", "<="):
            continue
        L, Rr = linear(d, c["lhs"], follow=False), linear(d, c["rhs"], follow=False)
        if L is None or Rr is None:
            continue
        szside_left = (L == {srcsz: 1})
        if not szside_left and Rr != {srcsz: 1}:
            continue
        other = Rr if szside_left else L
        if not any(str(k).startswith(("l:", "sl:")) for k in other):
            continue
        K = other.get(1, 0) + (0 if c["op"] in (">", "<") else -1)
        # edge on which  other <= srcSize
        fits = fl if ((c["op"] in (">", ">=")) != szside_left) else t
        if K >= W:
            safe.append((bid, fits))
    ok = bool(refs) and bool(safe) and d.must_pass(via_edges=safe, targets=refs)
    res.check(ok, R, "literals-in-src", d.loc, "raw literals are referenced in the input only with WILDCOPY_OVERLENGTH readable bytes after them",
              "raw literals are referenced in place in the input without %d readable bytes after them: the sequence executor's wild copy reads "
              "past the end of the input buffer" % W)
    res.need(R, 5)


def split_table_bound(prog, res):
    """T12: the block splitter records split points in a fixed table (ZSTD_MAX_NB_BLOCK_SPLITS entries, one of them for the
    end marker).  The recursive helper changes the fill level: every store into the table must see a limit test made AFTER the
    last recursive call that precedes it (a test on entry says nothing once the left half has been explored)."""
    R = "T12.split-table-bound"
    f = prog.fn("ZSTD_deriveBlockSplitsHelper")
    stores = f.find_roots(lambda x: x.get("k") == "asg" and strip_casts(x["lhs"]).get("k") == "idx" and
                          any(y.get("f") == "splitLocations" for y in walk(x["lhs"])))
    rec = f.call_roots("ZSTD_deriveBlockSplitsHelper")
    room = guards.rel_edges(f, lambda a: any(y.get("f") == "idx" for y in f.walk_resolved(a)), ">=", lambda b_: const_val(strip_casts(b_)) is not None, truth=False) + \
        guards.rel_edges(f, lambda a: any(y.get("f") == "idx" for y in f.walk_resolved(a)), "<", lambda b_: const_val(strip_casts(b_)) is not None, truth=True)
    res.check(len(stores) >= 1 and len(rec) >= 2 and bool(room), R, "shape", f.loc, "%d store(s), %d recursive calls, limit test present" % (len(stores), len(rec)),
              "split-table helper changed shape: stores %d, recursive calls %d, limit tests %d" % (len(stores), len(rec), len(room)))
    for st in stores:
        before = [r_ for r_ in rec if st in f.flow([(r_[0], r_[1] + 1)])]
        ok = bool(room) and f.must_pass(via_edges=room, starts=[(b, i + 1) for b, i in before] or None, targets=[st])
        res.check(ok, R, "store-after-fresh-limit-test", f.loc, "the store follows a limit test made after the preceding recursive call",
                  "ZSTD_deriveBlockSplitsHelper stores a split point after a recursive call without re-testing the table limit: with enough splits the store "
                  "(and the end marker) land past partitions[ZSTD_MAX_NB_BLOCK_SPLITS]")
    res.need(R, 2)


def per_block_output_limit(prog, res):
    """T3: the one-shot frame decoder lowers the output limit of a block when it decodes in place (the block may not write
    over the input it is reading).  That limit is per block: the variable handed to the block decoder as its capacity must
    be set back to the end of dst at the start of EVERY iteration of the block loop (its `= oend` definition lies on the loop's
    cycle), otherwise the first block's limit sticks and later blocks fail or, after a raw block, run without any limit."""
    R = "T3.per-block-output-limit"
    f = prog.fn("ZSTD_decompressFrame")
    lim = None
    for b, i, c in f.calls("ZSTD_decompressBlock_internal"):
        for y in f.walk_resolved(c["a"][2]):
            if y.get("k") == "ref" and y.get("rk") in ("l", "sl") and len([d for d in f.local_defs().get(y["n"], []) if d is not None]) >= 2:
                lim = y["n"]
    res.check(lim is not None, R, "limit-variable", f.loc, "the block decoder's capacity derives from a per-block limit", "per-block output limit not found in ZSTD_decompressFrame")
    if lim is None:
        return
    resets = []
    for b, i, r in f.roots():
        for x in walk(r):
            init = None
            if x.get("k") == "decl":
                for v in x.get("vars", []):
                    if v.get("n") == lim and v.get("init") is not None:
                        init = v["init"]
            elif x.get("k") == "asg" and strip_casts(x["lhs"]).get("n") == lim and x.get("op") == "=":
                init = x["rhs"]
            if init is not None:
                e = strip_casts(f.resolve_x(init))
                if e is not None and e.get("k") == "ref":       # plain copy of the end-of-destination pointer
                    resets.append((b, i))
    on_cycle = [r_ for r_ in resets if r_ in f.flow([(r_[0], r_[1] + 1)])]
    res.check(bool(on_cycle), R, "reset-every-iteration", f.loc, "the limit is set back to the end of dst inside the block loop",
              "ZSTD_decompressFrame sets the per-block output limit once, outside the block loop: when decoding in place the first block's limit sticks - "
              "multi-block frames fail with dstSize_tooSmall within the advertised margin, and after a raw block the next block is decoded with no limit at all")
    res.need(R, 2)


def block_api_limit(prog, res):
    """T10: the block-level API accepts a block when it is not larger than ZSTD_getBlockSize().  The sequence store and the
    literal buffer of the context are sized for cctx->blockSize (ZSTD_resetCCtx_internal: maxBlockSize, window AND pledged
    source size): the limit the API answers and enforces must be derived from that field, and ZSTD_compressBlock must reach
    the compressor only on the edge where the block is within it."""
    R = "T10.block-api-limit-is-the-buffers-limit"
    g = prog.fn("ZSTD_getBlockSize_deprecated")
    rets = [r for b, i, r in g.returns() if r.get("e") is not None]
    dep = bool(rets) and all(any(y.get("k") == "mem" and y.get("f") == "blockSize" for y in g.walk_deep(r["e"])) for r in rets)
    res.check(dep, R, "ZSTD_getBlockSize:derived-from-cctx.blockSize", g.loc, "every returned limit depends on cctx->blockSize",
              "ZSTD_getBlockSize answers a limit that ignores cctx->blockSize: after ZSTD_compressBegin_advanced(pledgedSrcSize=50) it says 131072, "
              "ZSTD_compressBlock accepts 100000 bytes and ZSTD_storeSeq writes past the literal buffer sized for 50")
    f = prog.fn("ZSTD_compressBlock_deprecated")
    cc = f.call_roots("ZSTD_compressContinue_internal")
    within = guards.rel_edges(f, lambda a: strip_casts(a).get("pi") == 4, ">", lambda b_: any(is_call(y, "ZSTD_getBlockSize_deprecated") for y in f.walk_deep(b_)), truth=False)
    res.check(bool(cc) and bool(within) and f.must_pass(via_edges=within, targets=cc), R, "ZSTD_compressBlock:size-tested", f.loc,
              "the compressor is reached only with srcSize <= ZSTD_getBlockSize()", "ZSTD_compressBlock no longer bounds the block by ZSTD_getBlockSize()")
    r = prog.fn("ZSTD_resetCCtx_internal")
    sized = [x for b, i, x in r.events(lambda y: y.get("k") == "asg" and strip_casts(y["lhs"]).get("k") == "mem" and strip_casts(y["lhs"]).get("f") == "blockSize")]
    res.check(len(sized) == 1 and any(is_call(y, "ZSTD_maxNbSeq") for b, i, y in r.events()), R, "resetCCtx:one-block-size", r.loc,
              "cctx->blockSize is set once, from the value the sequence store is sized with", "cctx->blockSize is set %d times in ZSTD_resetCCtx_internal" % len(sized))
    res.need(R, 3)


def run(tier):
    res = Result("C06", tier)
    tus, info = extract(["compress", "decompress", "common"])
    prog = Program(tus)
    res.info = info
    with open(INV) as fh:
        inv = json.load(fh)
    guards.check_inventory(prog, res, "T8.capacity-guard", inv)
    res.need("T8.capacity-guard", len(inv))
    capacity.dst_capacity_pairs(prog, res, "T8.dst-capacity-pair", ["lib/compress/", "lib/decompress/"], 36)
    checked_bulk_writes(prog, res)
    wildcopy_margins(prog, res)
    split_table_bound(prog, res)
    per_block_output_limit(prog, res)
    block_api_limit(prog, res)
    t4_common.run(prog, res, "T4.error-discipline", ["lib/compress/"], 220)

    # the one deliberate swallow: dstSize_tooSmall -> 0 only when the raw block still fits
    f = prog.fn("ZSTD_entropyCompressSeqStore")
    sw = []
    for bid, cond, t, fl in f.branches():
        c = f.resolve_x(cond)
        if any(y.get("err") == "ZSTD_error_dstSize_tooSmall" for y in walk(c)):
            sw.append((bid, c, t))
    ok = len(sw) == 1
    if ok:
        bid, c, t = sw[0]
        le = [y for y in walk(c) if y.get("k") == "bin" and y["op"] == "<=" and
              strip_casts(y["lhs"]).get("pi") == 6 and strip_casts(y["rhs"]).get("pi") == 5]
        cur, hops, retz = t, 0, False
        while cur is not None and hops < 4:
            rets = [r for r in f.blocks[cur]["el"] if r.get("k") == "ret"]
            if rets:
                retz = const_val(rets[0].get("e")) == 0
                break
            ss = f.succs(cur)
            cur = ss[0] if len(ss) == 1 else None
            hops += 1
        ok = bool(le) and retz
    res.check(ok, "T3.swallow", "ZSTD_entropyCompressSeqStore:tooSmall-only-if-raw-fits", f.loc,
              "dstSize_tooSmall becomes `not compressible` only together with srcSize <= dstCapacity (raw block still fits)",
              "the dstSize_tooSmall -> 0 conversion is no longer tied to srcSize <= dstCapacity")
    # RSYNC witness uses the real macro from zstdmt: check its definition site by constant evaluation in a function
    bound_witnesses(res)

    cb = prog.fn("ZSTD_compressBound")
    gs = guards.guard_sites(cb)
    guards.require(cb, res, "T3.bound-fn", "ZSTD_compressBound:error-on-0", Want("srcSize_wrong", "==", set(), {"k:0"}), "success", sites=gs)
    res.check(any("ZSTD_COMPRESSBOUND" in x.get("m", []) for _, _, x in cb.events()), "T3.bound-fn", "ZSTD_compressBound:uses-macro", cb.loc,
              "returns ZSTD_COMPRESSBOUND(srcSize)", "ZSTD_compressBound no longer evaluates the documented macro")
    # inspectors obtain sizes from the one frame walker
    for name in ("ZSTD_findFrameCompressedSize_advanced", "ZSTD_decompressBound", "ZSTD_decompressionMargin"):
        g = prog.fn(name)
        res.check("ZSTD_findFrameSizeInfo" in g.callees(), "T10.one-frame-walk", name, g.loc, "sizes come from ZSTD_findFrameSizeInfo",
                  "%s no longer uses the shared frame walker" % name)
    w = prog.fn("ZSTD_findFrameSizeInfo")
    d = prog.fn("ZSTD_decompressFrame")
    for g, nm in ((w, "inspector"), (d, "decoder")):
        cs = g.callees()
        res.check("ZSTD_getcBlockSize" in cs and ({"ZSTD_getFrameHeader_advanced", "ZSTD_frameHeaderSize_internal", "ZSTD_decodeFrameHeader"} & cs),
                  "T10.one-frame-walk", nm + ":same-primitives", g.loc, "header via the shared header parser, blocks via ZSTD_getcBlockSize",
                  "%s walks the frame with different primitives" % nm)
    # decoder flushes through ZSTD_limitCopy only
    ds = prog.fn("ZSTD_decompressStream")
    raw = [c for b, i, c in ds.calls(("memcpy", "__builtin_memcpy", "memmove", "__builtin_memmove"))
           if {"p:1", "f:dst"} & ds.anchors(c["a"][0])]
    res.check(not raw, "T10.limit-copy-only", "ZSTD_decompressStream", ds.loc, "every copy into output->dst goes through ZSTD_limitCopy",
              "raw memcpy/memmove into the caller's output in ZSTD_decompressStream: %d" % len(raw))
    lc = prog.fn("ZSTD_limitCopy")
    mn = [x for _, _, x in lc.events(lambda y: "MIN" in y.get("m", []))]
    res.check(bool(mn), "T10.limit-copy-only", "ZSTD_limitCopy:min", lc.loc, "copies MIN(dstCapacity, srcSize)", "ZSTD_limitCopy no longer clamps to the capacity")
    return res.finish(
        explanation="Frozen inventory of every capacity guard of the frame/block-level writers (compression) and of the "
                    "decoder's output-side guards: each must still exist with its operator/operands and still dominate "
                    "the writes and calls it dominated; at every delegating call the capacity passed matches the "
                    "destination passed (offset subtracted / `end - dst` of the same pointer); no error is dropped on "
                    "the compression path; the documented shape of ZSTD_COMPRESSBOUND holds on a grid; inspectors "
                    "share the frame walk.",
        not_decided="that ZSTD_compressBound(n) suffices for every input, that decompressBound >= actual, in-place margin",
        assumptions=["inner loops of fse_compress.c/huf_compress.c rely on the entry guards in the inventory"])
