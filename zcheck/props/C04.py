"""C04 — every decoding path yields the specified output for every valid frame.
Static clauses: the three predefined FSE decoding tables equal the tables obtained by running
the format document's construction on the document's default distributions and code tables
(T7: both sides are compile-time data, the reference is recomputed from doc/*.md); decoder
variants (HUF X1/X2, 1X/4X, sequence decoders) carry the same accept/reject guards (T9);
bmi2/default wrappers forward to one body (T9); block decoding picks exactly one sequence
decoder (T3).  Not decided: equality with an independent decoder on all valid frames; the
x86-64 assembly loop."""
from collections import Counter

from ..facts import extract, Broken
from ..ir import Program, walk, is_call, strip_casts, const_val
from ..report import Result
from ..rules import guards, tables
from ..rules.guards import cond_edges


def predefined_tables(prog, res):
    spec = tables.read_spec()
    ll_codes = tables.spec_code_table(spec, "Literals_Length_Code")
    ml_codes = tables.spec_code_table(spec, "Match_Length_Code")
    fam = (("LL", "literalsLength_defaultDistribution", 6, ll_codes, lambda c: ll_codes[c]),
           ("ML", "matchLengths_defaultDistribution", 6, ml_codes, lambda c: ml_codes[c]),
           ("OF", "offsetCodes_defaultDistribution", 5, None, lambda c: (((1 << c) - 3) if c >= 2 else c, c)))
    ncell = 0
    for name, dist, log, codes, basebits in fam:
        norm = tables.spec_distribution(spec, dist)
        ref = tables.fse_decoding_table(norm, log)
        g = prog.glob(name + "_defaultDTable")
        cells = tables.rows(g["init"])
        hdr = cells[0]
        res.check(len(cells) == (1 << log) + 1 and hdr[3] == log, "T7.predefined-dtable", name + ":header", g["file"],
                  "1 + 2^%d cells, header log %d" % (log, log), "table has %d cells / header %s" % (len(cells), hdr))
        for st, (sym, nb, base) in enumerate(ref):
            ncell += 1
            bv, ab = basebits(sym)
            want = (base, ab, nb, bv)     # nextState, nbAdditionalBits, nbBits, baseValue
            got = cells[st + 1] if st + 1 < len(cells) else None
            res.check(got == want, "T7.predefined-dtable", "%s:state%d" % (name, st), g["file"],
                      "cell equals the document's construction (symbol %d)" % sym,
                      "cell %s differs from the format document's construction %s (symbol %d)" % (got, want, sym))
        # the default distribution in the library equals the document's
        lib_norm = tables.ints(prog.glob(name + "_defaultNorm")["init"])
        res.check(lib_norm == norm, "T7.default-distribution", name, "lib/common/zstd_internal.h", "equals the document's %s" % dist,
                  "library distribution differs from the format document")
        res.check(sum(abs(x) for x in norm) == (1 << log), "T7.default-distribution", name + ":normalised", "doc", "sums to 2^%d" % log, "not normalised")
    # code tables vs the document
    for nm, codes in (("LL", ll_codes), ("ML", ml_codes)):
        base = tables.ints(prog.glob(nm + "_base")["init"])
        bits = tables.ints(prog.glob(nm + "_bits")["init"])
        ok = len(base) == len(codes) == len(bits) and all(codes[c] == (base[c], bits[c]) for c in range(len(base)))
        bad = [c for c in range(min(len(base), len(codes))) if codes[c] != (base[c], bits[c])]
        res.check(ok, "T7.code-tables", nm + "_base/bits", "lib/decompress/zstd_decompress_internal.h", "all %d codes equal the document" % len(codes),
                  "codes %s differ from the format document" % bad[:6])
    ofb = tables.ints(prog.glob("OF_base")["init"])
    ofbits = tables.ints(prog.glob("OF_bits")["init"])
    ok = all(ofbits[c] == c for c in range(len(ofbits))) and all(ofb[c] == ((1 << c) - 3 if c >= 2 else c) for c in range(len(ofb)))
    res.check(ok and len(ofb) == len(ofbits) == 32, "T7.code-tables", "OF_base/bits", "lib/decompress/zstd_decompress_internal.h",
              "OF_bits[c]==c and OF_base[c]==(1<<c)-3 (Offset_Value = (1<<c)+bits, minus the 3 repeat codes)", "offset code tables changed")
    res.need("T7.predefined-dtable", 160)
    return ncell


def sig(g):
    return (g.op, frozenset(a for a in g.sL if not a.startswith("c:HUF_")), frozenset(a for a in g.sR if not a.startswith("c:HUF_")),
            frozenset(c for c in g.codes))


def variant_agreement(prog, res):
    R = "T9.variant-agreement"
    pairs = (("HUF_decompress4X1_usingDTable_internal_body", "HUF_decompress4X2_usingDTable_internal_body"),
             ("HUF_decompress1X1_usingDTable_internal_body", "HUF_decompress1X2_usingDTable_internal_body"))
    npairs = 0
    for a, b in pairs:
        if prog.has_fn(a) != prog.has_fn(b):
            continue        # a build that forces one Huffman decoder variant compiles only that one: nothing to compare
        npairs += 1
        fa, fb = prog.fn(a), prog.fn(b)
        ca = Counter(sig(g) for g in guards.guard_sites(fa))
        cb = Counter(sig(g) for g in guards.guard_sites(fb))
        diff = (ca - cb) + (cb - ca)
        res.check(not diff and sum(ca.values()) >= 2, R, "%s~%s" % (a, b), fa.loc, "%d guards, identical in both variants" % sum(ca.values()),
                  "variants accept/reject differently: %d guard(s) present in only one of them, e.g. %s" % (
                      sum(diff.values()), [(k[0], sorted(k[1]), sorted(k[2]), sorted(k[3])) for k in list(diff)[:2]]))
    # fast-loop wrappers
    for a, b in (("HUF_decompress4X1_usingDTable_internal_fast", "HUF_decompress4X2_usingDTable_internal_fast"),):
        if prog.has_fn(a) != prog.has_fn(b):
            continue
        npairs += 1
        fa, fb = prog.fn(a), prog.fn(b)
        ca = Counter((g.op, frozenset(g.codes)) for g in guards.guard_sites(fa))
        cb = Counter((g.op, frozenset(g.codes)) for g in guards.guard_sites(fb))
        res.check(ca == cb and sum(ca.values()) >= 2, R, "%s~%s" % (a, b), fa.loc, "same guard kinds (%d)" % sum(ca.values()), "fast-loop wrappers differ in their checks")
    # the three sequence decoders: same feature set
    feats = {}
    for name in ("ZSTD_decompressSequences_body", "ZSTD_decompressSequences_bodySplitLitBuffer", "ZSTD_decompressSequencesLong_body"):
        f = prog.fn(name)
        gs = guards.guard_sites(f)
        ft = set()
        for g in gs:
            if "c:BIT_initDStream" in g.L and "corruption_detected" in g.codes:
                ft.add("bitstream-init-checked")
            if g.op.endswith("call:BIT_endOfDStream") and "corruption_detected" in g.codes:
                ft.add("bitstream-fully-consumed")
            if "dstSize_tooSmall" in g.codes and "f:litPtr" in g.L | g.R:
                ft.add("last-literals-bounded")
            if ({"c:ZSTD_execSequence", "c:ZSTD_execSequenceSplitLitBuffer"} & g.L) and \
                    (g.op.startswith("call:") or g.op == "nonzero") and ("<forwarded>" in g.codes or not g.codes):
                ft.add("sequence-error-forwarded")
        wr = f.find_roots(lambda x: x.get("k") == "asg" and any(y.get("k") == "mem" and y["f"] == "rep" and y.get("rec") == "ZSTD_entropyDTables_t" for y in walk(x["lhs"])))
        if wr:
            ft.add("repcodes-saved")
        feats[name] = ft
    want = {"bitstream-init-checked", "bitstream-fully-consumed", "last-literals-bounded", "sequence-error-forwarded", "repcodes-saved"}
    for name, ft in feats.items():
        res.check(want <= ft, R, name, prog.fn(name).loc, "has all 5 accept/reject features", "missing %s" % sorted(want - ft))
    res.need(R, 3 + npairs)


def dispatch_wrappers(prog, res):
    """X_default / X_bmi2 are one call to X_body forwarding their own parameters in order."""
    R = "T9.dispatch-wrapper"
    n = 0
    for f in prog.all_functions():
        if not f.file.startswith(("lib/decompress/", "lib/common/")):
            continue
        for suffix in ("_default", "_bmi2"):
            if not f.name.endswith(suffix):
                continue
            base = f.name[:-len(suffix)]
            body = base if base.endswith("_body") else base + "_body"
            if not prog.has_fn(body):
                continue
            if list(f.branches()):
                # a dispatcher (e.g. FSE_readNCount_bmi2(..., int bmi2)): it may only branch on its bmi2 flag
                okd = all({y.get("n") for y in walk(f.resolve_x(c)) if y.get("k") == "ref"} <= {"bmi2"} for _, c, _, _ in f.branches())
                res.check(okd, R, f.name + ":dispatcher", f.loc, "branches on the bmi2 flag only", "dispatcher branches on something else than its bmi2 flag")
                continue
            n += 1
            calls = [c for b, i, c in f.calls() if c.get("c") == body]
            if not calls and len(f.calls()) == 1 and f.calls()[0][2].get("c") in (body + "_default", base + "_default"):
                # a dispatcher compiled without DYNAMIC_BMI2: its flag is unused and it forwards to the default variant
                c0 = f.calls()[0][2]
                fw = [strip_casts(a).get("pi") for a in c0["a"]]
                res.check(fw == list(range(len(fw))) and len(fw) >= len(f.params) - 1, R, f.name + ":static-dispatch", f.loc,
                          "forwards its parameters in order to the default variant", "static dispatcher no longer forwards its parameters")
                continue
            ok = len(calls) == 1 and len(f.calls()) == 1
            if ok:
                args = calls[0]["a"]
                fw = [strip_casts(a).get("pi") for a in args[:len(f.params)]]
                ok = fw == list(range(len(f.params)))
                extra = args[len(f.params):]
                ok = ok and all(const_val(a) in (0, 1) for a in extra)
                if extra:
                    ok = ok and const_val(extra[0]) == (1 if suffix == "_bmi2" else 0)
            res.check(ok, R, f.name, f.loc, "single call to %s forwarding its parameters in order" % body,
                      "%s no longer simply forwards its parameters to %s" % (f.name, body))
    has_bmi2 = sum(1 for f in prog.all_functions() if f.name.endswith("_body_bmi2") or (f.name.endswith("_bmi2") and prog.has_fn(f.name[:-5] + "_default")))
    res.need(R, 14 if has_bmi2 >= 4 else 8)        # a build without DYNAMIC_BMI2 compiles no _bmi2 variants


def one_sequence_decoder(prog, res):
    f = prog.fn("ZSTD_decompressBlock_internal")
    decs = ("ZSTD_decompressSequences", "ZSTD_decompressSequencesSplitLitBuffer", "ZSTD_decompressSequencesLong")
    roots = {d: f.call_roots(d) for d in decs}
    res.check(all(len(v) == 1 for v in roots.values()), "T3.one-decoder", "three-decoders", f.loc, "each sequence decoder is called from one site",
              "sequence decoder call sites: %s" % {k: len(v) for k, v in roots.items()})
    # the split decoder only on the litBufferLocation == ZSTD_split edge; the other short decoder on its false edge
    split = cond_edges(f, lambda c: c.get("k") == "bin" and c["op"] == "==" and "litBufferLocation" in {y["f"] for y in walk(c) if y.get("k") == "mem"}
                       and any(y.get("n") == "ZSTD_split" for y in walk(c)), "true")
    nosplit = cond_edges(f, lambda c: c.get("k") == "bin" and c["op"] == "==" and "litBufferLocation" in {y["f"] for y in walk(c) if y.get("k") == "mem"}
                         and any(y.get("n") == "ZSTD_split" for y in walk(c)), "false")
    ok = bool(split) and f.must_pass(via_edges=split, targets=roots["ZSTD_decompressSequencesSplitLitBuffer"]) and \
        f.must_pass(via_edges=nosplit, targets=roots["ZSTD_decompressSequences"])
    res.check(ok, "T3.one-decoder", "split-decoder-iff-split-buffer", f.loc, "the split-buffer decoder runs exactly when the literal buffer is split",
              "decoder choice no longer follows litBufferLocation")
    # after one decoder ran, no other decoder can run
    okx = True
    for d, rs in roots.items():
        after = f.flow([(b, i + 1) for b, i in rs])
        for d2, rs2 in roots.items():
            if any(r in after for r in rs2):
                okx = False
    res.check(okx, "T3.one-decoder", "exactly-one", f.loc, "no path runs two sequence decoders", "a path can run two sequence decoders on one block")
    h = prog.fn("HUF_selectDecoder")
    users = {c.name for c in prog.callers().get("HUF_selectDecoder", [])}
    res.check(users <= {"HUF_decompress1X_DCtx_wksp", "HUF_decompress4X_hufOnly_wksp", "HUF_decompress4X_DCtx", "HUF_decompress"}, "T3.one-decoder",
              "HUF_selectDecoder:users", h.loc, "result only picks X1 vs X2 in %s" % sorted(users), "new user of HUF_selectDecoder: %s" % sorted(users))


def output_limit_selection(prog, res):
    """T9 over a finite enum: every sequence decoder bounds its output by the start of the literals
    exactly when the literals sit (whole) inside dst, for each litBufferLocation value that decoder
    can be entered with (values derived from the dispatch in ZSTD_decompressBlock_internal)."""
    R = "T9.output-limit-selection"
    en = {n: v for n, v in prog.enum("ZSTD_litLocation_e")["items"]}
    res.check(set(en) == {"ZSTD_not_in_dst", "ZSTD_in_dst", "ZSTD_split"}, R, "enum", "lib/decompress/zstd_decompress_internal.h", "three literal locations", "literal-location enum changed: %s" % sorted(en))
    IN = en.get("ZSTD_in_dst")
    d = prog.fn("ZSTD_decompressBlock_internal")
    split_t = set(cond_edges(d, lambda c: c.get("k") == "bin" and c["op"] == "==" and any(y.get("f") == "litBufferLocation" for y in walk(c)) and any(y.get("n") == "ZSTD_split" for y in walk(c)), "true"))
    split_f = set(cond_edges(d, lambda c: c.get("k") == "bin" and c["op"] == "==" and any(y.get("f") == "litBufferLocation" for y in walk(c)) and any(y.get("n") == "ZSTD_split" for y in walk(c)), "false"))
    allv = set(en.values())
    for dec in ("ZSTD_decompressSequences", "ZSTD_decompressSequencesSplitLitBuffer", "ZSTD_decompressSequencesLong"):
        sites = d.call_roots(dec)
        vals = set(allv)
        if sites and split_t and d.must_pass(via_edges=split_t, targets=sites):
            vals = {en["ZSTD_split"]}
        elif sites and split_f and d.must_pass(via_edges=split_f, targets=sites):
            vals = allv - {en["ZSTD_split"]}
        dflt = prog.fn(dec + "_default")
        callee = [c.get("c") for b, i, c in dflt.calls() if c.get("c")]
        body = prog.fn(callee[0]) if len(callee) == 1 else prog.fn(dec + "_body")
        # the output limit: the local handed to ZSTD_execSequence* as its `oend` argument (position 2)
        lim = None
        for b, i, c in body.calls(("ZSTD_execSequence", "ZSTD_execSequenceSplitLitBuffer")):
            a = strip_casts(body.resolve_x(c["a"][1]))
            if a is not None and a.get("k") == "ref" and a.get("rk") in ("l", "sl"):
                lim = a["n"]
        df = body.single_def(lim) if lim else None
        ok = df is not None
        why = "output limit of %s not found" % dec
        if ok:
            e = strip_casts(body.resolve_x(df))

            def picks_literals(v):
                """does the limit expression select dctx->litBuffer when litBufferLocation == v"""
                if e.get("k") != "cond":
                    return any(y.get("f") == "litBuffer" for y in body.walk_resolved(e))
                c = strip_casts(body.resolve_x(e["c"]))
                neg = False
                while c.get("k") == "un" and c.get("op") == "!":
                    c = strip_casts(body.resolve_x(c["e"])); neg = not neg
                if c.get("k") != "bin" or c["op"] not in ("==", "!=") or not any(y.get("f") == "litBufferLocation" for y in walk(c)):
                    return None
                k = [const_val(x) for x in (c["lhs"], c["rhs"]) if const_val(x) is not None]
                if len(k) != 1:
                    return None
                truth = ((v == k[0]) == (c["op"] == "==")) != neg
                arm = strip_casts(body.resolve_x(e["t"] if truth else e["f"]))
                return any(y.get("f") == "litBuffer" for y in body.walk_resolved(arm))
            for v in sorted(vals):
                got = picks_literals(v)
                if got is None or got != (v == IN):
                    ok = False
                    nm = [n for n, x in en.items() if x == v][0]
                    why = "%s can be entered with litBufferLocation == %s and then bounds its output by %s" % (
                        dec, nm, "the start of the literals although they are not (wholly) in dst: valid blocks are refused with dstSize_tooSmall" if got else "the end of dst although the literals live there")
        res.check(ok, R, dec, body.loc, "for litBufferLocation in %s the limit is litBuffer exactly for ZSTD_in_dst" % sorted(vals), why)
    res.need(R, 4)


def x2_fast_loop_bound(prog, res):
    """T8: the double-symbol (X2) fast loop regenerates 5..10 bytes per stream and iteration, each stream at its own pace; the
    number of unchecked iterations must therefore be bounded by the room left in EVERY output segment (a min over a stream
    index), and by the input left; the single-symbol loop advances all streams in lock step and may bound by one segment."""
    R = "T8.fast-loop-iteration-bound"
    nloops = 0
    for name, every in (("HUF_decompress4X2_usingDTable_internal_fast_c_loop", True), ("HUF_decompress4X1_usingDTable_internal_fast_c_loop", False)):
        if not prog.has_fn(name) and prog.has_fn("HUF_decompress4X%s_usingDTable_internal_fast_c_loop" % ("1" if every else "2")):
            continue        # forced-variant build
        nloops += 1
        f = prog.fn(name)
        # divisions (oend[..] - op[..]) / K
        per_stream, fixed = [], []
        for b, i, r in f.roots():
            for x in walk(r):
                if x.get("k") == "bin" and x.get("op") == "/" and const_val(x["rhs"]) in (5, 10):
                    idxs = [y for y in f.walk_resolved(x["lhs"]) if y.get("k") == "idx"]
                    if not idxs:
                        continue
                    if any(const_val(y["i"]) is None for y in idxs):
                        per_stream.append((b, i, x))
                    else:
                        fixed.append((b, i, x))
        in_bound = [x for b, i, r in f.roots() for x in walk(r) if x.get("k") == "bin" and x.get("op") == "/" and const_val(x["rhs"]) == 7]
        res.check(bool(in_bound), R, name + ":input-bound", f.loc, "iterations bounded by the input left (7 bytes per iteration)", "input-side iteration bound vanished")
        if every:
            ok = bool(per_stream)
            if ok:
                b, i, x = per_stream[0]
                # inside a loop over the stream index: the block can reach itself
                ok = b in f.reachable(f.succs(b))
            res.check(ok, R, name + ":every-output-segment", f.loc, "iterations bounded by the room left in each of the four output segments (min over the stream index)",
                      "the X2 fast loop bounds its unchecked iterations by one output segment only: a faster stream overruns its segment and a valid frame is rejected as corrupted")
        else:
            res.check(bool(fixed) or bool(per_stream), R, name + ":output-segment", f.loc, "iterations bounded by the output left", "output-side iteration bound vanished")
    res.need(R, 2 * nloops)


BULK = ("memcpy", "memset", "memmove", "__builtin_memcpy", "__builtin_memset", "__builtin_memmove")


def format_exact_huffman_entry(prog, res):
    """T10: the literals section of the zstd format has exactly the four encodings the block decoder dispatches on; a
    Huffman-coded section is ALWAYS a tree description followed by a bitstream, whatever its size.  The stand-alone Huffman
    container entry points (HUF_decompress1X_DCtx_wksp, HUF_decompress4X_DCtx, HUF_decompress...) add shortcuts of their own
    (cSrcSize == dstSize is stored data, cSrcSize == 1 is RLE, cSrcSize > dstSize is corruption).  No Huffman entry point
    called by ZSTD_decodeLiteralsBlock — in any build configuration — may write its destination parameter by a bulk
    copy/fill, nor compare its two size parameters with each other."""
    R = "T10.format-exact-huffman-entry"
    f = prog.fn("ZSTD_decodeLiteralsBlock")
    ents = sorted({c.get("c") for b, i, c in f.calls() if (c.get("c") or "").startswith("HUF_decompress")})
    res.check(len(ents) >= 4, R, "entry-points", f.loc, "Huffman entry points used by the block decoder: %s" % ents, "Huffman entry points found: %s" % ents)
    for nm in ents:
        if not prog.has_fn(nm):
            continue
        g = prog.fn(nm)
        bad = []
        for b, i, c in g.calls(BULK):
            d = strip_casts(g.resolve_x(c["a"][0])) if c.get("a") else None
            if d is not None and d.get("k") == "ref" and d.get("rk") == "p":
                bad.append("line %s: bulk %s into its destination parameter" % (c.get("l"), c.get("c").replace("__builtin_", "")))
        for bid, cond, t, fl in g.branches():
            c = strip_casts(g.resolve_x(cond))
            if c is not None and c.get("k") == "bin" and c.get("op") in ("==", "!=", ">", "<", ">=", "<="):
                l, r = strip_casts(g.resolve_x(c["lhs"])), strip_casts(g.resolve_x(c["rhs"]))
                if l is not None and r is not None and l.get("k") == r.get("k") == "ref" and l.get("rk") == r.get("rk") == "p" \
                        and "size_t" in (l.get("t") or "") and "size_t" in (r.get("t") or ""):
                    bad.append("line %s: compares its size parameters %s and %s" % (c.get("l"), l.get("n"), r.get("n")))
        res.check(not bad, R, nm, g.loc, "decodes a tree description and a bitstream only (no stored/RLE container shortcut)",
                  "%s, called by ZSTD_decodeLiteralsBlock, is a stand-alone Huffman container entry point (%s): valid zstd frames whose Huffman "
                  "literals section is not smaller than its content are rejected or decoded to wrong bytes" % (nm, "; ".join(bad[:3])))
    res.need(R, 5)


def block_maximum_size_on_every_path(prog, res):
    """T9 (sibling agreement): the one-shot frame decoder and the buffer-less core behind the streaming decoder give the same
    verdict on a block that exceeds the frame's Block_Maximum_Size: both compare the block's size (regenerated size for RLE)
    before decoding it and the decoded size after, and refuse with corruption_detected."""
    R = "T9.block-maximum-size"
    for name in ("ZSTD_decompressFrame", "ZSTD_decompressContinue"):
        f = prog.fn(name)
        gs = [g for g in guards.guard_sites(f) if "corruption_detected" in g.codes and "f:blockSizeMax" in (g.L | g.R) and g.op in (">", "<", ">=", "<=")]
        rle_aware = any(any(y.get("k") == "cond" or y.get("n") == "bt_rle" for y in f.walk_deep(g.cond)) for g in gs if g.cond is not None)
        res.check(len(gs) >= 2, R, name + ":before-and-after", f.loc, "%d comparisons with blockSizeMax ending in corruption_detected" % len(gs),
                  "%s compares blocks with Block_Maximum_Size %d time(s) (needs the block size before decoding and the decoded size after): an oversized "
                  "block is accepted on this path and refused on the sibling path, and ZSTD_decompressBound() under-estimates" % (name, len(gs)))
        res.check(rle_aware, R, name + ":rle-by-regenerated-size", f.loc, "an RLE block is bounded by its regenerated size",
                  "%s bounds an RLE block by its stored size (always 1) instead of its regenerated size" % name)
    res.need(R, 4)


def repeat_mode_armed_by_any_sequences_block(prog, res):
    """T9 (siblings / format): Repeat_Mode reuses the tables of the previous block that had sequences, whatever their mode
    (Predefined and RLE included).  The decoder allows Repeat_Mode once `dctx->fseEntropy` is set: every sequence decoder body
    (a function that starts the three FSE states from dctx->LLTptr/OFTptr/MLTptr) sets it before it starts them - or the header
    decoder sets it on a path that does not depend on one of the modes being set_compressed."""
    R = "T9.repeat-mode-armed-by-any-sequences-block"
    bodies = [f for f in prog.fns_in("decompress/zstd_decompress_block.c") if f.name != "ZSTD_initFseState" and len(f.call_roots("ZSTD_initFseState")) >= 3]
    def arms(f):
        return f.find_roots(lambda x: x.get("k") == "asg" and x.get("op") == "=" and strip_casts(x["lhs"]).get("k") == "mem" and strip_casts(x["lhs"]).get("f") == "fseEntropy"
                            and const_val(x["rhs"]) == 1)
    h = prog.fn("ZSTD_decodeSeqHeaders")
    ha = arms(h)
    byheader = False
    if ha:
        modetest = [(bid, t) for bid, cond, t, fl in h.branches() if any(y.get("n") == "set_compressed" for y in h.walk_resolved(h.resolve_x(cond)))]
        byheader = not any(h.must_pass(via_edges=[e], targets=ha) for e in modetest) and not h.must_pass(via_edges=modetest, targets=ha)
    res.check(len(bodies) >= 3, R, "bodies", "lib/decompress/zstd_decompress_block.c", "%d sequence decoder bodies" % len(bodies), "sequence decoder bodies found: %d" % len(bodies))
    for f in bodies:
        a = arms(f)
        init = f.call_roots("ZSTD_initFseState")
        ok = byheader or (bool(a) and f.must_pass(via_roots=a, targets=init))
        res.check(ok, R, f.name, f.loc, "fseEntropy = 1 before the FSE states are started (or set by the header decoder whatever the modes)",
                  "%s decodes a block with sequences without arming Repeat_Mode for the next block (and ZSTD_decodeSeqHeaders only arms it when a table description "
                  "was read): a block in Predefined_Mode or RLE_Mode followed by a block in Repeat_Mode - valid, and what ZSTD_c_targetCBlockSize produces - is refused "
                  "with corruption_detected" % f.name)
    res.need(R, 4)


def run(tier):
    res = Result("C04", tier)
    tus, info = extract(["decompress", "common", "compress"])
    prog = Program(tus)
    res.info = info
    n = predefined_tables(prog, res)
    res.count("predefined_table_cells", n)
    variant_agreement(prog, res)
    dispatch_wrappers(prog, res)
    one_sequence_decoder(prog, res)
    output_limit_selection(prog, res)
    x2_fast_loop_bound(prog, res)
    format_exact_huffman_entry(prog, res)
    block_maximum_size_on_every_path(prog, res)
    repeat_mode_armed_by_any_sequences_block(prog, res)
    return res.finish(
        explanation="The 160 cells of LL/OF/ML_defaultDTable are compared with the table obtained by running the "
                    "format document's construction algorithm (re-implemented in the checker from "
                    "doc/zstd_compression_format.md) on the document's default distributions, with base/extra-bit "
                    "values taken from the document's code tables; the library's code tables and default norms are "
                    "compared with the document; decoder variants must carry identical guard sets; bmi2/default "
                    "wrappers must be pure forwards; block decoding runs exactly one sequence decoder.",
        not_decided="equality with an independent decoder on all valid frames; the assembly Huffman loop; CPU dispatch results",
        assumptions=["the format document is the specification"])
