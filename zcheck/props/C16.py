"""C16 — parameter interface contract: bounds, stickiness, reset and stage rules.
Decided statically: the parameter table itself (T6 exhaustiveness by enumerator value,
per-case bound-check dominance naming the case's own parameter, set/get path agreement),
stage gating (T3), reset coverage (T13), level tables within bounds (T7).
Not decided: persistence of a parameter's effect as observed in emitted frames."""
from ..facts import extract, Broken
from ..ir import Program, walk, is_call, strip_casts, const_val, access_path
from ..report import Result
from ..rules import guards, reset
from ..rules.guards import Want, cond_edges, mentions


def case_labels(f):
    """{value: block id} for every `case` label of f (all switches), plus default block(s)."""
    cases, defaults = {}, []
    for bid, b in f.blocks.items():
        lab = b.get("label")
        if not lab:
            continue
        if lab["k"] == "case" and "v" in lab:
            cases[lab["v"]] = bid
        elif lab["k"] == "default":
            defaults.append(bid)
    return cases, defaults


def enum_values(prog, name):
    vals = {}
    for n, v in prog.enum(name)["items"]:
        vals.setdefault(v, []).append(n)
    return vals


def region(f, start_block):
    return f.flow([(start_block, 0)])


def store_roots_in(f, nodes, root_param_index):
    """roots inside `nodes` that assign through the given pointer parameter."""
    out = []
    for (b, i) in sorted(nodes):
        if i >= len(f.blocks[b]["el"]):
            continue
        r = f.blocks[b]["el"][i]
        for x in walk(r):
            if x.get("k") == "asg" or (x.get("k") == "un" and x.get("op", "").endswith(("++", "--"))):
                lhs = x.get("lhs") or x.get("e")
                p = access_path(lhs)
                if p and p[0][0] == "p" and p[0][1] == root_param_index and len(p) > 1:
                    out.append((b, i, x))
    return out


def is_bool_normalisation(f, rhs, value_param):
    """rhs is (value != 0), !value, !!value possibly cast — the stored value cannot be out of range."""
    r = strip_casts(f.resolve_x(rhs))
    if r is None:
        return False
    if r.get("k") == "bin" and r.get("op") in ("!=", "==") and 0 in (const_val(r["lhs"]), const_val(r["rhs"])):
        other = strip_casts(r["rhs"] if const_val(r["lhs"]) == 0 else r["lhs"])
        return other.get("k") == "ref" and other.get("rk") == "p" and other.get("pi") == value_param
    if r.get("k") == "un" and r.get("op") == "!":
        e = strip_casts(r["e"])
        while e is not None and e.get("k") == "un" and e.get("op") == "!":
            e = strip_casts(e["e"])
        return e is not None and e.get("k") == "ref" and e.get("rk") == "p" and e.get("pi") == value_param
    return False


def check_param_of(f, g, within, clamp):
    """for a guard site: the parameter id (int value, or 'switchvar') its bound check names."""
    c = g.cond
    call = None
    if c is not None and c.get("k") == "call":
        if c.get("c") in within:
            call = c
        elif (c.get("c") or "").endswith("isError"):
            a = strip_casts(c["a"][0]) if c.get("a") else None
            if a is not None and a.get("k") == "ref" and a.get("rk") in ("l", "sl"):
                d = f.single_def(a["n"])
                d = strip_casts(d) if d is not None else None
                if d is not None and d.get("k") == "call" and d.get("c") in clamp:
                    call = d
            elif a is not None and a.get("k") == "call" and a.get("c") in clamp:
                call = a
    if call is None or not call.get("a"):
        return None
    a0 = strip_casts(call["a"][0])
    if a0.get("k") == "ref" and a0.get("rk") == "p":
        return "switchvar"
    v = const_val(a0)
    return v


def per_case_guards(prog, res, rule, fname, enum_name, obj_param, switch_param, value_param, within, clamp, names):
    f = prog.fn(fname)
    cases, _ = case_labels(f)
    sites = guards.guard_sites(f)
    zero_default = cond_edges(f, lambda c: c.get("k") == "bin" and c["op"] == "!=" and 0 in (const_val(c["lhs"]), const_val(c["rhs"]))
                              and any(y.get("k") == "ref" and y.get("rk") == "p" and y.get("pi") == value_param for y in walk(c)), "false")
    n = 0
    for v, bid in sorted(cases.items()):
        pname = "/".join(names.get(v, ["?%d" % v]))
        nodes = region(f, bid)
        stores = store_roots_in(f, nodes, obj_param)
        if not stores:
            continue
        own, foreign = [], []
        for g in sites:
            if (g.bid, 0) not in nodes and not any(nb == g.bid for nb, _ in nodes):
                continue
            pv = check_param_of(f, g, within, clamp)
            if pv is None:
                continue
            if pv == "switchvar" or pv == v:
                own.append(g)
            else:
                foreign.append((g, pv))
        for b, i, x in stores:
            n += 1
            lhs = x.get("lhs") or x.get("e")
            fld = ".".join(el[2] for el in access_path(lhs) if el[0] == ".")
            key = "%s:%s->%s" % (fname, pname, fld)
            if x.get("k") == "asg" and is_bool_normalisation(f, x["rhs"], value_param):
                res.ok(rule, key, "%s:%s" % (f.file, x.get("l")), "stores a boolean normalisation of value")
                continue
            edges = {(g.bid, g.ok) for g in own}
            ok = bool(own) and f.must_pass(via_edges=edges | set(zero_default), starts=[(bid, 0)], targets=[(b, i)])
            detail = "store dominated by the bounds test of its own parameter"
            bad = "value stored into %s without a dominating bounds test naming %s" % (fld, pname)
            if foreign and not own:
                bad += " (the test present names parameter %s instead)" % ", ".join(
                    "/".join(names.get(pv, [str(pv)])) for _, pv in foreign)
            # the 0 = default escape is only legitimate when 0 is stored as is
            res.check(ok, rule, key, "%s:%s" % (f.file, x.get("l")), detail, bad)
    return n


def setget_paths(prog, res, rule, setter, getter, obj_param_set, obj_param_get, names, transforms):
    fs, fg = prog.fn(setter), prog.fn(getter)
    cs, _ = case_labels(fs)
    cg, _ = case_labels(fg)
    for v in sorted(set(cs) & set(cg)):
        pname = "/".join(names.get(v, ["?%d" % v]))
        sp = set()
        for b, i, x in store_roots_in(fs, region(fs, cs[v]), obj_param_set):
            sp.add(tuple(el[2] for el in access_path(x.get("lhs") or x.get("e")) if el[0] == "."))
        gp = set()
        for (b, i) in region(fg, cg[v]):
            if i >= len(fg.blocks[b]["el"]):
                continue
            for x in walk(fg.blocks[b]["el"][i]):
                if x.get("k") == "asg":
                    for y in walk(x["rhs"]):
                        p = access_path(y) if y.get("k") == "mem" else None
                        if p and p[0][0] == "p" and p[0][1] == obj_param_get:
                            gp.add(tuple(el[2] for el in p if el[0] == "."))
        # keep maximal paths only
        gp = {p for p in gp if not any(q != p and q[:len(p)] == p for q in gp)}
        if not sp and not gp:
            continue
        ok = sp == gp or (pname in transforms and sp and gp)
        res.check(ok, rule, "%s/%s:%s" % (setter, getter, pname), fs.loc,
                  "set stores and get loads %s" % sorted(".".join(p) for p in sp),
                  "set stores %s but get loads %s" % (sorted(".".join(p) for p in sp), sorted(".".join(p) for p in gp)))


GATED_FIELDS = {"requestedParams", "cdict", "localDict", "prefixDict", "pool", "pledgedSrcSizePlusOne"}
GATED_WRITERS = ("ZSTD_CCtx_setParameter", "ZSTD_CCtx_setParametersUsingCCtxParams", "ZSTD_CCtx_setPledgedSrcSize",
                 "ZSTD_CCtx_loadDictionary_advanced", "ZSTD_CCtx_refCDict", "ZSTD_CCtx_refThreadPool",
                 "ZSTD_CCtx_refPrefix_advanced")
UNGATED_OK = {
    "ZSTD_clearAllDicts": "static helper; callers are gated or run at init",
    "ZSTD_CCtx_getParameter": "passes &requestedParams to the getter (read only)",
    "ZSTD_initLocalDict": "static; runs inside ZSTD_CCtx_init_compressStream2 at frame start",
    "ZSTD_CCtx_reset": "checked separately (parameter branch gated, session branch sets the stage)",
    "ZSTD_resetCCtx_internal": "static; frame initialisation",
    "ZSTD_initCStream_internal": "deprecated init: ZSTD_CCtx_reset(session_only) first (checked below)",
    "ZSTD_initCStream_usingCDict_advanced": "deprecated init: ZSTD_CCtx_reset(session_only) first (checked below)",
    "ZSTD_initCStream_advanced": "deprecated init: ZSTD_CCtx_reset(session_only) first (checked below)",
    "ZSTD_CCtx_init_compressStream2": "static; frame initialisation (stage is zcss_init by its only caller's test)",
    "ZSTD_compress2": "after ZSTD_CCtx_reset(session_only); saves/restores the two buffer modes",
    "ZSTD_registerSequenceProducer": "upstream sets the producer without a stage test; it is copied to appliedParams "
                                     "only at the next frame initialisation",
}


def stage_gating(prog, res):
    R = "T3.stage-gate"
    f = prog.fn("ZSTD_CCtx_setParameter")
    deleg = f.call_roots("ZSTD_CCtxParams_setParameter")
    init_edges = cond_edges(f, lambda c: c.get("k") == "bin" and c["op"] == "!=" and mentions(fields=["streamStage"])(c), "false")
    auth = cond_edges(f, lambda c: is_call(c, "ZSTD_isUpdateAuthorized"), "true")
    ok = bool(deleg) and len(init_edges) == 1 and len(auth) == 1 and f.must_pass(via_edges=init_edges + auth, targets=deleg)
    res.check(ok, R, "ZSTD_CCtx_setParameter", f.loc,
              "delegation to CCtxParams_setParameter only in zcss_init or for an update-authorized parameter",
              "a parameter can be changed mid-frame without passing the stage / isUpdateAuthorized test")
    for name in GATED_WRITERS[1:]:
        g = prog.fn(name)
        wp = reset.written_paths(g, "ZSTD_CCtx_s")
        targets = [(b, i) for p, sites in wp.items() if p[0] in GATED_FIELDS for b, i, _ in sites]
        calls = g.call_roots(("ZSTD_clearAllDicts", "ZSTD_initLocalDict"))
        guards.require(g, res, R, name, Want("stage_wrong", "!=", {"f:streamStage"}, {"e:zcss_init"}), targets + calls,
                       why="(the setting could change in the middle of a frame)")
    # every writer of the gated fields is known
    for fn in prog.fns_in("lib/compress/zstd_compress.c"):
        wp = reset.written_paths(fn, "ZSTD_CCtx_s", prog=prog)
        if not any(p[0] in GATED_FIELDS for p in wp):
            continue
        if fn.name in GATED_WRITERS:
            continue
        res.check(fn.name in UNGATED_OK, R + ".writers", fn.name, fn.loc, UNGATED_OK.get(fn.name, ""),
                  "new function writes %s of the context without being stage-gated or on the frozen init/reset list"
                  % sorted({p[0] for p in wp if p[0] in GATED_FIELDS}))
    for name in ("ZSTD_initCStream_internal", "ZSTD_initCStream_usingCDict_advanced", "ZSTD_initCStream_advanced", "ZSTD_compress2"):
        g = prog.fn(name)
        wp = reset.written_paths(g, "ZSTD_CCtx_s")
        targets = [(b, i) for p, sites in wp.items() if p[0] in GATED_FIELDS for b, i, _ in sites]
        rs = g.call_roots("ZSTD_CCtx_reset")
        res.check(bool(rs) and g.must_pass(via_roots=rs, targets=targets), R, name + ":reset-first", g.loc,
                  "ZSTD_CCtx_reset(session) precedes the parameter writes", "parameters written before the session reset")
    s2 = prog.fn("ZSTD_compressStream2")
    wp = reset.written_paths(s2, "ZSTD_CCtx_s", prog=prog)
    targets = [(b, i) for p, sites in wp.items() if p[0] in GATED_FIELDS for b, i, _ in sites]
    ini = cond_edges(s2, lambda c: c.get("k") == "bin" and c["op"] == "==" and mentions(fields=["streamStage"])(c), "true")
    res.check(bool(ini) and s2.must_pass(via_edges=ini, targets=targets), R, "ZSTD_compressStream2:init-only",
              s2.loc, "requestedParams touched only on the streamStage == zcss_init edge", "requestedParams written mid-frame")
    # reset: parameter branch gated; session branch writes the stage
    r = prog.fn("ZSTD_CCtx_reset")
    tg = r.call_roots(("ZSTD_clearAllDicts", "ZSTD_CCtxParams_reset"))
    res.check(len(tg) == 2, R, "ZSTD_CCtx_reset:drops-dicts-and-params", r.loc, "parameter reset clears dictionaries and parameters",
              "parameter reset no longer calls both ZSTD_clearAllDicts and ZSTD_CCtxParams_reset")
    guards.require(r, res, R, "ZSTD_CCtx_reset:params-only-in-init", Want("stage_wrong", "!=", {"f:streamStage"}, {"e:zcss_init"}), tg)
    # decoder side
    for name, fields in (("ZSTD_DCtx_setParameter", None), ("ZSTD_DCtx_setMaxWindowSize", ("maxWindowSize",)),
                         ("ZSTD_DCtx_refDDict", None), ("ZSTD_DCtx_loadDictionary_advanced", None)):
        g = prog.fn(name)
        wp = reset.written_paths(g, "ZSTD_DCtx_s")
        targets = [(b, i) for p, sites in wp.items() for b, i, _ in sites]
        targets += g.call_roots(("ZSTD_clearDict", "ZSTD_DDictHashSet_addDDict", "ZSTD_createDDict_advanced"))
        guards.require(g, res, R, name, Want("stage_wrong", "!=", {"f:streamStage"}, {"e:zdss_init"}), targets)
    d = prog.fn("ZSTD_DCtx_reset")
    tg = d.call_roots(("ZSTD_clearDict", "ZSTD_DCtx_resetParameters"))
    res.check(len(tg) == 2, R, "ZSTD_DCtx_reset:drops-dict-and-params", d.loc, "parameter reset clears dictionary and parameters",
              "decoder parameter reset no longer calls both ZSTD_clearDict and ZSTD_DCtx_resetParameters")
    guards.require(d, res, R, "ZSTD_DCtx_reset:params-only-in-init", Want("stage_wrong", "!=", {"f:streamStage"}, {"e:zdss_init"}), tg)
    res.need(R, 18)


UPDATABLE = {"ZSTD_c_compressionLevel", "ZSTD_c_hashLog", "ZSTD_c_chainLog", "ZSTD_c_searchLog", "ZSTD_c_minMatch",
             "ZSTD_c_targetLength", "ZSTD_c_strategy"}


def update_authorized(prog, res, names):
    """evaluate the predicate for every parameter value (finite enum): by constant folding over its CFG when it is a pure
    function of its parameter (switch, range test, table of comparisons ...), else by its case labels"""
    f = prog.fn("ZSTD_isUpdateAuthorized")
    ones, unknown = set(), []
    for v in sorted(names):
        r = f.eval_pure({0: v})
        if r is None:
            unknown.append(v)
        elif r:
            ones.add(v)
    if unknown:
        cases, _ = case_labels(f)
        for v in unknown:
            bid = cases.get(v)
            if bid is None:
                continue
            for (b, i) in f.flow([(bid, 0)]):
                if i < len(f.blocks[b]["el"]):
                    r = f.blocks[b]["el"][i]
                    if r.get("k") == "ret" and const_val(r.get("e")) == 1:
                        ones.add(v)
    got = {n for v in ones for n in names.get(v, [])}
    res.check(got == UPDATABLE, "T6.update-authorized", "ZSTD_isUpdateAuthorized", f.loc,
              "evaluates to 1 exactly for the 7 parameters zstd.h documents as updatable mid-frame (%d values folded, %d by case label)" % (len(names) - len(unknown), len(unknown)),
              "mid-frame updatable set changed: %s" % sorted(got ^ UPDATABLE))
    return len(unknown) == 0


def bounds_table(prog, res, fname, enum_name, names):
    """every case of getBounds writes both bounds; constants are ordered; returns {value: (lo, hi)}."""
    f = prog.fn(fname)
    cases, _ = case_labels(f)
    out = {}
    for v, bid in sorted(cases.items()):
        lo = hi = None
        nlo = nhi = 0
        for (b, i) in f.flow([(bid, 0)]):
            if i >= len(f.blocks[b]["el"]):
                continue
            for x in walk(f.blocks[b]["el"][i]):
                if x.get("k") == "asg":
                    t = strip_casts(x["lhs"])
                    if t.get("k") == "mem" and t["f"] == "lowerBound":
                        lo, nlo = const_val(x["rhs"]), nlo + 1
                    if t.get("k") == "mem" and t["f"] == "upperBound":
                        hi, nhi = const_val(x["rhs"]), nhi + 1
        pname = "/".join(names.get(v, [str(v)]))
        ok = nlo >= 1 and nhi >= 1 and (lo is None or hi is None or lo <= hi)
        res.check(ok, "T6.bounds-table", "%s:%s" % (fname, pname), f.loc, "bounds [%s, %s]" % (lo, hi),
                  "case does not set both bounds, or lower > upper (%s, %s)" % (lo, hi))
        out[v] = (lo, hi)
    return out


def level_tables(prog, res, cb, cvals):
    """T7: every row of ZSTD_defaultCParameters lies within the advertised bounds."""
    g = prog.glob("ZSTD_defaultCParameters")
    order = ["ZSTD_c_windowLog", "ZSTD_c_chainLog", "ZSTD_c_hashLog", "ZSTD_c_searchLog", "ZSTD_c_minMatch",
             "ZSTD_c_targetLength", "ZSTD_c_strategy"]
    rec = prog.record("ZSTD_compressionParameters")
    fld = [x["n"] for x in rec["fields"]]
    res.check(fld == ["windowLog", "chainLog", "hashLog", "searchLog", "minMatch", "targetLength", "strategy"],
              "T7.level-table", "ZSTD_compressionParameters:field-order", rec["file"], "field order matches the table columns",
              "ZSTD_compressionParameters fields reordered: %s" % fld)
    byname = {n: v for v, ns in cvals.items() for n in ns}
    tiers = g["init"]["a"]
    nrows = 0
    maxlevel = None
    for ti, tier in enumerate(tiers):
        rows = tier["a"]
        maxlevel = len(rows) - 1
        for li, row in enumerate(rows):
            vals = [const_val(c) for c in row["a"]]
            bad = []
            for col, pn in enumerate(order):
                lo, hi = cb[byname[pn]]
                if vals[col] is None or lo is None or hi is None or not (lo <= vals[col] <= hi):
                    bad.append("%s=%s not in [%s,%s]" % (pn, vals[col], lo, hi))
            nrows += 1
            res.check(not bad, "T7.level-table", "tier%d:level%d" % (ti, li), "lib/compress/clevels.h", "row within bounds", "; ".join(bad))
    mx = prog.fn("ZSTD_maxCLevel")
    rv = [const_val(r.get("e")) for b, i, r in mx.returns()]
    res.check(rv == [maxlevel], "T7.level-table", "ZSTD_maxCLevel", mx.loc, "returns %s = rows-1" % maxlevel,
              "ZSTD_maxCLevel returns %s but the table has levels 0..%s" % (rv, maxlevel))
    res.check(len(tiers) == 4, "T7.level-table", "tiers", "lib/compress/clevels.h", "4 source-size tiers", "tiers: %d" % len(tiers))
    res.need("T7.level-table", 90)


def cparams_coverage(prog, res):
    """T9: each of the 7 cParams fields is handled, with its own enumerator, by check/clamp/set/override."""
    fields = [x["n"] for x in prog.record("ZSTD_compressionParameters")["fields"]]
    for fname in ("ZSTD_checkCParams", "ZSTD_clampCParams", "ZSTD_CCtx_setCParams", "ZSTD_overrideCParams"):
        f = prog.fn(fname)
        seen = {x["f"] for _, _, x in f.events(lambda y: y.get("k") == "mem" and y.get("rec") == "ZSTD_compressionParameters")}
        res.check(set(fields) <= seen, "T9.cparams-coverage", fname, f.loc, "all 7 cParams fields handled",
                  "fields not handled: %s" % sorted(set(fields) - seen))
    # pairing field <-> enumerator in check / clamp
    want = {"windowLog": "ZSTD_c_windowLog", "chainLog": "ZSTD_c_chainLog", "hashLog": "ZSTD_c_hashLog",
            "searchLog": "ZSTD_c_searchLog", "minMatch": "ZSTD_c_minMatch", "targetLength": "ZSTD_c_targetLength",
            "strategy": "ZSTD_c_strategy"}
    for fname, callee in (("ZSTD_checkCParams", "ZSTD_cParam_withinBounds"), ("ZSTD_CCtx_setCParams", "ZSTD_CCtx_setParameter")):
        f = prog.fn(fname)
        pairs = {}
        for b, i, c in f.calls(callee):
            en = [y["n"] for a in c["a"] for y in walk(a) if y.get("k") == "ref" and y.get("rk") == "e"]
            fl = [y["f"] for a in c["a"] for y in walk(a) if y.get("k") == "mem" and y.get("rec") == "ZSTD_compressionParameters"]
            if en and fl:
                pairs[fl[0]] = en[0]
        res.check(pairs == want, "T9.cparams-coverage", fname + ":pairs", f.loc, "each field checked against its own parameter",
                  "field/parameter pairing changed: %s" % {k: v for k, v in pairs.items() if want.get(k) != v})


def reset_coverage(prog, res):
    f = prog.fn("ZSTD_CCtxParams_init")
    ms = [c for b, i, c in f.calls(("memset", "__builtin_memset"))]
    ok = len(ms) == 1 and any(x.get("k") == "sizeof" for x in walk(ms[0]["a"][2]))
    res.check(ok, "T13.param-reset", "ZSTD_CCtxParams_init:memset-whole", f.loc, "whole parameter object zeroed first",
              "ZSTD_CCtxParams_init no longer memsets the whole object")
    cl = prog.fn("ZSTD_clearAllDicts")
    wp = {p[0] for p in reset.written_paths(cl, "ZSTD_CCtx_s")}
    res.check({"localDict", "prefixDict", "cdict"} <= wp, "T13.param-reset", "ZSTD_clearAllDicts", cl.loc,
              "clears localDict, prefixDict and cdict", "ZSTD_clearAllDicts no longer clears %s" % sorted({"localDict", "prefixDict", "cdict"} - wp))
    # ... on EVERY path: an early return ("nothing referenced, nothing owned") leaves a dictionary that was loaded but not yet
    # digested (localDict.dict with cdict still NULL) in force after a parameter reset
    def clears(fn, fld):
        return fn.find_roots(lambda x: (x.get("k") == "asg" and strip_casts(x["lhs"]).get("k") == "mem" and fld in {y.get("f") for y in walk(x["lhs"]) if y.get("k") == "mem"}) or
                             (is_call(x, ("memset", "__builtin_memset", "ZSTD_memset")) and x.get("a") and any(y.get("k") == "mem" and y.get("f") == fld for y in walk(x["a"][0]))))
    def known_empty(fn, fld):
        """edges on which (a member of) the field was just tested to be NULL / zero: nothing to clear there"""
        has = lambda a: any(y.get("k") == "mem" and y.get("f") == fld for y in fn.walk_resolved(a))
        return guards.rel_edges(fn, has, "==", lambda b_: const_val(strip_casts(b_)) == 0, truth=True) + \
            guards.truthy_edges(fn, lambda c: c.get("k") == "mem" and any(y.get("f") == fld for y in walk(c) if y.get("k") == "mem"), truth=False)
    for fld in ("localDict", "prefixDict", "cdict"):
        wr = clears(cl, fld)
        res.check(bool(wr) and cl.must_pass(via_roots=wr, via_edges=known_empty(cl, fld)), "T13.param-reset", "ZSTD_clearAllDicts:%s-on-every-path" % fld, cl.loc,
                  "every path through ZSTD_clearAllDicts clears %s" % fld,
                  "ZSTD_clearAllDicts has a path that returns without clearing %s: a dictionary given with ZSTD_CCtx_loadDictionary and not yet used survives "
                  "ZSTD_CCtx_reset(ZSTD_reset_parameters) / loadDictionary(NULL) and is applied to the next frame" % fld)
    dcl = prog.fn("ZSTD_clearDict")
    for fld in ("ddictLocal", "ddict", "dictUses"):
        wr = clears(dcl, fld)
        res.check(bool(wr) and dcl.must_pass(via_roots=wr, via_edges=known_empty(dcl, fld)), "T13.param-reset", "ZSTD_clearDict:%s-on-every-path" % fld, dcl.loc,
                  "every path through ZSTD_clearDict clears %s" % fld, "ZSTD_clearDict has a path that returns without clearing %s" % fld)
    st = prog.fn("ZSTD_DCtx_setParameter")
    rp = prog.fn("ZSTD_DCtx_resetParameters")
    written = {p for p in reset.written_paths(st, "ZSTD_DCtx_s")}
    restored = {p for p in reset.written_paths(rp, "ZSTD_DCtx_s")}
    for p in sorted(written):
        res.check(any(reset.covers(q, p) for q in restored), "T13.param-reset", "ZSTD_DCtx_resetParameters:" + ".".join(p), rp.loc,
                  "decoder parameter restored to its default by the parameter reset",
                  "field %s set by ZSTD_DCtx_setParameter is not restored by ZSTD_DCtx_resetParameters" % ".".join(p))
    # "a parameter reset drops dictionaries" on the decoder: every field of the context that can hold a DDict reference
    # (derived from the record: its type names ZSTD_DDict) is cleared by ZSTD_DCtx_reset or by the helpers it calls
    rs = prog.fn("ZSTD_DCtx_reset")
    cleared = {p[0] for p in reset.written_paths(rs, "ZSTD_DCtx_s")}
    for cal in sorted(rs.callees()):
        if prog.has_fn(cal) and prog.fn(cal).file.endswith("zstd_decompress.c"):
            cleared |= {p[0] for p in reset.written_paths(prog.fn(cal), "ZSTD_DCtx_s")}
    holders = [fl["n"] for fl in prog.record("ZSTD_DCtx_s")["fields"] if "ZSTD_DDict" in (fl.get("t") or "")]
    res.check(len(holders) >= 3, "T13.param-reset", "ZSTD_DCtx_reset:dictionary-holders", rs.loc, "DDict-holding fields: %s" % holders,
              "DDict-holding fields of ZSTD_DCtx_s: %s" % holders)
    for h in holders:
        res.check(h in cleared, "T13.param-reset", "ZSTD_DCtx_reset:drops:" + h, rs.loc, "cleared by the parameter reset",
                  "ZSTD_DCtx_reset(parameters) does not clear dctx->%s: dictionaries referenced before the reset stay in use after it "
                  "(and are read after the caller freed them)" % h)
    res.need("T13.param-reset", 12)


def simple_api(prog, res):
    for name in ("ZSTD_compress", "ZSTD_compressCCtx", "ZSTD_compress_usingDict", "ZSTD_compress_usingCDict"):
        f = prog.fn(name)
        reads = [x for _, _, x in f.events(lambda y: y.get("k") == "mem" and y["f"] == "requestedParams")]
        res.check(not reads, "T10.simple-api", name, f.loc, "does not read cctx->requestedParams",
                  "simple API now reads the advanced parameters")
    f = prog.fn("ZSTD_compress_usingDict")
    res.check("ZSTD_getParams_internal" in f.callees() or "ZSTD_getParams" in f.callees(), "T10.simple-api",
              "ZSTD_compress_usingDict:params-from-level", f.loc, "parameters derived from the level argument",
              "parameters no longer derived from the compressionLevel argument")


def all_or_none(prog, res, E):
    """T3: `a rejected call changes nothing` for the composite setters: the value validation
    that can still reject precedes the first mutating call, and its result is tested."""
    from ..rules import errors
    R = "T3.validate-before-write"
    for fname, validator, mutators in (
            ("ZSTD_CCtx_setCParams", "ZSTD_checkCParams", ("ZSTD_CCtx_setParameter",)),
            ("ZSTD_CCtx_setParams", "ZSTD_checkCParams", ("ZSTD_CCtx_setFParams", "ZSTD_CCtx_setCParams", "ZSTD_CCtx_setParameter"))):
        f = prog.fn(fname)
        v = f.call_roots(validator)
        m = f.call_roots(mutators)
        ok = bool(v) and bool(m) and f.must_pass(via_roots=v, targets=m)
        res.check(ok, R, fname, f.loc, "%s precedes every mutating call: all parameters are updated or none" % validator,
                  "%s can modify the context before %s has accepted the values: a rejected call leaves a partial update"
                  % (fname, validator))
    f = prog.fn("ZSTD_DCtx_setMaxWindowSize")
    wr = [(b, i) for p, sites in reset.written_paths(f, "ZSTD_DCtx_s").items() for b, i, _ in sites]
    for op in ("<", ">"):
        guards.require(f, res, R, "ZSTD_DCtx_setMaxWindowSize:%s" % op, Want("parameter_outOfBound", op, {"p:1"}, set()), wr)
    # the validators' and setters' results are tested (T4 restricted to the parameter API)
    scope = [prog.fn(n) for n in ("ZSTD_CCtx_setCParams", "ZSTD_CCtx_setParams", "ZSTD_CCtx_setFParams",
                                  "ZSTD_CCtx_setParameter", "ZSTD_CCtxParams_setParameter", "ZSTD_CCtx_setParametersUsingCCtxParams",
                                  "ZSTD_DCtx_setParameter", "ZSTD_DCtx_setFormat", "ZSTD_DCtx_setMaxWindowSize")
             if prog.has_fn(n)]
    from .t4_common import EXCEPTIONS
    errors.error_discipline(prog, res, "T4.param-api", scope, E, EXCEPTIONS)
    res.need("T4.param-api", 8)


def temporary_overrides_restored(prog, res):
    """T3 (save / override / restore bracket): a function that saves a requested parameter in a local, overrides it and
    writes the local back must write it back on EVERY exit that follows the override — an early error return between
    override and restore leaves the caller's sticky parameter changed by a call that failed ("a rejected call changes
    nothing").  Brackets are discovered from the code: field F of requestedParams with `L = ...F` , `F = <other>` , `F = L`."""
    R = "T3.override-is-restored"
    n = 0
    for f in prog.fns_in("compress/zstd_compress.c"):
        asg = [(b, i, x) for b, i, x in f.events(lambda y: y.get("k") == "asg" and y.get("op") == "=")
               if strip_casts(x["lhs"]).get("k") == "mem" and any(y.get("f") == "requestedParams" for y in walk(x["lhs"]))]
        byfield = {}
        for b, i, x in asg:
            byfield.setdefault(strip_casts(x["lhs"])["f"], []).append((b, i, x))
        for fld, lst in byfield.items():
            restores, overrides = [], []
            for b, i, x in lst:
                r = strip_casts(f.resolve_x(x["rhs"]))
                if r is not None and r.get("k") == "ref" and r.get("rk") in ("l", "sl"):
                    d = f.single_def(r["n"])
                    if d is not None and any(y.get("k") == "mem" and y.get("f") == fld for y in f.walk_resolved(d)):
                        restores.append((b, i))
                        continue
                overrides.append((b, i))
            if not restores or not overrides:
                continue
            n += 1
            rets = [(b, i) for b, i, r in f.returns()]
            ok = f.must_pass(via_roots=restores, starts=[(b, i + 1) for b, i in overrides], targets=rets)
            res.check(ok, R, "%s:%s" % (f.name, fld), f.loc, "every return after the override of requestedParams.%s passes its restore" % fld,
                      "%s overrides requestedParams.%s and can return (e.g. on an error of the call in between) before writing the saved value back: a "
                      "failed call leaves the sticky parameter changed" % (f.name, fld))
    res.need(R, 2)


def postponed_frame_is_started(prog, res):
    """T3: with a stable input buffer, a call can accept input for a frame whose initialisation it postpones: the stage stays
    zcss_init and stableIn_notConsumed holds the byte count.  For the parameter setters that frame has started: they write
    requestedParams only on the edge where stableIn_notConsumed is zero (or for a parameter that may change mid-frame)."""
    R = "T3.stage-gate"
    for name in ("ZSTD_CCtx_setParameter", "ZSTD_CCtx_setParametersUsingCCtxParams"):
        f = prog.fn(name)
        pend = lambda a: any(y.get("k") == "mem" and y.get("f") == "stableIn_notConsumed" for y in f.walk_resolved(a))
        none = guards.rel_edges(f, pend, "!=", lambda b_: const_val(strip_casts(b_)) == 0, truth=False) + \
            guards.truthy_edges(f, lambda c: c.get("k") == "mem" and c.get("f") == "stableIn_notConsumed", truth=False)
        auth = cond_edges(f, lambda c: is_call(c, "ZSTD_isUpdateAuthorized"), "true")
        wr = f.call_roots("ZSTD_CCtxParams_setParameter") + f.find_roots(lambda x: x.get("k") == "asg" and strip_casts(x["lhs"]).get("k") == "mem" and strip_casts(x["lhs"]).get("f") == "requestedParams")
        res.check(bool(none) and bool(wr) and f.must_pass(via_edges=none + auth, targets=wr), R, name + ":postponed-frame-counts-as-started", f.loc,
                  "requestedParams is written only when no stable input is pending for a postponed frame (or the parameter may change mid-frame)",
                  "%s writes the requested parameters although stable input was already accepted for the frame (stableIn_notConsumed != 0, stage still zcss_init): "
                  "switching ZSTD_c_stableInBuffer off there drops the bytes already reported consumed from the frame" % name)


def run(tier):
    res = Result("C16", tier)
    tus, info = extract(["compress", "decompress"])
    prog = Program(tus)
    res.info = info
    cvals = enum_values(prog, "ZSTD_cParameter")
    dvals = enum_values(prog, "ZSTD_dParameter")
    res.count("cParameters", len(cvals))
    res.count("dParameters", len(dvals))
    # ---- T6 exhaustiveness by value ---------------------------------------------------------
    for fname, vals, en in (("ZSTD_cParam_getBounds", cvals, "c"), ("ZSTD_CCtx_setParameter", cvals, "c"),
                            ("ZSTD_CCtxParams_setParameter", cvals, "c"), ("ZSTD_CCtxParams_getParameter", cvals, "c"),
                            ("ZSTD_isUpdateAuthorized", cvals, "c"), ("ZSTD_dParam_getBounds", dvals, "d"),
                            ("ZSTD_DCtx_setParameter", dvals, "d"), ("ZSTD_DCtx_getParameter", dvals, "d")):
        f = prog.fn(fname)
        cases, _ = case_labels(f)
        for v, ns in sorted(vals.items()):
            decided = v in cases
            how = "has a case"
            if not decided and fname == "ZSTD_isUpdateAuthorized":
                decided = f.eval_pure({0: v}) is not None        # a predicate written without a switch still decides every value
                how = "decided by constant folding"
            res.check(decided, "T6.exhaustive", "%s:%s" % (fname, "/".join(ns)), f.loc, how,
                      "parameter %s (%d) has no case in %s" % ("/".join(ns), v, fname))
    res.need("T6.exhaustive", 38 * 5 + 7 * 3)
    cb = bounds_table(prog, res, "ZSTD_cParam_getBounds", "ZSTD_cParameter", cvals)
    bounds_table(prog, res, "ZSTD_dParam_getBounds", "ZSTD_dParameter", dvals)
    # ---- T6 per-case guard -------------------------------------------------------------------
    n = per_case_guards(prog, res, "T6.per-case-bound", "ZSTD_CCtxParams_setParameter", "ZSTD_cParameter", 0, 1, 2,
                        ("ZSTD_cParam_withinBounds",), ("ZSTD_cParam_clampBounds",), cvals)
    n += per_case_guards(prog, res, "T6.per-case-bound", "ZSTD_DCtx_setParameter", "ZSTD_dParameter", 0, 1, 2,
                         ("ZSTD_dParam_withinBounds",), (), dvals)
    res.need("T6.per-case-bound", 42)
    update_authorized(prog, res, cvals)
    setget_paths(prog, res, "T9.set-get", "ZSTD_CCtxParams_setParameter", "ZSTD_CCtxParams_getParameter", 0, 0, cvals, {})
    setget_paths(prog, res, "T9.set-get", "ZSTD_DCtx_setParameter", "ZSTD_DCtx_getParameter", 0, 0, dvals,
                 {"ZSTD_d_windowLogMax"})
    res.need("T9.set-get", 40)
    stage_gating(prog, res)
    reset_coverage(prog, res)
    cparams_coverage(prog, res)
    level_tables(prog, res, cb, cvals)
    simple_api(prog, res)
    from ..rules import errors
    all_or_none(prog, res, errors.compute_E(prog))
    # frozen guards of lib/compress for the error codes this property owns (shared inventory, split by code)
    import json as _json, os as _os
    from ..rules import guards as _guards
    _inv = [e for e in _json.load(open(_os.path.join(_os.path.dirname(_os.path.abspath(__file__)), "inv", "compress_all.json"))) if set(e["codes"]) & {'parameter_outOfBound', 'stage_wrong', 'parameter_unsupported', 'parameter_combination_unsupported', 'stabilityCondition_notRespected'}]
    _guards.check_inventory(prog, res, 'T8.frozen-guards(parameter,stage)', _inv)
    res.need('T8.frozen-guards(parameter,stage)', 50)
    temporary_overrides_restored(prog, res)
    postponed_frame_is_started(prog, res)
    return res.finish(
        explanation="The parameter table decided cell by cell from the AST/CFG: every ZSTD_cParameter/ZSTD_dParameter "
                    "value has a case in bounds/set/get (and isUpdateAuthorized); every store of a setter case is "
                    "dominated by a bounds test naming that case's own parameter (or stores a boolean normalisation); "
                    "set and get address the same field; setters are stage-gated; parameter reset covers what setters "
                    "write; compression-level rows lie within the advertised bounds.",
        not_decided="that an accepted parameter's effect persists across frames as observed in emitted data",
        assumptions=["ZSTD_MULTITHREAD build: the #ifndef ZSTD_MULTITHREAD arms of 4 cases are not in this configuration"])
