"""C12 — thread pool: each accepted job runs exactly once; join, resize, free are safe.
Static clauses decided: lockset (T1), pairing / wait loops / must-signal (T2), exactly-once
structure and destroy order (T3), ring index (T12).  See DESIGN.md §4 C12."""
from ..facts import extract, Broken
from ..ir import Program, walk, is_call, strip_casts, access_path, const_val
from ..report import Result
from ..rules import locks

POOL_MUTEX = ("POOL_ctx_s", "queueMutex")
GUARDED = {("POOL_ctx_s", f): POOL_MUTEX for f in
           ("queueHead", "queueTail", "queueEmpty", "numThreadsBusy", "shutdown", "threadLimit", "queue")}
# semantic exceptions, each confirmed by reading
EXC = {
    "POOL_create_advanced": "pre-publication: constructor; workers started in its loop block on queueEmpty "
                            "(short-circuit before threadLimit) until the first POOL_add, which locks queueMutex "
                            "after create returned",
    ("POOL_free", "queue"): "quiescent: after POOL_join joined every worker",
    ("POOL_sizeof", "queue"): "reads no guarded field (queueSize/threadCapacity only)",
}
SIGNALS = [
    # rec, field, kind, cond var, exempt functions, note
    ("POOL_ctx_s", "queueTail", "any", "queuePopCond", {"POOL_create_advanced"}, "enqueue wakes a popper"),
    ("POOL_ctx_s", "queueHead", "any", "queuePushCond", {"POOL_create_advanced"}, "dequeue wakes a pusher"),
    ("POOL_ctx_s", "numThreadsBusy", "dec", "queuePushCond", {"POOL_create_advanced"},
     "job finished wakes POOL_joinJobs / hand-off POOL_add"),
    ("POOL_ctx_s", "shutdown", "any", "queuePushCond", {"POOL_create_advanced"}, "shutdown wakes pushers"),
    ("POOL_ctx_s", "shutdown", "any", "queuePopCond", {"POOL_create_advanced"}, "shutdown wakes workers"),
    ("POOL_ctx_s", "threadLimit", "any", "queuePopCond", {"POOL_create_advanced"}, "resize wakes workers"),
    ("POOL_ctx_s", "threadLimit", "any", "queuePushCond", {"POOL_create_advanced"}, "a larger limit is room for a blocked POOL_add (isQueueFull reads threadLimit)"),
]
# wait-predicate fields that need no wake-up row, each confirmed by reading
WAKE_EXEMPT = {
    ("queueEmpty", "queuePushCond"): "set together with queueHead on dequeue (row queueHead); cleared on enqueue, which cannot satisfy a poster or a joiner",
    ("queueTail", "queuePushCond"): "enqueue only fills the queue: it cannot make room nor complete a join",
    ("queueEmpty", "queuePopCond"): "cleared together with queueTail on enqueue (row queueTail); set on dequeue, which cannot satisfy a worker",
    ("numThreadsBusy", "queuePopCond"): "the worker that decrements it re-tests its own predicate at the top of its loop before it can sleep",
    ("queueHead", "queuePopCond"): "dequeue only empties the queue",
}

AIO_MUTEX = ("IOPoolCtx_t", "ioJobsMutex")
AIO_GUARDED = {("IOPoolCtx_t", "availableJobs"): AIO_MUTEX, ("IOPoolCtx_t", "availableJobsCount"): AIO_MUTEX,
               ("ReadPoolCtx_t", "completedJobs"): AIO_MUTEX, ("ReadPoolCtx_t", "completedJobsCount"): AIO_MUTEX}
AIO_EXC = {
    "AIO_IOPool_init": "pre-publication: constructor, before the pool can run a job",
    "AIO_IOPool_destroy": "quiescent: after AIO_IOPool_join / POOL_free",
    "AIO_ReadPool_create": "pre-publication: constructor",
    "AIO_ReadPool_free": "quiescent: after AIO_ReadPool_releaseAllCompletedJobs/join",
    "AIO_IOPool_setFile": "quiescent: AIO_IOPool_join precedes (checked as a T3 instance)",
    "AIO_ReadPool_setFile": "quiescent: AIO_IOPool_join precedes through AIO_IOPool_setFile / explicit join",
    "AIO_ReadPool_releaseAllCompletedJobs": "quiescent: only caller AIO_ReadPool_setFile passes AIO_IOPool_join "
                                            "first (checked as T3.aio-quiescent)",
    ("AIO_ReadPool_startReading", "availableJobsCount"):
        "single-thread: the read pool's available list is touched only by the consumer thread; the read worker "
        "never reaches acquireJob/releaseIoJob (checked as T10.aio-read-worker)",
}


def _write_target(x):
    if x.get("k") == "asg":
        return strip_casts(x["lhs"])
    if x.get("k") == "un" and x.get("op", "").endswith(("++", "--")):
        return strip_casts(x["e"])
    return None


def tryadd_verdict_under_shutdown(prog, res):
    """T3: POOL_add_internal drops the job when the pool is shutting down; POOL_tryAdd may therefore answer `accepted` (1)
    only on the edge where shutdown is clear."""
    R = "T3.exactly-once"
    f = prog.fn("POOL_tryAdd")
    acc = [(b, i) for b, i, r in f.returns() if const_val(r.get("e")) == 1]
    from ..rules import guards as _g4
    alive = _g4.truthy_edges(f, lambda c: c.get("k") == "mem" and c.get("f") == "shutdown", truth=False)
    res.check(bool(acc) and bool(alive) and f.must_pass(via_edges=alive, targets=acc), R, "POOL_tryAdd:accepted-only-while-alive", f.loc,
              "returns 1 only on the !shutdown edge", "POOL_tryAdd can answer `accepted` while the pool is shutting down, although POOL_add_internal drops the job: an accepted job never runs")


def worker_exits_with_nothing_to_pop(prog, res):
    """T3: POOL_free/POOL_join promise that every accepted job has run: shutdown is only honoured by a worker that has nothing
    it is allowed to pop.  Every path to POOL_thread's return passes the edge on which the queue is empty or the thread limit is
    reached (the wait loop's own condition); a worker that sees `shutdown` with a job waiting pops the job."""
    R = "T3.exactly-once"
    f = prog.fn("POOL_thread")
    rets = [(b, i) for b, i, r in f.returns()]
    from ..rules import guards as _g5
    idle = _g5.truthy_edges(f, lambda c: c.get("k") == "mem" and c.get("f") == "queueEmpty", truth=True) + \
        _g5.rel_edges(f, lambda a: any(y.get("k") == "mem" and y.get("f") == "numThreadsBusy" for y in f.walk_resolved(a)), ">=",
                      lambda b_: any(y.get("k") == "mem" and y.get("f") == "threadLimit" for y in f.walk_resolved(b_)), truth=True)
    lk = [(b, i + 1) for b, i in f.call_roots(("pthread_mutex_lock", "ZSTD_pthread_mutex_lock"))]
    rets = [t for t in rets if lk and t in f.flow(lk)]       # the `no context` return before the loop is not a worker exit
    res.check(bool(rets) and len(idle) >= 2 and f.must_pass(via_edges=idle, starts=lk, targets=rets), R, "POOL_thread:exits-only-with-nothing-to-pop", f.loc,
              "the worker returns only through `queueEmpty || numThreadsBusy >= threadLimit`",
              "POOL_thread can return on `shutdown` without having seen the queue empty (or the thread limit reached): jobs accepted before POOL_free / POOL_join "
              "and still queued are never executed")


def allocation_sizes_do_not_wrap(prog, res):
    """T12: the pool sizes its queue and its thread-handle array with `count * sizeof(element)` in size_t, from counts the caller
    chooses (ZSTD_createThreadPool is public).  Every such allocation is reached only past a comparison of a parameter with a
    constant of the order of SIZE_MAX / sizeof (the edge on which the product cannot wrap)."""
    R = "T12.allocation-size-no-wrap"
    n = 0
    for f in prog.fns_in("common/pool.c"):
        for b, i, c in f.calls(("ZSTD_customCalloc", "ZSTD_customMalloc")):
            a = strip_casts(f.resolve_x(c["a"][0]))
            if a is None or const_val(a) is not None:
                continue            # sizeof(object)
            if not (a.get("k") == "bin" and a.get("op") == "*"):
                continue
            n += 1
            from ..rules import guards as _g6
            big = lambda b_: isinstance(const_val(strip_casts(b_)), int) and const_val(strip_casts(b_)) >= (1 << 40)
            # which parameter(s) the count comes from: directly, or through a field assigned from a parameter in this function
            cnt = [x for x in (a["lhs"], a["rhs"]) if const_val(strip_casts(f.resolve_x(x))) is None]
            pis = set()
            for x in cnt:
                for y in f.walk_deep(x):
                    if y.get("k") == "ref" and y.get("rk") == "p":
                        pis.add(y.get("pi"))
                    if y.get("k") == "mem":
                        for bb, ii, z in f.events(lambda w_: w_.get("k") == "asg" and strip_casts(w_["lhs"]).get("k") == "mem" and strip_casts(w_["lhs"]).get("f") == y.get("f")):
                            pis |= {q.get("pi") for q in f.walk_deep(z["rhs"]) if q.get("k") == "ref" and q.get("rk") == "p"}
            isparam = lambda x: any(y.get("k") == "ref" and y.get("rk") == "p" and y.get("pi") in pis for y in f.walk_deep(x))
            safe = _g6.rel_edges(f, isparam, ">", big, truth=False) + _g6.rel_edges(f, isparam, ">=", big, truth=False)
            res.check(bool(safe) and f.must_pass(via_edges=safe, targets=[(b, i)]), R, "%s@%s" % (f.name, c.get("l")), f.loc,
                      "the count was compared with SIZE_MAX / sizeof before the product is formed",
                      "%s allocates `count * sizeof(..)` from a caller-chosen count without a wrap test: ZSTD_createThreadPool(2^61+1) gets 8 bytes for its thread handles and "
                      "keeps creating threads past them; POOL_create(1, SIZE_MAX/16) gets a zero-sized queue that POOL_add writes into" % f.name)
    res.need(R, 3)


def emptiness_flag(prog, res):
    """T9: a pool created with queueSize 0 has a one-slot ring: queueHead == queueTail holds both when the slot is free and
    when it is taken, and `queueEmpty` is the only record of a pending job.  Outside the two places that DEFINE the flags
    (the assignment of queueEmpty, and isQueueFull's `(tail+1) % size == head`), no decision may compare queueHead with
    queueTail."""
    R = "T9.emptiness-flag"
    n = 0
    for f in prog.fns_in("common/pool.c"):
        for bid, cond, t, fl in f.branches():
            n += 1
            c = strip_casts(f.resolve_x(cond))
            if c is None or c.get("k") != "bin" or c.get("op") not in ("==", "!="):
                continue
            L = {y.get("f") for y in f.walk_resolved(c["lhs"]) if y.get("k") == "mem"}
            Rr = {y.get("f") for y in f.walk_resolved(c["rhs"]) if y.get("k") == "mem"}
            direct = ("queueHead" in L and "queueTail" in Rr) or ("queueTail" in L and "queueHead" in Rr)
            arith = any(y.get("k") == "bin" and y.get("op") in ("+", "%") for y in f.walk_resolved(c))
            if direct and not arith:
                res.bad(R, "%s:head-vs-tail" % f.name, f.loc,
                        "%s decides on queueHead %s queueTail: for a queue-size-0 pool both are always 0, so a job waiting in the slot is invisible "
                        "(POOL_joinJobs returns before an accepted job has even started)" % (f.name, c["op"]))
    j = prog.fn("POOL_joinJobs")
    usesflag = any(y.get("k") == "mem" and y.get("f") == "queueEmpty" for bid, cond, t, fl in j.branches() for y in j.walk_resolved(j.resolve_x(cond)))
    res.check(usesflag, R, "POOL_joinJobs:waits-on-queueEmpty", j.loc, "the join predicate reads queueEmpty", "POOL_joinJobs no longer tests queueEmpty")
    res.count(R + ".branches", n)
    res.need(R, 1)


def run(tier):
    res = Result("C12", tier)
    tus, info = extract(["common", "programs"] if True else ["common"])
    prog = Program(tus)
    res.info = info
    pool_fns = prog.fns_in("lib/common/pool.c")
    if not prog.has_fn("POOL_thread"):
        raise Broken("POOL_thread missing: pool.c was not analysed with ZSTD_MULTITHREAD")
    res.info["functions"] = len(pool_fns)
    la = locks.LockAnalysis(prog, pool_fns)

    # requires-lock helpers inferred (Min et al. wrapper treatment)
    for helper in ("POOL_add_internal", "isQueueFull", "POOL_resize_internal"):
        prog.fn(helper)
        res.check(POOL_MUTEX in la.entry[helper], "T1.requires-lock", helper, prog.fn(helper).loc,
                  "every call site holds queueMutex", "a call site reaches %s without queueMutex" % helper)
    locks.guarded_accesses(la, GUARDED, res, "T1.guarded-by", EXC)
    locks.pairing(la, res, "T2.pairing")
    nw = locks.waits(la, GUARDED, res, "T2.wait-loop", reader_summaries={"isQueueFull": 1})
    locks.must_signal(la, res, "T2.must-signal", SIGNALS)
    locks.wake_discipline(prog, res, "T2.wake-discipline", [f for f in prog.all_functions() if f.file.endswith("common/pool.c")],
                          {k for k, v in GUARDED.items() if v == POOL_MUTEX}, SIGNALS, WAKE_EXEMPT)
    res.need("T2.wake-discipline", 9)
    res.need("T2.wait-loop", 3)
    res.need("T2.pairing", 6)
    res.need("T2.must-signal", 7)
    res.need("T1.guarded-by", 20)

    exactly_once(prog, res)
    destroy_order(prog, res)
    ring_index(prog, res)

    # ---- second client: programs/fileio_asyncio.c ------------------------------------
    aio_fns = prog.fns_in("programs/fileio_asyncio.c")
    for w, sign in (("AIO_IOPool_lockJobsMutex", LOCKW), ("AIO_IOPool_unlockJobsMutex", UNLOCKW)):
        f = prog.fn(w)
        cs = f.calls(sign)
        brs = list(f.branches())
        shape = (len(cs) == 1 and len(brs) == 1 and is_call(f.resolve_x(brs[0][1]), "AIO_IOPool_threadPoolActive")
                 and locks.lock_class(f, cs[0][2]["a"][0]) == AIO_MUTEX)
        res.check(shape, "T2.conditional-lock-wrapper", w, f.loc,
                  "locks/unlocks ioJobsMutex exactly when the pool is threaded",
                  "wrapper no longer has the shape `if (threadPoolActive) mutex op`")
    la2 = locks.LockAnalysis(prog, [f for f in aio_fns if f.name not in ("AIO_IOPool_lockJobsMutex",
                                                                         "AIO_IOPool_unlockJobsMutex")],
                             wrappers={"AIO_IOPool_lockJobsMutex": ("+", AIO_MUTEX),
                                       "AIO_IOPool_unlockJobsMutex": ("-", AIO_MUTEX)})
    locks.guarded_accesses(la2, AIO_GUARDED, res, "T1.guarded-by(aio)", AIO_EXC)
    locks.pairing(la2, res, "T2.pairing(aio)")
    locks.waits(la2, AIO_GUARDED, res, "T2.wait-loop(aio)",
                reader_summaries={"AIO_ReadPool_findNextWaitingOffsetCompletedJob_locked": 1})
    aio_quiescent(prog, res)
    aio_worker_state_after_join(prog, res)
    worker_exits_with_nothing_to_pop(prog, res)
    allocation_sizes_do_not_wrap(prog, res)
    res.need("T2.wait-loop(aio)", 1)
    res.need("T1.guarded-by(aio)", 6)

    emptiness_flag(prog, res)
    tryadd_verdict_under_shutdown(prog, res)
    return res.finish(
        explanation="Lockset (guarded-by), lock pairing, wait-in-predicate-loop, must-signal-after-write, "
                    "exactly-once dequeue/execute structure, destroy-after-join order and ring-index "
                    "normalisation, decided on the CFG of every function of lib/common/pool.c and "
                    "programs/fileio_asyncio.c for all paths (hence all schedules of the discipline).",
        not_decided="the arithmetic of isQueueFull ((tail+1)%size==head, hand-off mode) and any value "
                    "predicate; that pthread primitives behave as specified",
        assumptions=["ZSTD_MULTITHREAD build (the shipped CLI configuration)", "lock identity is per "
                     "(record, field); no function holds two POOL_ctx objects"])


def aio_worker_state_after_join(prog, res):
    """T3: what the asynchronous write worker (AIO_WritePool_executeWriteJob) keeps in the pool context between jobs - the
    pending sparse skip - is written on the worker thread without a lock.  The fields are derived from the worker's own
    writes; every other function that touches one of them must have joined the pool (AIO_IOPool_join / AIO_IOPool_destroy)
    on every path to the access, or be the constructor.  (`if (ctx->storedSkips == 0) return;` before the join reads a value
    the worker may not have written yet: the final zero of a sparse file is then never written.)"""
    R = "T3.aio-worker-state-after-join"
    w = prog.fn("AIO_WritePool_executeWriteJob")
    wf = {strip_casts(x["lhs"]).get("f") for b, i, x in w.events(lambda y: y.get("k") == "asg" and strip_casts(y["lhs"]).get("k") == "mem"
                                                                 and strip_casts(y["lhs"]).get("rec") in ("WritePoolCtx_t", "IOPoolCtx_t"))}
    res.check(len(wf) >= 1, R, "worker-written-fields", w.loc, "the write worker writes %s" % sorted(wf), "no context field written by the write worker was found")
    n = 0
    # wrappers: a function of this file all of whose paths join the pool counts as a join (AIO_IOPool_setFile)
    joiners = {"AIO_IOPool_join", "AIO_IOPool_destroy"}
    for g in prog.fns_in("programs/fileio_asyncio.c"):
        js = g.call_roots(("AIO_IOPool_join", "AIO_IOPool_destroy"))
        dead = g.call_roots(("__assert_fail", "abort", "exit"))     # a failed assert does not come back
        if js and g.must_pass(via_roots=js + dead):
            joiners.add(g.name)
    for f in prog.fns_in("programs/fileio_asyncio.c"):
        if f.name == w.name:
            continue
        acc = [(b, i, x) for b, i, x in f.events(lambda y: y.get("k") == "mem" and y.get("f") in wf and y.get("rec") in ("WritePoolCtx_t", "IOPoolCtx_t"))]
        if not acc:
            continue
        if "create" in f.name.lower():
            n += 1
            res.check(True, R, f.name, f.loc, "constructor (before the pool can run a job)", "")
            continue
        joins = f.call_roots(tuple(joiners))
        for b, i, x in acc:
            n += 1
            ok = bool(joins) and f.must_pass(via_roots=joins, targets=[(b, i)])
            res.check(ok, R, "%s:%s@%s" % (f.name, x.get("f"), x.get("l")), f.loc, "accessed only after the pool was joined",
                      "%s touches %s, which the write worker updates without a lock, on a path that has not joined the pool: the value may be stale - a pending "
                      "sparse skip is missed and the last zero run of the output is never written (truncated file, exit status 0 in a release build)" % (f.name, x.get("f")))
    res.need(R, 3)


def aio_quiescent(prog, res):
    callers = {c.name for c in prog.callers().get("AIO_ReadPool_releaseAllCompletedJobs", [])}
    f = prog.fn("AIO_ReadPool_setFile")
    ok = callers == {"AIO_ReadPool_setFile"}
    if ok:
        j = f.calls("AIO_IOPool_join")
        c = f.calls("AIO_ReadPool_releaseAllCompletedJobs")
        ok = len(j) >= 1 and all(cb not in f.reachable([f.entry], cut_blocks={j[0][0]}) or
                                 (cb == j[0][0] and ci > j[0][1]) for cb, ci, _ in c)
    res.check(ok, "T3.aio-quiescent", "AIO_ReadPool_releaseAllCompletedJobs", f.loc,
              "only called from AIO_ReadPool_setFile after AIO_IOPool_join",
              "completed-jobs list is drained without the pool having been joined (callers: %s)" % sorted(callers))
    # transitive callees of the read worker
    seen, todo = set(), ["AIO_ReadPool_executeReadJob"]
    prog.fn("AIO_ReadPool_executeReadJob")
    while todo:
        n = todo.pop()
        if n in seen:
            continue
        seen.add(n)
        for g in prog.functions.get(n, []):
            todo.extend(g.callees())
    bad = seen & {"AIO_IOPool_releaseIoJob", "AIO_IOPool_acquireJob"}
    res.check(not bad, "T10.aio-read-worker", "AIO_ReadPool_executeReadJob", prog.fn("AIO_ReadPool_executeReadJob").loc,
              "the read worker only appends to completedJobs (under the mutex)",
              "the read worker now reaches %s: availableJobs is shared and AIO_ReadPool_startReading reads it unlocked" % sorted(bad))


LOCKW = ("pthread_mutex_lock",)
UNLOCKW = ("pthread_mutex_unlock",)


def exactly_once(prog, res):
    """T3: the worker copies the job out and advances queueHead in one critical section and
    makes exactly one indirect call through that copy between unlock and re-lock;
    POOL_add_internal stores the job before advancing queueTail, returns without storing
    only on shutdown; POOL_tryAdd returns 0 exactly on the path that did not enqueue."""
    f = prog.fn("POOL_thread")
    ind = [(b, i, n) for b, i, n in f.calls() if n.get("c") is None]
    ok = len(ind) == 1
    detail = "indirect calls in POOL_thread: %d" % len(ind)
    if ok:
        b, i, n = ind[0]
        callee_path = access_path(n["fn"])
        local = callee_path[0][1] if callee_path and callee_path[0][0] == "l" else None
        init = f.single_def(local) if local else None
        # the job is a local copy initialised from queue[queueHead]
        ipath = access_path(init) if init is not None else None
        from_queue = bool(ipath) and any(el[0] == "." and el[2] == "queue" for el in ipath)
        idx_ok = init is not None and init.get("k") == "idx" and "queueHead" in {x["f"] for x in walk(init["i"]) if x.get("k") == "mem"}
        ok = from_queue and idx_ok
        detail = "job copied from queue[queueHead]: %s" % ok
        res.check(ok, "T3.exactly-once", "POOL_thread:job-copy", f.loc, detail, "the executed job is not a local copy of queue[queueHead]")
        # lockset at the indirect call must be empty, and the block of the call lies between
        la = locks.LockAnalysis(prog, [f])
        held = []
        la.visit_all(lambda ff, bb, rr, kind, nn, lc, st: held.append(set(st)) if nn is n else None)
        res.check(held == [set()], "T3.exactly-once", "POOL_thread:job-runs-unlocked", "%s:%s" % (f.file, n.get("l")),
                  "job runs with no lock held", "job runs with lockset %s" % held)
        # between the queueHead write and the call there is no second path around the call:
        # the call's block is reached from the block writing queueHead on every path to the re-lock
        wr = [(bb, ii) for bb, ii, rr in f.roots() for x in walk(rr)
              if (_write_target(x) or {}).get("f") == "queueHead"]
        res.check(len(wr) == 1, "T3.exactly-once", "POOL_thread:single-dequeue", f.loc, "one write of queueHead",
                  "queueHead written at %d places" % len(wr))
        if len(wr) == 1:
            wb, wi = wr[0]
            # from the dequeue, the next dequeue is reachable only through the job call
            if wb == b:
                reach = f.reachable(f.succs(b))  # call in same block after write?
                order_ok = wi < i
                res.check(order_ok, "T3.exactly-once", "POOL_thread:dequeue-then-run", f.loc,
                          "the dequeued job is run before the next dequeue",
                          "job call precedes the dequeue in its block")
            else:
                reach = f.reachable(f.succs(wb), cut_blocks={b})
                res.check(wb not in reach and f.exit not in reach, "T3.exactly-once", "POOL_thread:dequeue-then-run",
                          f.loc, "every path from the dequeue passes the job call before the next dequeue or exit",
                          "a path from the dequeue skips the job call")
            # the job call is not inside an inner loop that excludes the dequeue
            reach2 = f.reachable(f.succs(b), cut_blocks={wb})
            res.check(b not in reach2, "T3.exactly-once", "POOL_thread:run-once-per-dequeue", f.loc,
                      "the job call cannot repeat without a new dequeue", "the job call can repeat without dequeue")
    else:
        res.bad("T3.exactly-once", "POOL_thread:job-copy", f.loc, detail)

    g = prog.fn("POOL_add_internal")
    st = [(b, i, x) for b, i, r in g.roots() for x in walk(r) if x.get("k") == "asg"
          and (strip_casts(x["lhs"]).get("k") == "idx") and "queue" in {y["f"] for y in walk(x["lhs"]) if y.get("k") == "mem"}]
    tw = [(b, i) for b, i, r in g.roots() for x in walk(r) if (_write_target(x) or {}).get("f") == "queueTail"]
    ok = len(st) == 1 and len(tw) == 1 and (st[0][0], st[0][1]) <= (tw[0][0], tw[0][1]) if (st and tw and st[0][0] == tw[0][0]) else False
    res.check(ok, "T3.exactly-once", "POOL_add_internal:store-then-advance", g.loc,
              "queue[queueTail] = job precedes the queueTail advance in one block",
              "job store and tail advance are not one ordered pair (stores=%d advances=%d)" % (len(st), len(tw)))
    # returns without storing only on the shutdown edge
    if st:
        sb = st[0][0]
        # blocks reaching exit without passing the store block
        reach = g.reachable([g.entry], cut_blocks={sb})
        skipping = []
        if g.exit in reach:
            # find the branch that leaves towards exit: must be on `shutdown`
            for bid, cond, t, fl in g.branches():
                if bid in reach:
                    cond = g.resolve_x(cond)
                    names = {x["f"] for x in walk(cond) if x.get("k") == "mem"}
                    if "shutdown" not in names:
                        skipping.append(bid)
        res.check(not skipping, "T3.exactly-once", "POOL_add_internal:drop-only-on-shutdown", g.loc,
                  "the only path that does not enqueue is the shutdown test", "enqueue skipped on a non-shutdown branch")
        idxn = strip_casts(st[0][2]["lhs"])["i"]
        res.check({x["f"] for x in walk(idxn) if x.get("k") == "mem"} == {"queueTail"}, "T3.exactly-once",
                  "POOL_add_internal:store-at-tail", g.loc, "job stored at queue[queueTail]", "job stored at another index")

    t = prog.fn("POOL_tryAdd")
    calls = t.calls("POOL_add_internal")
    rets = t.returns()
    okv = True
    why = []
    for b, i, r in rets:
        v = const_val(r.get("e"))
        # does this return's block come after an enqueue on every path?
        cb = {c[0] for c in calls}
        reach_no_call = t.reachable([t.entry], cut_blocks=cb)
        enq_before = (b in cb and any(c[0] == b and c[1] < i for c in calls)) or (b not in reach_no_call)
        if v == 0 and enq_before:
            okv = False; why.append("returns 0 after enqueueing")
        if v == 1 and not enq_before:
            okv = False; why.append("returns 1 without enqueueing")
        if v not in (0, 1):
            okv = False; why.append("returns non-constant")
    res.check(okv and len(calls) == 1 and len(rets) == 2, "T3.exactly-once", "POOL_tryAdd:verdict-matches-enqueue",
              t.loc, "returns 1 iff POOL_add_internal was called", "; ".join(why) or "shape changed")
    res.need("T3.exactly-once", 8)


def destroy_order(prog, res):
    f = prog.fn("POOL_free")
    join = f.calls("POOL_join")
    destroys = f.calls(("pthread_mutex_destroy", "pthread_cond_destroy", "ZSTD_customFree"))
    ok = len(join) == 1 and len(destroys) >= 6
    if ok:
        jb = join[0][0]
        reach = f.reachable([f.entry], cut_blocks={jb})
        for b, i, n in destroys:
            if b in reach or (b == jb and i < join[0][1]):
                ok = False
    res.check(ok, "T2.destroy-after-join", "POOL_free", f.loc,
              "POOL_join precedes the 3 destroy calls and 3 frees on every path",
              "a destroy/free of pool state is reachable without passing POOL_join")
    j = prog.fn("POOL_join")
    la = locks.LockAnalysis(prog, [j])
    shut = []
    la.visit_all(lambda ff, b, r, kind, n, lc, st: shut.append(POOL_MUTEX in st)
                 if (_write_target(n) or {}).get("f") == "shutdown" else None)
    bc = {locks.lock_class(j, n["a"][0])[1] for b, i, n in j.calls("pthread_cond_broadcast")}
    joins = j.calls("pthread_join")
    ok = shut == [True] and bc == {"queuePushCond", "queuePopCond"} and len(joins) == 1
    if ok:
        # join loop bounded by threadCapacity; broadcasts precede the join loop
        jb = joins[0][0]
        bcb = {b for b, i, n in j.calls("pthread_cond_broadcast")}
        reach = j.reachable([j.entry], cut_blocks=bcb)
        ok = jb not in reach
        conds = [j.resolve_x(c) for bid, c, t, fl in j.branches()]
        ok = ok and any("threadCapacity" in {x["f"] for x in walk(c) if x.get("k") == "mem"} for c in conds)
    res.check(ok, "T2.destroy-after-join", "POOL_join", j.loc,
              "shutdown=1 under queueMutex, both conditions broadcast, then join of threadCapacity threads",
              "POOL_join no longer sets shutdown locked / broadcasts both conditions / joins all threads")
    w = prog.fn("POOL_thread")
    # the worker returns only on the shutdown edge (after unlock: pairing rule) or for a NULL ctx
    bad = []
    for b, i, r in w.returns():
        doms = edge_conditions_to(w, b)
        if not any("shutdown" in d or "NULLCTX" in d for d in doms):
            bad.append(r.get("l"))
    res.check(not bad, "T2.destroy-after-join", "POOL_thread:exit-only-on-shutdown", w.loc,
              "worker leaves its loop only under ctx->shutdown", "worker can return at lines %s without shutdown" % bad)
    r = prog.fn("POOL_resize_internal")
    cp = r.calls(("memcpy", "__builtin_memcpy", "ZSTD_memcpy"))
    fr = r.calls("ZSTD_customFree")
    ok = len(cp) == 1 and len(fr) == 1 and (cp[0][0], cp[0][1]) < (fr[0][0], fr[0][1]) and cp[0][0] == fr[0][0]
    res.check(ok, "T2.destroy-after-join", "POOL_resize_internal:copy-before-free", r.loc,
              "old thread handles copied before the old array is freed",
              "the old handle array is freed before (or without) being copied")
    # handle bookkeeping: the field bounding POOL_join's loop (number of live handles) is the one
    # that sizes the copy and from which the creation loop continues
    jf = set()
    for bid, cond, t, fl in j.branches():
        cc = strip_casts(j.resolve_x(cond))
        if cc.get("k") == "bin" and cc["op"] in ("<", "<=", "!="):
            jf |= {x["f"] for x in walk(cc) if x.get("k") == "mem" and x.get("rec") == "POOL_ctx_s"}
    szf = {x["f"] for x in walk(cp[0][2]["a"][2]) if x.get("k") == "mem"} if cp else set()
    res.check(len(jf) == 1 and szf == jf, "T9.handle-bookkeeping", "POOL_resize_internal:copy-all-live-handles", r.loc,
              "the copy is sized by %s, the field bounding POOL_join's loop" % sorted(jf),
              "POOL_join joins %s handles but the resize copies %s handles: live workers would never be joined"
              % (sorted(jf), sorted(szf)))
    loopvars = [v for v, defs in r.local_defs().items()
                if any(d is not None and {x["f"] for x in walk(d) if x.get("k") == "mem"} == jf for d in defs)]
    crt_idx = set()
    for b, i, n in r.calls("pthread_create"):
        crt_idx |= {x["n"] for x in walk(n["a"][0]) if x.get("k") == "ref" and x.get("rk") in ("l", "sl")}
    res.check(bool(set(loopvars) & crt_idx), "T9.handle-bookkeeping", "POOL_resize_internal:create-from-capacity", r.loc,
              "new threads are created from index %s onwards" % sorted(jf),
              "the creation loop does not start at %s: handles would be overwritten or left unset" % sorted(jf))
    # partial failure records threadCapacity = threadId
    crt = r.calls("pthread_create")
    okp = False
    for bid, cond, t, fl in r.branches():
        cond = r.resolve_x(cond)
        if is_call(cond, "pthread_create") or any(is_call(x, "pthread_create") for x in walk(cond)):
            wr = [x for rr in r.blocks[t]["el"] for x in walk(rr) if (_write_target(x) or {}).get("f") == "threadCapacity"]
            okp = bool(wr)
    res.check(okp and len(crt) == 1, "T2.destroy-after-join", "POOL_resize_internal:partial-failure-capacity", r.loc,
              "a failed pthread_create records how many threads exist (join bound stays exact)",
              "failed pthread_create no longer records threadCapacity")
    c = prog.fn("POOL_create_advanced")
    okp = False
    for bid, cond, t, fl in c.branches():
        cond = c.resolve_x(cond)
        if any(is_call(x, "pthread_create") for x in walk(cond)):
            wr = [x for rr in c.blocks[t]["el"] for x in walk(rr) if (_write_target(x) or {}).get("f") == "threadCapacity"]
            fr = [x for rr in c.blocks[t]["el"] for x in walk(rr) if is_call(x, "POOL_free")]
            okp = bool(wr) and bool(fr)
    res.check(okp, "T2.destroy-after-join", "POOL_create_advanced:partial-failure-capacity", c.loc,
              "a failed pthread_create records threadCapacity=i then POOL_free joins exactly the started threads",
              "failed pthread_create in the constructor no longer records threadCapacity before POOL_free")


def edge_conditions_to(f, target):
    """fields mentioned by branch conditions whose one edge is required to reach `target`."""
    out = []
    for bid, cond, t, fl in f.branches():
        cond = f.resolve_x(cond)
        for edge, other in ((t, fl), (fl, t)):
            reach = f.reachable([f.entry], cut_edges={(bid, edge)})
            if target not in reach and target in f.reachable([f.entry]):
                names = {x["f"] for x in walk(cond) if x.get("k") == "mem"}
                if not names and {x.get("rk") for x in walk(cond) if x.get("k") == "ref"} & {"l", "p"}:
                    names = {"NULLCTX"}
                out.append(names)
    return out


def ring_index(prog, res):
    """T12: queueHead/queueTail are only ever written as `... % queueSize` or 0."""
    n = 0
    for f in prog.fns_in("lib/common/pool.c"):
        for b, i, r in f.roots():
            for x in walk(r):
                tgt = _write_target(x)
                if tgt is not None and tgt.get("k") == "mem" and tgt.get("rec") == "POOL_ctx_s" \
                        and tgt["f"] in ("queueHead", "queueTail"):
                    n += 1
                    ok = False
                    if x.get("k") == "asg" and x["op"] == "=":
                        rhs = strip_casts(f.resolve_x(x["rhs"]))
                        if rhs is not None and rhs.get("k") == "ref" and rhs.get("rk") in ("l", "sl") and f.single_def(rhs["n"]) is not None:
                            rhs = strip_casts(f.resolve_x(f.single_def(rhs["n"])))      # value computed into a local first
                        if const_val(rhs) == 0:
                            ok = True
                        elif rhs.get("k") == "bin" and rhs["op"] == "%":
                            ok = "queueSize" in {y["f"] for y in walk(rhs["rhs"]) if y.get("k") == "mem"}
                    res.check(ok, "T12.ring-index", "%s:%s@%s" % (f.name, tgt["f"], x.get("l")),
                              "%s:%s" % (f.file, x.get("l")), "written as (...) % queueSize or 0",
                              "ring index written without reduction modulo queueSize")
    res.need("T12.ring-index", 4)
    # every subscript of queue[] uses queueHead or queueTail
    for f in prog.fns_in("lib/common/pool.c"):
        for b, i, r in f.roots():
            for x in walk(r):
                if x.get("k") == "idx":
                    base = strip_casts(x["b"])
                    if base.get("k") == "mem" and base.get("rec") == "POOL_ctx_s" and base["f"] == "queue":
                        names = {y["f"] for y in walk(x["i"]) if y.get("k") == "mem"}
                        res.check(names in ({"queueHead"}, {"queueTail"}), "T12.ring-subscript",
                                  "%s:queue[]@%s" % (f.name, r.get("l")), f.loc, "subscript is a ring index",
                                  "queue[] subscripted by something other than queueHead/queueTail")
    res.need("T12.ring-subscript", 2)
