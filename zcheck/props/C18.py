"""C18 — dictionary training yields a usable dictionary or an error, never a bad one.
Static clauses: every trainer validates parameters, sample counts and capacity before it
builds anything (frozen guard inventory + dominance, T8/T3); the finished dictionary always
has content >= the largest start repcode and an ID that cannot be 0 (T3/T7); segment copies
are bounded by the remaining tail (T8); the best-candidate record is only touched under its
mutex or when quiescent, waits sit in predicate loops, the last job signals (T1/T2); every
buffer obtained in a trainer is NULL-tested and released on every exit (T5); the only
non-deterministic source reachable from the trainers, clock(), flows only into display
decisions (T14).  Not decided: that samples round-trip with the result."""
import json, os
from ..facts import extract, Broken
from ..ir import Program, walk, is_call, strip_casts, const_val
from ..report import Result
from ..rules import guards, reset, locks, alloc
from ..rules.guards import cond_edges

HERE = os.path.dirname(os.path.abspath(__file__))
BEST_MUTEX = ("COVER_best_s", "mutex")
GUARDED = {("COVER_best_s", f): BEST_MUTEX for f in ("liveJobs", "dict", "dictSize", "parameters", "compressedSize")}
EXC = {
    "COVER_best_init": "pre-publication: constructor, before any job is started",
    "COVER_best_destroy": "quiescent: after COVER_best_wait returned with liveJobs == 0",
    "ZDICT_optimizeTrainFromBuffer_cover": "quiescent: result read after COVER_best_wait (checked as T3.best-read-after-wait)",
    "ZDICT_optimizeTrainFromBuffer_fastCover": "quiescent: result read after COVER_best_wait (checked as T3.best-read-after-wait)",
}
SIGNALS = [("COVER_best_s", "liveJobs", "dec", "cond", {"COVER_best_init"}, "a finished job wakes COVER_best_wait")]

DISPLAY_CALLS = {"fprintf", "fflush", "printf", "fputs"}


def id_never_zero(f, e):
    """e is (a local holding) `params.dictID ? params.dictID : X` with X = (hash % M) + 32768"""
    def deref(n):
        n = strip_casts(f.resolve_x(n))
        seen = 0
        while n is not None and n.get("k") == "ref" and n.get("rk") in ("l", "sl") and seen < 4:
            d = f.single_def(n["n"])
            if d is None:
                break
            n = strip_casts(f.resolve_x(d))
            seen += 1
        return n
    t = deref(e)
    if t is None or t.get("k") != "cond":
        return False
    c, a, b = deref(t["c"]), deref(t["t"]), deref(t["f"])
    if not (c is not None and c.get("k") == "mem" and c.get("f") == "dictID" and a is not None and a.get("k") == "mem" and a.get("f") == "dictID"):
        return False
    if b is None or b.get("k") != "bin" or b.get("op") != "+" or const_val(b["rhs"]) != 32768:
        return False
    l = deref(b["lhs"])
    return l is not None and l.get("k") == "bin" and l.get("op") == "%" and "c:ZSTD_XXH64" in f.anchors(l["lhs"], depth=2)


def finalize_rules(prog, res):
    R = "T3.finished-dictionary"
    f = prog.fn("ZDICT_finalizeDictionary")
    # content >= max repcode: every successful path either saw content >= min or goes through the padding
    lt = [(bid, cond, t, fl) for bid, cond, t, fl in f.branches()
          if (lambda c: c is not None and c.get("k") == "bin" and c["op"] == "<" and "c:ZDICT_maxRep" in f.anchors(c["rhs"], depth=2) and "p:3" in f.anchors(c["lhs"], depth=1))(strip_casts(f.resolve_x(cond)))]
    pads = [(b, i) for b, i, x in f.events(lambda y: y.get("k") == "asg") if strip_casts(x["lhs"]).get("k") == "ref" and "c:ZDICT_maxRep" in f.anchors(x["rhs"], depth=2)
            and strip_casts(x["rhs"]).get("k") == "bin" and strip_casts(x["rhs"]).get("op") == "-"]
    ok = len(lt) == 1 and bool(pads) and f.must_pass(via_roots=pads, via_edges={(lt[0][0], lt[0][3])}, targets=reset.success_returns(f))
    res.check(ok, R, "content-at-least-max-repcode", f.loc, "every successful path has content >= ZDICT_maxRep(repStartValue) or pads up to it",
              "ZDICT_finalizeDictionary can return a dictionary whose content is shorter than its start repcodes: both loaders reject it as corrupted")
    ms = f.call_roots(("memset", "__builtin_memset"))
    res.check(bool(ms) and f.must_pass(via_roots=ms, targets=reset.success_returns(f)), R, "padding-zeroed", f.loc, "the padding bytes are written", "padding not written")
    g = [x for x in guards.guard_sites(f) if "dstSize_tooSmall" in x.codes and "c:ZDICT_maxRep" in (x.L | x.R)]
    res.check(bool(g) and bool(pads) and f.must_pass(via_edges={(x.bid, x.ok) for x in g}, targets=pads), R, "padding-fits-capacity", f.loc, "padding only when header + min content fits the capacity", "padding can overflow the buffer")
    # the ID: params.dictID if set, otherwise hash-derived value offset by 32768 (never 0)
    wr = [c for b, i, c in f.calls("MEM_writeLE32") if any(const_val(y) == 4 for y in walk(c["a"][0]))]
    ok = len(wr) == 1 and id_never_zero(f, wr[0]["a"][1])
    res.check(ok, R, "dictID-never-zero", f.loc, "ID = params.dictID ? params.dictID : hash % (2^31 - 32768) + 32768", "the written ID can be 0 or is not derived as documented")
    # capacity: the size returned is hSize + padding + content, with content shrunk to fit
    shr = cond_edges(f, lambda c: c.get("k") == "bin" and c["op"] == ">" and "p:1" in f.anchors(c["rhs"], depth=1) and "p:3" in f.anchors(c["lhs"], depth=1), "true")
    sh = [(b, i) for b, i, x in f.events(lambda y: y.get("k") == "asg") if strip_casts(x["lhs"]).get("rk") == "p" and strip_casts(x["lhs"]).get("pi") == 3]
    res.check(bool(shr) and bool(sh) and f.must_pass(via_roots=sh, starts=[(e[1], 0) for e in shr], targets=reset.success_returns(f)), R, "content-shrunk-to-capacity", f.loc,
              "content is cut down when header + content exceeds the capacity", "result can exceed the capacity")
    # header buffer: analyzeEntropy gets HBUFFSIZE - hSize
    ae = [c for b, i, c in f.calls("ZDICT_analyzeEntropy")]
    ok = len(ae) == 1 and strip_casts(ae[0]["a"][1]).get("k") == "bin" and strip_casts(ae[0]["a"][1]).get("op") == "-" and "HBUFFSIZE" in {m for y in walk(ae[0]["a"][1]) for m in y.get("m", [])}
    res.check(ok, R, "entropy-header-bounded", f.loc, "entropy tables are written into the remaining header buffer only", "header capacity expression changed")
    res.need(R, 6)
    # the legacy / addEntropyTables variant
    g2 = prog.fn("ZDICT_addEntropyTablesFromBuffer_advanced")
    gg = [x for x in guards.guard_sites(g2) if "c:ZDICT_maxRep" in (x.L | x.R) and x.op == "<" and "p:1" in (x.L | x.R)]
    res.check(bool(gg) and g2.must_pass(via_edges={(x.bid, x.ok) for x in gg}, targets=reset.success_returns(g2)), R, "legacy:content-at-least-max-repcode", g2.loc,
              "the in-place variant refuses content shorter than the largest start repcode", "ZDICT_addEntropyTablesFromBuffer can return a dictionary whose content is shorter than its start repcodes")
    wr = [c for b, i, c in g2.calls("MEM_writeLE32") if any(const_val(y) == 4 for y in walk(c["a"][0]))]
    ok = len(wr) == 1 and id_never_zero(g2, wr[0]["a"][1])
    res.check(ok, R, "legacy:dictID-never-zero", g2.loc, "same ID derivation in the legacy finaliser", "legacy ID derivation differs")


def trainer_rules(prog, res):
    R = "T3.validation-first"
    for name, chk, init, build in (("ZDICT_trainFromBuffer_cover", "COVER_checkParameters", "COVER_ctx_init", "COVER_buildDictionary"),
                                   ("ZDICT_trainFromBuffer_fastCover", "FASTCOVER_checkParameters", "FASTCOVER_ctx_init", "FASTCOVER_buildDictionary")):
        f = prog.fn(name)
        e = cond_edges(f, lambda c: is_call(c, chk), "true")
        tg = f.call_roots((init, build, "ZDICT_finalizeDictionary"))
        res.check(bool(e) and len(tg) == 3 and f.must_pass(via_edges=e, targets=tg), R, name + ":parameters-checked-first", f.loc,
                  "%s accepted the parameters before context, build or finalisation" % chk, "training can start with unchecked parameters")
        ini = f.call_roots(init)
        bld = f.call_roots((build, "ZDICT_finalizeDictionary"))
        gs = [g for g in guards.guard_sites(f) if "<forwarded>" in g.codes and g.cond is not None and any(y.get("c", "").endswith("isError") for y in walk(f.resolve_x(g.cond)) if y.get("k") == "call")]
        res.check(bool(ini) and bool(gs) and f.must_pass(via_edges={(g.bid, g.ok) for g in gs}, targets=bld), R, name + ":ctx_init-result-checked", f.loc,
                  "a failed context initialisation stops the trainer", "build runs after a failed context initialisation")
        fin = [c for b, i, c in f.calls("ZDICT_finalizeDictionary")]
        bc = [c for b, i, c in f.calls(build)]
        ok = len(fin) == 1 and len(bc) == 1
        if ok:
            # finalize(dict, cap, dict + tail, cap - tail, ...): content begins where the builder stopped
            a2, a3 = f.anchors(fin[0]["a"][2], depth=2), strip_casts(fin[0]["a"][3])
            ok = "c:" + build in a2 and a3.get("k") == "bin" and a3.get("op") == "-" and "c:" + build in f.anchors(a3["rhs"], depth=2) and "p:1" in f.anchors(a3["lhs"], depth=1)
        res.check(ok, R, name + ":content-is-built-tail", f.loc, "finalisation receives exactly the bytes the builder wrote (dict + tail, capacity - tail)", "finalisation is given a different range than the builder filled")
    for name, chk, worker in (("ZDICT_optimizeTrainFromBuffer_cover", "COVER_checkParameters", "COVER_tryParameters"),
                              ("ZDICT_optimizeTrainFromBuffer_fastCover", "FASTCOVER_checkParameters", "FASTCOVER_tryParameters")):
        f = prog.fn(name)
        e = cond_edges(f, lambda c: is_call(c, chk), "true")
        st = f.call_roots("COVER_best_start")
        launch = f.call_roots(("POOL_add", worker))
        res.check(bool(e) and bool(st) and len(launch) == 2 and f.must_pass(via_edges=e, targets=launch) and f.must_pass(via_roots=st, targets=launch), R,
                  name + ":each-candidate-checked-and-counted", f.loc, "a candidate is launched only after %s and COVER_best_start" % chk,
                  "a candidate can be launched unchecked or uncounted")
    res.need(R, 8)
    R2 = "T8.segment-copy-bounded"
    for name in ("COVER_buildDictionary", "FASTCOVER_buildDictionary"):
        f = prog.fn(name)
        cp = [(b, i, c) for b, i, c in f.calls(("memcpy", "__builtin_memcpy"))]
        ok = len(cp) == 1
        why = "copy site changed"
        if ok:
            b, i, c = cp[0]
            szn = strip_casts(c["a"][2]).get("n")
            d = [x for x in f.local_defs().get(szn, []) if x is not None]
            tailn = None
            for y in walk(c["a"][0]):
                if y.get("k") == "ref" and y.get("rk") in ("l", "sl") and y.get("n") != szn:
                    ds = f.local_defs().get(y["n"], [])
                    if any(x is None for x in ds) or len(ds) > 1:
                        tailn = y["n"]
            ok = len(d) == 1 and strip_casts(d[0]).get("k") == "cond" and "MIN" in strip_casts(d[0]).get("m", []) and tailn is not None and \
                any(y.get("n") == tailn for y in f.walk_resolved(d[0]))
            why = "segment size is not MIN(..., remaining tail)"
            if ok:
                sub = [(bb, ii) for bb, ii, x in f.events(lambda y: y.get("k") == "asg" and y.get("op") == "-=") if strip_casts(x["lhs"]).get("n") == tailn and strip_casts(x["rhs"]).get("n") == szn]
                ok = len(sub) == 1 and f.must_pass(via_roots=sub, targets=[(b, i)])
                why = "tail is not reduced by the segment size before the copy"
        res.check(ok, R2, name, f.loc, "copy of MIN(segment, tail) bytes at dict + (tail - size)", why)
    res.need(R2, 2)


def epochs_within_corpus(prog, res):
    """T11: an epoch never extends past the last d-mer: every value stored into epochs.size is `nbDmers / x` or
    MIN(..., nbDmers), and epochs.num is derived from the stored size (so size * num <= nbDmers, the function's own assert)."""
    R = "T11.epoch-within-corpus"
    f = prog.fn("COVER_computeEpochs")
    nb = [i for i, p in enumerate(f.params) if i == 1]
    sizes = [x for b, i, x in f.events(lambda y: y.get("k") == "asg") if strip_casts(x["lhs"]).get("f") == "size"]
    res.check(len(sizes) >= 2, R, "size-assignments", f.loc, "%d assignments to epochs.size" % len(sizes), "assignments to epochs.size vanished")
    for x in sizes:
        r = strip_casts(f.resolve_x(x["rhs"]))
        ok = False
        if r.get("k") == "bin" and r.get("op") == "/":
            n = strip_casts(f.resolve_x(r["lhs"]))
            ok = n.get("k") == "ref" and n.get("rk") == "p" and n.get("pi") == 1
        elif r.get("k") == "cond" and "MIN" in r.get("m", []):
            arms = [strip_casts(f.resolve_x(r[k])) for k in ("t", "f")]
            ok = any(a is not None and a.get("k") == "ref" and a.get("rk") == "p" and a.get("pi") == 1 for a in arms)
        res.check(ok, R, "size@%s" % x.get("l"), "%s:%s" % (f.file, x.get("l")), "epoch size is bounded by the number of d-mers",
                  "COVER_computeEpochs stores an epoch size that is not bounded by nbDmers: the segment selectors index dmerAt / the samples past their end for small corpora")
    nums = [x for b, i, x in f.events(lambda y: y.get("k") == "asg") if strip_casts(x["lhs"]).get("f") == "num"]
    last = max(nums, key=lambda y: y.get("l", 0)) if nums else None      # the small-corpus branch is the later one in the source
    ok = last is not None and strip_casts(f.resolve_x(last["rhs"])).get("k") == "bin" and strip_casts(f.resolve_x(last["rhs"])).get("op") == "/" \
        and any(y.get("f") == "size" for y in f.walk_resolved(strip_casts(f.resolve_x(last["rhs"]))["rhs"]))
    res.check(ok, R, "num=nbDmers/size", f.loc, "in the small-corpus branch the epoch count is nbDmers / size", "epoch count no longer derived from the stored size")
    for name in ("COVER_buildDictionary", "FASTCOVER_buildDictionary"):
        g = prog.fn(name)
        res.check(bool(g.call_roots("COVER_computeEpochs")), R, name + ":uses-computeEpochs", g.loc, "epochs come from COVER_computeEpochs", "builder no longer uses the shared epoch computation")
    res.need(R, 6)


def best_rules(prog, res):
    fns = [prog.fn(n) for n in ("COVER_best_init", "COVER_best_wait", "COVER_best_destroy", "COVER_best_start", "COVER_best_finish",
                                "ZDICT_optimizeTrainFromBuffer_cover", "ZDICT_optimizeTrainFromBuffer_fastCover", "COVER_tryParameters", "FASTCOVER_tryParameters")]
    la = locks.LockAnalysis(prog, fns)
    locks.guarded_accesses(la, GUARDED, res, "T1.guarded-by", EXC)
    locks.pairing(la, res, "T2.pairing")
    locks.waits(la, GUARDED, res, "T2.wait-loop")
    # must-signal, predicate-exact form: after --liveJobs every path to the exit signals `cond`, unless the copy of
    # liveJobs taken under the lock is non-zero (the waiter's predicate liveJobs != 0 is then still true)
    f = prog.fn("COVER_best_finish")
    dec = [(b, i) for b, i, x in f.events(lambda y: y.get("k") == "un" and y.get("op", "").endswith("--")) if strip_casts(x["e"]).get("f") == "liveJobs"]
    sig = [(b, i) for b, i, c in f.calls(("pthread_cond_signal", "pthread_cond_broadcast")) if (locks.lock_class(f, c["a"][0]) or (None, None))[1] == "cond"]
    cp = [n for n, ds in f.local_defs().items() if len(ds) == 1 and ds[0] is not None and strip_casts(ds[0]).get("f") == "liveJobs"]
    nz = cond_edges(f, lambda c: c.get("k") == "bin" and c["op"] == "==" and strip_casts(c["lhs"]).get("n") in cp and const_val(c["rhs"]) == 0, "false")
    ok = len(dec) == 1 and bool(sig) and bool(nz) and f.must_pass(via_roots=sig, via_edges=nz, starts=[(dec[0][0], dec[0][1] + 1)])
    res.check(ok, "T2.must-signal", "COVER_best_finish:liveJobs->cond", f.loc, "after the decrement every path signals cond unless jobs are still live (copy taken under the lock)",
              "a job can finish as the last one without waking COVER_best_wait")
    res.need("T1.guarded-by", 8)
    res.need("T2.pairing", 3)
    res.need("T2.wait-loop", 1)
    res.need("T2.must-signal", 1)
    R = "T3.best-read-after-wait"
    for name in ("ZDICT_optimizeTrainFromBuffer_cover", "ZDICT_optimizeTrainFromBuffer_fastCover"):
        f = prog.fn(name)
        reads = [(b, i) for b, i, r in f.roots() for y in walk(r) if y.get("k") == "mem" and y.get("rec") == "COVER_best_s" and y.get("f") in ("dict", "dictSize", "parameters", "compressedSize")]
        wait = f.call_roots(("COVER_best_wait", "COVER_best_destroy"))
        st = f.call_roots("COVER_best_start")
        ok = bool(reads) and bool(wait) and bool(st) and f.must_pass(via_roots=f.call_roots("COVER_best_wait"), starts=[(b, i + 1) for b, i in st], targets=reads)
        res.check(ok, R, name, f.loc, "%d reads of the best candidate, all after COVER_best_wait" % len(reads), "the best candidate can be read while jobs are still running")
        # every exit destroys the record (which waits first) before the context/pool
        dst = f.call_roots("COVER_best_destroy")
        ini = f.call_roots("COVER_best_init")
        res.check(len(ini) == 1 and bool(dst) and f.must_pass(via_roots=dst, starts=[(ini[0][0], ini[0][1] + 1)]), R, name + ":destroy-on-every-exit", f.loc,
                  "COVER_best_destroy (which waits for running jobs) on every exit after init", "an exit leaves jobs running with a dangling context")
        ctxd = f.call_roots(("COVER_ctx_destroy", "FASTCOVER_ctx_destroy"))
        res.check(bool(ctxd) and all(f.must_pass(via_roots=wait, starts=[(b, i + 1) for b, i in st], targets=[c]) for c in ctxd), R, name + ":ctx-destroyed-after-wait", f.loc,
                  "the shared training context is destroyed only after the jobs using it finished", "context destroyed while jobs may still read it")
    d = prog.fn("COVER_best_destroy")
    w = d.call_roots("COVER_best_wait")
    fr = d.call_roots(("free", "pthread_mutex_destroy", "pthread_cond_destroy"))
    res.check(bool(w) and len(fr) >= 3 and d.must_pass(via_roots=w, targets=fr), R, "COVER_best_destroy:waits-first", d.loc, "waits before freeing and destroying", "destroys while jobs may run")
    for name in ("COVER_tryParameters", "FASTCOVER_tryParameters"):
        f = prog.fn(name)
        fin = f.call_roots("COVER_best_finish")
        res.check(len(fin) == 1 and f.must_pass(via_roots=fin, targets=[f.exit_node()]), R, name + ":finish-on-every-path", f.loc,
                  "every job, failed or not, reports to COVER_best_finish exactly once", "a job can end without reporting: COVER_best_wait would block forever")
    res.need(R, 9)
    # tie-break: strictly smaller wins
    f = prog.fn("COVER_best_finish")
    e = cond_edges(f, lambda c: c.get("k") == "bin" and c["op"] == "<" and any(y.get("f") == "compressedSize" for y in walk(c["rhs"])), "true")
    res.check(len(e) == 1, "T3.best-read-after-wait", "COVER_best_finish:strictly-better-wins", f.loc, "a candidate replaces the best one only when strictly smaller", "tie-break changed")


def worker_globals(prog, res):
    """T1: file-scope variables written from code the training workers can reach"""
    R = "T1.worker-shared-globals"
    seen = set()
    for entry in ("COVER_tryParameters", "FASTCOVER_tryParameters"):
        todo = [entry]
        while todo:
            n = todo.pop()
            if n in seen or not prog.has_fn(n):
                continue
            seen.add(n)
            for c in prog.fn(n).callees():
                todo.append(c)
    res.check(len(seen) > 40, R, "worker-reach", "lib/dictBuilder", "%d functions reachable from the two worker entry points" % len(seen), "worker call graph suspiciously small")
    found = {}
    for n in sorted(seen):
        f = prog.fn(n)
        if not f.file.startswith("lib/dictBuilder"):
            continue
        for b, i, x in f.events(lambda y: y.get("k") == "asg" or (y.get("k") == "un" and y.get("op", "").endswith(("++", "--")))):
            t = strip_casts(x.get("lhs") or x.get("e"))
            while t is not None and t.get("k") in ("mem", "idx"):
                t = strip_casts(t["b"])
            if t is not None and t.get("k") == "ref" and t.get("rk") == "g":
                found.setdefault((f.file, t["n"]), []).append((f, x.get("l")))
    for (fl, g), sites in sorted(found.items()):
        f, line = sites[0]
        res.bad(R, "%s:%s" % (fl.split("/")[-1], g), "%s:%s" % (fl, line),
                "file-scope variable `%s` is written by %s, which runs on training worker threads, with no lock held: data race with the other workers and the main thread"
                % (g, ", ".join(sorted({s[0].name for s in sites}))[:100]))
    if not found:
        res.ok(R, "none", "lib/dictBuilder", "no file-scope variable is written from worker-reachable code")
    res.need(R, 2)


def alloc_rules(prog, res):
    fns = [prog.fn(n) for n in ("COVER_tryParameters", "FASTCOVER_tryParameters", "COVER_selectDict", "ZDICT_trainFromBuffer_legacy", "ZDICT_trainFromBuffer_unsafe_legacy",
                                "COVER_ctx_init", "FASTCOVER_ctx_init", "ZDICT_trainFromBuffer_fastCover", "ZDICT_optimizeTrainFromBuffer_cover",
                                "ZDICT_optimizeTrainFromBuffer_fastCover", "ZDICT_analyzeEntropy", "ZDICT_getDictHeaderSize", "COVER_best_finish", "COVER_map_init",
                                "ZDICT_trainFromBuffer_cover", "COVER_checkTotalCompressedSize")]
    n = alloc.null_before_use(prog, res, "T5b.null-before-use", fns, NULL_EXC)
    res.need("T5b.null-before-use", 15)
    alloc.release_on_every_exit(prog, res, "T5c.release-on-every-exit", fns, REL_EXC, transfer_ok=("COVER_best_finish", "POOL_add", "COVER_tryParameters", "FASTCOVER_tryParameters",
                                                                                                     "setDictSelection", "COVER_dictSelectionFree"))
    res.need("T5c.release-on-every-exit", 10)


NULL_EXC = {}
REL_EXC = {}


def clock_taint(prog, res):
    """T14: clock() results only decide whether to print"""
    R = "T14.clock-only-gates-display"
    n = 0
    tainted_fns = {"clock", "ZDICT_clockSpan"}
    for f in prog.fns_in("lib/dictBuilder/cover.c", "lib/dictBuilder/fastcover.c", "lib/dictBuilder/zdict.c"):
        if f.name in tainted_fns:
            continue
        calls = [(b, i, c) for b, i, c in f.calls(tuple(tainted_fns))]
        if not calls:
            continue
        # tainted variables: assigned (only) from tainted calls
        tv = set()
        for b, i, x in f.events(lambda y: y.get("k") == "asg"):
            if any(is_call(y, tuple(tainted_fns)) for y in walk(x["rhs"])):
                t = strip_casts(x["lhs"])
                if t.get("k") == "ref":
                    tv.add((t.get("rk"), t["n"]))
        for nm, defs in f.local_defs().items():
            if any(d is not None and any(is_call(y, tuple(tainted_fns)) for y in walk(d)) for d in defs):
                tv.add(("l", nm))

        def is_tainted(y):
            return is_call(y, tuple(tainted_fns)) or (y.get("k") == "ref" and (y.get("rk"), y.get("n")) in tv) or (y.get("k") == "ref" and y.get("rk") == "g" and ("g", y.get("n")) in tv)
        for b, i, r in f.roots():
            uses = [y for y in walk(r) if is_tainted(y)]
            if not uses:
                continue
            n += 1
            ok = True
            why = ""
            k = r.get("k")
            if k == "asg" and (strip_casts(r["lhs"]).get("rk"), strip_casts(r["lhs"]).get("n")) in tv:
                continue            # time = clock()
            if k == "decl" and all(v.get("init") is None or not any(is_tainted(y) for y in walk(v["init"])) or is_call(strip_casts(v["init"]), tuple(tainted_fns))
                                   for v in r.get("vars", [])):
                continue            # clock_t const x = clock();
            # must be the condition of a branch whose exclusive region only displays / restarts the timer
            term = f.blocks[b]
            is_cond = term.get("cond") is not None and any(y.get("id") == term.get("cond") for y in walk(r)) or r.get("id") == term.get("cond")
            if not is_cond:
                # operand of a short-circuit condition evaluated in this block: accept when the root is a comparison
                is_cond = k == "bin" and r.get("op") in (">", "<", ">=", "<=")
            if not is_cond:
                ok, why = False, "time value used outside a display condition (root kind %s)" % k
            else:
                succ = [s for s in term["succ"] if s is not None]
                if len(succ) == 2:
                    tb = succ[0]
                    other = f.reachable([succ[1]])
                    region = [x for x in f.reachable([tb]) if x not in other]
                    for rb in region:
                        for el in f.blocks[rb]["el"]:
                            for y in walk(el):
                                if y.get("k") == "call" and y.get("c") not in DISPLAY_CALLS | tainted_fns:
                                    ok, why = False, "the time-gated region calls %s" % y.get("c")
                                if y.get("k") == "asg":
                                    t = strip_casts(y["lhs"])
                                    if not (t.get("k") == "ref" and (t.get("rk"), t.get("n")) in tv):
                                        ok, why = False, "the time-gated region assigns state other than the display timer"
            res.check(ok, R, "%s@%s" % (f.name, r.get("l") or f.blocks[b].get("tl") or i), "%s:%s" % (f.file, r.get("l") or f.line), "clock value only decides whether to refresh the progress display", why)
    res.check(n >= 6, R, "uses", "lib/dictBuilder", "%d uses of clock values in the trainers" % n, "clock uses vanished (%d)" % n)
    # no other impure source
    bad = set()
    for f in prog.fns_in("lib/dictBuilder/cover.c", "lib/dictBuilder/fastcover.c", "lib/dictBuilder/zdict.c", "lib/dictBuilder/divsufsort.c"):
        bad |= f.callees() & {"rand", "random", "srand", "time", "getenv", "getpid", "gettimeofday", "clock_gettime", "pthread_self"}
    res.check(not bad, R, "no-other-impure-source", "lib/dictBuilder", "no PRNG, wall clock, environment or thread-id call in the trainers", "trainers call %s" % sorted(bad))


def guarded_minuend(prog, res):
    """T8 (contradiction rule): in the trainers' context initialisers a size is compared with the d-mer size S (`X < S` is
    refused) and S is then subtracted from a size to count the d-mers.  The value S is subtracted from must be a value that
    was compared with S: otherwise the guard protects another quantity (total samples vs training part) and the count wraps."""
    R = "T8.guarded-minuend"
    n = 0
    for name in ("COVER_ctx_init", "FASTCOVER_ctx_init"):
        f = prog.fn(name)
        gs = [g for g in guards.guard_sites(f) if g.cond is not None]
        # guards of the form  A < S  (failure when smaller)
        guarded = {}      # shape of S -> set of names of A
        for g in gs:
            c = strip_casts(f.resolve_x(g.cond))
            if c is None or c.get("k") != "bin" or c.get("op") not in ("<", ">", "<=", ">="):
                continue
            l, r = strip_casts(f.resolve_x(c["lhs"])), strip_casts(f.resolve_x(c["rhs"]))
            small, big = (l, r) if c["op"] in ("<", "<=") else (r, l)
            if small is not None and small.get("k") == "ref" and big is not None:
                guarded.setdefault(f.shape(big, depth=3), set()).add(small["n"])
        for b, i, r in f.roots():
            for x in walk(r):
                if x.get("k") == "bin" and x.get("op") == "-":
                    a, sub = strip_casts(f.resolve_x(x["lhs"])), strip_casts(f.resolve_x(x["rhs"]))
                    if a is None or sub is None or a.get("k") != "ref" or const_val(sub) is not None:
                        continue
                    sh = f.shape(sub, depth=3)
                    if sh not in guarded:
                        continue
                    n += 1
                    res.check(a["n"] in guarded[sh], R, "%s:%s@%s" % (name, a["n"], x.get("l") or r.get("l")), f.loc,
                              "`%s - S` is protected by a refusal of `%s < S`" % (a["n"], a["n"]),
                              "%s subtracts the d-mer size from `%s`, but the refusal of too-small inputs compares %s with it: when `%s` is smaller "
                              "(empty training part with a split point below 1) the d-mer count wraps to ~2^64 and the segment selection reads far "
                              "beyond the samples" % (name, a["n"], sorted(guarded[sh]), a["n"]))
    res.need(R, 2)


def best_buffer_capacity(prog, res):
    """T8: COVER_best_finish keeps the best dictionary in a buffer whose capacity is recorded in best->dictSize.  The bulk
    copy into best->dict must be preceded by the growth test `best->dictSize < dictSize` (or the buffer being absent), and
    that test must see the OLD capacity: no write of best->dictSize may reach it."""
    R = "T8.best-buffer-capacity"
    f = prog.fn("COVER_best_finish")
    isbest = lambda y, fld: y.get("k") == "mem" and y.get("f") == fld and y.get("rec") == "COVER_best_s"
    grow = []
    for bid, cond, t, fl in f.branches():
        c = strip_casts(f.resolve_x(cond))
        if c is not None and c.get("k") == "bin" and c.get("op") in ("<", ">", "<=", ">=") and any(isbest(y, "dictSize") for y in f.walk_resolved(c)):
            grow.append(bid)
    copies = [(b, i) for b, i, c in f.calls(("memcpy", "__builtin_memcpy")) if any(isbest(y, "dict") for y in f.walk_resolved(c["a"][0]))]
    writes = f.find_roots(lambda x: x.get("k") == "asg" and isbest(strip_casts(x["lhs"]), "dictSize"))
    res.check(len(grow) == 1 and len(copies) == 1 and writes, R, "shape", f.loc, "one growth test, one copy, %d capacity update(s)" % len(writes),
              "COVER_best_finish: growth tests %d, copies %d, capacity updates %d" % (len(grow), len(copies), len(writes)))
    if len(grow) == 1 and copies:
        g = grow[0]
        absent = cond_edges(f, lambda c: isbest(c, "dict"), "false") + \
            guards.rel_edges(f, lambda a_: isbest(a_, "dict"), "==", lambda b_: const_val(strip_casts(b_)) == 0)   # no buffer yet: it is allocated for this size
        ok = f.must_pass(via_edges=[(g, s_) for s_ in f.succs(g)] + absent, targets=copies)
        res.check(ok, R, "copy-after-growth-test", f.loc, "the copy into best->dict follows the capacity test", "the best dictionary is copied without the capacity test")
        stale = [w for w in writes if (g, len(f.blocks[g]["el"])) in f.flow([(w[0], w[1] + 1)])]
        res.check(not stale, R, "test-sees-old-capacity", f.loc, "best->dictSize is updated only after the growth test",
                  "best->dictSize is overwritten with the new size before the growth test `best->dictSize < dictSize`: the test is never true, the buffer of "
                  "the first accepted candidate is never grown and a later, larger candidate is copied past its end")
    res.need(R, 3)


def worker_scratch_is_private(prog, res):
    """T1: the optimiser's pool jobs share one const context per `d`.  What a job WRITES while selecting segments - the
    frequency copy and the active-segment counters handed to FASTCOVER_buildDictionary / the activeDmers map and freqs of
    COVER_buildDictionary - must be allocated by the job itself: the corresponding arguments in the worker entry points are
    locals defined by an allocation in that function, never something reached through the shared context."""
    R = "T1.worker-scratch-private"
    n = 0
    for worker, builder, pos in (("FASTCOVER_tryParameters", "FASTCOVER_buildDictionary", (1, 5)), ("COVER_tryParameters", "COVER_buildDictionary", (1, 2))):
        f = prog.fn(worker)
        for b, i, c in f.calls(builder):
            for k in pos:
                if k >= len(c.get("a", [])):
                    continue
                n += 1
                a = strip_casts(f.resolve_x(c["a"][k]))
                ok = False
                if a is not None and a.get("k") == "ref" and a.get("rk") in ("l", "sl"):
                    d = f.single_def(a["n"])
                    ok = d is not None and any(is_call(y, ("malloc", "calloc")) for y in f.walk_resolved(d))
                elif a is not None and a.get("k") == "un" and a.get("op") == "&":
                    t = strip_casts(a["e"])
                    ok = t.get("k") == "ref" and t.get("rk") in ("l", "sl")      # address of a job-local object
                res.check(ok, R, "%s:arg%d" % (worker, k), "%s:%s" % (f.file, c.get("l")), "scratch argument %d of %s is allocated by the job" % (k, builder),
                          "%s hands %s a scratch array that is not its own allocation (argument %d): all jobs of the optimiser then count in the same "
                          "array without a lock - a data race, and the dictionary depends on the schedule" % (worker, builder, k))
    res.need(R, 4)


def dmer_reads_cover_the_hash_width(prog, res):
    """T11: FASTCOVER_hashPtrToIndex hashes a d-mer with ZSTD_hash6Ptr / ZSTD_hash8Ptr, which both LOAD 8 bytes whatever d is.
    A position handed to it must leave MAX(d, 8) bytes inside the samples: (a) a function that walks positions itself bounds them
    with a length whose definition carries that 8 (a MAX with 8 / sizeof(U64)); (b) the functions that take their positions from
    the epochs rely on nbDmers, defined from totalSamplesSize with the same MAX."""
    R = "T11.dmer-read-width"
    F = "lib/dictBuilder/fastcover.c"
    h = prog.fn("FASTCOVER_hashPtrToIndex", F) if prog.has_fn("FASTCOVER_hashPtrToIndex") else None
    wide = h is not None and {c.get("c") for b, i, c in h.calls()} >= {"ZSTD_hash6Ptr", "ZSTD_hash8Ptr"}
    res.check(wide, R, "hash-loads-8-bytes", F, "FASTCOVER_hashPtrToIndex hashes through ZSTD_hash6Ptr / ZSTD_hash8Ptr (8-byte loads)", "FASTCOVER_hashPtrToIndex changed: re-read the rule")

    def has8(f, node):
        return any((const_val(y) == 8 and y.get("k") in ("int", "sizeof", "cast", "un")) or (y.get("k") == "sizeof") for y in f.walk_deep(node))
    f = prog.fn("FASTCOVER_computeFrequency")
    calls = f.call_roots("FASTCOVER_hashPtrToIndex")
    guards_ = [(bid, t) for bid, cond, t, fl in f.branches()
               if (lambda c: c is not None and c.get("k") == "bin" and c.get("op") in ("<=", "<") and has8(f, c["lhs"]))(strip_casts(f.resolve_x(cond)))]
    res.check(bool(calls) and bool(guards_) and f.must_pass(via_edges=guards_, targets=calls), R, "FASTCOVER_computeFrequency:position-leaves-8-bytes", f.loc,
              "every hashed position passed `start + MAX(d, 8) <= sampleEnd`",
              "FASTCOVER_computeFrequency hashes positions bounded by d only: with d == 6 the last two d-mers of every sample load 8 bytes, the last ones "
              "1-2 bytes past the caller's samples buffer")
    g = prog.fn("FASTCOVER_ctx_init")
    nd = [x for b, i, x in g.events(lambda y: y.get("k") == "asg" and strip_casts(y["lhs"]).get("k") == "mem" and strip_casts(y["lhs"]).get("f") == "nbDmers")]
    res.check(bool(nd) and all(has8(g, x["rhs"]) for x in nd), R, "FASTCOVER_ctx_init:nbDmers-leaves-8-bytes", g.loc, "nbDmers = trainingSamplesSize - MAX(d, 8) + 1",
              "FASTCOVER_ctx_init defines nbDmers without the 8-byte hash width: segment selection hashes positions whose 8-byte load ends past the samples")
    res.need(R, 3)


def run(tier):
    res = Result("C18", tier)
    tus, info = extract(["dictBuilder", "compress", "common"])
    prog = Program(tus)
    res.info = info
    inv = json.load(open(os.path.join(HERE, "inv", "C18.json")))
    guards.check_inventory(prog, res, "T8.trainer-guards", inv)
    res.need("T8.trainer-guards", 60)
    finalize_rules(prog, res)
    trainer_rules(prog, res)
    epochs_within_corpus(prog, res)
    dmer_reads_cover_the_hash_width(prog, res)
    guarded_minuend(prog, res)
    best_rules(prog, res)
    best_buffer_capacity(prog, res)
    worker_scratch_is_private(prog, res)
    worker_globals(prog, res)
    alloc_rules(prog, res)
    clock_taint(prog, res)
    return res.finish(
        explanation="Trainers validate before building (frozen guards incl. both checkParameters), finalisation always leaves "
                    "content >= the largest start repcode, a non-zero ID and a size within capacity, segment copies are bounded by "
                    "the remaining tail, the best-candidate record follows its lock / wait / signal discipline and is only read "
                    "when quiescent, every job reports exactly once, allocations are NULL-tested, and clock() only gates display.",
        not_decided="round trip of the samples with the produced dictionary; quality/score arithmetic; that divsufsort is correct",
        assumptions=["pthread primitives behave as specified", "ZSTD_MULTITHREAD build"])
