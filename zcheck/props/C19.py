"""C19 — the command-line tool never loses or silently damages user data.
Static clauses: order of effects on every path (T3): source removal only after a closed,
successful destination; close result tested; artefact removed on failure; handler ordering;
overwrite needs force or an accepted confirmation; --rm disabled when the output cannot
stand for the source; who may delete (T10); library and stdio errors reach a non-zero
verdict (T4).  Not decided: enumeration over kill points, sparse vs non-sparse byte equality."""
from ..facts import extract
from ..ir import Program, walk, is_call, strip_casts, const_val, access_path
from ..report import Result
from ..rules import guards, errors
from ..rules.guards import cond_edges, mentions
from . import t4_common

F = "programs/fileio.c"


def flag_edges(f, field, which):
    return cond_edges(f, lambda c: c.get("k") == "mem" and c["f"] == field, which)


def strcmp_edges(f, param_index, mark, which):
    """edges where strcmp(<param>, <mark>) is non-zero (which='true') / zero."""
    return cond_edges(f, lambda c: is_call(c, "strcmp") and strip_casts(c["a"][0]).get("pi") == param_index and
                      any(y.get("n") == mark or mark in (y.get("s") or "") or mark in y.get("m", []) for y in walk(c["a"][1])), which)


def var_eq0_edges(f, name, which):
    """edges of `name == 0` (which='true' means name is 0); also `name != 0`, `!name`."""
    out = cond_edges(f, lambda c: c.get("k") == "bin" and c["op"] == "==" and strip_casts(c["lhs"]).get("n") == name and const_val(c["rhs"]) == 0, which)
    inv = "false" if which == "true" else "true"
    out += cond_edges(f, lambda c: c.get("k") == "bin" and c["op"] == "!=" and strip_casts(c["lhs"]).get("n") == name and const_val(c["rhs"]) == 0, inv)
    out += cond_edges(f, lambda c: c.get("k") == "ref" and c.get("n") == name, inv)
    return out


def closest(f, starts, targets):
    """among candidate start nodes, those from which a target is reachable and from which no other
    candidate is reachable (the last test before the sink: earlier tests of the same flag
    would need path sensitivity)."""
    live = [s for s in starts if any(t in f.flow([s]) for t in targets)]
    return [s for s in live if not any(o != s and o in f.flow([s]) for o in live)]


def source_removal(prog, res):
    R = "T3.remove-source-last"
    for fname, dstfn, src_pi in (("FIO_compressFilename_srcFile", "FIO_compressFilename_dstFile", 4),
                                 ("FIO_decompressSrcFile", "FIO_decompressDstFile", 4)):
        f = prog.fn(fname)
        rm = [(b, i) for b, i, c in f.calls("FIO_removeFile")]
        res.check(len(rm) == 1, R, fname + ":one-removal", f.loc, "one FIO_removeFile call", "FIO_removeFile calls: %d" % len(rm))
        if len(rm) != 1:
            continue
        call = [c for b, i, c in f.calls("FIO_removeFile")][0]
        arg = strip_casts(call["a"][0])
        opened = [c for b, i, c in f.calls("FIO_openSrcFile")]
        same = bool(opened) and arg.get("rk") == "p" and strip_casts(opened[0]["a"][1]).get("pi") == arg.get("pi")
        res.check(same, R, fname + ":removes-the-source-it-opened", f.loc, "the file removed is the one given to FIO_openSrcFile",
                  "the file removed is not the source that was opened")
        # result's only definition is the destination-stage verdict
        defs = [d for d in f.local_defs().get("result", []) if d is not None]
        ok = len(f.local_defs().get("result", [])) == 1 and is_call(strip_casts(defs[0]), dstfn)
        res.check(ok, R, fname + ":verdict-is-destination-stage", f.loc, "`result` is only ever the return of %s" % dstfn,
                  "`result` has other definitions than the return of %s" % dstfn)
        checks = [("--rm-requested", flag_edges(f, "removeSrcFile", "true")),
                  ("operation-succeeded", var_eq0_edges(f, "result", "true")),
                  ("not-stdin", strcmp_edges(f, arg.get("pi"), "stdinmark", "true"))]
        for nm, edges in checks:
            res.check(bool(edges) and f.must_pass(via_edges=edges, targets=rm), R, "%s:%s" % (fname, nm), f.loc,
                      "source removal only on that edge", "the source can be removed without `%s` having been established" % nm)
        ch = f.call_roots("clearHandler")
        res.check(bool(ch) and f.must_pass(via_roots=ch, targets=rm), R, fname + ":handler-cleared-first", f.loc,
                  "clearHandler() precedes the removal (a signal must not delete the destination too)", "source removed with the artefact handler still armed")
        ds = f.call_roots(dstfn)
        res.check(bool(ds) and f.must_pass(via_roots=ds, targets=rm), R, fname + ":after-destination-stage", f.loc,
                  "the destination stage (write + close) precedes the removal", "source can be removed before the destination was written and closed")
    res.need(R, 16)


def destination_stage(prog, res):
    R = "T3.close-and-verdict"
    for fname, work in (("FIO_compressFilename_dstFile", "FIO_compressFilename_internal"), ("FIO_decompressDstFile", "FIO_decompressFrames")):
        f = prog.fn(fname)
        setf = f.call_roots("AIO_WritePool_setFile")
        close = f.call_roots("AIO_WritePool_closeFile")
        infeasible = f.known_flag_edges((setf[0][0], setf[0][1] + 1)) if len(setf) == 1 else set()
        ok = len(setf) == 1 and len(close) == 1 and f.must_pass(via_roots=close, via_edges=infeasible, starts=[(b, i + 1) for b, i in setf])
        res.check(ok, R, fname + ":every-exit-closes", f.loc, "a destination opened here is closed on every path to the exit",
                  "a path leaves %s with the destination it opened still open" % fname)
        # close result tested, failure makes the verdict non-zero
        okv = False
        for bid, cond, t, fl in f.branches():
            c = f.resolve_x(cond)
            if is_call(strip_casts(c), "AIO_WritePool_closeFile"):
                wr = f.find_roots(lambda x: x.get("k") == "asg" and strip_casts(x["lhs"]).get("n") == "result" and (const_val(x["rhs"]) or 0) != 0)
                # an assignment of a non-zero verdict reachable only through the failure edge, and unavoidable on it
                okv = any(f.must_pass(via_edges={(bid, t)}, targets=[w]) for w in wr) and \
                    f.must_pass(via_roots=wr, starts=[(t, 0)])
        res.check(okv, R, fname + ":close-failure-is-a-failure", f.loc, "a failing close (flush of the last bytes) sets result = 1",
                  "the result of AIO_WritePool_closeFile no longer turns the verdict into a failure")
        rets = [r for b, i, r in f.returns() if strip_casts(r.get("e")).get("n") == "result"]
        res.check(bool(rets), R, fname + ":returns-verdict", f.loc, "returns `result`", "no longer returns the verdict variable")
        # artefact removal on failure
        rm = f.call_roots("FIO_removeFile")
        succ_e = var_eq0_edges(f, "result", "true")
        stdout_e = strcmp_edges(f, [i for i, p in enumerate(f.params) if p["n"] == "dstFileName"][0], "stdoutmark", "false")
        ok = bool(rm) and bool(close) and f.must_pass(via_roots=rm, via_edges=succ_e + stdout_e, starts=[(b, i + 1) for b, i in close])
        res.check(ok, R, fname + ":artefact-removed-on-failure", f.loc,
                  "after the close, a failed operation removes the destination (unless stdout)", "a failed operation can leave its output file behind")
        # handler: armed only after a successful open, cleared before the close
        add = f.call_roots("addHandler")
        opn = f.call_roots("FIO_openDstFile")
        nonnull = cond_edges(f, lambda c: c.get("k") == "bin" and c["op"] == "==" and const_val(c["rhs"]) == 0 and
                             "c:FIO_openDstFile" in f.anchors(c["lhs"]), "false")
        ok = bool(add) and bool(opn) and f.must_pass(via_edges=nonnull, targets=add)
        res.check(ok, R, fname + ":handler-after-successful-open", f.loc, "addHandler only after FIO_openDstFile succeeded",
                  "the artefact handler can be armed for a file this run did not create (an existing file could be deleted on Ctrl-C)")
        clr = f.call_roots("clearHandler")
        ok = bool(clr) and f.must_pass(via_roots=clr, targets=close, starts=[(b, i + 1) for b, i in add])
        res.check(ok, R, fname + ":handler-cleared-before-close", f.loc, "clearHandler precedes the close", "handler still armed while closing")
        w = f.call_roots(work)
        res.check(bool(w) and f.must_pass(via_roots=w, targets=close, starts=[(b, i + 1) for b, i in setf]), R, fname + ":work-before-close", f.loc,
                  "the (de)compression runs before the close", "close can precede the work")
    c = prog.fn("AIO_WritePool_closeFile")
    se = c.call_roots("AIO_WritePool_sparseWriteEnd")
    sf = c.call_roots("AIO_IOPool_setFile")
    fc = c.call_roots("fclose")
    ok = len(se) == 1 and len(sf) == 1 and len(fc) == 1 and c.must_pass(via_roots=se, targets=sf) and c.must_pass(via_roots=sf, targets=fc)
    res.check(ok, R, "AIO_WritePool_closeFile:order", c.loc, "sparse tail written, pool joined (setFile(NULL)), then fclose",
              "close order changed: sparse end / join / fclose")
    rv = [r for b, i, r in c.returns()]
    res.check(len(rv) == 1 and any(is_call(x, "fclose") for x in walk(rv[0])), R, "AIO_WritePool_closeFile:returns-fclose", c.loc,
              "returns the result of fclose", "fclose result is not what the function returns")
    s = prog.fn("AIO_IOPool_setFile")
    j = s.call_roots("AIO_IOPool_join")
    wr = s.find_roots(lambda x: x.get("k") == "asg" and strip_casts(x["lhs"]).get("f") == "file")
    res.check(bool(j) and bool(wr) and s.must_pass(via_roots=j, targets=wr), R, "AIO_IOPool_setFile:join-first", s.loc,
              "all queued writes are joined before the file handle changes", "file handle replaced while writes may still be queued")
    res.need(R, 17)


def who_may_delete(prog, res):
    R = "T10.who-may-delete"
    allowed = {"FIO_removeFile", "INThandler", "FIO_removeArtefactAtExit"}
    users = {}
    for f in prog.fns_in("programs/fileio.c", "programs/fileio_asyncio.c", "programs/util.c", "programs/zstdcli.c"):
        for b, i, c in f.calls(("remove", "unlink", "rmdir", "_unlink")):
            users.setdefault(f.name, []).append(c.get("l"))
    bad = sorted(set(users) - allowed)
    res.check(not bad and "FIO_removeFile" in users, R, "remove/unlink-callers", F, "only %s delete files" % sorted(users), "file deletion from %s" % bad)
    callers = {}
    for f in prog.fns_in("programs/fileio.c"):
        n = len(f.calls("FIO_removeFile"))
        if n:
            callers[f.name] = n
    want = {"FIO_openDstFile": 1, "FIO_compressFilename_dstFile": 1, "FIO_compressFilename_srcFile": 1, "FIO_decompressDstFile": 1, "FIO_decompressSrcFile": 1}
    res.check(callers == want, R, "FIO_removeFile-call-sites", F, "5 call sites: source after success x2, failed destination x2, pre-unlink",
              "FIO_removeFile call sites changed: %s" % {k: v for k, v in callers.items() if want.get(k) != v})
    h = prog.fn("INThandler")
    args = [strip_casts(c["a"][0]) for b, i, c in h.calls("remove")]
    res.check(len(args) == 1 and args[0].get("n") == "g_artefact", R, "INThandler:removes-only-artefact", h.loc, "signal handler removes g_artefact only",
              "signal handler removes something else than g_artefact")
    g = prog.fn("FIO_removeFile")
    gs = [x for bid, cond, t, fl in g.branches() for x in [g.resolve_x(cond)] if any(is_call(y, "UTIL_isRegularFileStat") for y in walk(x))]
    rm = g.call_roots("remove")
    reg = cond_edges(g, lambda c: is_call(c, "UTIL_isRegularFileStat"), "true")
    res.check(bool(rm) and bool(reg) and g.must_pass(via_edges=reg, targets=rm), R, "FIO_removeFile:regular-files-only", g.loc,
              "refuses to remove non-regular files", "FIO_removeFile can remove a non-regular file")
    res.need(R, 4)


def no_clobber(prog, res):
    R = "T3.no-clobber"
    f = prog.fn("FIO_openDstFile")
    opens = f.call_roots(("open", "fopen", "_open"))
    pre = f.call_roots("FIO_removeFile")
    res.check(len(opens) == 1 and len(pre) == 1, R, "shape", f.loc, "one open, one pre-unlink", "open calls: %d, pre-unlink: %d" % (len(opens), len(pre)))
    exists = cond_edges(f, lambda c: c.get("k") == "ref" and c.get("n", "").startswith("isDstRegFile"), "true")
    force = flag_edges(f, "overwrite", "true")
    conf = cond_edges(f, lambda c: is_call(c, "UTIL_requireUserConfirmation"), "false")
    ok = bool(exists) and bool(force) and bool(conf)
    if ok:
        starts = closest(f, [(e[1], 0) for e in exists], pre)
        ok = bool(starts) and f.must_pass(via_edges=force + conf, starts=starts, targets=pre + opens)
    res.check(ok, R, "existing-file-needs-force-or-yes", f.loc,
              "an existing regular file is unlinked/truncated only with -f or an accepted confirmation",
              "an existing destination can be overwritten without -f and without confirmation")
    quiet = cond_edges(f, lambda c: c.get("k") == "bin" and c["op"] == "<=" and "displayLevel" in {y["f"] for y in walk(c) if y.get("k") == "mem"}, "true")
    ok = bool(quiet) and not any(t in f.flow([(e[1], 0) for e in quiet]) for t in pre + opens)
    res.check(ok, R, "quiet-mode-refuses", f.loc, "with no interaction possible the existing file is kept", "quiet mode can overwrite")
    same = cond_edges(f, lambda c: is_call(c, "UTIL_isSameFile"), "true")
    ok = bool(same) and not any(t in f.flow([(e[1], 0) for e in same]) for t in opens)
    res.check(ok, R, "never-overwrite-the-input", f.loc, "dst == src is refused before opening", "destination equal to the source can be opened (truncated)")
    test = flag_edges(f, "testMode", "true")
    ok = bool(test) and not any(t in f.flow([(e[1], 0) for e in test]) for t in opens)
    res.check(ok, R, "test-mode-opens-nothing", f.loc, "test mode never opens a destination", "test mode can open/truncate a file")
    # a destination opened WITHOUT a source name (several sources into one -o file) skips FIO_openDstFile's same-file guard:
    # every such open is preceded by a comparison of the destination with the sources (a call reaching UTIL_isSameFile)
    cmpfns = {g.name for g in prog.fns_in("programs/fileio.c") if "UTIL_isSameFile" in g.callees()}
    nshared = 0
    for g in prog.fns_in("programs/fileio.c"):
        for b, i, c in g.calls("FIO_openDstFile"):
            if len(c.get("a", [])) >= 3 and const_val(strip_casts(c["a"][2])) == 0:
                nshared += 1
                chk = g.find_roots(lambda x: x.get("k") == "call" and x.get("c") in cmpfns)
                tm = flag_edges(g, "testMode", "true")
                res.check(bool(chk) and g.must_pass(via_roots=chk, via_edges=tm, targets=[(b, i)]), R, "%s:shared-destination-is-not-a-source" % g.name, "%s:%s" % (g.file, c.get("l")),
                          "the destination is compared with every source before it is opened (and an existing file removed)",
                          "%s opens the shared destination without comparing it with the sources: `zstd -f a b -o a` removes a before reading it" % g.name)
    res.check(nshared >= 2, R, "shared-destination:sites", "programs/fileio.c", "%d opens of a shared destination" % nshared, "opens of a shared destination: %d" % nshared)
    # the confirmation helper says `proceed` only for an accepted letter
    u = prog.fn("UTIL_requireUserConfirmation")
    found = cond_edges(u, lambda c: c.get("k") == "bin" and c["op"] == "==" and const_val(c["rhs"]) == 0 and
                       any(is_call(y, "strchr") for y in walk(c["lhs"])), "false")
    refuse = u.find_roots(lambda x: x.get("k") == "asg" and strip_casts(x["lhs"]).get("n") == "result" and (const_val(x["rhs"]) or 0) != 0)
    maybe0 = [(b, i) for b, i, r in u.returns() if const_val(r.get("e")) != 1]
    ok = bool(found) and bool(refuse) and bool(maybe0) and u.must_pass(via_edges=found, via_roots=refuse, targets=maybe0)
    res.check(ok, R, "confirmation:proceed-only-on-accepted-letter", u.loc,
              "returns 0 (proceed) only when the character read is one of the acceptable letters",
              "UTIL_requireUserConfirmation can answer `proceed` without having read an acceptable letter (e.g. EOF on stdin)")
    # strchr(letters, ch) also finds the terminating NUL: the accepting path must additionally pass `ch != 0`
    # (the value tested is the one handed to strchr as its second argument)
    chn = {strip_casts(c["a"][1]).get("n") for b, i, c in u.calls("strchr") if len(c.get("a", [])) == 2}
    nonnul = guards.rel_edges(u, lambda a: strip_casts(a).get("k") == "ref" and strip_casts(a).get("n") in chn, "==", lambda b_: const_val(strip_casts(b_)) == 0, truth=False)
    ok = bool(nonnul) and u.must_pass(via_edges=nonnul, via_roots=refuse, targets=maybe0)
    res.check(ok, R, "confirmation:nul-is-not-a-letter", u.loc, "the proceed answer also requires the character to be non-NUL",
              "UTIL_requireUserConfirmation accepts the answer on strchr() alone, which matches the letters' terminating NUL: a NUL byte on stdin "
              "overwrites an existing file without -f")
    stdin_e = cond_edges(u, lambda c: c.get("k") == "ref" and c.get("rk") == "p" and c.get("pi") == 3, "true")
    ok = bool(stdin_e) and not any(t in u.flow([(e[1], 0) for e in stdin_e]) for t in maybe0)
    res.check(ok, R, "confirmation:stdin-is-input-refuses", u.loc, "when stdin carries data the answer is `abort`", "prompt consumed from a stdin that carries the data")
    res.need(R, 11)


def rm_disabled(prog, res):
    R = "T3.rm-only-when-safe"
    f = prog.fn("FIO_multiFilesConcatWarning")
    nor = [b for b, blk in f.blocks.items() if blk.get("noret")]
    res.check(len(nor) >= 2, R, "hard-fail:stdout/test+rm", f.loc, "both `--rm with stdout / test mode` hard failures present",
              "hard failures protecting the sources: %d" % len(nor))
    multi = cond_edges(f, lambda c: c.get("k") == "un" and False, "true")
    noout = cond_edges(f, lambda c: c.get("k") == "ref" and c.get("rk") == "p" and c.get("pi") == 2, "true")  # outFileName non-NULL
    clr = f.find_roots(lambda x: x.get("k") == "asg" and strip_casts(x["lhs"]).get("f") == "removeSrcFile" and const_val(x["rhs"]) == 0)
    norm = flag_edges(f, "removeSrcFile", "false")
    proceed = [(b, i) for b, i, r in f.returns() if const_val(r.get("e")) == 0]
    ok = bool(noout) and bool(clr) and bool(proceed)
    if ok:
        starts = [(e[1], 0) for e in noout]
        tg = [p for p in proceed if p in f.flow(starts)]
        ok = bool(tg) and f.must_pass(via_roots=clr, via_edges=norm, starts=starts, targets=tg)
    res.check(ok, R, "concat:rm-cleared-before-proceeding", f.loc,
              "with several inputs and one output, --rm is cleared before the run may proceed",
              "a multi-input single-output run can proceed with --rm still set")
    for fname in ("FIO_compressMultipleFilenames", "FIO_decompressMultipleFilenames"):
        g = prog.fn(fname)
        w = g.call_roots("FIO_multiFilesConcatWarning")
        o = g.call_roots("FIO_openDstFile")
        ok = bool(w) and bool(o) and g.must_pass(via_roots=w, targets=o)
        res.check(ok, R, fname + ":warning-before-single-output", g.loc, "the single shared output is opened only after FIO_multiFilesConcatWarning",
                  "shared output opened without passing FIO_multiFilesConcatWarning")
    m = prog.fn("main")
    sr = m.call_roots("FIO_setRemoveSrcFile")
    z = m.find_roots(lambda x: x.get("k") == "asg" and strip_casts(x["lhs"]).get("n") == "removeSrcFile" and const_val(x["rhs"]) == 0)
    std = cond_edges(m, lambda c: c.get("k") == "ref" and c.get("n") == "hasStdout", "false") + \
        cond_edges(m, lambda c: c.get("k") == "ref" and c.get("n") == "removeSrcFile", "false")
    hs = cond_edges(m, lambda c: c.get("k") == "ref" and c.get("n") == "hasStdout", "true")
    ok = bool(sr) and bool(hs)
    if ok:
        # from the `hasStdout` true edge, FIO_setRemoveSrcFile is reached only through removeSrcFile = 0 (or rm not set)
        ok = m.must_pass(via_roots=z, via_edges=cond_edges(m, lambda c: c.get("k") == "ref" and c.get("n") == "removeSrcFile", "false"),
                         starts=closest(m, [(e[1], 0) for e in hs], sr), targets=sr)
    res.check(ok, R, "main:rm-reset-for-stdout", m.loc, "--rm is reset when the output goes to stdout", "--rm survives with stdout output")
    # ... and when it goes to the null device (strcmp(outFileName, nulmark) == 0): nothing is kept that reproduces the source
    def is_null_cmp(c):
        return any(is_call(y, "strcmp") and any("null" in str(z.get("v") or z.get("s") or "").lower() or z.get("k") == "str" and "NUL" in str(z) for a_ in y.get("a", []) for z in walk(a_)) for y in m.walk_resolved(c))
    nulls = [(bid, t) for bid, cond, t, fl in m.branches() if is_null_cmp(m.resolve_x(cond)) and strip_casts(m.resolve_x(cond)).get("k") == "un"] + \
            [(bid, fl) for bid, cond, t, fl in m.branches() if is_null_cmp(m.resolve_x(cond)) and strip_casts(m.resolve_x(cond)).get("k") == "call"]
    okn = False
    for e in nulls:
        st = closest(m, [(e[1], 0)], sr)
        if st and m.must_pass(via_roots=z, via_edges=cond_edges(m, lambda c: c.get("k") == "ref" and c.get("n") == "removeSrcFile", "false"), starts=st, targets=sr):
            okn = True
    res.check(okn, R, "main:rm-reset-for-null-device", m.loc, "--rm is reset when the output is the null device",
              "--rm survives when the output is the null device: `zstd --rm FILE -o /dev/null` deletes FILE although nothing reproduces it")
    tm = cond_edges(m, lambda c: c.get("k") == "bin" and c["op"] == "==" and any(y.get("n") == "zom_test" for y in walk(c)), "true")
    ok = bool(tm) and m.must_pass(via_roots=z, starts=[(e[1], 0) for e in tm], targets=sr)
    res.check(ok, R, "main:rm-reset-for-test", m.loc, "--rm is reset in test mode", "--rm survives in test mode")
    res.need(R, 6)


STDIO = ("fwrite", "fflush", "fclose", "fseek", "fseeko", "ftruncate", "fseeko64")
STDIO_EXC = {
    ("FIO_decompressSrcFile", "fclose"): None,
}


def stdio_discipline(prog, res):
    """T4-stdio: results of write-side stdio calls reach a branch (and thereby an error exit)."""
    R = "T4.stdio"
    n = 0
    for f in prog.fns_in("programs/fileio.c", "programs/fileio_asyncio.c"):
        for b, i, r in f.roots():
            for x in walk(r):
                if x.get("k") != "call" or x.get("c") not in STDIO:
                    continue
                if x["c"] == "fflush" and strip_casts(x["a"][0]).get("n") == "stderr":
                    continue     # progress display, not user data
                n += 1
                verdict, detail = errors.classify_call(f, b, i, r, x, ())
                ok = verdict in ("checked", "returned") or detail.startswith(("operand of", "tested as a boolean", "compared"))
                if verdict.startswith("local:"):
                    nm = verdict[6:]
                    ok = any(any(y.get("k") == "ref" and y.get("n") == nm for y in walk(f.resolve_x(c))) for _, c, _, _ in f.branches()) or \
                        any(any(y.get("k") == "ref" and y.get("n") == nm for y in walk(rr)) for _, _, rr in f.returns())
                key = "%s:%s" % (f.name, x["c"])
                if not ok and x["c"] == "fclose" and is_read_stream(f, x):
                    res.ok(R, key, "%s:%s" % (f.file, x.get("l")), "fclose of a read-only stream")
                    continue
                res.check(ok, R, key, "%s:%s" % (f.file, x.get("l")), "result tested / returned",
                          "result of %s is ignored: a write error would not reach the exit status" % x["c"])
    res.count("stdio_sites", n)
    res.need(R, 10)


def is_read_stream(f, call):
    a = strip_casts(call["a"][0])
    anc = f.anchors(a, depth=3)
    # streams obtained from fopen(..., "rb") in the same function or the read pool's file
    if "c:AIO_ReadPool_getFile" in anc or "f:srcFile" in anc:
        return True
    for d in f.local_defs().get(a.get("n", ""), []):
        if d is not None:
            for y in walk(d):
                if is_call(y, "fopen") and any((z.get("s") or "").startswith("r") for z in walk(y["a"][1])):
                    return True
    return a.get("n") in ("srcFile", "f", "file") and f.name in ("FIO_getDictFileStat", "FIO_setDictBufferMalloc", "AIO_ReadPool_closeFile",
                                                                     "FIO_listFile", "getFileInfo_fileConfirmed", "FIO_loadFile")


def artefact_on_exit(prog, res):
    """a fatal error (EXM_THROW -> exit) while a destination is being produced must not
    leave the partial file: the artefact is removed by an atexit hook armed with the handler."""
    R = "T3.no-artefact-on-fatal-exit"
    a = prog.fn("addHandler")
    reg = [c for b, i, c in a.calls("atexit")]
    ok = False
    hook = None
    if reg:
        hook = [y.get("n") for y in walk(reg[0]["a"][0]) if y.get("k") == "ref" and y.get("rk") == "f"]
        if hook and prog.has_fn(hook[0]):
            h = prog.fn(hook[0])
            ok = any(strip_casts(c["a"][0]).get("n") == "g_artefact" for b, i, c in h.calls("remove"))
    exits = sorted({f.name for f in prog.fns_in("programs/fileio.c", "programs/fileio_asyncio.c") if f.calls("exit")})
    res.check(ok, R, "exit-between-addHandler-and-clearHandler", a.loc,
              "an atexit hook registered by addHandler removes g_artefact (set only while a destination is being produced)",
              "%d functions of fileio*.c call exit() on fatal errors (write error, read error, ...) and nothing removes the partially "
              "written destination: a failed operation leaves an output file behind" % len(exits))


def sparse_skip_conservation(prog, res):
    """T3: zero bytes turned into a pending skip are neither lost nor doubled: every relative seek over the pending skip
    is followed, before the counter is used again, by removing from the counter exactly what was sought; the final
    flush seeks counter-1 and writes one zero byte."""
    R = "T3.sparse-skip-conservation"
    f = prog.fn("AIO_fwriteSparse")
    rets = [strip_casts(r.get("e")) for b, i, r in f.returns() if r.get("e") is not None]
    ctr = [e.get("n") for e in rets if e.get("k") == "ref" and e.get("rk") == "p"]
    res.check(len(set(ctr)) == 1, R, "counter", f.loc, "the pending-skip counter is the parameter the function returns", "pending-skip counter not identified")
    if len(set(ctr)) != 1:
        return
    C = ctr[0]
    seeks = [(b, i, c) for b, i, c in f.calls(("fseeko", "fseek", "fseeko64", "_fseeki64")) if const_val(c["a"][2]) == 1]
    res.check(len(seeks) >= 3, R, "seek-sites", f.loc, "%d relative seeks over pending zeroes" % len(seeks), "seek sites vanished (%d)" % len(seeks))
    upd = [(b, i, x) for b, i, x in f.events(lambda y: y.get("k") == "asg") if strip_casts(x["lhs"]).get("n") == C and strip_casts(x["lhs"]).get("rk") == "p"]
    for b, i, c in seeks:
        amt = strip_casts(f.resolve_x(c["a"][1]))
        whole = amt.get("k") == "ref" and amt.get("n") == C
        k = const_val(amt)
        # the first counter update reachable after the seek on each path
        good = []
        for b2, i2, x in upd:
            if whole and x.get("op") == "=" and const_val(x["rhs"]) == 0:
                good.append((b2, i2))
            elif k is not None and x.get("op") == "-=" and const_val(x["rhs"]) == k:
                good.append((b2, i2))
        other = [(b2, i2) for b2, i2, x in upd if (b2, i2) not in good and x.get("op") != "+="]
        # reads of the counter after the seek must come after a matching update; mismatching updates must not come first
        reads_or_bad = other + [(rb, ri) for rb, ri, r in f.returns()] + [(b3, i3) for b3, i3, x in upd if x.get("op") == "+="]
        ok = bool(good) and f.must_pass(via_roots=good, starts=[(b, i + 1)], targets=reads_or_bad)
        what = "the whole counter" if whole else ("%d bytes" % k if k is not None else "an amount")
        res.check(ok, R, "seek@%s" % c.get("l"), "%s:%s" % (f.file, c.get("l")), "after seeking over %s the counter is reduced by exactly that before it is used again" % what,
                  "after seeking over %s the pending-skip counter is not reduced by the same amount: zero bytes are dropped from (or added to) the output" % what)
    e = prog.fn("AIO_fwriteSparseEnd")
    sk = [c for b, i, c in e.calls(("fseeko", "fseek", "fseeko64", "_fseeki64"))]
    wr = [c for b, i, c in e.calls("fwrite")]
    ok = len(sk) == 1 and len(wr) == 1
    if ok:
        a = strip_casts(e.resolve_x(sk[0]["a"][1]))
        ok = a.get("k") == "bin" and a.get("op") == "-" and strip_casts(a["lhs"]).get("rk") == "p" and const_val(a["rhs"]) == 1 and const_val(wr[0]["a"][1]) == 1 and const_val(wr[0]["a"][2]) == 1
    res.check(ok, R, "final-flush", e.loc, "the last pending skip is materialised as seek(counter - 1) + one zero byte", "final skip no longer accounts for every pending zero")
    res.need(R, 6)


def pass_through_only_at_file_start(prog, res):
    """T3: -dcf copies a file that is not compressed at all.  Once a frame of the file has been decoded, what follows is either
    another frame or an error (the library's verdict): every FIO_passThrough call in the frame loop lies on the edge where the
    count of decoded frames (a local incremented after each frame decoder) is still zero."""
    R = "T3.pass-through-only-at-file-start"
    f = prog.fn("FIO_decompressFrames")
    pt = f.call_roots("FIO_passThrough")
    incs = [strip_casts(x["e"]).get("n") for b, i, x in f.events(lambda y: y.get("k") == "un" and y.get("op", "").endswith("++")) if strip_casts(x["e"]).get("k") == "ref"]
    dec = f.call_roots(("FIO_decompressZstdFrame", "FIO_decompressGzFrame", "FIO_decompressLzmaFrame", "FIO_decompressLz4Frame"))
    res.check(len(pt) >= 1 and len(dec) >= 1, R, "shape", f.loc, "%d pass-through site(s), %d frame decoders" % (len(pt), len(dec)), "pass-through sites %d, frame decoders %d" % (len(pt), len(dec)))
    none_yet = guards.rel_edges(f, lambda a: strip_casts(a).get("k") == "ref" and strip_casts(a).get("n") in incs, "==", lambda b_: const_val(strip_casts(b_)) == 0, truth=True) + \
        guards.truthy_edges(f, lambda c: c.get("k") == "ref" and c.get("n") in incs, truth=False)
    for t in pt:
        res.check(bool(none_yet) and f.must_pass(via_edges=none_yet, targets=[t]), R, "site@%s" % f.blocks[t[0]]["el"][t[1]].get("l"), f.loc,
                  "pass-through only while no frame of this file has been decoded",
                  "FIO_decompressFrames can fall back to pass-through after it decoded a frame: `zstd -dcf` on a valid frame followed by garbage appends the "
                  "garbage to the output and exits 0, where the library refuses the input")
    res.need(R, 2)


def frames_end_on_empty_input(prog, res):
    """T3: the CLI's verdict for a file equals the library's.  The frame loop of FIO_decompressFrames may report success
    (return 0) only when, after at least one frame, NOTHING is left in the input: its only way to the success return is the
    edge on which the read buffer holds exactly zero bytes.  1..3 left-over bytes cannot be a frame (the library refuses them
    as srcSize_wrong / prefix_unknown) and must not be taken for the end of the file."""
    R = "T3.frames-end-on-empty-input"
    f = prog.fn("FIO_decompressFrames")
    ok_rets = [(b, i) for b, i, r in f.returns() if r.get("e") is not None and strip_casts(r["e"]).get("k") == "int" and const_val(r["e"]) == 0]
    res.check(len(ok_rets) >= 1, R, "success-return", f.loc, "%d literal success return(s)" % len(ok_rets), "FIO_decompressFrames has no literal `return 0`")
    loaded = lambda a: any(y.get("k") == "mem" and y.get("f") == "srcBufferLoaded" for y in f.walk_resolved(a))
    empty = guards.rel_edges(f, loaded, "==", lambda b_: const_val(strip_casts(b_)) == 0) + \
        cond_edges(f, lambda c: c.get("k") == "mem" and c.get("f") == "srcBufferLoaded", "false")
    ok = bool(empty) and bool(ok_rets) and f.must_pass(via_edges=empty, targets=ok_rets)
    res.check(ok, R, "success-only-when-nothing-left", f.loc, "the success return is reached only through `srcBufferLoaded == 0`",
              "FIO_decompressFrames can report success with bytes left in its input buffer (e.g. on `srcBufferLoaded < 4`): 1 to 3 trailing bytes after a "
              "valid frame, which the library rejects, give exit status 0 - and with --rm the damaged source is deleted")
    res.need(R, 2)


def shared_destination_on_failure(prog, res):
    """T3: "a failed operation leaves no output file behind" for the mode where several inputs go into ONE destination
    (`-o FILE` with several sources): the destination is opened once by FIO_(de)compressMultipleFilenames, every source is
    processed into it and the statuses are OR-ed.  When a status is non-zero the function must remove the destination (or
    never have created it) before it returns that status: structurally, a FIO_removeFile / remove call lies between the
    close of the shared destination and the return."""
    R = "T3.shared-destination-removed-on-failure"
    for name in ("FIO_decompressMultipleFilenames", "FIO_compressMultipleFilenames"):
        f = prog.fn(name)
        opens = f.call_roots("FIO_openDstFile")
        res.check(len(opens) >= 1, R, name + ":shared-open", f.loc, "opens one destination for all sources", "%s no longer opens a shared destination" % name)
        if not opens:
            continue
        after = f.flow([(b, i + 1) for b, i in opens])
        rm = [t for t in f.call_roots(("FIO_removeFile", "remove", "FIO_remove")) if t in after]
        res.check(bool(rm), R, name, f.loc, "a failed source removes the shared destination",
                  "%s opens one destination for several sources, ORs their statuses and returns: nothing removes the destination when a source "
                  "failed, so `zstd -d a.zst truncated.zst -o out` exits 1 and leaves `out` with a partial result" % name)
    res.need(R, 4)


COLLIDE = ("FIO_checkFilenameCollisions", "FIO_checkDstNameCollisions")


def flat_directory_collisions(prog, res):
    """T3: in a flat output directory (--output-dir-flat) sources of one base name share one destination, each overwriting the
    previous result.  With --rm that loses every source but the last, so the collision verdict (FIO_checkFilenameCollisions,
    tested in a branch) must be taken BEFORE the first source is processed, and its positive edge must not reach the
    per-source stage."""
    R = "T3.flat-directory-collisions-refused-before-removal"
    for name, stage in (("FIO_compressMultipleFilenames", "FIO_compressFilename_srcFile"), ("FIO_decompressMultipleFilenames", "FIO_decompressSrcFile")):
        f = prog.fn(name)
        per = f.call_roots(stage)
        res.check(len(per) >= 2, R, name + ":stages", f.loc, "%d per-source stage calls" % len(per), "%s has %d calls of %s" % (name, len(per), stage))
        def verdict(c):
            """the collision verdict itself, or a local that holds it (`v = cond ? FIO_checkFilenameCollisions(..) : 0`)"""
            if is_call(c, COLLIDE):
                return True
            d = f.single_def(c.get("n")) if c.get("k") == "ref" and c.get("rk") in ("l", "sl") else None
            return d is not None and any(is_call(y, COLLIDE) for y in f.walk_deep(d))
        hit = guards.truthy_edges(f, verdict, truth=True)
        clear = guards.truthy_edges(f, verdict, truth=False)
        before = [e for e in clear if any(t in f.flow([(e[1], 0)]) for t in per)]
        gated = [e for e in hit if not any(t in f.flow([(e[1], 0)]) for t in per)]
        rm_side = flag_edges(f, "removeSrcFile", "true")
        on_rm = bool(hit) and all(f.must_pass(via_edges=rm_side, targets=[(e[0], len(f.blocks[e[0]]["el"]))]) for e in hit) if rm_side else False
        if not on_rm and hit:
            # the verdict is held in a local computed as `rm && .. ? collisions : 0`: the rm test guards the call inside the definition
            for n, ds in f.local_defs().items():
                for d in ds:
                    dd = strip_casts(f.resolve_x(d)) if d is not None else None
                    if dd is not None and dd.get("k") == "cond" and any(is_call(y, COLLIDE) for y in f.walk_resolved(dd.get("t") or {})) \
                            and any(y.get("k") == "mem" and y.get("f") == "removeSrcFile" for y in f.walk_resolved(dd.get("c") or {})):
                        on_rm = True
        res.check(bool(before) and len(gated) == len(hit) and bool(hit), R, name + ":verdict-before-first-source", f.loc,
                  "the collision verdict is tested before the per-source stage and its positive edge never reaches it",
                  "%s does not refuse colliding names of a flat output directory before it processes them: `zstd --rm --output-dir-flat out d1/x d2/x` "
                  "exits 0, out/x.zst holds d2/x only and both sources are deleted" % name)
        res.check(on_rm or (bool(hit) and not rm_side), R, name + ":refusal-is-for-rm", f.loc, "the refusal is taken on the --rm side (or unconditionally)",
                  "%s: the collision refusal no longer depends on removeSrcFile in the way the rule knows" % name)
    for gn in COLLIDE:
        g = prog.fn(gn)
        verdicts = [r for b, i, r in g.returns() if r.get("e") is not None and const_val(strip_casts(g.resolve_x(r["e"]))) is None]
        res.check(bool(verdicts), R, gn + ":returns-its-verdict", g.loc, "%d computed return(s)" % len(verdicts),
                  "%s returns constants only: the callers' refusal can never be taken" % gn)
    # decompression: two sources collide when the names WITHOUT their compression suffix agree (x.tar.zst and x.tzst): the
    # verdict taken before the loop must come from the routine that strips suffixes like FIO_determineDstName (it reads suffixList)
    d = prog.fn("FIO_decompressMultipleFilenames")
    pre = [c.get("c") for b, i, c in d.calls(COLLIDE) if any(t in d.flow([(b, i + 1)]) for t in d.call_roots("FIO_decompressSrcFile"))]
    strips = {gn for gn in COLLIDE if any(y.get("k") == "ref" and y.get("n") == "suffixList" for b, i, y in prog.fn(gn).events())}
    res.check(bool(pre) and set(pre) <= strips, R, "FIO_decompressMultipleFilenames:verdict-on-destination-names", d.loc,
              "the verdict before the loop compares names with the compression suffix removed (%s)" % ", ".join(sorted(set(pre))),
              "FIO_decompressMultipleFilenames takes its collision verdict from %s, which compares source base names: `zstd -d -f --rm --output-dir-flat out "
              "a/x.tar.zst b/x.tzst` writes both to out/x.tar, exits 0 and removes both sources" % ", ".join(sorted(set(pre) - strips) or ["?"]))
    res.need(R, 9)


def sparse_needs_seekable_stdout(prog, res):
    """T3: the sparse writer skips zero runs with fseek(SEEK_CUR) and writes the last byte at the end; on a descriptor in
    append mode the seek has no effect and the zeroes are lost with exit status 0.  FIO_openDstFile may hand out stdout with
    sparse mode still enabled only after it queried the descriptor's flags (fcntl F_GETFL) - or on the edge where sparse mode
    is off - and the query is followed by a site that turns sparse mode off."""
    R = "T3.sparse-needs-seekable-stdout"
    f = prog.fn("FIO_openDstFile")
    rets = [(b, i) for b, i, r in f.returns() if r.get("e") is not None and strip_casts(r["e"]).get("n") == "stdout"]
    res.check(len(rets) >= 1, R, "stdout-return", f.loc, "%d return(s) of stdout" % len(rets), "FIO_openDstFile no longer returns stdout")
    q = [t for t in f.call_roots("fcntl") if any("F_GETFL" in (y.get("m") or []) or y.get("n") == "F_GETFL" for y in walk(f.blocks[t[0]]["el"][t[1]]))]
    off = flag_edges(f, "sparseFileSupport", "false")
    ok = bool(rets) and (bool(q) or bool(off)) and f.must_pass(via_roots=q, via_edges=off, targets=rets)
    res.check(ok and bool(q), R, "flags-queried-before-sparse-stdout", f.loc, "stdout is returned with sparse mode on only after fcntl(F_GETFL)",
              "FIO_openDstFile returns stdout with sparse mode enabled without looking at the descriptor's flags: `zstd -dc --sparse f.zst >> out` "
              "drops every run of zeroes (the seeks have no effect in append mode) and exits 0")
    clears = [(b, i) for b, i, x in f.events(lambda y: y.get("k") == "asg" and y.get("op") == "=" and strip_casts(y["lhs"]).get("k") == "mem"
                                               and strip_casts(y["lhs"]).get("f") == "sparseFileSupport" and const_val(y["rhs"]) == 0)]
    after = f.flow([(b, i + 1) for b, i in q]) if q else set()
    res.check(any(c in after for c in clears), R, "append-mode-turns-sparse-off", f.loc, "a site after the query clears sparseFileSupport",
              "FIO_openDstFile queries the descriptor's flags but nothing after the query turns sparse mode off")
    res.need(R, 3)


def run(tier):
    res = Result("C19", tier)
    tus, info = extract(["programs", "common", "compress", "decompress"])
    prog = Program(tus)
    res.info = info
    source_removal(prog, res)
    destination_stage(prog, res)
    who_may_delete(prog, res)
    no_clobber(prog, res)
    rm_disabled(prog, res)
    artefact_on_exit(prog, res)
    stdio_discipline(prog, res)
    sparse_skip_conservation(prog, res)
    t4_common.run(prog, res, "T4.error-discipline", ["programs/fileio.c", "programs/fileio_asyncio.c"], 15)
    frames_end_on_empty_input(prog, res)
    pass_through_only_at_file_start(prog, res)
    shared_destination_on_failure(prog, res)
    flat_directory_collisions(prog, res)
    sparse_needs_seekable_stdout(prog, res)
    return res.finish(
        explanation="Order-of-effects rules on the CFG of the CLI's file pipeline: the source is removed only on the path "
                    "where --rm is set, the destination stage returned 0 (work, clearHandler, close with its result "
                    "tested), and it is the file that was opened; a failed stage removes its artefact; an existing "
                    "file is replaced only with -f or an accepted answer; --rm is cleared whenever one output stands "
                    "for several inputs / stdout / test mode; only FIO_removeFile and the signal/atexit hooks delete; "
                    "library and stdio write errors reach the verdict.",
        not_decided="enumeration over kill points (abrupt termination at every instant) and sparse vs non-sparse byte equality",
        assumptions=["POSIX build of the CLI (the _WIN32 arms are not analysed)"])
