"""C02 — streaming round trip under any call history and buffer segmentation.
Static clauses: the streaming decoder reports completion (0) only with nothing expected and
nothing left to flush (T3); stage/expected pairing in the buffer-less core (T3); in the load
stage both arms (skippable / normal) bound what they consume by `expected - already loaded`
(T9); window update precedes block compression (T3); legacy ZBUFF wrappers are pure
forwards of the modern streaming API, positions included (T10/T9).
Not decided: buffer management under arbitrary segmentation (value-dependent state)."""
from ..facts import extract, Broken
from ..ir import Program, walk, is_call, strip_casts, const_val, access_path
from ..report import Result
from ..rules import guards
from ..rules.guards import cond_edges


def decoder_completion(prog, res):
    R = "T3.decoder-completion"
    f = prog.fn("ZSTD_decompressStream")
    zero = [(b, i) for b, i, r in f.returns() if const_val(r.get("e")) == 0 and r.get("e", {}).get("k") == "int"]
    res.check(len(zero) == 1, R, "single-return-0", f.loc, "one literal `return 0` (frame completed)", "literal return 0 sites: %d" % len(zero))
    done = cond_edges(f, lambda c: c.get("k") == "ref" and "c:ZSTD_nextSrcSizeToDecompress" in f.anchors(c), "false")
    flushed = cond_edges(f, lambda c: c.get("k") == "bin" and c["op"] == "==" and {"outEnd", "outStart"} <= {y["f"] for y in walk(c) if y.get("k") == "mem"}, "true")
    res.check(bool(done) and f.must_pass(via_edges=done, targets=zero), R, "0-only-when-nothing-expected", f.loc,
              "return 0 only on the edge where ZSTD_nextSrcSizeToDecompress() == 0", "completion can be reported while the frame still expects input")
    res.check(bool(flushed) and f.must_pass(via_edges=flushed, targets=zero), R, "0-only-when-flushed", f.loc,
              "return 0 only when outEnd == outStart (output fully flushed)", "completion can be reported with decoded bytes still buffered")
    # hostage byte: when not flushed the last input byte is withheld and a non-zero hint is returned
    host = f.find_roots(lambda x: x.get("k") == "asg" and strip_casts(x["lhs"]).get("f") == "hostageByte" and const_val(x["rhs"]) == 1)
    dec = f.find_roots(lambda x: x.get("k") == "un" and x.get("op", "").endswith("--") and strip_casts(x["e"]).get("f") == "pos")
    res.check(bool(host) and bool(dec), R, "hostage-byte", f.loc, "unflushed completion withholds one input byte (input->pos--, hostageByte = 1)",
              "hostage-byte mechanism changed")
    # size hint: block header added only for a next block; already loaded part subtracted
    hint = [x for _, _, x in f.events(lambda y: y.get("k") == "asg" and y.get("op") == "-=" and strip_casts(y["rhs"]).get("f") == "inPos")]
    nit = [x for _, _, x in f.events(lambda y: y.get("k") == "bin" and y.get("op") == "==" and any(z.get("n") == "ZSTDnit_block" for z in walk(y)))]
    res.check(bool(hint) and bool(nit), R, "size-hint", f.loc, "hint = expected (+ block header only if next is a block) - inPos", "size hint computation changed")
    res.need(R, 5)


def load_arms(prog, res):
    """T9: in zdss_load the number of bytes consumed (added to ip and zds->inPos) is, on both
    arms, bounded by `ZSTD_nextSrcSizeToDecompress() - zds->inPos`."""
    R = "T9.load-stage-bound"
    f = prog.fn("ZSTD_decompressStream")
    adds = [x for _, _, x in f.events(lambda y: y.get("k") == "asg" and y.get("op") == "+=" and strip_casts(y["lhs"]).get("f") == "inPos")]
    res.check(len(adds) >= 1, R, "inPos-advance", f.loc, "inPos advanced in the load stage", "no `zds->inPos += n` in ZSTD_decompressStream")
    for x in adds:
        v = strip_casts(x["rhs"])
        if v.get("k") != "ref":
            res.bad(R, "inPos-advance:by-local", f.loc, "inPos advanced by a compound expression")
            continue
        defs = [d for d in f.local_defs().get(v["n"], []) if d is not None]
        res.check(len(defs) == 2, R, "loaded-size:two-arms", f.loc, "two definitions (skippable arm, normal arm)", "loaded size has %d definitions" % len(defs))
        for k, d in enumerate(defs):
            anc = f.anchors(d, depth=3)
            ok = {"f:inPos", "c:ZSTD_nextSrcSizeToDecompress"} <= anc
            what = "ZSTD_limitCopy" if "c:ZSTD_limitCopy" in anc else "MIN"
            res.check(ok, R, "loaded-size:arm-%s" % what, f.loc, "bounded by expected - inPos and by the input available",
                      "one arm of the load stage consumes up to the whole expected size although part of it is already loaded "
                      "(it can eat bytes of the next frame)")
    res.need(R, 4)


def stage_expected_pairing(prog, res):
    R = "T3.stage-expected-pairing"
    f = prog.fn("ZSTD_decompressContinue")
    wr = f.find_roots(lambda x: x.get("k") == "asg" and strip_casts(x["lhs"]).get("f") == "stage" and strip_casts(x["lhs"]).get("rec") == "ZSTD_DCtx_s")
    n = 0
    for b, i in wr:
        for x in walk(f.blocks[b]["el"][i]):
            if not (x.get("k") == "asg" and strip_casts(x["lhs"]).get("f") == "stage"):
                continue
            rhs = strip_casts(f.resolve_x(x["rhs"]))
            name = rhs.get("n") if rhs.get("k") == "ref" else None
            n += 1
            # on every path from this stage write to the function's return, or before it since the last
            # return, `expected` is written in the same block region: find expected writes in the same
            # straight-line neighbourhood (between the previous branch and the return)
            exp = f.find_roots(lambda y: y.get("k") == "asg" and strip_casts(y["lhs"]).get("f") == "expected")
            near = [e for e in exp if e[0] == b or e in f.flow([(b, i + 1)]) and f.must_pass(via_roots=[e], starts=[(b, i + 1)])]
            before = [e for e in exp if f.must_pass(via_roots=[e], targets=[(b, i)])]
            ok = bool(near) or bool(before)
            if name == "ZSTDds_getFrameHeaderSize":
                zeros = [e for e in (near + before) if any(y.get("k") == "asg" and strip_casts(y["lhs"]).get("f") == "expected" and const_val(y["rhs"]) == 0
                                                            for y in walk(f.blocks[e[0]]["el"][e[1]]))]
                ok = bool(zeros)
            res.check(ok, R, "stage=%s@%s" % (name or "expr", x.get("l")), "%s:%s" % (f.file, x.get("l")),
                      "stage change accompanied by the matching `expected` update" + (" (= 0 at end of frame)" if name == "ZSTDds_getFrameHeaderSize" else ""),
                      "stage is changed without updating `expected` consistently: the decoder would ask for bytes beyond the frame / never finish")
    res.need(R, 10)


def window_update(prog, res):
    R = "T3.window-update-first"
    f = prog.fn("ZSTD_compressContinue_internal")
    wu = f.call_roots("ZSTD_window_update")
    blocks = f.call_roots(("ZSTD_compress_frameChunk", "ZSTD_compressBlock_internal"))
    res.check(bool(wu) and len(blocks) >= 2 and f.must_pass(via_roots=wu, targets=blocks), R, "update-before-compress", f.loc,
              "ZSTD_window_update precedes every block compression of the call", "input can be compressed before the window knows about it")
    nc = cond_edges(f, lambda c: is_call(c, "ZSTD_window_update"), "false")
    fix = f.find_roots(lambda x: x.get("k") == "asg" and strip_casts(x["lhs"]).get("f") == "nextToUpdate")
    tw = cond_edges(f, lambda c: is_call(c, "ZSTD_window_update"), "true")
    ok = bool(fix) and bool(nc) and f.must_pass(via_roots=fix, starts=[(e[1], 0) for e in nc], targets=blocks)
    res.check(ok, R, "non-contiguous-resets-nextToUpdate", f.loc, "a non-contiguous segment resets nextToUpdate to dictLimit before compressing",
              "after a non-contiguous segment the match finder may index the gap")


FORWARD = {
    "ZBUFF_createCCtx": {"ZSTD_createCStream"}, "ZBUFF_createCCtx_advanced": {"ZSTD_createCStream_advanced"}, "ZBUFF_freeCCtx": {"ZSTD_freeCStream"},
    "ZBUFF_compressInit": {"ZSTD_initCStream"}, "ZBUFF_compressInit_advanced": None, "ZBUFF_compressInitDictionary": None,
    "ZBUFF_compressContinue": {"ZSTD_compressStream"}, "ZBUFF_compressFlush": {"ZSTD_flushStream"}, "ZBUFF_compressEnd": {"ZSTD_endStream"},
    "ZBUFF_recommendedCInSize": {"ZSTD_CStreamInSize"}, "ZBUFF_recommendedCOutSize": {"ZSTD_CStreamOutSize"},
    "ZBUFF_createDCtx": {"ZSTD_createDStream"}, "ZBUFF_createDCtx_advanced": {"ZSTD_createDStream_advanced"}, "ZBUFF_freeDCtx": {"ZSTD_freeDStream"},
    "ZBUFF_decompressInit": {"ZSTD_initDStream"}, "ZBUFF_decompressInitDictionary": {"ZSTD_initDStream_usingDict"},
    "ZBUFF_decompressContinue": {"ZSTD_decompressStream"}, "ZBUFF_recommendedDInSize": {"ZSTD_DStreamInSize"}, "ZBUFF_recommendedDOutSize": {"ZSTD_DStreamOutSize"},
}
INIT_OK = {"ZSTD_CCtx_reset", "ZSTD_CCtx_setPledgedSrcSize", "ZSTD_checkCParams", "ZSTD_CCtx_setParameter", "ZSTD_CCtx_loadDictionary", "ZSTD_isError", "ERR_isError"}


def zbuff_wrappers(prog, res):
    R = "T10.legacy-wrapper"
    for name, want in sorted(FORWARD.items()):
        f = prog.fn(name)
        cs = {c for c in f.callees() if not c.startswith("__builtin") and c != "_force_has_format_string"}
        if want is None:
            ok = cs <= INIT_OK and "ZSTD_CCtx_reset" in cs
            res.check(ok, R, name, f.loc, "initialises through the public ZSTD_CCtx_* setters only", "calls %s" % sorted(cs - INIT_OK))
            continue
        res.check(cs == want, R, name, f.loc, "forwards to %s only" % sorted(want), "calls %s instead of %s" % (sorted(cs), sorted(want)))
        # result of the modern call is what is returned
        rets = [r for b, i, r in f.returns()]
        okr = all(any(is_call(y, tuple(want)) for y in walk(r)) or (strip_casts(r.get("e")) or {}).get("k") == "ref" for r in rets)
        res.check(okr, R, name + ":returns-result", f.loc, "returns the modern function's result", "return value is not the forwarded result")
    # position outputs come from the pos fields of the buffers that were passed
    for name, outs in (("ZBUFF_compressContinue", ("dstCapacityPtr", "srcSizePtr")), ("ZBUFF_compressFlush", ("dstCapacityPtr",)),
                       ("ZBUFF_compressEnd", ("dstCapacityPtr",)), ("ZBUFF_decompressContinue", ("dstCapacityPtr", "srcSizePtr"))):
        f = prog.fn(name)
        for o in outs:
            wr = [x for _, _, x in f.events(lambda y: y.get("k") == "asg" and strip_casts(y["lhs"]).get("k") == "un" and strip_casts(strip_casts(y["lhs"])["e"]).get("n") == o)]
            ok = len(wr) == 1 and strip_casts(wr[0]["rhs"]).get("f") == "pos"
            if ok:
                base = strip_casts(strip_casts(wr[0]["rhs"])["b"]).get("n", "")
                ok = ("out" in base.lower()) == (o == "dstCapacityPtr")
            res.check(ok, R, "%s:*%s" % (name, o), f.loc, "set from the .pos of the matching buffer", "*%s is not set from the matching buffer's pos" % o)
    res.need(R, 30)


def single_pass_shortcut(prog, res):
    """T3: the streaming decoder's single-pass shortcut measures and decodes a whole frame from the first byte of the
    CURRENT input.  That is the frame only if its header was not partly loaded by an earlier call; the shortcut must be
    guarded by an equality that involves the loaded header size (zds->lhSize), so that under any segmentation the bytes
    decoded are the frame's."""
    R = "T3.single-pass-shortcut"
    f = prog.fn("ZSTD_decompressStream")
    short = f.call_roots(("ZSTD_decompress_usingDDict",))
    res.check(len(short) == 1, R, "site", f.loc, "one single-pass shortcut", "single-pass shortcut sites: %d" % len(short))
    if not short:
        return
    def has_lh(a, depth=0):
        """lhSize itself (possibly through a local copy or arithmetic), not a value computed by a call that takes it"""
        a = strip_casts(f.resolve_x(a))
        if a is None or a.get("k") == "call":
            return False
        if a.get("k") == "mem":
            return a.get("f") == "lhSize"
        if a.get("k") == "ref" and a.get("rk") in ("l", "sl") and depth < 3:
            d = f.single_def(a["n"])
            return d is not None and has_lh(d, depth + 1)
        if a.get("k") == "bin":
            return has_lh(a["lhs"], depth) or has_lh(a["rhs"], depth)
        return False
    eq = guards.rel_edges(f, has_lh, "==", lambda b: True) + guards.rel_edges(f, lambda a: True, "==", has_lh)
    ok = bool(eq) and f.must_pass(via_edges=eq, targets=short)
    res.check(ok, R, "frame-starts-in-this-input", f.loc,
              "the shortcut is reached only through an equality on zds->lhSize (header entirely inside the current input)",
              "the single-pass shortcut can be taken when part of the frame header was loaded by a previous call: it then parses the "
              "current input from its first byte as if a frame started there (a frame whose size field spells a skippable magic is "
              "reported complete after a few bytes)")
    # and its source is the start of the input, its size bounded by the input
    fcs = guards.rel_edges(f, lambda a: any(y.get("f") == "frameContentSize" for y in f.walk_deep(a)), "<=", lambda b: True) + \
        guards.rel_edges(f, lambda a: True, ">=", lambda b: any(y.get("f") == "frameContentSize" for y in f.walk_deep(b)))
    res.check(bool(fcs) and f.must_pass(via_edges=fcs, targets=short), R, "output-holds-frame", f.loc,
              "the shortcut requires the output room to hold the whole frame content", "shortcut no longer requires room for the whole content")
    res.need(R, 3)


def overlap_trim(prog, res):
    """T3: the caller's input may overwrite, in place, bytes that the window still describes as its extDict (the streaming
    input ring after it wrapped, or any buffer reused by the caller).  Every ZSTD_window_update that records new input
    (writes window->nextSrc) must run the overlap test between that input and [dictBase+lowLimit, dictBase+dictLimit) before
    it returns — on the contiguous path too: contiguous blocks after a wrap keep overwriting the old segment."""
    R = "T3.overlap-trim-on-every-update"
    f = prog.fn("ZSTD_window_update")
    rec = f.find_roots(lambda x: x.get("k") == "asg" and strip_casts(x["lhs"]).get("k") == "mem" and strip_casts(x["lhs"]).get("f") == "nextSrc")
    tests = []
    for bid, cond, t, fl in f.branches():
        fs = {y.get("f") for y in f.walk_deep(f.resolve_x(cond)) if y.get("k") == "mem"}
        if "dictBase" in fs and ({"lowLimit", "dictLimit"} & fs):
            tests += [(bid, t), (bid, fl)]
    trims = f.find_roots(lambda x: x.get("k") == "asg" and strip_casts(x["lhs"]).get("k") == "mem" and strip_casts(x["lhs"]).get("f") == "lowLimit")
    rets = [(b, i) for b, i, r in f.returns()]
    res.check(bool(rec) and bool(tests) and bool(trims), R, "shape", f.loc, "input recorded at %d place(s), overlap test present" % len(rec),
              "ZSTD_window_update: recorded-input writes %d, overlap tests %d" % (len(rec), len(tests) // 2))
    if rec and tests:
        ok = f.must_pass(via_edges=tests, starts=[(b, i + 1) for b, i in rec], targets=rets)
        res.check(ok, R, "after-recording-input", f.loc, "no return after recording new input without the input/extDict overlap test",
                  "ZSTD_window_update can return after recording new input without testing it against the extDict range: once the input ring "
                  "has wrapped, contiguous blocks overwrite the old segment in place, lowLimit is not raised and matches are emitted against "
                  "bytes that no longer exist (the frame decodes to other data)")
    res.need(R, 2)


def core_decodes_in_streaming_mode(prog, res):
    """T3: ZSTD_decompressContinue serves callers whose destination is a ring (ZSTD_decompressStream's output buffer, the
    buffer-less API): room after the current block may still hold the oldest part of the window.  It must always ask
    ZSTD_decompressBlock_internal for `is_streaming` placement of the literals, never `not_streaming` (which parks them in dst
    after the block)."""
    R = "T3.core-streaming-literals"
    f = prog.fn("ZSTD_decompressContinue")
    calls = [c for b, i, c in f.calls("ZSTD_decompressBlock_internal")]
    res.check(len(calls) >= 1, R, "site", f.loc, "%d block decoding call(s)" % len(calls), "ZSTD_decompressContinue no longer calls ZSTD_decompressBlock_internal")
    for c in calls:
        a = strip_casts(f.resolve_x(c["a"][-1]))
        ok = a is not None and a.get("k") == "ref" and a.get("n") == "is_streaming"
        res.check(ok, R, "mode@%s" % c.get("l"), "%s:%s" % (f.file, c.get("l")), "literals placement mode is the constant is_streaming",
                  "ZSTD_decompressContinue can decode a block with not_streaming literals placement: in a wrapped output ring the literals overwrite window "
                  "bytes that later matches still reference (wrong bytes, no error)")
    res.need(R, 2)


def empty_block_is_raw(prog, res):
    """T9 (one-shot / streaming verdicts): ZSTD_decompressContinue ends a block at its header when the stored size is 0.
    ZSTD_decompressFrame hands a Compressed_Block of size 0 to the block decoder, which refuses it (no section headers): the
    header-only arm of the streaming decoder may be left towards the next stage only on the edge where the block is NOT of
    the compressed type."""
    R = "T9.empty-block-is-not-compressed"
    f = prog.fn("ZSTD_decompressContinue")
    sized = [d for n, ds in f.local_defs().items() for d in ds if d is not None and any(is_call(y, "ZSTD_getcBlockSize") for y in walk(d))]
    isz = lambda c: c.get("k") == "ref" and f.single_def(c.get("n")) is not None and any(is_call(y, "ZSTD_getcBlockSize") for y in walk(f.single_def(c["n"])))
    empty = guards.truthy_edges(f, isz, truth=False)
    res.check(bool(sized) and len(empty) == 1, R, "header-only-arm", f.loc, "one `stored size == 0` edge after ZSTD_getcBlockSize", "header-only arms found: %d" % len(empty))
    notc = guards.rel_edges(f, lambda a: any(y.get("k") == "mem" and y.get("f") == "blockType" for y in walk(a)), "==",
                            lambda b_: any(y.get("n") == "bt_compressed" for y in walk(b_)), truth=False)
    stage = [(b, i) for b, i, x in f.events(lambda y: y.get("k") == "asg" and strip_casts(y["lhs"]).get("k") == "mem" and strip_casts(y["lhs"]).get("f") == "stage")]
    after = f.flow([(e[1], 0) for e in empty]) if empty else set()
    nxt = [t for t in stage if t in after]
    # stage writes that are ALSO reachable without the empty edge belong to later stages of the switch: keep those first reached
    nxt = [t for t in nxt if not any(o != t and t in f.flow([(o[0], o[1] + 1)]) and o in after for o in nxt)]
    ok = bool(notc) and bool(nxt) and f.must_pass(via_edges=notc, starts=[(e[1], 0) for e in empty], targets=nxt)
    res.check(ok, R, "only-when-not-compressed", f.loc, "the header-only arm moves on only for a block that is not of the compressed type",
              "ZSTD_decompressContinue takes a Compressed_Block of size 0 for an empty block: ZSTD_decompressStream accepts a frame that ZSTD_decompress "
              "refuses (corruption_detected)")
    res.need(R, 2)


def pending_range_reset_together(prog, res):
    """T13: [outStart, outEnd) is the part of the decoder's output ring that is decoded and not yet flushed; `outStart == outEnd`
    is how the flush stage knows it is done, and how the end of a frame is reported.  Wherever outStart is SET to a constant (the
    ring is rewound, the stream is initialised) outEnd is set in the same basic block: a rewind that leaves the old outEnd makes
    the decoder report pending output it does not have (return 1 instead of 0 at the end of the frame, last byte kept hostage)."""
    R = "T13.pending-range-reset-together"
    n = 0
    for name in ("ZSTD_decompressStream", "ZSTD_decompressContinueStream"):
        f = prog.fn(name)
        for b, i, x in f.events(lambda y: y.get("k") == "asg" and y.get("op") == "=" and strip_casts(y["lhs"]).get("k") == "mem" and strip_casts(y["lhs"]).get("f") == "outStart"):
            rhs = strip_casts(f.resolve_x(x["rhs"]))
            v = rhs
            while v is not None and v.get("k") == "asg":          # a = b = 0
                v = strip_casts(f.resolve_x(v["rhs"]))
            if v is None or const_val(v) is None:
                continue
            n += 1
            same = any(y.get("k") == "asg" and strip_casts(y["lhs"]).get("k") == "mem" and strip_casts(y["lhs"]).get("f") == "outEnd"
                       for r in f.blocks[b]["el"] for y in walk(r))
            res.check(same, R, "%s:outStart=const@%s" % (name, x.get("l")), "%s:%s" % (f.file, x.get("l")), "outEnd is set in the same block",
                      "%s sets outStart to a constant and leaves outEnd: the pending range [outStart, outEnd) is no longer empty after a rewind of the output ring, the "
                      "decoder returns 1 instead of 0 at the end of a frame and fails on the next call (Unknown frame descriptor)" % name)
    res.need(R, 2)


def legacy_detection_over_gathered_bytes(prog, res):
    """T9 (segmentation): when the first calls carry fewer bytes than a frame header, ZSTD_decompressStream gathers them in
    headerBuffer.  A legacy frame must then be recognised from the gathered bytes (a ZSTD_isLegacy call over headerBuffer), and the
    legacy decoder must receive them before the caller's current input: on the edge where bytes were gathered (lhSize != 0) a
    ZSTD_decompressLegacyStream call fed from something else than the caller's `input` precedes the one fed from `input`."""
    R = "T9.legacy-detection-over-gathered-bytes"
    f = prog.fn("ZSTD_decompressStream")
    det = [c for b, i, c in f.calls("ZSTD_isLegacy")]
    if not det:
        res.check(True, R, "no-legacy-support", f.loc, "legacy support is not compiled in this configuration", "")
        res.need(R, 1)
        return
    # the detection that counts is the one whose verdict starts the legacy decoder (the version handed to ZSTD_initLegacyStream)
    det = []
    for b, i, c in f.calls("ZSTD_initLegacyStream"):
        for a in c.get("a", [])[1:3]:
            for y in f.walk_deep(a):
                if is_call(y, "ZSTD_isLegacy"):
                    det.append(y)
    over_stash = [c for c in det if any(y.get("k") == "mem" and y.get("f") == "headerBuffer" for y in f.walk_resolved(c["a"][0]))]
    res.check(bool(over_stash), R, "detection-reads-headerBuffer", f.loc, "%d of %d ZSTD_isLegacy calls look at the gathered bytes" % (len(over_stash), len(det)),
              "ZSTD_decompressStream only looks for a legacy magic number at the start of the caller's current input: a v0.5-v0.7 frame whose first call carries 1 to 4 "
              "bytes is refused (prefix_unknown) although the same frame decodes when the first call carries 5 bytes")
    feeds = [(b, i, c) for b, i, c in f.calls(("ZSTD_decompressLegacyStream", "ZSTD_decompressLegacyStream_counted"))]     # the input is the last argument of both
    from_input = [(b, i) for b, i, c in feeds if strip_casts(f.resolve_x(c["a"][-1])) is not None and strip_casts(f.resolve_x(c["a"][-1])).get("rk") == "p"]
    from_stash = [(b, i) for b, i, c in feeds if (b, i) not in from_input]
    gathered = guards.truthy_edges(f, lambda c: c.get("k") == "mem" and c.get("f") == "lhSize", truth=True) + \
        guards.rel_edges(f, lambda a: any(y.get("k") == "mem" and y.get("f") == "lhSize" for y in f.walk_resolved(a)), ">", lambda b_: const_val(strip_casts(b_)) == 0, truth=True)
    ok = bool(from_stash) and bool(gathered) and any(any(t in f.flow([(e[1], 0)]) for t in from_stash) for e in gathered) and \
        all(any(t in f.flow([(s_[0], s_[1] + 1)]) for t in from_input) for s_ in from_stash)
    res.check(ok, R, "gathered-bytes-fed-first", f.loc, "on the `bytes were gathered` edge the legacy decoder is first fed from them, then from the input",
              "ZSTD_decompressStream starts a legacy decoder on the caller's input without the bytes it gathered earlier: the frame's first bytes are lost")
    res.need(R, 2)


def run(tier):
    res = Result("C02", tier)
    tus, info = extract(["compress", "decompress", "deprecated", "common"])
    prog = Program(tus)
    res.info = info
    decoder_completion(prog, res)
    load_arms(prog, res)
    stage_expected_pairing(prog, res)
    window_update(prog, res)
    overlap_trim(prog, res)
    zbuff_wrappers(prog, res)
    core_decodes_in_streaming_mode(prog, res)
    empty_block_is_raw(prog, res)
    pending_range_reset_together(prog, res)
    legacy_detection_over_gathered_bytes(prog, res)
    single_pass_shortcut(prog, res)
    from .C10 import staging_buffer          # shared clause: the staging buffer holds every unit the decoder can ask for
    staging_buffer(prog, res)
    return res.finish(
        explanation="Completion signalling of ZSTD_decompressStream is cut by `nothing expected` and `output flushed`; "
                    "both arms of its load stage bound the bytes they consume by expected - already loaded; every "
                    "stage change of ZSTD_decompressContinue is paired with its `expected` update (0 at end of "
                    "frame); the window is updated before compression and a non-contiguous segment resets "
                    "nextToUpdate; the deprecated ZBUFF API only forwards to the modern streaming API and reports the "
                    "positions of the buffers it passed.",
        not_decided="that streamed output equals one-shot output for every segmentation (value-dependent buffer management)",
        assumptions=[])
