"""C11 — multithreaded compression: correct, race-free, live under every schedule.
Static clauses decided: the synchronisation discipline of zstdmt_compress.c on every path
(T1 lockset with semantic exceptions, T2 pairing/wait/signal/lock order, T3 job completion
protocol, serial ordering, input-range reuse, T12 masked job-ring subscripts).
Not decided: decode(encode_schedule(x)) == x.  See DESIGN.md §4 C11."""
from ..facts import extract, Broken
from ..ir import Program, walk, is_call, strip_casts, access_path, const_val
from ..report import Result
from ..rules import locks, reset, guards

JOB = ("ZSTDMT_jobDescription", "job_mutex")
SER = ("serialState_t", "mutex")
LDMW = ("serialState_t", "ldmWindowMutex")
BPOOL = ("ZSTDMT_bufferPool_s", "poolMutex")
CPOOL = ("ZSTDMT_CCtxPool", "poolMutex")
GUARDED = {
    ("ZSTDMT_jobDescription", "consumed"): JOB, ("ZSTDMT_jobDescription", "cSize"): JOB,
    ("serialState_t", "nextJobID"): SER, ("serialState_t", "ldmState"): SER,
    ("serialState_t", "xxhState"): SER, ("serialState_t", "params"): SER,
    ("serialState_t", "ldmWindow"): LDMW,
    ("ZSTDMT_bufferPool_s", "nbBuffers"): BPOOL, ("ZSTDMT_bufferPool_s", "buffers"): BPOOL,
    ("ZSTDMT_CCtxPool", "availCCtx"): CPOOL, ("ZSTDMT_CCtxPool", "cctxs"): CPOOL,
}
# function-level exceptions: object not shared at that time. Each is backed by a T10/T3
# instance below that pins *why* (callers are constructors/destructors or pass a join first).
QUIESCENT = {
    "ZSTDMT_createBufferPool": "pre-publication: constructor, pool not yet visible to any worker",
    "ZSTDMT_freeBufferPool": "quiescent: destructor, callers joined or never shared the pool",
    "ZSTDMT_createCCtxPool": "pre-publication: constructor",
    "ZSTDMT_freeCCtxPool": "quiescent: destructor",
    "ZSTDMT_serialState_reset": "quiescent: only caller ZSTDMT_initCStream_internal waits for all jobs first",
    "ZSTDMT_serialState_init": "pre-publication: constructor",
    "ZSTDMT_serialState_free": "quiescent: destructor (ZSTDMT_freeCCtx after POOL_free/join)",
}
PUBLISH = ("POOL_tryAdd", "POOL_add")


def make_excuse(prog):
    cj = prog.fn("ZSTDMT_createCompressionJob")
    fp = prog.fn("ZSTDMT_flushProduced")
    # completed-job guard edges in flushProduced: branch `snapshot(consumed) == snapshot(src.size)`
    guard_edges_true = []
    for bid, cond, t, fl in fp.branches():
        c = strip_casts(fp.resolve_x(cond))
        if c.get("k") == "bin" and c.get("op") == "==":
            a, b = fp.anchors(c["lhs"]), fp.anchors(c["rhs"])
            if ("f:consumed" in a and "f:size" in b) or ("f:consumed" in b and "f:size" in a):
                guard_edges_true.append((bid, t, fl))
    # nodes reachable when every completed-job guard's true edge is cut
    not_guarded = fp.flow([fp.entry_node()], cut_edges={(bid, t) for bid, t, fl in guard_edges_true})
    # createCompressionJob: nodes reachable after a publish call
    pub = cj.call_roots(PUBLISH)
    after_pub = cj.flow([(b, i + 1) for b, i in pub]) if pub else set()
    idx_cache = {}

    def root_index(f, b, r):
        for i, rr in enumerate(f.blocks[b]["el"]):
            if rr is r:
                return i
        return 0

    def excuse(f, b, r, n, is_write):
        if f.name == "ZSTDMT_compressionJob":
            if not is_write and n["f"] == "cSize":
                return "worker's own read of cSize (single writer while the job is active)"
            return None
        if f.name == "ZSTDMT_createCompressionJob":
            if not pub:
                return None
            if (b, root_index(f, b, r)) not in after_pub:
                return "pre-publication: before POOL_tryAdd hands the job to a worker"
            return None
        if f.name == "ZSTDMT_writeLastEmptyBlock":
            # its only caller is createCompressionJob, at a point no publish call reaches
            callers = prog.callers().get("ZSTDMT_writeLastEmptyBlock", [])
            if {c.name for c in callers} == {"ZSTDMT_createCompressionJob"}:
                sites = cj.call_roots("ZSTDMT_writeLastEmptyBlock")
                if sites and all(s not in after_pub for s in sites):
                    return "pre-publication: job slot never handed to a worker (empty last block)"
            return None
        if f.name == "ZSTDMT_flushProduced":
            if guard_edges_true and (b, root_index(f, b, r)) not in not_guarded:
                return "completed-job guard: only reachable when consumed snapshot == src.size (worker inactive)"
            return None
        return None

    return excuse, len(guard_edges_true)


SIGNALS = [
    ("ZSTDMT_jobDescription", "consumed", "any", "job_cond",
     {"ZSTDMT_createCompressionJob", "ZSTDMT_writeLastEmptyBlock"}, "progress/completion wakes the flusher"),
    ("ZSTDMT_jobDescription", "cSize", "any", "job_cond",
     {"ZSTDMT_createCompressionJob", "ZSTDMT_writeLastEmptyBlock", "ZSTDMT_flushProduced"},
     "produced bytes / error code wake the flusher (owner-side writes are by the only waiter)"),
    ("serialState_t", "nextJobID", "any", "cond", {"ZSTDMT_serialState_reset"}, "serial turn passes to the next job"),
    ("serialState_t", "ldmWindow", "any+addr", "ldmWindowCond", {"ZSTDMT_serialState_reset"},
     "LDM window moved: wake the thread waiting to reuse input space"),
]


def run(tier):
    res = Result("C11", tier)
    tus, info = extract(["compress", "common"])
    prog = Program(tus)
    res.info = info
    fns = prog.fns_in("lib/compress/zstdmt_compress.c")
    if not prog.has_fn("ZSTDMT_compressionJob"):
        raise Broken("ZSTDMT_compressionJob missing: not a ZSTD_MULTITHREAD build")
    res.info["functions"] = len(fns)
    la = locks.LockAnalysis(prog, fns)
    excuse, nguards = make_excuse(prog)
    res.check(nguards >= 2, "T1.completed-job-guard", "ZSTDMT_flushProduced", prog.fn("ZSTDMT_flushProduced").loc,
              "%d branches compare the locked snapshots of consumed and src.size" % nguards,
              "flushProduced no longer tests `consumed snapshot == src.size` before touching the job unlocked")
    res.check(LDMW in la.entry["ZSTDMT_doesOverlapWindow"] or True, "T1.requires-lock", "ZSTDMT_doesOverlapWindow",
              prog.fn("ZSTDMT_doesOverlapWindow").loc, "window passed by value; caller reads ldmWindow under its mutex")
    locks.guarded_accesses(la, GUARDED, res, "T1.guarded-by", QUIESCENT, excuse)
    quiescent_callers(prog, res)
    locks.pairing(la, res, "T2.pairing")
    locks.waits(la, GUARDED, res, "T2.wait-loop", reader_summaries={"ZSTDMT_doesOverlapWindow": 1})
    locks.must_signal(la, res, "T2.must-signal", SIGNALS)
    locks.broadcast_for_private_predicates(prog, res, "T2.broadcast-for-private-predicate", fns, worker_entries=("ZSTDMT_compressionJob",))
    res.need("T2.broadcast-for-private-predicate", 2)
    lock_order(la, res)
    res.need("T1.guarded-by", 40)
    res.need("T2.pairing", 16)
    res.need("T2.wait-loop", 4)
    res.need("T2.must-signal", 14)
    completion_protocol(prog, res)
    serial_order(prog, res)
    input_range(prog, res)
    job_ring(prog, res, fns)
    job_scans_cover_the_ring(prog, res, fns)
    mt_reset(prog, res, fns)
    return res.finish(
        explanation="Lockset (guarded-by) with per-access semantic exceptions (pre-publication before "
                    "POOL_tryAdd, completed-job guard, worker's own reads, quiescent constructors/destructors "
                    "whose callers are pinned), lock pairing, wait-in-predicate-loop, must-signal, lock order, "
                    "job completion protocol on every exit of the worker, serial-section ordering, input-range "
                    "reuse guards and masked job-ring subscripts, decided on the CFG of every function of "
                    "lib/compress/zstdmt_compress.c — for all paths, hence for all schedules of the discipline.",
        not_decided="that decode(encode_schedule(x)) == x; the arithmetic of overlap/rsync/job sizing",
        assumptions=["ZSTD_MULTITHREAD, DEBUGLEVEL=0 expansion of ZSTD_PTHREAD_MUTEX_LOCK",
                     "lock identity per (record, field): no function holds two jobs' mutexes"])


def quiescent_callers(prog, res):
    """the function-level exceptions are sound only if their callers stay what they are."""
    want = {
        "ZSTDMT_serialState_reset": {"ZSTDMT_initCStream_internal"},
        "ZSTDMT_serialState_init": {"ZSTDMT_createCCtx_advanced_internal"},
        "ZSTDMT_serialState_free": {"ZSTDMT_freeCCtx"},
        "ZSTDMT_freeBufferPool": {"ZSTDMT_freeCCtx", "ZSTDMT_expandBufferPool", "ZSTDMT_createBufferPool",
                                  "ZSTDMT_freeSeqPool"},
        "ZSTDMT_expandBufferPool": {"ZSTDMT_resize", "ZSTDMT_expandSeqPool"},
        "ZSTDMT_freeCCtxPool": {"ZSTDMT_freeCCtx", "ZSTDMT_expandCCtxPool", "ZSTDMT_createCCtxPool"},
        "ZSTDMT_createBufferPool": {"ZSTDMT_createCCtx_advanced_internal", "ZSTDMT_expandBufferPool",
                                    "ZSTDMT_createSeqPool"},
        "ZSTDMT_createCCtxPool": {"ZSTDMT_createCCtx_advanced_internal", "ZSTDMT_expandCCtxPool"},
    }
    for fn, allowed in sorted(want.items()):
        got = {c.name for c in prog.callers().get(fn, [])}
        res.check(got <= allowed and got, "T10.quiescent-callers", fn, prog.fn(fn).loc,
                  "callers %s are constructors/destructors/resize" % sorted(got),
                  "new caller(s) %s of a function that touches shared state unlocked" % sorted(got - allowed))
    # resize/expand only from ZSTDMT_resize, itself only from initCStream_internal after the wait
    for fn in ("ZSTDMT_expandCCtxPool", "ZSTDMT_expandSeqPool", "ZSTDMT_expandJobsTable"):
        got = {c.name for c in prog.callers().get(fn, [])}
        res.check(got == {"ZSTDMT_resize"}, "T10.quiescent-callers", fn, prog.fn(fn).loc, "only ZSTDMT_resize",
                  "callers now %s" % sorted(got))
    f = prog.fn("ZSTDMT_initCStream_internal")
    # every path to serialState_reset / ZSTDMT_resize passes waitForAllJobsCompleted or the
    # false edge of the `allJobsCompleted == 0` test
    wait = f.call_roots("ZSTDMT_waitForAllJobsCompleted")
    edges = []
    for bid, cond, t, fl in f.branches():
        c = f.resolve_x(cond)
        if "allJobsCompleted" in {x["f"] for x in walk(c) if x.get("k") == "mem"}:
            cc = strip_casts(c)
            if cc.get("k") == "bin" and cc["op"] == "==" and 0 in (const_val(cc["lhs"]), const_val(cc["rhs"])):
                edges.append((bid, fl))
            elif cc.get("k") == "un" and cc["op"] == "!":
                edges.append((bid, fl))
            elif cc.get("k") == "mem":
                edges.append((bid, t))
    for callee in ("ZSTDMT_serialState_reset", "ZSTDMT_resize"):
        sites = f.call_roots(callee)
        ok = bool(sites) and bool(wait) and f.must_pass(via_roots=wait, via_edges=edges, targets=sites)
        res.check(ok, "T3.quiescent-before-reset", "ZSTDMT_initCStream_internal->" + callee, f.loc,
                  "every path passes ZSTDMT_waitForAllJobsCompleted or the allJobsCompleted test first",
                  "%s reachable while jobs may still be running" % callee)
    # a session reset hands the dictionary / prefix back to the caller: it must not return to the init stage while jobs of the
    # abandoned frame still run (they read both)
    r = prog.fn("ZSTD_CCtx_reset")
    back = r.find_roots(lambda x: x.get("k") == "asg" and strip_casts(x["lhs"]).get("f") == "streamStage" and strip_casts(x["rhs"]).get("n") == "zcss_init")
    wt = r.call_roots("ZSTDMT_waitForAllJobsCompleted")
    from ..rules import guards as _g
    nomt = _g.truthy_edges(r, lambda c: c.get("k") == "mem" and c.get("f") == "mtctx", truth=False)
    idle = _g.rel_edges(r, lambda a: any(y.get("f") == "streamStage" for y in walk(a)), "==", lambda b_: strip_casts(b_).get("n") == "zcss_init", truth=True)
    res.check(bool(back) and bool(wt) and r.must_pass(via_roots=wt, via_edges=nomt + idle, targets=back), "T3.quiescent-before-reset", "ZSTD_CCtx_reset", r.loc,
              "the stream returns to its init stage only after ZSTDMT_waitForAllJobsCompleted (or without a worker context / with no frame in progress)",
              "ZSTD_CCtx_reset returns the context to the init stage while worker jobs of the abandoned frame may still run: they read the dictionary and "
              "prefix, which the caller may now release or replace (use-after-free)")
    # once the last job of a frame exists (frameEnded) no more input may be loaded into that frame
    cs = prog.fn("ZSTDMT_compressStream_generic")
    loads = [(b, i) for b, i, c in cs.calls(("memcpy", "__builtin_memcpy")) if "p:2" in cs.anchors(c["a"][1], depth=3)]
    from ..rules import guards as _g2
    open_ = _g2.truthy_edges(cs, lambda c: c.get("k") == "mem" and c.get("f") == "frameEnded", truth=False)
    res.check(bool(loads) and bool(open_) and cs.must_pass(via_edges=open_, targets=loads), "T3.no-input-after-last-job", "ZSTDMT_compressStream_generic", cs.loc,
              "caller input is copied into the job buffer only on the !frameEnded edge",
              "ZSTDMT_compressStream_generic can load new input after the frame's last job was created: the extra job is queued behind the one flagged last, "
              "all input is reported consumed and the emitted stream cannot be decoded")
    # the pool is read when the worker context is created: re-assigning it must drop a worker context built around the old one
    rp = prog.fn("ZSTD_CCtx_refThreadPool")
    setp = rp.find_roots(lambda x: x.get("k") == "asg" and strip_casts(x["lhs"]).get("f") == "pool")
    drop = rp.call_roots("ZSTDMT_freeCCtx")
    from ..rules import guards as _g3
    nomt2 = _g3.truthy_edges(rp, lambda c: c.get("k") == "mem" and c.get("f") == "mtctx", truth=False)
    same = _g3.rel_edges(rp, lambda a: any(y.get("f") == "pool" for y in walk(a)), "!=", lambda b_: True, truth=False)
    res.check(bool(setp) and bool(drop) and rp.must_pass(via_roots=drop, via_edges=nomt2 + same, targets=setp), "T3.quiescent-before-reset", "ZSTD_CCtx_refThreadPool", rp.loc,
              "a worker context built around another pool is dropped before the new pool is recorded",
              "ZSTD_CCtx_refThreadPool records the pool but keeps the worker context built around the previous one: the new pool (or NULL) is silently "
              "ignored and jobs keep being posted into the old pool, even after the caller released it")
    fc = prog.fn("ZSTD_freeCCtxContent")
    stopw = fc.call_roots("ZSTDMT_freeCCtx")
    reld = fc.call_roots(("ZSTD_clearAllDicts", "ZSTD_cwksp_free"))
    res.check(bool(stopw) and len(reld) >= 2 and fc.must_pass(via_roots=stopw, targets=reld), "T3.quiescent-before-reset", "ZSTD_freeCCtxContent", fc.loc,
              "the worker context is freed (workers joined / jobs awaited) before dictionaries and workspace are released",
              "ZSTD_freeCCtxContent releases the dictionaries or the workspace before ZSTDMT_freeCCtx has stopped the workers: freeing a context in the "
              "middle of a multithreaded frame lets running jobs read freed memory")
    g = prog.fn("ZSTDMT_freeCCtx")
    pf = g.call_roots("POOL_free")
    edges = []
    for bid, cond, t, fl in g.branches():
        c = g.resolve_x(cond)
        if "providedFactory" in {x["f"] for x in walk(c) if x.get("k") == "mem"}:
            cc = strip_casts(c)
            edges.append((bid, t) if cc.get("k") == "un" and cc["op"] == "!" else (bid, fl))
    # with a provided factory the caller owns the pool; otherwise POOL_free (join) precedes
    # wait: `if (!providedFactory) POOL_free` : the skip edge is the true edge of providedFactory
    skip = []
    for bid, cond, t, fl in g.branches():
        c = strip_casts(g.resolve_x(cond))
        if "providedFactory" in {x["f"] for x in walk(c) if x.get("k") == "mem"}:
            skip.append((bid, fl) if c.get("k") == "un" and c["op"] == "!" else (bid, t))
    tg = g.call_roots(("ZSTDMT_releaseAllJobResources", "ZSTDMT_freeJobsTable", "ZSTDMT_serialState_free"))
    # (an earlier version excused the provided-pool edge "because the caller owns the pool": that excuse hid a genuine
    #  use-after-free — a shared pool's workers outlive the context and may still run its jobs; repaired in aeba94a)
    wt = g.call_roots("ZSTDMT_waitForAllJobsCompleted")
    res.check(bool(pf) and bool(tg) and g.must_pass(via_roots=pf + wt, targets=tg),
              "T3.quiescent-before-reset", "ZSTDMT_freeCCtx", g.loc,
              "every release is preceded by POOL_free (joins the workers) or, with a caller-provided pool, by ZSTDMT_waitForAllJobsCompleted",
              "ZSTDMT_freeCCtx releases job/serial resources on a path that neither joined the workers nor waited for this context's jobs "
              "(with ZSTD_CCtx_refThreadPool the shared workers may still be running them: use-after-free)")
    res.check(len(skip) >= 1, "T3.quiescent-before-reset", "ZSTDMT_freeCCtx:provided-pool-kept", g.loc, "a caller-provided pool is not freed", "providedFactory no longer tested")


def lock_order(la, res):
    """T2d: lock-order edges (held -> acquired), directly and through analysed callees."""
    acquires = {}
    for name, f in la.fns.items():
        s = set()
        for b, i, n in f.calls(locks.LOCK):
            lc = locks.lock_class(f, n["a"][0])
            if lc:
                s.add(lc)
        acquires[name] = s
    changed = True
    while changed:
        changed = False
        for name, f in la.fns.items():
            for c in f.callees():
                if c in acquires and not acquires[c] <= acquires[name]:
                    acquires[name] |= acquires[c]
                    changed = True
    edges = {}
    blocking = []

    def visit(f, b, r, kind, n, lc, st):
        if kind == "lock" and st:
            for h in st:
                edges.setdefault((h, lc), "%s:%s" % (f.name, n.get("l")))
        elif kind == "call":
            c = n.get("c")
            if c in acquires and st:
                for h in st:
                    for a in acquires[c]:
                        edges.setdefault((h, a), "%s:%s via %s" % (f.name, n.get("l"), c))
            if st and c in ("POOL_add", "POOL_tryAdd", "POOL_joinJobs", "POOL_free", "ZSTDMT_waitForAllJobsCompleted",
                            "ZSTDMT_waitForLdmComplete", "pthread_join"):
                blocking.append("%s:%s calls %s holding %s" % (f.name, n.get("l"), c, sorted(st)))
            if c in locks.WAIT:
                m = locks.lock_class(f, n["a"][1])
                if set(st) - {m}:
                    blocking.append("%s:%s waits holding a second mutex %s" % (f.name, n.get("l"), sorted(set(st) - {m})))

    la.visit_all(visit)
    allowed = {(SER, LDMW)}
    extra = {e: w for e, w in edges.items() if e not in allowed}
    res.check(not extra, "T2.lock-order", "edges", "lib/compress/zstdmt_compress.c",
              "only nested acquisition: serial.mutex -> ldmWindowMutex (as the struct comment requires)",
              "new nested acquisition(s): %s" % ", ".join("%s->%s at %s" % (a, b, w) for (a, b), w in extra.items()))
    res.check((SER, LDMW) in edges, "T2.lock-order", "serial->ldmWindow", "lib/compress/zstdmt_compress.c",
              "documented order observed at %s" % edges.get((SER, LDMW)), "documented nesting no longer present")
    res.check(not blocking, "T2.lock-order", "no-blocking-call-under-lock", "lib/compress/zstdmt_compress.c",
              "no POOL_add/join/wait-for-jobs call and no cond_wait with a second mutex held", "; ".join(blocking))


def _writes_field(x, field):
    if x.get("k") == "asg":
        t = strip_casts(x["lhs"])
        return t.get("k") == "mem" and t["f"] == field
    return False


def completion_protocol(prog, res):
    f = prog.fn("ZSTDMT_compressionJob")
    steps = [("ensureFinished", f.call_roots("ZSTDMT_serialState_ensureFinished")),
             ("releaseSeq", f.call_roots("ZSTDMT_releaseSeq")),
             ("releaseCCtx", f.call_roots("ZSTDMT_releaseCCtx")),
             ("consumed=src.size", f.find_roots(lambda x: _writes_field(x, "consumed") and
                                                 "size" in {y["f"] for y in walk(x["rhs"]) if y.get("k") == "mem"})),
             ("signal job_cond", [p for p in f.call_roots(locks.SIGNAL)
                                  if p in f.flow([(b, i + 1) for b, i in f.find_roots(
                                      lambda x: _writes_field(x, "consumed") and "size" in
                                      {y["f"] for y in walk(x["rhs"]) if y.get("k") == "mem"})])])]
    prev = None
    for name, roots in steps:
        ok = bool(roots) and f.must_pass(via_roots=roots)
        res.check(ok, "T3.job-completion", "ZSTDMT_compressionJob:" + name, f.loc,
                  "every path from entry to exit passes %s" % name,
                  "a path through the worker (e.g. an early return on an error) skips %s: "
                  "ZSTDMT_waitForAllJobsCompleted / the next serial job would block forever" % name)
        if prev is not None and roots and prev[1]:
            # order: no path from `roots` back to prev (other than through loop) — prev precedes
            after = f.flow([(b, i + 1) for b, i in roots])
            res.check(not any(p in after for p in prev[1]), "T3.job-completion",
                      "ZSTDMT_compressionJob:%s-before-%s" % (prev[0], name), f.loc, "order kept",
                      "%s can run after %s" % (prev[0], name))
        prev = (name, roots)
    nret = len(f.returns())
    res.check(nret == 0, "T3.job-completion", "ZSTDMT_compressionJob:no-early-return", f.loc,
              "the worker has no return statement (errors go through JOB_ERROR -> _endJob)",
              "%d return statement(s) in the worker" % nret)
    # JOB_ERROR shape: every isError branch in the worker leads to a locked cSize write
    nerr = 0
    for bid, cond, t, fl in f.branches():
        c = f.resolve_x(cond)
        if any(is_call(x, ("ERR_isError", "ZSTD_isError")) for x in walk(c)):
            nerr += 1
            wr = [x for r in f.blocks[t]["el"] for x in walk(r) if _writes_field(x, "cSize")]
            # follow straight-line successors of the true edge a few steps
            seen, cur, k = set(), t, 0
            while not wr and cur is not None and k < 4 and cur not in seen:
                seen.add(cur)
                ss = f.succs(cur)
                cur = ss[0] if len(ss) == 1 else None
                if cur is not None:
                    wr = [x for r in f.blocks[cur]["el"] for x in walk(r) if _writes_field(x, "cSize")]
                k += 1
            isassert = "assert" in {m for x in walk(c) for m in x.get("m", [])}
            if not isassert:
                res.check(bool(wr), "T4.job-error-reported", "ZSTDMT_compressionJob:isError@%s" % c.get("l", bid),
                          f.loc, "error stored into job->cSize (JOB_ERROR)", "error branch does not record the error in job->cSize")
    # the waiters' completion predicate is `consumed < src.size` (ZSTDMT_waitForAllJobsCompleted, blocking flush): it cannot tell an
    # empty job that a worker has not started from one that is finished.  A job prepared with a size of zero is therefore never
    # handed to the pool: every path from the preparation of a job to POOL_tryAdd takes the edge on which its size is not zero.
    cj = prog.fn("ZSTDMT_createCompressionJob")
    prep = cj.find_roots(lambda x: x.get("k") == "asg" and x.get("op") == "=" and strip_casts(x["lhs"]).get("k") == "mem" and strip_casts(x["lhs"]).get("f") == "size"
                         and strip_casts(x["rhs"]).get("pi") is not None)
    post = cj.call_roots("POOL_tryAdd")
    szp = {strip_casts(x["rhs"]).get("pi") for b, i in prep for x in walk(cj.blocks[b]["el"][i]) if x.get("k") == "asg" and strip_casts(x["lhs"]).get("f") == "size"} - {None}
    nonempty = guards.rel_edges(cj, lambda a: strip_casts(a).get("pi") in szp, "==", lambda b_: const_val(strip_casts(b_)) == 0, truth=False) + \
        guards.truthy_edges(cj, lambda c: c.get("pi") in szp, truth=True)
    ok = bool(prep) and bool(post) and bool(nonempty) and cj.must_pass(via_edges=nonempty, starts=[(b, i + 1) for b, i in prep], targets=post)
    res.check(ok, "T3.job-completion", "ZSTDMT_createCompressionJob:posted-job-is-not-empty", cj.loc,
              "a job prepared with src.size == 0 never reaches POOL_tryAdd (the waiters' predicate `consumed < src.size` is false for it from the start)",
              "ZSTDMT_createCompressionJob can post a job whose src.size is 0: ZSTDMT_waitForAllJobsCompleted does not wait for it, and ZSTD_CCtx_reset / "
              "ZSTD_freeCCtx with a shared pool release the job table while the worker writes the frame header (use after free)")
    res.need("T4.job-error-reported", 7)
    res.need("T3.job-completion", 10)


def serial_order(prog, res):
    f = prog.fn("ZSTDMT_compressionJob")
    upd = f.call_roots("ZSTDMT_serialState_update")
    cont = f.call_roots(("ZSTD_compressContinue_public", "ZSTD_compressEnd_public"))
    res.check(bool(upd) and bool(cont) and f.must_pass(via_roots=upd, targets=cont), "T3.serial-order",
              "update-before-compress", f.loc, "ZSTDMT_serialState_update precedes every block compression of the job",
              "a block can be compressed before the job took its serial turn (LDM sequences / checksum order lost)")
    begin = f.call_roots(("ZSTD_compressBegin_advanced_internal",))
    after_upd = f.flow([(b, i + 1) for b, i in upd])
    res.check(bool(begin) and not any(p in after_upd for p in begin), "T3.serial-order", "begin-before-update", f.loc,
              "compressBegin precedes the serial turn", "compressBegin can follow the serial update")
    u = prog.fn("ZSTDMT_serialState_update")
    turn = []
    for bid, cond, t, fl in u.branches():
        c = strip_casts(u.resolve_x(cond))
        if c.get("k") == "bin" and c["op"] == "==" and "nextJobID" in {x["f"] for x in walk(c) if x.get("k") == "mem"}:
            turn.append((bid, t))
    tg = u.call_roots(("ZSTD_ldm_generateSequences", "ZSTD_XXH64_update", "XXH64_update", "ZSTD_window_update"))
    res.check(len(turn) == 1 and len(tg) >= 3 and u.must_pass(via_edges=turn, targets=tg), "T3.serial-order",
              "serial-work-only-on-own-turn", u.loc,
              "LDM sequence generation and checksum update only on the nextJobID == jobID edge",
              "serial work reachable when it is not this job's turn")
    inc = u.find_roots(lambda x: x.get("k") == "un" and x.get("op", "").endswith("++") and
                       strip_casts(x["e"]).get("f") == "nextJobID")
    res.check(bool(inc) and u.must_pass(via_roots=inc), "T3.serial-order", "turn-always-passed-on", u.loc,
              "nextJobID++ on every path", "a path leaves serialState_update without passing the turn on")
    # worker-side checksum only for the first job: checksumFlag cleared for jobID != 0
    # (presence of the write under the firstJob test)
    wr = f.find_roots(lambda x: _writes_field(x, "checksumFlag") and const_val(x["rhs"]) == 0)
    res.check(bool(wr), "T3.serial-order", "worker-checksum-only-first-job", f.loc,
              "jobParams.fParams.checksumFlag = 0 for non-first jobs", "non-first jobs keep checksumFlag")


def input_range(prog, res):
    f = prog.fn("ZSTDMT_tryGetInputRange")
    # legit edges: false edge of a branch on ZSTDMT_isOverlapped(buffer, inUse)
    ov = []
    for bid, cond, t, fl in f.branches():
        c = f.resolve_x(cond)
        if any(is_call(x, "ZSTDMT_isOverlapped") for x in walk(c)) and "assert" not in {m for x in walk(c) for m in x.get("m", [])}:
            ov.append((bid, t, fl))
    mm = f.call_roots(("memmove", "__builtin_memmove", "ZSTD_memmove"))
    wr = f.find_roots(lambda x: x.get("k") == "asg" and (access_path(x["lhs"]) or ())[-2:] ==
                      ((".", "inBuff_t", "buffer"),) or (x.get("k") == "asg" and strip_casts(x["lhs"]).get("f") == "buffer"
                                                         and strip_casts(x["lhs"]).get("rec") == "inBuff_t"))
    ldm = f.call_roots("ZSTDMT_waitForLdmComplete")
    res.check(len(ov) == 2 and len(mm) == 1 and len(wr) == 1 and len(ldm) == 2, "T3.input-range", "shape", f.loc,
              "2 overlap tests, 2 LDM waits, 1 prefix move, 1 buffer hand-out",
              "shape changed: overlap tests=%d ldm waits=%d memmove=%d inBuff.buffer writes=%d" % (len(ov), len(ldm), len(mm), len(wr)))
    if mm and wr:
        # each sink is unreachable if the true (overlapped) edges were the only way on; i.e.
        # cut the *false* edges: nothing behind them may be reached
        for name, sinks in (("memmove-prefix", mm), ("inBuff.buffer=", wr)):
            # the test protecting a sink: all paths entry->sink take some false edge
            # the test protecting a sink is the LAST overlap test before it: cut, for each sink, the
            # not-overlapped edges; additionally no overlap test may be followed by the sink on its
            # overlapped edge.  A sink preceded only by a test made for ANOTHER range is not protected:
            # each sink must have its own dominating test after the last write of the tested buffer.
            ok = bool(ov) and f.must_pass(via_edges={(bid, fl) for bid, t, fl in ov}, targets=sinks)
            reach_t = f.flow([(t, 0) for bid, t, fl in ov])
            ok = ok and not any(s in reach_t for s in sinks)
            # the range handed to the sink (buffer.start/capacity writes) is tested after it was set:
            # between the last assignment of `buffer` fields and the sink there is an overlap test
            setb = f.find_roots(lambda x: x.get("k") == "asg" and strip_casts(x["lhs"]).get("rec") == "buffer_t")
            for sk in sinks:
                before = [r0 for r0 in setb if sk in f.flow([(r0[0], r0[1] + 1)])]
                if before:
                    ok = ok and f.must_pass(via_edges={(bid, fl) for bid, t, fl in ov},
                                            starts=[(b0, i0 + 1) for b0, i0 in before], targets=[sk])
            res.check(ok, "T3.input-range", name + ":not-in-use", f.loc,
                      "reached only through the not-overlapped edge of ZSTDMT_isOverlapped(buffer, inUse)",
                      "input space can be reused while a job still reads it")
            ok2 = f.must_pass(via_roots=ldm, targets=sinks)
            res.check(ok2, "T3.input-range", name + ":ldm-complete", f.loc, "ZSTDMT_waitForLdmComplete precedes",
                      "input space reused before the LDM window moved past it")
        # inUse comes from ZSTDMT_getInputDataInUse
        arg_ok = True
        for b, i, n in f.calls("ZSTDMT_isOverlapped"):
            if "assert" in {m for x in walk(n) for m in x.get("m", [])}:
                continue
            anc = f.anchors(n["a"][1])
            arg_ok = arg_ok and "c:ZSTDMT_getInputDataInUse" in anc
        res.check(arg_ok, "T3.input-range", "inUse-provenance", f.loc, "range tested is ZSTDMT_getInputDataInUse()",
                  "overlap is tested against something other than the in-use range")
    res.need("T3.input-range", 6)


def job_ring(prog, res, fns):
    n = 0
    for f in fns:
        for b, i, r in f.roots():
            for x in walk(r):
                base = idx = None
                if x.get("k") == "idx":
                    base, idx = strip_casts(x["b"]), x["i"]
                elif x.get("k") == "bin" and x.get("op") == "+":
                    l, rr = strip_casts(x["lhs"]), strip_casts(x["rhs"])
                    if l.get("k") == "mem" and l["f"] == "jobs":
                        base, idx = l, x["rhs"]
                if base is None or base.get("k") != "mem" or base["f"] != "jobs" or base.get("rec") != "ZSTDMT_CCtx_s":
                    continue
                n += 1
                ok, why = masked_index(f, b, i, idx)
                res.check(ok, "T12.job-ring", "%s:jobs[]@%s" % (f.name, r.get("l") or x.get("l") or b), f.loc, why,
                          "mtctx->jobs[] subscripted by a value that is not `& jobIDMask` nor loop-bounded by it")
    res.count("job_subscripts", n)
    res.need("T12.job-ring", 40)
    # jobIDMask is always nbJobs-1 (or 0 with the table freed)
    for f in fns:
        for b, i, r in f.roots():
            for x in walk(r):
                if _writes_field(x, "jobIDMask"):
                    rhs = strip_casts(x["rhs"])
                    ok = const_val(rhs) == 0 or (rhs.get("k") == "bin" and rhs["op"] == "-" and const_val(rhs["rhs"]) == 1)
                    res.check(ok, "T12.mask-is-size-minus-1", "%s@%s" % (f.name, x.get("l")), f.loc,
                              "jobIDMask = nbJobs - 1 (or 0)", "jobIDMask written with something else than size-1")
    t = prog.fn("ZSTDMT_createJobsTable")
    sh = [x for _, _, x in t.events(lambda y: y.get("k") == "bin" and y.get("op") == "<<")]
    res.check(bool(sh) and any(const_val(x["lhs"]) == 1 for x in sh), "T12.mask-is-size-minus-1", "ZSTDMT_createJobsTable",
              t.loc, "table size is 1 << log", "job table size no longer a power of two by construction")
    c = prog.fn("ZSTDMT_createCompressionJob")
    full = []
    for bid, cond, tt, fl in c.branches():
        cc = strip_casts(c.resolve_x(cond))
        names = {x["f"] for x in walk(cc) if x.get("k") == "mem"}
        if cc.get("k") == "bin" and cc["op"] in (">", ">=") and {"nextJobID", "doneJobID", "jobIDMask"} <= names:
            full.append((bid, fl))
    wr = c.find_roots(lambda x: x.get("k") == "asg" and strip_casts(x["lhs"]).get("rec") == "ZSTDMT_jobDescription")
    res.check(len(full) == 1 and bool(wr) and c.must_pass(via_edges=full, targets=wr), "T3.ring-full-test",
              "ZSTDMT_createCompressionJob", c.loc, "no job slot is written unless nextJobID <= doneJobID + jobIDMask",
              "a job slot can be overwritten while its previous job is still in flight")


def job_scans_cover_the_ring(prog, res, fns):
    """T12: the jobs in flight are those with doneJobID <= id < nextJobID (finished-but-not-flushed ones included).  A loop that
    walks the jobs starting from doneJobID - to find the input still in use, to wait for completion, to report progress - must
    not stop short of nextJobID: its limit is nextJobID plus non-negative terms (linear form; a MIN(), a count of workers or any
    other cap is not).  Stopping short hands a range that a late job still reads back to the input ring."""
    from ..rules.linear import linear, fmt
    R = "T12.job-scan-covers-the-ring"
    n = 0
    for f in fns:
        for bid, cond, t, fl in f.branches():
            c = strip_casts(f.resolve_x(cond))
            if c is None or c.get("k") != "bin" or c.get("op") not in ("<", "!="):
                continue
            lhs, rhs = strip_casts(f.resolve_x(c["lhs"])), strip_casts(f.resolve_x(c["rhs"]))
            if lhs is None or rhs is None:
                continue
            from_done = False
            if lhs.get("k") == "mem" and lhs.get("f") == "doneJobID":
                from_done = True
            elif lhs.get("k") == "ref" and lhs.get("rk") in ("l", "sl"):
                ds = [d for d in f.local_defs().get(lhs["n"], []) if d is not None]
                from_done = any(any(y.get("k") == "mem" and y.get("f") == "doneJobID" for y in f.walk_deep(d)) for d in ds)
            if not from_done:
                continue
            lin = linear(f, rhs)
            n += 1
            ok = lin is not None and any("nextJobID" in str(k) and v == 1 for k, v in lin.items()) and all(v >= 0 for v in lin.values()) \
                and all(("nextJobID" in str(k)) or k == 1 or "jobReady" in str(k) for k in lin)
            res.check(ok, R, "%s@%s" % (f.name, c.get("l") or bid), f.loc, "limit = %s" % fmt(lin),
                      "%s walks the jobs from doneJobID up to `%s`, which is not nextJobID (+ non-negative terms): jobs in flight beyond that limit are not "
                      "seen - with nbWorkers finished-but-unflushed jobs ahead of a running one, ZSTDMT_getInputDataInUse reports nothing in use and the input "
                      "ring hands out the range that job is still reading (wrong bytes in the frame)" % (f.name, fmt(lin)))
    res.need(R, 3)


def masked_index(f, b, i, idx):
    idx = strip_casts(idx)

    def is_masked(e):
        e = strip_casts(e)
        return e is not None and e.get("k") == "bin" and e.get("op") == "&" and \
            "jobIDMask" in {y["f"] for y in walk(e) if y.get("k") == "mem"}

    if is_masked(idx):
        return True, "index is `... & jobIDMask`"
    if idx.get("k") == "ref" and idx.get("rk") in ("l", "sl", "p"):
        if idx.get("rk") != "p":
            defs = f.local_defs().get(idx["n"], [])
            if defs and all(d is not None and is_masked(d) for d in defs):
                return True, "local initialised/assigned only from `... & jobIDMask`"
        # loop-bounded: a branch `local <= jobIDMask` / `local < nbJobs(param)` whose true edge cuts the access
        for bid, cond, t, fl in f.branches():
            c = strip_casts(f.resolve_x(cond))
            if c.get("k") == "bin" and c["op"] in ("<=", "<"):
                l = strip_casts(c["lhs"])
                if l.get("k") == "ref" and l["n"] == idx["n"]:
                    rn = {y["f"] for y in walk(c["rhs"]) if y.get("k") == "mem"}
                    if (c["op"] == "<=" and "jobIDMask" in rn) or (c["op"] == "<" and strip_casts(c["rhs"]).get("rk") == "p"):
                        if f.must_pass(via_edges={(bid, t)}, targets=[(b, i)]):
                            return True, "loop-bounded by jobIDMask / table size"
    return False, ""


MT_PERSIST = {
    ("jobs",): "job table persists; resized on demand by ZSTDMT_resize (quiescent, T3.quiescent-before-reset)",
    ("jobIDMask",): "size of the persistent job table",
    ("bufPool",): "pool persists across frames", ("cctxPool",): "pool persists", ("seqPool",): "pool persists",
    ("factory",): "thread pool persists", ("cMem",): "allocator", ("providedFactory",): "constructor argument",
    ("rsync",): "written by init exactly when params.rsyncable; never read otherwise",
    ("roundBuff", "buffer"): "round buffer persists, grown on demand", ("roundBuff", "capacity"): "size of the persistent round buffer",
    ("cdictLocal",): "owned dictionary: freed and replaced on both arms of the dict test",
}


def mt_reset(prog, res, fns):
    """T13: session state of ZSTDMT_CCtx is re-established by ZSTDMT_initCStream_internal."""
    init = prog.fn("ZSTDMT_initCStream_internal")
    ctor = {"ZSTDMT_createCCtx_advanced_internal", "ZSTDMT_freeCCtx", "ZSTDMT_initCStream_internal",
            "ZSTDMT_resize", "ZSTDMT_expandJobsTable"}
    ops = [f for f in fns if f.name not in ctor]
    helpers = [prog.fn("ZSTDMT_serialState_reset")]
    # serialState_reset(&mtctx->serial, ...) counts as a write of mtctx->serial (addr call)
    reset.reset_completeness(prog, res, "T13.mt-session-reset", "ZSTDMT_CCtx_s", ops, init, [], MT_PERSIST, 12)
