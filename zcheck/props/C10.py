"""C10 — streaming calls progress; a completed flush is decodable; hints stay in the frame.
Static clauses only (the behaviour itself quantifies over buffer fill levels and worker
timing): the streaming state machines cannot iterate without doing work (T3 loop
progress); every way the streaming compressor stops early is one of the enumerated,
directive-justified exits (T3 exit classes) and the value it reports is the number of bytes
still buffered (T3 provenance); the multithreaded flush reports 0 only after all its
pending-work tests (T3); the decoder's hint is `expected` (+ a block header only when a
block follows, never for a skippable frame) and 0 only when the frame is decoded and
flushed (T3); the recommended buffer sizes are the documented expressions (T7)."""
from ..facts import extract, Broken
from ..ir import Program, walk, is_call, strip_casts, const_val, access_path
from ..report import Result
from ..rules import guards, reset
from ..rules.guards import cond_edges


def loop_flag(f):
    """(head block, body successor, flag local) of the `while (flag)` loop whose flag is a local
    only ever assigned the constants 0 and 1"""
    out = []
    for bid, cond, t, fl in f.branches():
        c = strip_casts(f.resolve_x(cond))
        if c is not None and c.get("k") == "ref" and c.get("rk") in ("l", "sl"):
            defs = f.local_defs().get(c["n"], [])
            if defs and all(d is not None and const_val(d) in (0, 1) for d in defs) and f.blocks[bid].get("term") in ("while", "WhileStmt", "loop", None, "if") or False:
                out.append((bid, t, c["n"]))
    return out


def loop_progress(prog, res):
    R = "T3.loop-progress"
    for name, progress_calls, progress_fields in (
            ("ZSTD_compressStream_generic", ("ZSTD_compressContinue_public", "ZSTD_compressEnd_public"), ()),
            ("ZSTD_decompressStream", ("ZSTD_decompressContinueStream", "ZSTD_decompressLegacyStream", "ZSTD_decompressLegacyStream_counted", "ZSTD_decompress_usingDDict"), ("lhSize",))):
        f = prog.fn(name)
        heads = []
        for bid, cond, t, fl in f.branches():
            c = strip_casts(f.resolve_x(cond))
            if c is not None and c.get("k") == "ref" and c.get("rk") in ("l", "sl"):
                defs = f.local_defs().get(c["n"], [])
                if len(defs) >= 3 and all(d is not None and const_val(d) in (0, 1) for d in defs) and bid in f.reachable([t]):
                    heads.append((bid, t, c["n"]))
        res.check(len(heads) == 1, R, name + ":loop-found", f.loc, "the `while (flag)` state-machine loop", "state-machine loop not found (%d candidates)" % len(heads))
        if len(heads) != 1:
            continue
        head, body, flag = heads[0]
        stop = [(b, i) for b, i, x in f.events(lambda y: y.get("k") == "asg") if strip_casts(x["lhs"]).get("n") == flag and const_val(x["rhs"]) == 0]
        stage = [(b, i) for b, i, x in f.events(lambda y: y.get("k") == "asg") if strip_casts(x["lhs"]).get("f") == "streamStage"]
        prog_roots = f.call_roots(progress_calls)
        fld = [(b, i) for b, i, x in f.events(lambda y: y.get("k") == "asg") if strip_casts(x["lhs"]).get("f") in progress_fields]
        ok = bool(stop) and bool(stage) and bool(prog_roots) and f.must_pass(via_roots=stop + stage + prog_roots + fld, starts=[(body, 0)], targets=[(head, 0)])
        res.check(ok, R, name + ":no-idle-iteration", f.loc,
                  "every trip around the loop clears the flag, changes the stage or calls a block-level (de)compression step (%d+%d+%d sites)" % (len(stop), len(stage), len(prog_roots)),
                  "%s can go round its state-machine loop without stopping, changing stage or doing a block's work: a call can spin without progress" % name)
        res.count(R + ".stop-sites", len(stop))
    # the decoder's no-progress watchdog (shared with C03): counter and the two error exits
    d = prog.fn("ZSTD_decompressStream")
    gs = [g for g in guards.guard_sites(d) if {"noForwardProgress_destFull", "noForwardProgress_inputEmpty"} & g.codes]
    inc = [(b, i) for b, i, x in d.events(lambda y: y.get("k") == "un" and y.get("op", "").endswith("++")) if strip_casts(x["e"]).get("f") == "noForwardProgress"]
    rst = [(b, i) for b, i, x in d.events(lambda y: y.get("k") == "asg") if strip_casts(x["lhs"]).get("f") == "noForwardProgress" and const_val(x["rhs"]) == 0]
    res.check(len(gs) >= 2 and len(inc) >= 1 and bool(rst), R, "decompressStream:no-progress-watchdog", d.loc, "repeated calls without progress end in an error, progress resets the counter",
              "no-progress watchdog incomplete")
    res.need(R, 5)


def exit_classes(prog, res):
    """every `someMoreWork = 0` of the streaming compressor is justified by the directive"""
    R = "T3.compress-stop-classes"
    f = prog.fn("ZSTD_compressStream_generic")
    flag = None
    for bid, cond, t, fl in f.branches():
        c = strip_casts(f.resolve_x(cond))
        if c is not None and c.get("k") == "ref" and c.get("rk") in ("l", "sl"):
            defs = f.local_defs().get(c["n"], [])
            if len(defs) >= 3 and all(d is not None and const_val(d) in (0, 1) for d in defs):
                flag = c["n"]
    stops = [(b, i, x) for b, i, x in f.events(lambda y: y.get("k") == "asg") if strip_casts(x["lhs"]).get("n") == flag and const_val(x["rhs"]) == 0]
    res.check(len(stops) >= 7, R, "stop-sites", f.loc, "%d early-stop sites" % len(stops), "stop sites vanished (%d)" % len(stops))
    pm = 4      # index of the directive parameter
    dirp = [i for i, p in enumerate(f.params) if "ZSTD_EndDirective" in p["t"]]
    pm = dirp[0] if dirp else 3

    def edges(pred, which):
        return set(cond_edges(f, pred, which))

    def is_dir(c, name):
        return c.get("k") == "bin" and c["op"] == "==" and "p:%d" % pm in f.anchors(c["lhs"], depth=0) | f.anchors(c["rhs"], depth=0) and any(y.get("n") == name for y in walk(c))
    e_cont = edges(lambda c: is_dir(c, "ZSTD_e_continue"), "true")
    e_flush = edges(lambda c: is_dir(c, "ZSTD_e_flush"), "true")
    e_end = edges(lambda c: is_dir(c, "ZSTD_e_end"), "true")
    e_ended = edges(lambda c: c.get("k") == "mem" and c.get("f") == "frameEnded", "true")
    e_partial = edges(lambda c: c.get("k") == "bin" and c["op"] == "!=" and all(strip_casts(c[s]).get("k") == "ref" and strip_casts(c[s]).get("rk") in ("l", "sl") for s in ("lhs", "rhs")), "true")
    e_empty_b = edges(lambda c: c.get("k") == "bin" and c["op"] == "==" and {"f:inBuffPos", "f:inToCompress"} <= f.anchors(c, depth=0), "true")
    e_empty_s = edges(lambda c: c.get("k") == "bin" and c["op"] == "==" and all(strip_casts(c[s]).get("k") == "ref" and strip_casts(c[s]).get("rk") in ("l", "sl") for s in ("lhs", "rhs")), "true")
    endcalls = f.call_roots("ZSTD_compressEnd_public")
    classes = {"continue: waits for a full block": 0, "flush: nothing buffered": 0, "end: frame finished": 0, "output full: bytes remain buffered": 0}
    for b, i, x in stops:
        tgt = [(b, i)]
        cls = None
        if e_cont and f.must_pass(via_edges=e_cont, targets=tgt):
            cls = "continue: waits for a full block"
        elif e_flush and f.must_pass(via_edges=e_flush, targets=tgt) and (f.must_pass(via_edges=e_empty_b, targets=tgt) or f.must_pass(via_edges=e_empty_s, targets=tgt)):
            cls = "flush: nothing buffered"
        elif (e_ended and f.must_pass(via_edges=e_ended, targets=tgt)) or (e_end and endcalls and f.must_pass(via_edges=e_end, targets=tgt) and f.must_pass(via_roots=endcalls, targets=tgt)):
            cls = "end: frame finished"
        elif e_partial and f.must_pass(via_edges=e_partial, targets=tgt):
            cls = "output full: bytes remain buffered"
        if cls:
            classes[cls] += 1
        res.check(cls is not None, R, "stop@%s" % x.get("l"), "%s:%s" % (f.file, x.get("l")), cls or "",
                  "the streaming compressor can stop here for a reason that is none of: continue-needs-more-input, flush-with-nothing-buffered, frame finished, output full "
                  "(a flush or end directive could report completion with data still held back)")
    res.check(all(v >= 1 for v in classes.values()), R, "all-classes-present", f.loc, "stop classes: %s" % classes, "a stop class vanished: %s" % classes)
    # the partial-flush exit is the one that leaves bytes buffered: it is on the `toFlush != flushed` edge, whose operands are the
    # remaining size and the copied size
    fl = [c for b, i, c in f.calls("ZSTD_limitCopy")]
    res.check(len(fl) >= 2, R, "limitCopy-sites", f.loc, "bounded copies into the caller's buffers", "limitCopy sites vanished")
    # return value of the call
    rets = f.returns()
    ok = any(const_val(r.get("e")) == 0 and e_ended and f.must_pass(via_edges=e_ended, targets=[(b, i)]) for b, i, r in rets if r.get("e") is not None)
    res.check(ok, R, "generic-returns-0-only-when-frame-ended", f.loc, "`return 0` only on the frameEnded edge", "the streaming compressor can return 0 without having ended the frame")
    res.need(R, 10)


def return_provenance(prog, res):
    R = "T3.reported-remaining"
    f = prog.fn("ZSTD_compressStream2")
    rets = [(b, i, r) for b, i, r in f.returns() if r.get("e") is not None and not reset.ret_is_error(f, b, i, r)]
    st = [r for b, i, r in rets if strip_casts(r["e"]).get("k") == "bin" and strip_casts(r["e"]).get("op") == "-"]
    ok = len(st) == 1 and strip_casts(strip_casts(st[0]["e"])["lhs"]).get("f") == "outBuffContentSize" and strip_casts(strip_casts(st[0]["e"])["rhs"]).get("f") == "outBuffFlushedSize"
    res.check(ok, R, "single-thread:return=content-flushed", f.loc, "returns outBuffContentSize - outBuffFlushedSize (bytes still buffered)", "single-threaded return value is no longer the buffered byte count")
    mt = [(b, i, r) for b, i, r in rets if strip_casts(r["e"]).get("k") == "ref" and "c:ZSTDMT_compressStream_generic" in f.anchors(r["e"], depth=2)]
    res.check(len(mt) == 1, R, "multi-thread:return=mt-result", f.loc, "returns ZSTDMT_compressStream_generic's result", "multithreaded return value changed")
    # leaving the MT loop: only (error) | continue & progress/full | flushMin == 0 | output full
    if mt:
        tgt = [(mt[0][0], mt[0][1])]
        call = f.call_roots("ZSTDMT_compressStream_generic")
        dirp = [i for i, p in enumerate(f.params) if "ZSTD_EndDirective" in p["t"]][0]
        e_cont = set(cond_edges(f, lambda c: c.get("k") == "bin" and c["op"] == "==" and any(y.get("n") == "ZSTD_e_continue" for y in walk(c)) and "p:%d" % dirp in f.anchors(c, depth=0), "true"))
        e_zero = set(cond_edges(f, lambda c: c.get("k") == "bin" and c["op"] == "==" and const_val(c["rhs"]) == 0 and "c:ZSTDMT_compressStream_generic" in f.anchors(c["lhs"], depth=2), "true"))
        e_full = set(cond_edges(f, lambda c: c.get("k") == "bin" and c["op"] == "==" and {"f:pos", "f:size"} <= f.anchors(c, depth=0) and "p:1" in f.anchors(c, depth=0), "true"))
        ok = bool(call) and bool(e_cont) and bool(e_zero) and bool(e_full) and f.must_pass(via_edges=e_cont | e_zero | e_full, starts=[(b, i + 1) for b, i in call], targets=tgt)
        res.check(ok, R, "multi-thread:loop-exits", f.loc, "the MT loop is left only for e_continue, when the flush completed, or when the output is full",
                  "the multithreaded flush/end loop can be left with work pending and room in the output")
    g = prog.fn("ZSTDMT_flushProduced")
    zero = [(b, i) for b, i, r in g.returns() if r.get("e") is not None and r["e"].get("k") == "int" and const_val(r["e"]) == 0]
    tests = []
    for name, pred in (("jobs-ongoing", lambda c: c.get("k") == "bin" and c["op"] == "<" and {"f:doneJobID", "f:nextJobID"} <= g.anchors(c, depth=0)),
                       ("job-ready", lambda c: c.get("k") == "mem" and c.get("f") == "jobReady"),
                       ("input-buffered", lambda c: c.get("k") == "bin" and c["op"] == ">" and "f:filled" in g.anchors(c["lhs"], depth=0) and const_val(c["rhs"]) == 0),
                       ("current-job-unflushed", lambda c: c.get("k") == "bin" and c["op"] == ">" and "f:dstFlushed" in g.anchors(c["rhs"], depth=0)),
                       ("current-job-uncompressed", lambda c: c.get("k") == "bin" and c["op"] == ">" and all(strip_casts(c[s]).get("k") == "ref" for s in ("lhs", "rhs")))):
        e = set(cond_edges(g, pred, "false"))
        ok = len(zero) == 1 and bool(e) and g.must_pass(via_edges=e, targets=zero)
        res.check(ok, R, "flushProduced:0-needs-not-" + name, g.loc, "`return 0` is only reachable when this pending-work test is false",
                  "ZSTDMT_flushProduced can report a completed flush while `%s` still holds" % name)
    e_end = set(cond_edges(g, lambda c: c.get("k") == "bin" and c["op"] == "==" and any(y.get("n") == "ZSTD_e_end" for y in walk(c)), "true"))
    fe = [(b, i) for b, i, r in g.returns() if r.get("e") is not None and any(y.get("f") == "frameEnded" for y in walk(r["e"]))]
    res.check(bool(e_end) and len(fe) == 1 and g.must_pass(via_edges=e_end, targets=fe), R, "flushProduced:end-reports-frame-completion", g.loc,
              "for ZSTD_e_end the result is !frameEnded", "end directive no longer tied to frame completion")
    m = prog.fn("ZSTDMT_compressStream_generic")
    fp = [c for b, i, c in m.calls("ZSTDMT_flushProduced")]
    rr = [r for b, i, r in m.returns() if r.get("e") is not None and "c:ZSTDMT_flushProduced" in m.anchors(r["e"], depth=2)]
    res.check(len(fp) == 1 and len(rr) >= 2, R, "mt-generic:returns-flushProduced", m.loc, "the MT entry returns what ZSTDMT_flushProduced reports (or MAX(it, 1) with input left)", "MT return value no longer derived from flushProduced")
    # flush/end directive turns buffered input into a job
    cj = m.call_roots("ZSTDMT_createCompressionJob")
    e_job = set(cond_edges(m, lambda c: c.get("k") == "bin" and c["op"] == ">" and "f:filled" in m.anchors(c["lhs"], depth=0) and const_val(c["rhs"]) == 0, "true"))
    res.check(bool(cj) and bool(e_job), R, "mt-generic:flush-creates-job", m.loc, "a flush/end directive with buffered input creates a job", "buffered input is not turned into a job on flush")
    res.need(R, 11)


def decoder_hints(prog, res):
    R = "T3.decoder-hint"
    f = prog.fn("ZSTD_decompressStream")
    hint = None
    for n, ds in f.local_defs().items():
        if any(d is not None and is_call(strip_casts(d), "ZSTD_nextSrcSizeToDecompress") for d in ds) and any(d is None for d in ds):
            hint = n
    res.check(hint is not None, R, "hint-local", f.loc, "the final hint starts as ZSTD_nextSrcSizeToDecompress(zds)", "final hint no longer derived from the decoder's expected size")
    if hint:
        adds = [x for b, i, x in f.events(lambda y: y.get("k") == "asg" and y.get("op") == "+=") if strip_casts(x["lhs"]).get("n") == hint]
        ok = len(adds) == 1 and "c:ZSTD_nextInputType" in f.anchors(adds[0]["rhs"]) and any(y.get("n") == "ZSTDnit_block" for y in f.walk_resolved(adds[0]["rhs"])) \
            and "ZSTD_blockHeaderSize" in {m for y in f.walk_resolved(adds[0]["rhs"]) for m in y.get("m", [])} | {y.get("n") for y in f.walk_resolved(adds[0]["rhs"])}
        res.check(ok, R, "block-header-only-before-a-block", f.loc, "+ ZSTD_blockHeaderSize only when the next input is a block (never after the last block or before a checksum)",
                  "the hint adds a block header although no block follows: the reader is asked past the frame")
        subs = [x for b, i, x in f.events(lambda y: y.get("k") == "asg" and y.get("op") == "-=") if strip_casts(x["lhs"]).get("n") == hint]
        res.check(len(subs) == 1 and strip_casts(subs[0]["rhs"]).get("f") == "inPos", R, "minus-already-loaded", f.loc, "- inPos (bytes already buffered)", "already loaded bytes no longer subtracted")
        zero = [(b, i) for b, i, r in f.returns() if r.get("e") is not None and r["e"].get("k") == "int" and const_val(r["e"]) == 0]
        e_done = set(cond_edges(f, lambda c: c.get("k") == "ref" and c.get("n") == hint, "false"))
        e_flushed = set(cond_edges(f, lambda c: c.get("k") == "bin" and c["op"] == "==" and {"f:outEnd", "f:outStart"} <= f.anchors(c, depth=0), "true"))
        late = [z for z in zero if f.must_pass(via_edges=e_done, targets=[z])]
        ok = bool(late) and bool(e_flushed) and f.must_pass(via_edges=e_flushed, targets=late)
        res.check(ok, R, "0-means-decoded-and-flushed", f.loc, "`return 0` at the end of a call needs hint == 0 and outEnd == outStart", "0 can be reported with regenerated bytes still buffered")
    # header stage: remaining header bytes + block header unless the frame is skippable
    hr = []
    for b, i, r in f.returns():
        if r.get("e") is None:
            continue
        e = strip_casts(f.resolve_x(r["e"]))
        if e.get("k") == "bin" and e.get("op") == "+" and "f:lhSize" in f.anchors(e["lhs"], depth=1):
            hr.append((b, i, e))
    ok = len(hr) == 1
    why = "header-stage hint not found"
    if ok:
        b, i, e = hr[0]
        an = f.anchors(e["rhs"], depth=3)
        names = {y.get("n") for y in f.walk_resolved(e["rhs"])}
        ms = set()
        todo = [e["rhs"]]
        seen = set()
        while todo:
            z = todo.pop()
            for y in f.walk_resolved(z):
                ms |= set(y.get("m", []))
                if y.get("k") == "ref" and y.get("rk") in ("l", "sl") and y["n"] not in seen:
                    seen.add(y["n"])
                    todo += [d for d in f.local_defs().get(y["n"], []) if d is not None]
        ok = "ZSTD_MAGIC_SKIPPABLE_START" in ms and ("ZSTD_blockHeaderSize" in ms or "g:ZSTD_blockHeaderSize" in an)
        why = "the header-stage hint adds a block header even for a skippable frame, which has no block"
    res.check(ok, R, "header-stage:no-block-header-for-skippable", f.loc, "remaining header bytes, + block header unless the magic number is a skippable one", why)
    n = prog.fn("ZSTD_nextSrcSizeToDecompress")
    res.check(any(strip_casts(r.get("e")).get("f") == "expected" for b, i, r in n.returns() if r.get("e") is not None), R, "nextSrcSize=expected", n.loc, "the decoder asks for `expected` bytes (pairing with stages: C02)", "hint source changed")
    res.need(R, 6)


def staging_buffer(prog, res):
    """T11: the streaming decoder's input staging buffer holds every unit the decoder can ask for after the header:
    a block (<= blockSizeMax), a block header, the checksum"""
    R = "T11.staging-buffer-holds-every-unit"
    c = prog.fn("ZSTD_decompressContinue")
    consts = sorted({const_val(x["rhs"]) for b, i, x in c.events(lambda y: y.get("k") == "asg") if strip_casts(x["lhs"]).get("f") == "expected" and const_val(x["rhs"]) is not None})
    res.check(len(consts) >= 2 and max(consts) >= 4, R, "constant-unit-sizes", c.loc, "the decoder asks for constant-size units of %s bytes (plus blocks)" % consts, "constant `expected` sizes vanished: %s" % consts)
    f = prog.fn("ZSTD_decompressStream")
    asg = [x for b, i, x in f.events(lambda y: y.get("k") == "asg") if strip_casts(x["lhs"]).get("f") == "inBuffSize" and const_val(x["rhs"]) != 0]
    ok = len(asg) == 1
    why = "inBuffSize assignment changed"
    if ok:
        d = strip_casts(f.resolve_x(asg[0]["rhs"]))
        if d.get("k") == "ref" and d.get("rk") in ("l", "sl"):
            sd = f.single_def(d["n"])
            d = strip_casts(f.resolve_x(sd)) if sd is not None else d
        floor = None
        blk = False
        if d.get("k") == "cond" and "MAX" in d.get("m", []):
            for k in ("t", "f"):
                arm = strip_casts(f.resolve_x(d[k]))
                if arm is None:
                    continue
                av = const_val(arm)
                if av is None and arm.get("k") == "ref" and arm.get("rk") in ("l", "sl"):
                    sd2 = f.single_def(arm["n"])
                    av = const_val(sd2) if sd2 is not None else None
                if av is None and arm.get("k") == "ref" and arm.get("rk") == "g":
                    try:
                        av = const_val(prog.glob(arm["n"]).get("init"))
                    except Broken:
                        av = None
                if av is not None:
                    floor = av
                elif any(y.get("f") == "blockSizeMax" for y in f.walk_resolved(arm)):
                    blk = True
        ok = blk and floor is not None and consts and floor >= max(consts)
        why = "the staging buffer is sized %s: a frame whose blockSizeMax is below %d (tiny declared content) cannot stage a block header or checksum delivered in pieces" % (
            "MAX(blockSizeMax, %s)" % floor if floor is not None else "from blockSizeMax alone", max(consts) if consts else 4)
    res.check(ok, R, "inBuffSize>=max(blockSizeMax,largest-constant-unit)", f.loc, "inBuffSize = MAX(blockSizeMax, k) with k >= every constant unit size", why)
    g = [x for x in guards.guard_sites(f) if "corruption_detected" in x.codes and "f:inBuffSize" in (x.L | x.R)]
    res.check(bool(g), R, "load-stage-bound", f.loc, "the load stage refuses a unit larger than the staging buffer (bound shared with C02/C03)", "load-stage bound vanished")
    res.need(R, 3)


def sizes(prog, res):
    R = "T7.recommended-sizes"
    for name, need in (("ZSTD_CStreamInSize", {"m:ZSTD_BLOCKSIZE_MAX"}), ("ZSTD_CStreamOutSize", {"c:ZSTD_compressBound", "m:ZSTD_BLOCKSIZE_MAX", "g:ZSTD_blockHeaderSize", "k:4"}),
                       ("ZSTD_DStreamInSize", {"m:ZSTD_BLOCKSIZE_MAX", "g:ZSTD_blockHeaderSize"}), ("ZSTD_DStreamOutSize", {"m:ZSTD_BLOCKSIZE_MAX"})):
        f = prog.fn(name)
        rets = [r for b, i, r in f.returns() if r.get("e") is not None]
        an = f.anchors(rets[0]["e"]) if len(rets) == 1 else set()
        an |= {"m:" + m for y in walk(rets[0]["e"]) for m in y.get("m", [])} if rets else set()
        res.check(len(rets) == 1 and need <= an, R, name, f.loc, "returns the documented expression %s" % sorted(need), "%s no longer returns %s (got %s)" % (name, sorted(need), sorted(an)))
    h = prog.fn("ZSTD_nextInputSizeHint")
    w = {y["f"] for b, i, r in h.returns() if r.get("e") is not None for y in walk(r["e"]) if y.get("k") == "mem"} | {y["f"] for n, ds in h.local_defs().items() for d in ds if d is not None for y in walk(d) if y.get("k") == "mem"}
    res.check({"inBuffTarget", "inBuffPos", "blockSize"} <= w, R, "ZSTD_nextInputSizeHint", h.loc, "compression hint = bytes missing for a full block (or a block)", "compression hint changed")
    res.need(R, 5)


def checksum_presence_governs_consumption(prog, res):
    """T9: whether a frame ENDS with a 4-byte checksum is a property of its header (fParams.checksumFlag); whether the
    decoder VERIFIES it is a setting (validateChecksum = checksumFlag && !forceIgnoreChecksum).  Every decision about
    consuming those 4 bytes — the transitions into the checkChecksum stage of the buffer-less core, the 4-byte step of the
    one-shot frame decoder, the frame-size walker — must test the header flag: a decoder that tests the verification setting
    finishes a frame 4 bytes early when verification is off and takes the checksum for the start of the next frame."""
    R = "T9.checksum-presence-governs-consumption"
    g = prog.fn("ZSTD_decompressContinue")
    present = guards.truthy_edges(g, lambda c: c.get("k") == "mem" and c.get("f") == "checksumFlag", truth=True)
    to_ck = g.find_roots(lambda x: x.get("k") == "asg" and strip_casts(x["lhs"]).get("f") == "stage" and
                         strip_casts(x["rhs"]).get("n") == "ZSTDds_checkChecksum")
    res.check(len(to_ck) >= 2, R, "transitions", g.loc, "%d transitions into the checksum stage" % len(to_ck), "transitions into ZSTDds_checkChecksum: %d" % len(to_ck))
    for t in to_ck:
        ln = g.blocks[t[0]]["el"][t[1]].get("l")
        res.check(bool(present) and g.must_pass(via_edges=present, targets=[t]), R, "decompressContinue:to-checksum-stage@%s" % ln, "%s:%s" % (g.file, ln),
                  "entered on the true edge of fParams.checksumFlag", "the checksum stage is entered on something else than the header's checksumFlag")
    # no end-of-frame decision on the verification setting: a test of validateChecksum may only guard hashing/comparing
    bad = []
    for bid, cond, t, fl in g.branches():
        c = g.resolve_x(cond)
        if any(y.get("k") == "mem" and y.get("f") == "validateChecksum" for y in g.walk_resolved(c)):
            for e in (t, fl):
                reach = g.flow([(e, 0)])
                other = g.flow([((fl if e == t else t), 0)])
                sw = [w for w in g.find_roots(lambda x: x.get("k") == "asg" and strip_casts(x["lhs"]).get("f") in ("stage", "expected"))]
                if {w for w in sw if w in reach} != {w for w in sw if w in other}:
                    bad.append(c.get("l"))
    res.check(not bad, R, "decompressContinue:verification-setting-decides-no-stage", g.loc,
              "tests of validateChecksum do not change which stage / how many bytes come next",
              "a test of dctx->validateChecksum (line %s) decides the next stage or the next expected size: with ZSTD_d_forceIgnoreChecksum the decoder "
              "stops asking for the 4 checksum bytes that the frame still contains and ends the frame early" % sorted(set(bad)))
    for name in ("ZSTD_decompressFrame", "ZSTD_findFrameSizeInfo"):
        f = prog.fn(name)
        pres = guards.truthy_edges(f, lambda c: c.get("k") == "mem" and c.get("f") == "checksumFlag", truth=True)
        res.check(len(pres) >= 1, R, name + ":tests-header-flag", f.loc, "consumes the checksum on fParams.checksumFlag", "%s no longer tests the header's checksumFlag" % name)
    res.need(R, 5)


def end_flush_input_mode(prog, res):
    """T9: ZSTD_flushStream / ZSTD_endStream rebuild the input descriptor of the call they forward to.  With a stable input
    buffer that descriptor must be the one recorded by the previous call — including while the frame's initialisation is
    still pending (stage zcss_init), when `appliedParams` are NOT yet the parameters of this frame.  The helper choosing the
    descriptor must therefore not decide on appliedParams alone: its choice depends on the stream stage and on the requested mode."""
    R = "T9.end-flush-input-mode"
    f = prog.fn("inBuffer_forEndFlush")
    flat = set()
    for _, _, r in f.roots():
        for y in walk(r):
            if y.get("k") == "mem" and y.get("f") == "inBufferMode":
                flat.add(" ".join(z.get("f", "") for z in walk(y) if z.get("k") == "mem"))
    has_applied = any("appliedParams" in t for t in flat)
    has_requested = any("requestedParams" in t for t in flat)
    stage = any(y.get("k") == "mem" and y.get("f") == "streamStage" for _, _, r in f.roots() for y in walk(r))
    res.check(has_applied or has_requested, R, "reads-mode", f.loc, "the helper consults the input buffer mode", "inBuffer_forEndFlush no longer looks at the buffer mode")
    res.check((not has_applied) or (has_requested and stage), R, "stage-aware", f.loc,
              "appliedParams' mode is only used once the stream left its init stage; before that the requested mode decides",
              "inBuffer_forEndFlush decides on appliedParams.inBufferMode alone: while the frame's initialisation is pending these are the previous frame's "
              "parameters, a stable-input stream is flushed/ended with an empty input and the bytes already reported as consumed are dropped")
    for name in ("ZSTD_flushStream", "ZSTD_endStream"):
        g = prog.fn(name)
        res.check("inBuffer_forEndFlush" in g.callees(), R, name, g.loc, "input descriptor comes from the shared helper", "%s builds its own input descriptor" % name)
    res.need(R, 4)


def round_buffer_has_slack(prog, res):
    """T11: the multithreaded input ring must hold the window (or the sections being filled) PLUS the slack sections, so that
    when it wraps the range to reuse is already outside the LDM window / the oldest running job: capacity is
    `MAX(windowSize, sectionsSize) + slackSize` - the slack is added outside the maximum.  With the slack inside the maximum a
    large window swallows it, and ZSTDMT_waitForLdmComplete waits for a condition only the waiting thread could produce."""
    R = "T11.round-buffer-slack"
    if not prog.has_fn("ZSTDMT_initCStream_internal"):
        return
    f = prog.fn("ZSTDMT_initCStream_internal")
    cap = [x for b, i, x in f.events(lambda y: y.get("k") == "asg") if strip_casts(x["lhs"]).get("f") == "capacity" and any(z.get("f") == "roundBuff" for z in walk(x["lhs"]))
           and const_val(x["rhs"]) is None]
    res.check(len(cap) >= 1, R, "site", f.loc, "round buffer capacity assigned", "round buffer capacity assignment not found")
    for x in cap:
        e = strip_casts(f.resolve_x(x["rhs"]))
        if e is not None and e.get("k") == "ref":
            d = f.single_def(e["n"])
            e = strip_casts(f.resolve_x(d)) if d is not None else e
        ok = False
        if e is not None and e.get("k") == "bin" and e.get("op") == "+":
            for mx, sl in ((e["lhs"], e["rhs"]), (e["rhs"], e["lhs"])):
                mxn = strip_casts(f.resolve_x(mx))
                slack_names = {y.get("n") for y in f.walk_resolved(sl) if y.get("k") == "ref"}
                if mxn is not None and mxn.get("k") == "cond" and slack_names:
                    inside = {y.get("n") for y in f.walk_resolved(mxn) if y.get("k") == "ref"}
                    if not (slack_names & inside):
                        ok = True
        res.check(ok, R, "capacity-shape", f.loc, "capacity = MAX(window, sections) + slack, the slack outside the maximum",
                  "the round buffer capacity no longer adds the slack sections on top of MAX(window, sections): with a window larger than the sections the "
                  "ring has no slack and multithreaded LDM compression blocks forever when the ring wraps")
    res.need(R, 2)


def run(tier):
    res = Result("C10", tier)
    tus, info = extract(["compress", "decompress", "common"])
    prog = Program(tus)
    res.info = info
    loop_progress(prog, res)
    exit_classes(prog, res)
    return_provenance(prog, res)
    decoder_hints(prog, res)
    staging_buffer(prog, res)
    checksum_presence_governs_consumption(prog, res)
    round_buffer_has_slack(prog, res)
    end_flush_input_mode(prog, res)
    sizes(prog, res)
    return res.finish(
        explanation="The two streaming state machines cannot take a loop iteration that neither stops, changes stage nor "
                    "(de)compresses a block; each early stop of the streaming compressor is dominated by the directive that "
                    "justifies it (continue / nothing buffered / frame finished / output full) and its return value is the "
                    "buffered byte count; the multithreaded flush reports 0 only when none of its five pending-work tests holds; "
                    "the decoder's hint is `expected` plus a block header only before a block, never for a skippable frame, and 0 "
                    "only when decoded and flushed; recommended buffer sizes are the documented expressions.",
        not_decided="(a) per-call progress for every buffer fill level and worker timing, (b) that a completed flush is decodable "
                    "(needs the encoder's and decoder's values), (c) sum of hints == frame size as a number",
        assumptions=["ZSTD_MULTITHREAD build"])
