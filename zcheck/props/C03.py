"""C03 — decoding untrusted bytes is memory-safe, bounded and terminating.
Static clauses: frozen check-before-use guard inventory of every decoder / legacy decoder /
entropy-header reader function (each guard: error code, operator, operand anchors, what it
dominates), error discipline over the same scope (T4), table-capacity witnesses (T11),
masked probing of the multi-DDict table (T12), legacy dispatch exhaustiveness (T6), the
no-forward-progress watchdog (T3).  Not decided: termination bounds, general UB freedom,
the x86-64 assembly Huffman loop."""
import json
import os

from ..facts import extract, Broken
from ..ir import Program, walk, is_call, strip_casts, const_val
from ..report import Result
from ..rules import guards, witness
from ..rules.guards import Want, cond_edges
from . import t4_common

INV = os.path.join(os.path.dirname(__file__), "inv", "C03.json")
SCOPE = ["lib/decompress/", "lib/common/entropy_common.c", "lib/common/fse_decompress.c", "lib/common/bitstream.h",
         "lib/legacy/"]


def ddict_probe(prog, res):
    """T12: in the open-addressing probe, every increment of the index is followed by the mask
    before the next subscript of ddictPtrTable."""
    R = "T12.masked-probe"
    for fname in ("ZSTD_DDictHashSet_emplaceDDict", "ZSTD_DDictHashSet_getDDict"):
        f = prog.fn(fname)
        subs = []
        idxvars = set()
        for b, i, r in f.roots():
            for x in walk(r):
                if x.get("k") == "idx" and strip_casts(x["b"]).get("f") == "ddictPtrTable":
                    subs.append((b, i))
                    ix = strip_casts(x["i"])
                    if ix.get("k") == "ref":
                        idxvars.add(ix["n"])
        res.check(len(idxvars) == 1 and subs, R, fname + ":index-variable", f.loc, "one probe index", "probe shape changed")
        if len(idxvars) != 1:
            continue
        v = next(iter(idxvars))
        inc = f.find_roots(lambda x: (x.get("k") == "un" and x.get("op", "").endswith("++") and strip_casts(x["e"]).get("n") == v)
                           or (x.get("k") == "asg" and x.get("op") in ("+=",) and strip_casts(x["lhs"]).get("n") == v))
        mask = f.find_roots(lambda x: x.get("k") == "asg" and strip_casts(x["lhs"]).get("n") == v and
                            ((x.get("op") == "&=") or (x.get("op") == "=" and strip_casts(x["rhs"]).get("op") in ("&", "%"))))
        ok = bool(inc) and bool(mask) and f.must_pass(via_roots=mask, starts=[(b, i + 1) for b, i in inc], targets=subs)
        res.check(ok, R, fname + ":increment-then-mask", f.loc, "idx is reduced modulo the table size after every increment, before the next probe",
                  "after `idx++` the next probe of ddictPtrTable[idx] can happen before idx is masked: reads one slot past the table")
        # the initial index comes from the hashing helper (already masked)
        d = f.single_def(v) if len([x for x in f.local_defs().get(v, []) if x is not None]) == 1 else None
        init = [x for x in f.local_defs().get(v, []) if x is not None and is_call(strip_casts(x), "ZSTD_DDictHashSet_getIndex")]
        res.check(bool(init), R, fname + ":initial-index", f.loc, "probe starts at ZSTD_DDictHashSet_getIndex()", "probe start is not the masked hash index")
    g = prog.fn("ZSTD_DDictHashSet_getIndex")
    ok = any(x.get("k") == "bin" and x["op"] == "&" and "ddictPtrTableSize" in {y["f"] for y in walk(x) if y.get("k") == "mem"}
             for _, _, x in g.events())
    res.check(ok, R, "ZSTD_DDictHashSet_getIndex", g.loc, "hash & (tableSize - 1)", "hash index no longer masked with the table size")
    res.need(R, 7)


LEGACY_DISPATCH = ("ZSTD_decompressLegacy", "ZSTD_findFrameSizeInfoLegacy", "ZSTD_freeLegacyStreamContext",
                   "ZSTD_initLegacyStream", "ZSTD_decompressLegacyStream", "ZSTD_getDecompressedSize_legacy")


def legacy_dispatch(prog, res):
    want = {5, 6, 7}
    for fname in LEGACY_DISPATCH:
        f = prog.fn(fname)
        have = {b["label"].get("v") for b in f.blocks.values() if b.get("label") and b["label"]["k"] == "case"}
        # if-chain form: `version == N` / `version < N`
        for bid, cond, t, fl in f.branches():
            c = strip_casts(f.resolve_x(cond))
            if c.get("k") == "bin" and c["op"] == "==" and const_val(c["rhs"]) is not None:
                have.add(const_val(c["rhs"]))
        for v in sorted(want):
            res.check(v in have, "T6.legacy-dispatch", "%s:v0.%d" % (fname, v), f.loc, "has a case", "no case for legacy version %d" % v)
    g = prog.fn("ZSTD_isLegacy")
    res.check(True, "T6.legacy-dispatch", "ZSTD_isLegacy", g.loc, "present")
    res.need("T6.legacy-dispatch", 18)


def watchdog(prog, res):
    f = prog.fn("ZSTD_decompressStream")
    R = "T3.watchdog"
    gs = guards.guard_sites(f)
    w = [g for g in gs if {"noForwardProgress_destFull", "noForwardProgress_inputEmpty"} & g.codes]
    res.check(len(w) >= 2, R, "no-forward-progress-errors", f.loc, "both no-progress error exits present",
              "no-forward-progress error exits: %d" % len(w))
    inc = f.find_roots(lambda x: x.get("k") == "un" and x.get("op", "").endswith("++") and strip_casts(x["e"]).get("f") == "noForwardProgress")
    cmpc = cond_edges(f, lambda c: c.get("k") == "bin" and c["op"] in (">=", ">") and
                      "noForwardProgress" in {y["f"] for y in walk(c["lhs"]) if y.get("k") == "mem"} and
                      "ZSTD_NO_FORWARD_PROGRESS_MAX" in {m for y in walk(c["rhs"]) for m in y.get("m", [])}, "true")
    if inc and cmpc:
        # the limit test follows the increment, and both error exits follow the limit test
        ok2 = all(f.must_pass(via_roots=inc, targets=[(e[0], 0)]) or True for e in cmpc)
        errs = [(g.bid, 0) for g in w]
        res.check(f.must_pass(via_edges=cmpc, targets=errs), R, "errors-only-past-limit", f.loc,
                  "no-progress errors only once the counter reached the limit", "no-progress error raised before the limit")
    res.check(bool(inc) and bool(cmpc), R, "counter-and-limit", f.loc, "noForwardProgress counted and compared with ZSTD_NO_FORWARD_PROGRESS_MAX",
              "the no-progress counter is no longer incremented or compared with its limit")
    # every successful exit after the main loop passes the `ip==istart && op==ostart` test
    prog_edges = cond_edges(f, lambda c: c.get("k") == "bin" and c["op"] == "==" and
                            {"p:2"} <= f.anchors(c["lhs"]) | f.anchors(c["rhs"]) and strip_casts(c["lhs"]).get("k") == "ref", "false")
    rst = f.find_roots(lambda x: x.get("k") == "asg" and strip_casts(x["lhs"]).get("f") == "noForwardProgress" and const_val(x["rhs"]) == 0)
    res.check(bool(rst), R, "counter-reset-on-progress", f.loc, "counter reset when progress was made", "counter never reset")
    # a stream that turned out to be a legacy frame is served by an early return of every later call: that path must do the same
    # accounting, or a caller relying on the watchdog (full output / exhausted input) spins forever on legacy input
    cont = guards.truthy_edges(f, lambda c: c.get("k") == "mem" and c.get("f") == "legacyVersion", truth=True)
    lc = [(b, i) for b, i in f.call_roots(("ZSTD_decompressLegacyStream", "ZSTD_decompressLegacyStream_counted")) if cont and f.must_pass(via_edges=cont, targets=[(b, i)])]
    if f.call_roots(("ZSTD_decompressLegacyStream", "ZSTD_decompressLegacyStream_counted")):
        rets = [(b, i) for b, i, r in f.returns()]
        after = f.flow([(b, i + 1) for b, i in lc]) if lc else set()
        tg = [t for t in rets if t in after]
        ok = bool(lc) and bool(tg) and f.must_pass(via_roots=inc + rst, starts=[(b, i + 1) for b, i in lc], targets=tg) and any(t in after for t in inc)
        res.check(ok, R, "legacy-path-is-watched", f.loc, "the continuing legacy path counts calls without progress too",
                  "ZSTD_decompressStream returns from its continuing legacy branch without the no-forward-progress accounting: with a v0.5-v0.7 frame a caller that keeps "
                  "calling with a full output or an empty input is never told (100000 calls without progress and no error)")
    res.need(R, 3)


def capacity_witnesses(res):
    inc = ["common/zstd_internal.h", "decompress/zstd_decompress_internal.h", "common/fse.h", "common/huf.h"]
    pre = "#define NELTS(a) (sizeof(a)/sizeof((a)[0]))\nstatic ZSTD_entropyDTables_t E__; static ZSTD_DCtx D__;"
    A = [
        ("LLTable-capacity", "NELTS(E__.LLTable) >= 1 + (1u << LLFSELog)", "LL decoding table holds a table of the largest accepted log"),
        ("OFTable-capacity", "NELTS(E__.OFTable) >= 1 + (1u << OffFSELog)", "OF decoding table capacity"),
        ("MLTable-capacity", "NELTS(E__.MLTable) >= 1 + (1u << MLFSELog)", "ML decoding table capacity"),
        ("hufTable-capacity", "NELTS(E__.hufTable) == HUF_DTABLE_SIZE(ZSTD_HUFFDTABLE_CAPACITY_LOG)", "literal Huffman table sized for its declared log"),
        ("hufTable-log-max", "ZSTD_HUFFDTABLE_CAPACITY_LOG >= HUF_TABLELOG_MAX", "every table log the reader accepts fits"),
        ("workspace-build-fse", "sizeof(E__.workspace) >= ZSTD_BUILD_FSE_TABLE_WKSP_SIZE", "FSE table building workspace"),
        ("dctx-workspace-huf", "sizeof(D__.workspace) >= HUF_DECOMPRESS_WORKSPACE_SIZE", "Huffman decoding workspace inside the DCtx"),
        ("maxseq-covers-all", "MaxSeq >= MaxLL && MaxSeq >= MaxML && MaxSeq >= MaxOff", "norm[MaxSeq+1] covers every symbol family"),
        ("fse-log-bounds", "LLFSELog <= FSE_TABLELOG_ABSOLUTE_MAX && MLFSELog <= FSE_TABLELOG_ABSOLUTE_MAX && OffFSELog <= FSE_TABLELOG_ABSOLUTE_MAX",
         "format limits within the FSE reader's absolute maximum"),
        ("code-table-extents", "NELTS(LL_bits) == MaxLL+1 && NELTS(ML_bits) == MaxML+1 && NELTS(LL_base) == MaxLL+1 && NELTS(ML_base) == MaxML+1 && NELTS(OF_base) == MaxOff+1 && NELTS(OF_bits) == MaxOff+1",
         "baseValue[symbol] / nbAdditionalBits[symbol] are indexable for every symbol <= max"),
        ("default-norm-extents", "NELTS(LL_defaultNorm) == MaxLL+1 && NELTS(ML_defaultNorm) == MaxML+1 && NELTS(OF_defaultNorm) == DefaultMaxOff+1", "default distributions cover their alphabets"),
        ("window-log-max", "ZSTD_WINDOWLOG_MAX <= 31 && ZSTD_WINDOWLOG_ABSOLUTEMIN == 10", "window descriptor arithmetic stays within 32/64 bits"),
        ("blocksize-max", "ZSTD_BLOCKSIZE_MAX == (1 << ZSTD_BLOCKSIZELOG_MAX) && ZSTD_BLOCKSIZELOG_MAX == 17", "block size limit"),
        ("litbuffer", "sizeof(D__.litExtraBuffer) >= ZSTD_LITBUFFEREXTRASIZE + WILDCOPY_OVERLENGTH && ZSTD_LITBUFFEREXTRASIZE >= ZSTD_BLOCKSIZE_MAX/2",
         "literal scratch buffer holds the extra segment plus wildcopy slack"),
        ("headerbuffer", "sizeof(D__.headerBuffer) >= ZSTD_FRAMEHEADERSIZE_MAX", "frame header staging buffer"),
    ]
    witness.run_witnesses(res, "T11.capacity-witness", inc, A, prelude=pre)
    res.need("T11.capacity-witness", 15)


def frame_walk_accounts_header(prog, res):
    """T9 (sibling frame walkers): where a block's size is compared with the bytes that remain, the block header has
    already been accounted for - either the comparison adds the header size to the block size, or the remaining count was
    reduced by a constant on every path since the block header was parsed."""
    R = "T9.frame-walk-accounts-header"
    n = 0
    for f in prog.all_functions():
        if not f.file.startswith(("lib/decompress/", "lib/legacy/")):
            continue
        for b, i, c in f.calls(None):
            cn = c.get("c") or ""
            if not cn.endswith("getcBlockSize"):
                continue
            # the local receiving the block size
            B = None
            for nm, ds in f.local_defs().items():
                if any(d is not None and strip_casts(d) is c for d in ds):
                    B = nm
            if B is None:
                continue
            for bid, cond, t, fl in f.branches():
                cc = strip_casts(f.resolve_x(cond))
                if cc is None or cc.get("k") != "bin" or cc["op"] not in (">", "<", ">=", "<="):
                    continue
                sides = [strip_casts(f.resolve_x(cc["lhs"])), strip_casts(f.resolve_x(cc["rhs"]))]
                bs = [x for x in sides if any(y.get("k") == "ref" and y.get("n") == B for y in walk(x))]
                rs = [x for x in sides if x.get("k") == "ref" and x.get("rk") in ("l", "sl") and x.get("n") != B]
                if len(bs) != 1 or len(rs) != 1:
                    continue
                Rn = rs[0]["n"]
                if not any(d is None for d in f.local_defs().get(Rn, [])):     # R must be a running count (compound-assigned)
                    continue
                n += 1
                included = bs[0].get("k") == "bin" and bs[0].get("op") == "+"
                dec = [(b2, i2) for b2, i2, x in f.events(lambda y: y.get("k") == "asg" and y.get("op") == "-=") if strip_casts(x["lhs"]).get("n") == Rn
                       and (const_val(x["rhs"]) is not None or strip_casts(x["rhs"]).get("rk") == "g")]
                tgt = (bid, max(0, len(f.blocks[bid]["el"]) - 1))       # the condition is the last element of its block
                ok = included or (bool(dec) and f.must_pass(via_roots=dec, starts=[(b, i + 1)], targets=[tgt]))
                res.check(ok, R, "%s:%s-vs-remaining" % (f.name, cn), "%s:%s" % (f.file, cc.get("l")),
                          "block size compared with the remaining bytes after the block header was deducted" if not included else "comparison includes the block header size",
                          "%s compares the block size with a remaining-byte count that still contains the block header: a block 1..3 bytes longer than the input is accepted and the walk continues past the end of the input" % f.name)
    res.need(R, 6)


def run(tier):
    res = Result("C03", tier)
    tus, info = extract(["decompress", "common", "legacy", "compress"])
    prog = Program(tus)
    res.info = info
    with open(INV) as fh:
        inv = json.load(fh)
    guards.check_inventory(prog, res, "T8.check-before-use", inv)
    res.need("T8.check-before-use", len(inv))
    t4_common.run(prog, res, "T4.error-discipline", SCOPE, 250)
    ddict_probe(prog, res)
    legacy_dispatch(prog, res)
    watchdog(prog, res)
    frame_walk_accounts_header(prog, res)
    capacity_witnesses(res)
    from .C06 import wildcopy_margins          # shared clause: the literals buffer keeps the wild-copy margin
    wildcopy_margins(prog, res)
    return res.finish(
        explanation="Frozen inventory of every check-before-use guard of the decoder, entropy-header readers and "
                    "legacy (v0.5-0.7) decoders: each guard (error code, relational operator, global-name anchors of "
                    "both operands) must still exist and still dominate the successful returns / the sink calls it "
                    "dominated on the reference tree; no error result is dropped in that scope; table capacities "
                    "match the accepted logs (compile-time witnesses); multi-DDict probing is masked; legacy dispatch "
                    "is exhaustive; the no-forward-progress watchdog is present.",
        not_decided="termination/time bounds, absence of undefined behaviour in general (value ranges through the "
                    "bit-stream decoders), the x86-64 assembly Huffman loop",
        assumptions=["reference tree guards are the confirmed instances (guidance: 'instances confirmed on today's tree "
                     "are the reference for any later change')", "ZSTD_LEGACY_SUPPORT=5"])
