"""C01 — lossless one-shot round trip.  Static clauses only (necessary conditions visible in
the shape of the code): encoder code maps agree with the decoder's base/extra-bit tables
(T7); the block-compressor dispatch tables name the function of their (dictMode, strategy)
cell (T7); table-building call sites pass arguments of one symbol family (T9); raw-block
fallback and repcode/entropy hand-over paths (T3); no error of the compression path is
dropped (T4).  Not decided: round-trip equality (values flowing through the match finders)."""
from ..facts import extract, Broken
from ..ir import Program, walk, is_call, strip_casts, const_val
from ..report import Result
from ..rules import guards, tables
from ..rules.guards import cond_edges
from . import t4_common


def code_maps(prog, res):
    R = "T7.encoder-decoder-codes"
    ll_base = tables.ints(prog.glob("LL_base")["init"]); ll_bits = tables.ints(prog.glob("LL_bits")["init"])
    ml_base = tables.ints(prog.glob("ML_base")["init"]); ml_bits = tables.ints(prog.glob("ML_bits")["init"])
    for nm, fn, tab, delta_name, base, bits, bias, thresh in (
            ("LL", "ZSTD_LLcode", "LL_Code", "LL_deltaCode", ll_base, ll_bits, 0, 63),
            ("ML", "ZSTD_MLcode", "ML_Code", "ML_deltaCode", ml_base, ml_bits, 3, 127)):
        f = prog.fn(fn)
        code = tables.ints(tables.local_static_table(f, tab)["init"])
        delta = const_val(tables.local_static_table(f, delta_name)["init"])
        res.check(len(code) == thresh + 1, R, nm + ":map-extent", f.loc, "%d direct entries" % len(code), "direct map has %d entries" % len(code))
        bad = []
        for v in range(len(code)):
            c = code[v]
            lo = base[c] - bias
            if not (0 <= c < len(base) and lo <= v < lo + (1 << bits[c])):
                bad.append(v)
        res.check(not bad, R, nm + ":direct-map-inside-decoder-ranges", f.loc,
                  "every value v maps to a code whose decoder range [base, base+2^bits) contains it",
                  "values %s map to a code the decoder expands to a different range" % bad[:8])
        # beyond the direct map: code = highbit32(v) + delta
        bad = []
        for hb in range((thresh + 1).bit_length() - 1, 17):
            c = hb + delta
            if c >= len(base) or base[c] - bias != (1 << hb) or bits[c] != hb:
                bad.append(hb)
        res.check(not bad and delta is not None, R, nm + ":delta-code", f.loc, "highbit(v)+%s lands on the code with base 2^hb and hb extra bits" % delta,
                  "delta code %s inconsistent with the decoder tables for highbit values %s" % (delta, bad))
        thr = [x for _, _, x in f.events(lambda y: y.get("k") == "bin" and y.get("op") == ">" and const_val(y["rhs"]) == thresh)]
        res.check(bool(thr), R, nm + ":threshold", f.loc, "direct map used up to %d" % thresh, "threshold between direct map and highbit form changed")
        # contiguity of the decoder ranges
        gaps = [c for c in range(len(base) - 1) if base[c] + (1 << bits[c]) != base[c + 1]]
        res.check(not gaps, R, nm + ":decoder-ranges-contiguous", "lib/decompress/zstd_decompress_internal.h", "base[c+1] == base[c] + 2^bits[c]",
                  "gaps/overlaps after codes %s" % gaps[:6])
    res.need(R, 10)


STRATS = [None, "fast", "doubleFast", "greedy", "lazy", "lazy2", "btlazy2", "btopt", "btultra", "btultra2"]
SUFFIX = ["", "_extDict", "_dictMatchState", "_dedicatedDictSearch"]


def dispatch_tables(prog, res):
    R = "T7.block-compressor-dispatch"
    f = prog.fn("ZSTD_selectBlockCompressor")
    t = tables.rows(tables.local_static_table(f, "blockCompressor")["init"])
    res.check(len(t) == 4 and all(len(r) == 10 for r in t), R, "shape", f.loc, "4 dictModes x 10 strategies", "dispatch table shape changed")
    for dm, row in enumerate(t[:4]):
        for st, cell in enumerate(row[:10]):
            fam = STRATS[st] or "fast"
            want = "ZSTD_compressBlock_%s%s" % (fam, SUFFIX[dm])
            if st == 9 and dm in (1, 2):
                want = "ZSTD_compressBlock_btultra%s" % SUFFIX[dm]       # frozen: btultra2 has no extDict/dictMatchState variant
            if dm == 3 and fam not in ("greedy", "lazy", "lazy2"):
                want = None                                            # dedicated dict search exists for the lazy family only
            got = cell if isinstance(cell, str) else None
            res.check(got == want, R, "cell[%s][%s]" % (SUFFIX[dm] or "noDict", fam if STRATS[st] else "default"), f.loc,
                      "-> %s" % want, "cell names %s, expected %s" % (got, want))
    r = tables.rows(tables.local_static_table(f, "rowBasedBlockCompressors")["init"])
    for dm, row in enumerate(r[:4]):
        for k, cell in enumerate(row[:3]):
            fam = ("greedy", "lazy", "lazy2")[k]
            want = "ZSTD_compressBlock_%s%s_row" % (fam, SUFFIX[dm])
            res.check(cell == want, R, "rowcell[%s][%s]" % (SUFFIX[dm] or "noDict", fam), f.loc, "-> %s" % want, "cell names %s, expected %s" % (cell, want))
    # subscripts: [dictMode][strat] and [dictMode][strat - ZSTD_greedy]
    subs = [x for _, _, x in f.events(lambda y: y.get("k") == "idx")]
    ok = all("p:" in " ".join(sorted(f.anchors(x["i"]))) for x in subs) and len(subs) >= 4
    res.check(ok, R, "subscripts", f.loc, "tables indexed by the dictMode and strategy parameters", "dispatch subscripts changed")
    res.need(R, 52)


FAM = {"LL": ("LL", "ll", "litLength", "Litlength", "litlength", "literals"), "OF": ("OF", "of", "Off", "off"), "ML": ("ML", "ml", "matchLength", "matchlength", "Matchlength")}


def family_of(anchor):
    a = anchor.split(":", 1)[1]
    for fam, keys in FAM.items():
        for k in keys:
            if a.startswith(k) or ("_" + k) in a or a.startswith("Max" + k) or (k in a and k[0].isupper() and len(k) == 2):
                return fam
    return None


def family_coherence(prog, res):
    R = "T9.symbol-family-coherence"
    for fname, callee, need in (("ZSTD_decodeSeqHeaders", "ZSTD_buildSeqTable", 3), ("ZSTD_buildSequencesStatistics", "ZSTD_buildCTable", 3),
                                ("ZSTD_buildSequencesStatistics", "ZSTD_selectEncodingType", 3)):
        f = prog.fn(fname)
        calls = [c for b, i, c in f.calls(callee)]
        res.check(len(calls) == need, R, "%s:%s-count" % (fname, callee), f.loc, "%d calls" % need, "%d calls" % len(calls))
        fams_seen = []
        for c in calls:
            fams = set()
            for a in c["a"]:
                for an in f.anchors(a, depth=0):
                    if an.startswith(("g:", "m:", "f:")):
                        fm = family_of(an)
                        if fm:
                            fams.add(fm)
            fams_seen.append(fams)
            res.check(len(fams) == 1, R, "%s:%s@%s" % (fname, callee, c.get("l")), "%s:%s" % (f.file, c.get("l")),
                      "all table/limit arguments belong to family %s" % sorted(fams), "arguments mix symbol families %s" % sorted(fams))
        res.check(sorted(x for s in fams_seen for x in s) == ["LL", "ML", "OF"], R, "%s:%s-covers-3-families" % (fname, callee), f.loc,
                  "one call per family", "families covered: %s" % fams_seen)
    res.need(R, 12)


def fallback_and_handover(prog, res):
    R = "T3.block-paths"
    f = prog.fn("ZSTD_compressBlock_internal")
    conf = f.call_roots("ZSTD_blockState_confirmRepcodesAndEntropyTables")
    gt1 = cond_edges(f, lambda c: c.get("k") == "bin" and c["op"] == ">" and const_val(c["rhs"]) == 1 and strip_casts(c["lhs"]).get("rk") in ("l", "sl"), "true")
    noerr = cond_edges(f, lambda c: is_call(c, ("ERR_isError", "ZSTD_isError")), "false")
    collect = cond_edges(f, lambda c: c.get("k") == "mem" and c["f"] == "collectSequences", "true")
    main_conf = [r for r in conf if not f.must_pass(via_edges=collect, targets=[r])]
    ok = len(main_conf) == 1 and bool(gt1) and f.must_pass(via_edges=gt1, targets=main_conf) and f.must_pass(via_edges=noerr, targets=main_conf)
    res.check(ok, R, "compressBlock_internal:confirm-only-for-compressed-blocks", f.loc,
              "repcodes/entropy tables are confirmed only when a compressed block (cSize > 1, no error) is produced",
              "hand-over of repcodes and entropy tables is no longer tied to `!isError(cSize) && cSize > 1`")
    # and unavoidable on that edge
    ok2 = bool(gt1) and f.must_pass(via_roots=main_conf, starts=[(e[1], 0) for e in gt1])
    res.check(ok2, R, "compressBlock_internal:confirm-unavoidable", f.loc, "every compressed block confirms its tables", "a compressed block can skip the hand-over")
    g = prog.fn("ZSTD_compress_frameChunk")
    raw = g.call_roots("ZSTD_noCompressBlock")
    zero = cond_edges(g, lambda c: c.get("k") == "bin" and c["op"] == "==" and const_val(c["rhs"]) == 0 and "c:ZSTD_compressBlock_internal" in g.anchors(c["lhs"]), "true")
    ok = bool(raw) and bool(zero) and g.must_pass(via_roots=raw, starts=[(e[1], 0) for e in zero],
                                                 targets=g.find_roots(lambda x: x.get("k") == "asg" and x.get("op") in ("+=", "-=") and strip_casts(x["lhs"]).get("rk") in ("l", "sl", "p")
                                                                      and any(y.get("k") == "ref" and y.get("rk") in ("l", "sl") for y in walk(x["rhs"]))))
    res.check(ok, R, "frameChunk:raw-fallback", g.loc, "a block reported not compressible (0) is emitted as a raw block before it is accounted",
              "the `cSize == 0` path no longer emits a raw block")
    h = prog.fn("ZSTD_entropyCompressSeqStore")
    ge = cond_edges(h, lambda c: c.get("k") == "bin" and c["op"] == ">=" and "c:ZSTD_minGain" in h.anchors(c["rhs"]), "false")
    succ = [n for n in guards.success_nodes(h) if const_val(h.blocks[n[0]]["el"][n[1]].get("e")) != 0] if True else []
    ok = bool(ge) and bool(succ) and h.must_pass(via_edges=ge, targets=succ)
    res.check(ok, R, "entropyCompressSeqStore:min-gain", h.loc, "a compressed size is returned only if cSize < srcSize - minGain",
              "compressed size returned without the minGain comparison")
    res.need(R, 4)


def tentative_table_rollback(prog, res):
    """T3: a Huffman table built in place in the NEXT entropy state must be rolled back to the
    previous one on every exit that does not transmit it (else a later block may `repeat` a
    table the decoder never received)."""
    R = "T3.tentative-table-rollback"

    def restores(f):
        out = []
        for b, i, c in f.calls(("memcpy", "__builtin_memcpy")):
            a0, a1 = strip_casts(c["a"][0]), strip_casts(c["a"][1])
            if a0.get("rk") == "p" and a1.get("rk") == "p" and "next" in f.params[a0["pi"]]["n"].lower() and "prev" in f.params[a1["pi"]]["n"].lower():
                out.append((b, i))
        return out
    f = prog.fn("ZSTD_buildBlockEntropyStats_literals")
    build = f.call_roots("HUF_buildCTable_wksp")
    commit = f.find_roots(lambda x: x.get("k") == "asg" and strip_casts(x["lhs"]).get("f") == "hType" and strip_casts(x["rhs"]).get("n") == "set_compressed")
    rs = restores(f)
    succ = [n for n in guards.success_nodes(f) if n in f.flow([(b, i + 1) for b, i in build])]
    ok = len(build) == 1 and bool(commit) and len(rs) >= 3 and bool(succ) and \
        f.must_pass(via_roots=rs + commit, starts=[(b, i + 1) for b, i in build], targets=succ)
    res.check(ok, R, "ZSTD_buildBlockEntropyStats_literals", f.loc,
              "after the candidate table is built in nextHuf, every successful exit either transmits it (set_compressed) or restores prevHuf",
              "an exit that does not transmit the new Huffman table leaves it in the next entropy state (a following block can then "
              "repeat a table the decoder does not have)")
    g = prog.fn("ZSTD_compressLiterals")
    huf = [(b, i) for b, i, c in g.calls() if c.get("c") is None and any("f:CTable" in g.anchors(a) for a in c["a"])] or \
        g.call_roots(("HUF_compress1X_repeat", "HUF_compress4X_repeat"))
    fb = g.call_roots(("ZSTD_noCompressLiterals", "ZSTD_compressRleLiteralsBlock"))
    fb = [n for n in fb if n in g.flow([(b, i + 1) for b, i in huf])]
    rs = restores(g)
    ok = bool(huf) and len(fb) == 2 and len(rs) >= 3 and g.must_pass(via_roots=rs, starts=[(b, i + 1) for b, i in huf], targets=fb)
    res.check(ok, R, "ZSTD_compressLiterals", g.loc, "both fallbacks (raw / RLE literals) restore prevHuf after the Huffman attempt",
              "a literals fallback keeps the tentative Huffman table in the next entropy state")
    res.need(R, 2)


def long_length_bonus(prog, res):
    """T9 (one idiom, several users): the sequence store keeps at most one length above 16 bits, flagged by
    (longLengthType, longLengthPos).  Every place that adds the 0x10000 bonus to a length or byte count does so only for the
    sequence at longLengthPos."""
    R = "T9.long-length-bonus"
    n = 0
    for f in prog.all_functions():
        if not f.file.startswith("lib/compress/"):
            continue
        if not any(y.get("k") == "mem" and y.get("f") == "longLengthType" for _, _, r in f.roots() for y in walk(r)):
            continue
        adds = []
        for b, i, r in f.roots():
            for x in walk(r):
                if x.get("k") == "asg" and x.get("op") == "+=" and const_val(x["rhs"]) == 0x10000:
                    adds.append((b, i, x))
                elif x.get("k") == "bin" and x.get("op") == "+" and (const_val(x["rhs"]) == 0x10000 or const_val(x["lhs"]) == 0x10000) and "v" not in x:
                    adds.append((b, i, x))
        if not adds:
            continue
        pos_edges = set(cond_edges(f, lambda c: c.get("k") == "bin" and c["op"] == "==" and "f:longLengthPos" in f.anchors(c, depth=1), "true"))
        for b, i, x in adds:
            n += 1
            ok = bool(pos_edges) and f.must_pass(via_edges=pos_edges, targets=[(b, i)])
            res.check(ok, R, "%s@%s" % (f.name, x.get("l")), "%s:%s" % (f.file, x.get("l")), "the 0x10000 bonus is added only on the `== longLengthPos` edge",
                      "%s adds the long-length bonus without testing that the sequence is the one at longLengthPos: byte counts of a sequence range that does not contain the long sequence are 64 KB too large" % f.name)
    res.need(R, 4)


def two_repcode_histories(prog, res):
    """T9: ZSTD_seqStore_resolveOffCodes walks a partition with TWO repcode histories — the one the decoder will have
    (first parameter) and the one the compressor had when it chose the codes (second parameter) — and rewrites a repcode
    into a raw offset when they disagree.  The compressor-side history must be advanced with the code the compressor
    CHOSE, i.e. a value of seq->offBase read before the rewrite; the decoder-side history with the code finally stored.
    Clause checked: the value handed to the compressor-side ZSTD_updateRep is read at a point that every path to a write of
    seq->offBase passes (it is captured before the rewrite); the decoder-side one is read after."""
    R = "T9.two-repcode-histories"
    f = prog.fn("ZSTD_seqStore_resolveOffCodes")
    writes = f.find_roots(lambda x: x.get("k") == "asg" and strip_casts(x["lhs"]).get("k") == "mem" and strip_casts(x["lhs"]).get("f") == "offBase")
    ups = [(b, i, c) for b, i, c in f.calls("ZSTD_updateRep")]
    res.check(len(writes) >= 1 and len(ups) == 2, R, "shape", f.loc, "%d rewrite(s) of offBase, two history updates" % len(writes),
              "rewrites of offBase: %d, history updates: %d" % (len(writes), len(ups)))
    side = {}
    for b, i, c in ups:
        a0 = f.anchors(c["a"][0], depth=2)
        which = "compressor" if "p:1" in a0 else ("decoder" if "p:0" in a0 else None)
        if which:
            side[which] = (b, i, c)
    res.check(set(side) == {"compressor", "decoder"}, R, "both-histories-updated", f.loc, "one update per history", "history updates found for: %s" % sorted(side))
    if "compressor" in side and writes:
        b, i, c = side["compressor"]
        v = strip_casts(f.resolve_x(c["a"][1]))
        read_at = None
        if v is not None and v.get("k") == "ref" and v.get("rk") in ("l", "sl"):
            defs = [(bb, ii) for bb, ii, r in f.roots() for x in walk(r) if x.get("k") == "decl" and any(vv.get("n") == v["n"] and vv.get("init") is not None and
                    any(y.get("f") == "offBase" for y in f.walk_resolved(vv["init"])) for vv in x.get("vars", []))]
            read_at = defs if len(defs) == 1 and f.single_def(v["n"]) is not None else None
        elif v is not None and any(y.get("k") == "mem" and y.get("f") == "offBase" for y in f.walk_resolved(v)):
            read_at = [(b, i)]
        ok = bool(read_at) and all(f.must_pass(via_roots=read_at, targets=[w]) for w in writes)
        res.check(ok, R, "compressor-history:code-as-chosen", "%s:%s" % (f.file, c.get("l")),
                  "the compressor-side history is advanced with seq->offBase as read before the rewrite",
                  "the compressor-side repcode history is advanced with seq->offBase re-read after it may have been rewritten into a raw "
                  "offset: the history no longer matches what the compressor had, later repcodes of the block are resolved to wrong raw "
                  "offsets and the frame decodes to other bytes (only a checksum notices)")
    if "decoder" in side and writes:
        b, i, c = side["decoder"]
        v = strip_casts(f.resolve_x(c["a"][1]))
        direct = v is not None and any(y.get("k") == "mem" and y.get("f") == "offBase" for y in f.walk_resolved(v))
        after = f.flow([(bb, ii + 1) for bb, ii in writes])
        res.check(direct and (b, i) in after, R, "decoder-history:code-as-stored", "%s:%s" % (f.file, c.get("l")),
                  "the decoder-side history is advanced with the stored seq->offBase, after the rewrite",
                  "the decoder-side history is not advanced with the code finally stored in the sequence")
    res.need(R, 4)


def ldm_leftover_accumulates(prog, res):
    """T8 (literal conservation across LDM chunks): ZSTD_ldm_generateSequences cuts its input in chunks; the literals left
    after the last match of a chunk are owed to the first sequence of a LATER chunk.  When a chunk yields no sequence at all
    the whole chunk joins what is already owed: on the no-new-sequence edge the carry must be accumulated (`+=`), never
    overwritten, and it is only replaced on the edge where it has just been added to a sequence."""
    R = "T8.ldm-leftover-accumulates"
    f = prog.fn("ZSTD_ldm_generateSequences")
    consume = [x for b, i, x in f.events(lambda y: y.get("k") == "asg" and y.get("op") == "+=") if strip_casts(x["lhs"]).get("f") == "litLength"]
    carry = None
    for x in consume:
        for y in f.walk_resolved(x["rhs"]):
            if y.get("k") == "ref" and y.get("rk") in ("l", "sl"):
                carry = y["n"]
    res.check(carry is not None, R, "carry-variable", f.loc, "the carried literal count is added to a sequence's litLength", "no carried literal count found in ZSTD_ldm_generateSequences")
    if carry is None:
        return
    cons_roots = f.find_roots(lambda y: y.get("k") == "asg" and y.get("op") == "+=" and strip_casts(y["lhs"]).get("f") == "litLength")
    bad = []
    n = 0
    for b, i, x in f.events(lambda y: y.get("k") == "asg" and strip_casts(y["lhs"]).get("k") == "ref" and strip_casts(y["lhs"]).get("n") == carry):
        if x.get("op") == "+=" or const_val(x["rhs"]) == 0:
            n += 1
            continue
        n += 1
        # a plain overwrite is only legitimate right after the carry has been handed to a sequence
        if not f.must_pass(via_roots=cons_roots, targets=[(b, i)]) or not any((b, i) in f.flow([(cb, ci + 1)]) for cb, ci in cons_roots):
            bad.append(x.get("l"))
        else:
            # ... and must not also be reachable from the no-sequence edge without passing the consumption: covered by must_pass from entry;
            # additionally every path from the loop head to this overwrite passes the consumption in the same iteration
            loop_ok = all(f.must_pass(via_roots=cons_roots, starts=[(s_, 0)], targets=[(b, i)]) for s_ in [bb for bb in f.blocks if (b in f.reachable([bb])) and bb in f.reachable([b])][:0] or [])
            if not loop_ok:
                bad.append(x.get("l"))
    res.check(n >= 2 and not bad, R, "carry-updates", f.loc, "%d updates of the carry: accumulated, or replaced only after being consumed" % n,
              "ZSTD_ldm_generateSequences overwrites the carried literal count (line %s) on a path where it was not added to a sequence: when a chunk "
              "yields no match the literals still owed from earlier chunks are lost and every later LDM sequence of the job sits too early" % bad)
    res.need(R, 2)


def row_hash_bits_fit(prog, res):
    """T7: the row match finder derives a row index of rowHashLog bits and a tag of ZSTD_ROW_HASH_TAG_BITS bits from ONE 32-bit
    hash (ZSTD_hashPtr(.., rowHashLog + TAG_BITS, ..) shifts by 32 - bits).  Whatever stores rowHashLog bounds it by a constant
    that, with the tag, does not exceed 32 - the parameter adjustment is by-passed by ZSTD_compress_advanced()."""
    R = "T7.row-hash-bits-fit"
    n = 0
    for f in prog.all_functions():
        if not f.file.startswith("lib/compress/"):
            continue
        for b, i, x in f.events(lambda y: y.get("k") == "asg" and y.get("op") == "=" and strip_casts(y["lhs"]).get("k") == "mem" and strip_casts(y["lhs"]).get("f") == "rowHashLog"):
            n += 1
            r = strip_casts(f.resolve_x(x["rhs"]))
            arms = [const_val(strip_casts(f.resolve_x(a))) for a in (r.get("t"), r.get("f")) if isinstance(a, dict)] if r is not None and r.get("k") == "cond" else []
            caps = [a for a in arms if isinstance(a, int)]
            ok = bool(caps) and min(caps) + 8 <= 32
            res.check(ok, R, "%s@%s" % (f.name, x.get("l")), f.loc, "rowHashLog = MIN(.., %s): with the 8-bit tag at most 32 hash bits" % (min(caps) if caps else "?"),
                      "%s stores an unbounded rowHashLog: with hashLog 29/30 and a lazy strategy through ZSTD_compress_advanced() the hash functions shift by 32 - 33 "
                      "(undefined behaviour)" % f.name)
    users = [f.name for f in prog.all_functions() if f.file.endswith("zstd_lazy.c") and any(y.get("k") == "mem" and y.get("f") == "rowHashLog" for b, i, y in f.events())]
    res.check(n >= 1 and len(users) >= 3, R, "sites", "lib/compress", "%d store(s), %d reader(s) in zstd_lazy.c" % (n, len(users)), "rowHashLog stores %d, readers %d" % (n, len(users)))
    res.need(R, 2)


def run(tier):
    res = Result("C01", tier)
    tus, info = extract(["compress", "decompress", "common"])
    prog = Program(tus)
    res.info = info
    code_maps(prog, res)
    dispatch_tables(prog, res)
    family_coherence(prog, res)
    fallback_and_handover(prog, res)
    tentative_table_rollback(prog, res)
    long_length_bonus(prog, res)
    ldm_leftover_accumulates(prog, res)
    two_repcode_histories(prog, res)
    row_hash_bits_fit(prog, res)
    t4_common.run(prog, res, "T4.error-discipline", ["lib/compress/"], 220)
    # frozen guards of lib/compress for the error codes this property owns (shared inventory, split by code)
    import json as _json, os as _os
    from ..rules import guards as _guards
    _inv = [e for e in _json.load(open(_os.path.join(_os.path.dirname(_os.path.abspath(__file__)), "inv", "compress_all.json"))) if set(e["codes"]) & {'GENERIC', 'init_missing', 'srcSize_wrong'}]
    _guards.check_inventory(prog, res, 'T8.frozen-guards(srcSize,generic)', _inv)
    res.need('T8.frozen-guards(srcSize,generic)', 8)
    return res.finish(
        explanation="Encoder symbol maps (LL_Code/ML_Code and their highbit+delta forms) are checked value by value "
                    "against the decoder's base/extra-bit tables; the 40+12 cells of the block-compressor dispatch "
                    "tables must name the variant of their (dictMode, strategy); the table-building call sites pass "
                    "arguments of a single symbol family; compressed blocks confirm repcodes/entropy tables and "
                    "non-compressible blocks fall back to raw; no error is dropped in lib/compress.",
        not_decided="decompress(compress(x)) == x itself: a match finder computing a wrong length or offset is not detected",
        assumptions=["reference configuration (no ZSTD_EXCLUDE_*_BLOCK_COMPRESSOR)"])
