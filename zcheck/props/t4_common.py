"""Shared T4 (error discipline) tables: frozen deviants, each confirmed by reading the
pinned tree, one line of reason each.  Keyed by (caller, callee) — never by line."""
from ..rules import errors

CANT_FAIL_RESET = "ZSTD_CCtx_reset(session_only) cannot fail: its only error exit is under reset_parameters"
ESTIMATE = "estimation helper: an error code (huge value) propagates through MAX()/+ into the returned estimate, " \
           "which callers treat as a size query (documented); no memory is touched"
BOUND = "ZSTD_compressBound of a block-sized value (<= ZSTD_BLOCKSIZE_MAX / job size) cannot return an error " \
        "(errors only at srcSize >= ZSTD_MAX_INPUT_SIZE)"
PARAMS_INIT = "ZSTD_CCtxParams_init fails only for a NULL pointer; argument is a live object"
HIST = "HIST_countFast_wksp fails only when the workspace is smaller than HIST_WKSP_SIZE; callers pass the " \
       "entropy workspace sized by a static assert (\"can't fail\")"
LEGACY_TABLELOG = "FSE table build can fail only for tableLog/maxSymbol out of range, which the caller rejected " \
                  "on the line above (corruption_detected)"
LEGACY_DICT = "legacy (v0.5-0.7) dictionary begin: result ignored upstream; a bad dictionary makes the frame decode " \
              "without it and fail its own checks; not a memory-safety issue (recorded, legacy code is frozen upstream)"
DRESET = "ZSTD_DCtx_reset(session_only) cannot fail"

EXCEPTIONS = {
    # ---- lib/compress ------------------------------------------------------------------
    ("ZSTDMT_createCCtx_advanced_internal", "ZSTDMT_CCtxParam_setNbWorkers"): "nbWorkers already clamped to ZSTDMT_NBWORKERS_MAX by the caller; setter cannot reject",
    ("ZSTDMT_resize", "ZSTDMT_CCtxParam_setNbWorkers"): "value validated when it was stored in the requested params",
    ("ZSTDMT_initCStream_internal", "ZSTD_compressBound"): BOUND,
    ("ZSTDMT_serialState_update", "ZSTD_ldm_generateSequences"): "sequence buffer sized by ZSTD_ldm_getMaxNbSeq(jobSize): cannot overflow (comment + assert in the code)",
    ("ZSTDMT_writeLastEmptyBlock", "ZSTD_writeLastEmptyBlock"): "dstBuff just obtained with capacity >= ZSTD_blockHeaderSize (NULL case handled above); result is stored in job->cSize where the flusher tests it",
    ("ZSTD_CStreamOutSize", "ZSTD_compressBound"): BOUND,
    ("ZSTD_buildBlockEntropyStats_literals", "HUF_writeCTable_wksp"): "hSize only enters size comparisons before the ERR_isError test that follows; error codes compare as huge => 'no gain' path",
    ("ZSTD_buildSequencesStatistics", "HIST_countFast_wksp"): HIST,
    ("ZSTD_estimateBlockSize_symbolType", "HIST_countFast_wksp"): HIST,
    ("ZSTD_estimateSubBlockSize_symbolType", "HIST_countFast_wksp"): HIST,
    ("ZSTD_compress2", "ZSTD_CCtx_reset"): CANT_FAIL_RESET,
    ("ZSTD_compressStream2", "ZSTD_CCtx_reset"): CANT_FAIL_RESET,
    ("ZSTD_compressStream_generic", "ZSTD_CCtx_reset"): CANT_FAIL_RESET,
    ("ZSTD_compressSequences", "ZSTD_CCtx_reset"): CANT_FAIL_RESET + " (added by fix 864619d)",
    ("ZSTD_initCCtx", "ZSTD_CCtx_reset"): "fresh context is in zcss_init: reset_parameters cannot fail (assert documents it)",
    ("ZSTD_initStaticCCtx", "ZSTD_CCtx_reset"): "freshly zero-filled static context is in zcss_init: reset_parameters cannot fail (same idiom as ZSTD_initCCtx; added by fix de9d135)",
    ("ZSTD_compressStream_generic", "ZSTD_compressBound"): BOUND,
    ("ZSTD_compressBlock_internal", "ZSTD_entropyCompressSeqStore"): "cSize is compared with rleMaxLength (25) before the isError test: false for error codes; the error is then returned",
    ("ZSTD_compressBlock_targetCBlockSize_body", "ZSTD_compressSuperBlock"): "deliberate: compared with ERROR(dstSize_tooSmall) first (fallback to raw block), every other error forwarded",
    ("ZSTD_entropyCompressSeqStore", "ZSTD_entropyCompressSeqStore_internal"): "deliberate: `== 0` and `== ERROR(dstSize_tooSmall) & srcSize <= dstCapacity` (raw block still fits) tested first, then FORWARD_IF_ERROR",
    ("ZSTD_compressSequences_internal", "determine_blockSize"): "`blockSize == remaining` computed one line before FORWARD_IF_ERROR(blockSize); harmless for an error code",
    ("ZSTD_createCCtxParams_advanced", "ZSTD_CCtxParams_init"): PARAMS_INIT,
    ("ZSTD_createCDict_advanced", "ZSTD_CCtxParams_init"): PARAMS_INIT,
    ("ZSTD_initStaticCDict", "ZSTD_CCtxParams_init"): PARAMS_INIT,
    ("ZSTD_makeCCtxParamsFromCParams", "ZSTD_CCtxParams_init"): PARAMS_INIT,
    ("ZSTD_estimateCCtxSize", "ZSTD_estimateCCtxSize_internal"): ESTIMATE,
    ("ZSTD_estimateCCtxSize_internal", "ZSTD_estimateCCtxSize_usingCParams"): ESTIMATE,
    ("ZSTD_estimateCCtxSize_usingCParams", "ZSTD_estimateCCtxSize_usingCCtxParams"): ESTIMATE,
    ("ZSTD_estimateCStreamSize", "ZSTD_estimateCStreamSize_internal"): ESTIMATE,
    ("ZSTD_estimateCStreamSize_usingCParams", "ZSTD_estimateCStreamSize_usingCCtxParams"): ESTIMATE,
    ("ZSTD_estimateCStreamSize_usingCCtxParams", "ZSTD_compressBound"): BOUND,
    ("ZSTD_resetCCtx_internal", "ZSTD_compressBound"): BOUND,
    ("ZSTD_generateSequences", "ZSTD_compressBound"): "error (srcSize >= ZSTD_MAX_INPUT_SIZE) becomes a huge malloc size: allocation fails -> memory_allocation",
    ("ZSTD_selectEncodingType", "ZSTD_NCountCost"): "cost comparison: an error code is a maximal cost, so that encoding is never selected (asserts document it)",
    ("ZSTD_selectEncodingType", "ZSTD_fseBitCost"): "cost comparison: ERROR(GENERIC) is used on purpose as 'infinite cost'",
    # ---- lib/decompress ----------------------------------------------------------------
    ("ZSTD_decompressStream", "ZSTD_decodingBufferSize_internal"): "window already capped by maxWindowSize; an error (32-bit overflow) is a huge size that fails the static-size test / the allocation => memory_allocation",
    ("ZSTD_estimateDStreamSize", "ZSTD_decodingBufferSize_min"): ESTIMATE,
    ("ZSTD_readSkippableFrame", "readSkippableFrameSize"): "`skippableFrameSize > srcSize` range test two lines below subsumes error codes (reviewed in DESIGN §6)",
    # ---- lib/dictBuilder ---------------------------------------------------------------
    ("COVER_checkTotalCompressedSize", "ZSTD_compressBound"): "sample sizes < COVER_MAX_SAMPLES_SIZE (checked by ctx_init); malloc result tested",
    ("ZDICT_analyzeEntropy", "HUF_buildCTable_wksp"): "rebuild over a flattened distribution with a local workspace of the required size; assert(maxNbBits==9)",
    # ---- lib/legacy ----------------------------------------------------------------------
    ("ZBUFFv06_decompressContinue", "ZSTDv06_getFrameParams"): "toLoad computed one line before the isError test; not used on the error path",
    ("ZSTD_initLegacyStream", "ZBUFFv05_decompressInitDictionary"): LEGACY_DICT,
    ("ZSTD_initLegacyStream", "ZBUFFv06_decompressInitDictionary"): LEGACY_DICT,
    ("ZSTD_initLegacyStream", "ZBUFFv07_decompressInitDictionary"): LEGACY_DICT,
    ("ZSTDv05_decompress_usingDict", "ZSTDv05_decompressBegin_usingDict"): LEGACY_DICT,
    ("ZSTDv06_decompress_usingDict", "ZSTDv06_decompressBegin_usingDict"): LEGACY_DICT,
    ("ZSTDv07_decompress_usingDict", "ZSTDv07_decompressBegin_usingDict"): LEGACY_DICT,
    ("ZSTDv05_decodeSeqHeaders", "FSEv05_buildDTable"): LEGACY_TABLELOG,
    ("ZSTDv05_decodeSeqHeaders", "FSEv05_buildDTable_raw"): "raw table of nbBits <= 9/6: cannot fail (only nbBits < 1 errors; value is a constant)",
    ("ZSTDv06_buildSeqTable", "FSEv06_buildDTable"): LEGACY_TABLELOG,
    ("ZSTDv07_buildSeqTable", "FSEv07_buildDTable"): LEGACY_TABLELOG,
    ("ZSTDv07_decompressBlock", "ZSTDv07_decompressBlock_internal"): "previousDstEnd updated from dSize before it is returned; on error the caller must stop using the context",
    # ---- programs ------------------------------------------------------------------------
    ("FIO_compressZstdFrame", "ZSTD_CCtx_setParameter"): "adaptive mode: level kept within [minAdaptLevel,maxAdaptLevel] just above; a refused update mid-frame is harmless",
    ("FIO_decompressZstdFrame", "ZSTD_DCtx_reset"): DRESET,
    ("FIO_zstdErrorHelp", "ZSTD_getFrameHeader"): "diagnostic helper: only the success case (err == 0) is used to print a hint",
    # ---- contrib/seekable_format -----------------------------------------------------------
    ("ZSTD_seekable_compressStream", "ZSTD_CCtx_setParameter"): "srcSizeHint is advisory; value asserted < INT_MAX",
    ("ZSTD_seekable_decompress", "ZSTD_DCtx_reset"): DRESET,
    ("ZSTD_seekable_endFrame", "ZSTD_CCtx_reset"): CANT_FAIL_RESET,
}

# fields that legitimately carry an error code to a reader that tests it
ERROR_FIELDS = ("headerSize", "compressedSize", "hufDesSize", "fseTablesSize")


def run(prog, res, rule, file_prefixes, min_pairs, E=None):
    if E is None:
        E = errors.compute_E(prog)
    scope = [f for f in prog.all_functions() if f.file.startswith(tuple(file_prefixes))]
    n, used = errors.error_discipline(prog, res, rule, scope, E, EXCEPTIONS, fields_ok=ERROR_FIELDS)
    res.need(rule, min_pairs)
    res.count(rule + ".error_returning_functions", len(E))
    # the field idiom is only sound if a reader tests the field
    for fld, reader in (("headerSize", "ZSTD_decompressContinue"), ("compressedSize", "ZSTD_decompressBound"),
                        ("hufDesSize", "ZSTD_buildBlockEntropyStats")):
        if not prog.has_fn(reader):
            continue
        f = prog.fn(reader)
        ok = False
        for b, i, x in f.events(errors.is_iserr):
            if any(y.get("k") == "mem" and y["f"] == fld for a in x["a"] for y in errors.walk(a)):
                ok = True
            # or a local copy of the field
            for a in x["a"]:
                if ("f:" + fld) in f.anchors(a):
                    ok = True
        res.check(ok, rule + ".error-field-reader", "%s:%s" % (reader, fld), f.loc,
                  "the error-carrying field is tested by its reader", "reader no longer tests %s with isError" % fld)
    return E
