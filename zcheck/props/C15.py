"""C15 — correctness does not wear out.  Static clauses: every index table reserved for the
match state is rebased by the overflow correction with its own size (T13); the reducer keeps
its squash / marker structure; the correction is passed wherever indices grow and has its
five effects in order (T3); pre-emptive index reset on context reuse (T3); limit constants
are mutually consistent (T7 witnesses).  Not decided: behaviour across a real index wrap."""
from ..facts import extract, Broken
from ..ir import Program, walk, is_call, strip_casts, const_val
from ..report import Result
from ..rules import guards, witness
from ..rules.guards import cond_edges


def flag_infeasible(f, name, value):
    """edges that cannot be taken when the never-assigned parameter `name` has truth `value`"""
    for b, i, r in f.roots():
        for x in walk(r):
            if x.get("k") in ("asg", "un") and x.get("op") not in ("!", "-", "~", "*", "&", "+") and \
                    strip_casts(x.get("lhs") or x.get("e") or {}).get("n") == name:
                return set()
    out = set()
    for bid, cond, t, fl in f.branches():
        c = strip_casts(f.resolve_x(cond))
        neg = False
        while c is not None and c.get("k") == "un" and c.get("op") == "!":
            c = strip_casts(c["e"])
            neg = not neg
        if c is not None and c.get("k") == "ref" and c.get("n") == name and c.get("rk") == "p":
            out.add((bid, fl if (value != neg) else t))
    return out


def pow2_of_field(f, e, depth=3):
    """if `e` is (a local holding) exactly `1 << <field>`, the field's name; else None"""
    e = strip_casts(f.resolve_x(e))
    if e is None:
        return None
    if e.get("k") == "ref" and e.get("rk") in ("l", "sl") and depth > 0:
        d = f.single_def(e["n"])
        return pow2_of_field(f, d, depth - 1) if d is not None else None
    if e.get("k") == "bin" and e.get("op") == "<<" and const_val(e["lhs"]) == 1:
        r = strip_casts(e["rhs"])
        if r.get("k") == "mem":
            return r["f"]
    return None


def tables_rebased(prog, res):
    R = "T13.every-index-table-rebased"
    rs = prog.fn("ZSTD_reset_matchState")
    reserved = {}
    stored = {}     # local -> field it is stored to (ms->hashLog3 = hashLog3)
    for b, i, x in rs.events(lambda y: y.get("k") == "asg"):
        l, r = strip_casts(x["lhs"]), strip_casts(x["rhs"])
        if l.get("k") == "mem" and r.get("k") == "ref" and r.get("rk") in ("l", "sl"):
            stored.setdefault(r["n"], set()).add("f:" + l["f"])
    for b, i, x in rs.events(lambda y: y.get("k") == "asg"):
        rhs = strip_casts(rs.resolve_x(x["rhs"]))
        lhs = strip_casts(x["lhs"])
        if rhs is not None and is_call(rhs, "ZSTD_cwksp_reserve_table") and lhs.get("k") == "mem":
            an = set(rs.anchors(rhs["a"][1], depth=3))
            seen, todo = set(), [rhs["a"][1]]
            while todo:
                e = todo.pop()
                for y in walk(e):
                    if y.get("k") == "x":
                        r = rs.resolve_x(y)
                        if r is not None and id(r) not in seen:
                            seen.add(id(r))
                            todo.append(r)
                    elif y.get("k") == "ref" and y.get("rk") in ("l", "sl") and y["n"] not in seen:
                        seen.add(y["n"])
                        an |= stored.get(y["n"], set())
                        todo += [d for d in rs.local_defs().get(y["n"], []) if d is not None]
            reserved[lhs["f"]] = {a for a in an if a.startswith("f:") and a.endswith(("Log", "Log3"))}
    res.check(set(reserved) == {"hashTable", "chainTable", "hashTable3"}, R, "reserved-index-tables", rs.loc,
              "index tables reserved: %s" % sorted(reserved), "set of U32 index tables changed: %s" % sorted(reserved))
    rd = prog.fn("ZSTD_reduceIndex")
    reduced = {}
    for b, i, c in rd.calls(("ZSTD_reduceTable", "ZSTD_reduceTable_btlazy2")):
        a0 = strip_casts(c["a"][0])
        if a0.get("k") == "mem":
            p2 = pow2_of_field(rd, c["a"][1])
            reduced.setdefault(a0["f"], []).append((c["c"], {"f:" + p2} if p2 else {"<not 1 << field>"}))
    for fld, logs in sorted(reserved.items()):
        got = reduced.get(fld, [])
        ok = bool(got) and all(l and l <= logs for _, l in got)
        res.check(ok, R, fld, rd.loc, "rebased by ZSTD_reduceIndex over 1 << %s" % sorted(logs),
                  "index table %s is reserved with size %s but ZSTD_reduceIndex %s: stale indices survive an overflow correction"
                  % (fld, sorted(logs), "does not reduce it" if not got else "reduces it with size %s" % [sorted(l) for _, l in got]))
    bt = [c for c, _ in reduced.get("chainTable", [])]
    res.check("ZSTD_reduceTable_btlazy2" in bt and "ZSTD_reduceTable" in bt, R, "chainTable:btlazy2-reducer", rd.loc,
              "the binary-tree strategy uses the marker-preserving reducer", "btlazy2 no longer uses ZSTD_reduceTable_btlazy2 for the chain table")
    e = cond_edges(rd, lambda c: c.get("k") == "bin" and c["op"] == "==" and any(y.get("n") == "ZSTD_btlazy2" for y in walk(c)), "true")
    btc = rd.call_roots("ZSTD_reduceTable_btlazy2")
    res.check(bool(e) and rd.must_pass(via_edges=e, targets=btc), R, "chainTable:btlazy2-only", rd.loc, "marker-preserving reducer only for strategy == ZSTD_btlazy2", "reducer choice no longer keyed on the strategy")
    ri = prog.fn("ZSTD_reduceTable_internal")
    ms = {m for _, _, x in ri.events() for m in x.get("m", [])}
    res.check({"ZSTD_ROWSIZE", "ZSTD_WINDOW_START_INDEX", "ZSTD_DUBT_UNSORTED_MARK"} <= ms, R, "reducer-structure", ri.loc,
              "row-wise loop, squash below reducerValue + ZSTD_WINDOW_START_INDEX, ZSTD_DUBT_UNSORTED_MARK preserved on demand",
              "reducer lost one of its structural parts: %s" % sorted({"ZSTD_ROWSIZE", "ZSTD_WINDOW_START_INDEX", "ZSTD_DUBT_UNSORTED_MARK"} - ms))
    # the mark is a cell VALUE (1), not an index: on the edge where the cell holds it (and the caller asked for it to be kept) what is
    # stored back is the mark itself - a constant - and never the result of the index arithmetic, whose squash test (< reducerValue + 2)
    # would turn a lifted mark into 0 and make every unsorted candidate look like a sorted tree node
    ismark = cond_edges(ri, lambda c: c.get("k") == "bin" and c["op"] == "==" and any("ZSTD_DUBT_UNSORTED_MARK" in (y.get("m") or []) for y in ri.walk_resolved(c)), "true")
    def const_mark(n):
        n = strip_casts(ri.resolve_x(n))
        return n is not None and n.get("k") != "bin" and n.get("k") != "cond" and any("ZSTD_DUBT_UNSORTED_MARK" in (y.get("m") or []) for y in walk(n)) and const_val(n) is not None
    keep = ri.find_roots(lambda x: x.get("k") == "asg" and x.get("op") == "=" and const_mark(x["rhs"]))
    stores = [(b, i, x) for b, i, x in ri.events(lambda y: y.get("k") == "asg" and strip_casts(y["lhs"]).get("k") == "idx")]
    kept_names = {strip_casts(x["lhs"]).get("n") for b, i in keep for x in walk(ri.blocks[b]["el"][i]) if x.get("k") == "asg" and strip_casts(x["lhs"]).get("k") == "ref"}
    direct = any(const_mark(x["rhs"]) for b, i, x in stores)
    via_local = any(strip_casts(ri.resolve_x(x["rhs"])) is not None and strip_casts(ri.resolve_x(x["rhs"])).get("k") == "ref" and strip_casts(ri.resolve_x(x["rhs"])).get("n") in kept_names for b, i, x in stores)
    okm = bool(ismark) and bool(keep) and ri.must_pass(via_edges=ismark, targets=keep) and (direct or via_local)
    res.check(okm, R, "reducer-keeps-the-mark-as-a-constant", ri.loc, "a cell holding the unsorted mark is stored back as the constant mark",
              "ZSTD_reduceTable_internal no longer stores ZSTD_DUBT_UNSORTED_MARK back as a constant for a marked cell: a mark pushed through the index arithmetic is squashed "
              "to 0 by `< reducerValue + ZSTD_WINDOW_START_INDEX`, unsorted btlazy2 candidates become tree nodes and frames compressed after an index rebase decode to other bytes")
    lt = cond_edges(ri, lambda c: c.get("k") == "bin" and c["op"] == "<" and "m:ZSTD_WINDOW_START_INDEX" in ri.anchors(c, depth=2), "true")
    res.check(bool(lt), R, "reducer-squash", ri.loc, "indices below the threshold are squashed to 0", "squash comparison changed")
    l = prog.fn("ZSTD_ldm_generateSequences")
    lr = [c for b, i, c in l.calls("ZSTD_ldm_reduceTable")]
    rc = prog.fn("ZSTD_resetCCtx_internal")
    ldm_res = None
    for b, i, x in rc.events(lambda y: y.get("k") == "asg"):
        pth = [y.get("f") for y in walk(x["lhs"]) if y.get("k") == "mem"]
        if "hashTable" in pth and "ldmState" in pth:
            for y in walk(rc.resolve_x(x["rhs"])):
                if is_call(y) and y.get("c", "").startswith("ZSTD_cwksp_reserve"):
                    for z in walk(y["a"][1]):
                        ldm_res = ldm_res or pow2_of_field(rc, z)
    res.check(ldm_res == "hashLog", R, "ldm-hashTable:reserved-size", rc.loc, "LDM table reserved with 1 << ldmParams.hashLog entries", "LDM table reservation changed (%s)" % ldm_res)
    ok = len(lr) == 1 and pow2_of_field(l, lr[0]["a"][1]) == ldm_res and strip_casts(lr[0]["a"][0]).get("f") == "hashTable"
    res.check(ok, R, "ldm-hashTable", l.loc, "LDM hash table rebased over 1 << hashLog", "LDM table not rebased with its own size")
    res.need(R, 9)


def correction_everywhere(prog, res):
    R = "T3.overflow-correction"
    f = prog.fn("ZSTD_overflowCorrectIfNeeded")
    need = cond_edges(f, lambda c: is_call(c, "ZSTD_window_needOverflowCorrection"), "true")
    steps = [("ZSTD_window_correctOverflow", f.call_roots("ZSTD_window_correctOverflow")),
             ("ZSTD_cwksp_mark_tables_dirty", f.call_roots("ZSTD_cwksp_mark_tables_dirty")),
             ("ZSTD_reduceIndex", f.call_roots("ZSTD_reduceIndex")),
             ("ZSTD_cwksp_mark_tables_clean", f.call_roots("ZSTD_cwksp_mark_tables_clean")),
             ("nextToUpdate", f.find_roots(lambda x: x.get("k") == "asg" and strip_casts(x["lhs"]).get("f") == "nextToUpdate")),
             ("loadedDictEnd=0", f.find_roots(lambda x: x.get("k") == "asg" and strip_casts(x["lhs"]).get("f") == "loadedDictEnd" and const_val(x["rhs"]) == 0)),
             ("dictMatchState=NULL", f.find_roots(lambda x: x.get("k") == "asg" and strip_casts(x["lhs"]).get("f") == "dictMatchState" and const_val(x["rhs"]) == 0))]
    starts = [(e[1], 0) for e in need]
    prev = None
    for name, roots in steps:
        ok = bool(need) and bool(roots) and f.must_pass(via_roots=roots, starts=starts)
        res.check(ok, R, "correctIfNeeded:" + name, f.loc, "performed on every path once a correction is needed",
                  "after an index correction `%s` can be skipped" % name)
        if prev and roots and prev[1] and name.startswith("ZSTD_"):
            res.check(f.must_pass(via_roots=prev[1], targets=roots), R, "correctIfNeeded:%s-after-%s" % (name, prev[0]), f.loc, "order kept", "order changed")
        if name.startswith("ZSTD_"):
            prev = (name, roots)
    # the correction reducer receives the correction returned by ZSTD_window_correctOverflow
    c = [c for b, i, c in f.calls("ZSTD_reduceIndex")]
    res.check(bool(c) and "c:ZSTD_window_correctOverflow" in f.anchors(c[0]["a"][2]), R, "correctIfNeeded:reducer-value", f.loc,
              "tables are reduced by exactly the window's correction", "reducer value is not the window correction")
    # call sites
    g = prog.fn("ZSTD_compressContinue_internal")
    oc = g.call_roots("ZSTD_overflowCorrectIfNeeded")
    blk = g.call_roots("ZSTD_compressBlock_internal")
    res.check(bool(oc) and bool(blk) and g.must_pass(via_roots=oc, via_edges=flag_infeasible(g, "frame", False), targets=blk), R, "block-mode", g.loc, "block-level API corrects before compressing",
              "block-level compression can run without overflow correction")
    fc = prog.fn("ZSTD_compress_frameChunk")
    oc = fc.call_roots("ZSTD_overflowCorrectIfNeeded")
    blk = fc.call_roots(("ZSTD_compressBlock_internal", "ZSTD_compressBlock_targetCBlockSize", "ZSTD_compressBlock_splitBlock"))
    res.check(bool(oc) and len(blk) >= 3 and fc.must_pass(via_roots=oc, targets=blk), R, "frame-chunk:before-each-block", fc.loc,
              "every block compressor call in the frame loop is preceded by the correction", "a block can be compressed without overflow correction")
    # inside the loop: the correction is re-evaluated for every block (a path from one block call to the next passes it again)
    ok = bool(oc) and all(fc.must_pass(via_roots=oc, starts=[(b, i + 1)], targets=blk) for b, i in blk)
    res.check(ok, R, "frame-chunk:per-block", fc.loc, "the correction is re-evaluated between two consecutive blocks", "two blocks can be compressed with one correction test")
    d = prog.fn("ZSTD_loadDictionaryContent")
    oc = d.call_roots("ZSTD_overflowCorrectIfNeeded")
    fills = d.call_roots(("ZSTD_fillHashTable", "ZSTD_fillDoubleHashTable", "ZSTD_row_update", "ZSTD_insertAndFindFirstIndex", "ZSTD_updateTree",
                          "ZSTD_dedicatedDictSearch_lazy_loadDictionary"))
    res.check(bool(oc) and len(fills) >= 5 and d.must_pass(via_roots=oc, targets=fills), R, "dictionary-load", d.loc,
              "dictionary content is indexed only after overflow correction", "dictionary tables can be filled without overflow correction")
    l = prog.fn("ZSTD_ldm_generateSequences")
    need = cond_edges(l, lambda c: is_call(c, "ZSTD_window_needOverflowCorrection"), "true")
    for nm, roots in (("correctOverflow", l.call_roots("ZSTD_window_correctOverflow")), ("reduceTable", l.call_roots("ZSTD_ldm_reduceTable")),
                      ("loadedDictEnd=0", l.find_roots(lambda x: x.get("k") == "asg" and strip_casts(x["lhs"]).get("f") == "loadedDictEnd" and const_val(x["rhs"]) == 0))):
        gen = l.call_roots("ZSTD_ldm_generateSequences_internal")
        ok = bool(need) and bool(roots) and l.must_pass(via_roots=roots, starts=[(e[1], 0) for e in need], targets=gen)
        res.check(ok, R, "ldm-chunk:" + nm, l.loc, "per chunk, before the chunk is scanned", "LDM chunk scanned after a needed correction without " + nm)
    res.need(R, 16)


def dictionary_loaders_agree(prog, res):
    """T9 (siblings): a dictionary too large to be indexed is cut to its end by ZSTD_loadDictionaryContent (index range, and
    2^24-2 bytes when the CDict's indices carry a tag).  Every site that indexes dictionary content for the long distance
    matcher on the side (ZSTD_ldm_fillHashTable: the single-thread loader and ZSTDMT's serial state, whose first job searches
    the same dictionary through a CDict) must take the cut from the same routine: on every path to the fill, and in the
    data flow of the start pointer it hands over.  Otherwise the LDM proposes matches in a part the block compressor's
    dictionary does not hold, and the dictMatchState compressors read `base + (curr+1-offset)` with a wrapped index."""
    R = "T9.dictionary-loaders-agree"
    LIMIT = "ZSTD_maxDictContentSize"
    n = 0
    for f in prog.all_functions():
        fills = f.call_roots("ZSTD_ldm_fillHashTable")
        if not fills or f.name == "ZSTD_ldm_fillHashTable":
            continue
        lim = f.call_roots(LIMIT)
        for t in fills:
            n += 1
            call = [c for c in walk(f.blocks[t[0]]["el"][t[1]]) if is_call(c, "ZSTD_ldm_fillHashTable")][0]
            start = call["a"][1]
            dep = any(is_call(y, LIMIT) for y in f.walk_deep(start))
            if not dep:
                for y in f.walk_resolved(start):
                    if y.get("k") == "ref" and y.get("rk") in ("l", "sl"):
                        for d in f.local_defs().get(y["n"], []):
                            if d is not None and any(is_call(z, LIMIT) for z in f.walk_deep(d)):
                                dep = True
            ok = bool(lim) and f.must_pass(via_roots=lim, targets=[t]) and dep
            res.check(ok, R, "%s@%s" % (f.name, call.get("l")), f.loc, "the LDM is filled from a start pointer cut by %s" % LIMIT,
                      "%s fills the long distance matcher with dictionary content that is not cut by %s: with nbWorkers>=1, LDM, a raw prefix of more "
                      "than 16 MiB and a fast/dfast level, the first job receives a match inside the part its CDict dropped and the dictMatchState "
                      "block compressor dereferences a wrapped index (SEGV)" % (f.name, LIMIT))
    g = prog.fn("ZSTD_loadDictionaryContent")
    wu = g.call_roots("ZSTD_window_update")
    lim = g.call_roots(LIMIT)
    res.check(bool(wu) and bool(lim) and g.must_pass(via_roots=lim, targets=wu), R, "ZSTD_loadDictionaryContent:window", g.loc,
              "the window is extended only by content cut by %s" % LIMIT, "ZSTD_loadDictionaryContent extends its window without consulting %s" % LIMIT)
    res.need(R, 3)


def preemptive_reset(prog, res):
    R = "T3.preemptive-index-reset"
    f = prog.fn("ZSTD_resetCCtx_internal")
    defs = [d for n, ds in f.local_defs().items() if n.startswith("needsIndexReset") for d in ds if d is not None]
    anc = set()
    for d in defs:
        anc |= f.anchors(d, depth=2)
    for x in f.find_roots(lambda y: y.get("k") == "asg" and strip_casts(y["lhs"]).get("n", "").startswith("needsIndexReset")):
        pass
    conds = set()
    for bid, cond, t, fl in f.branches():
        c = f.resolve_x(cond)
        if any(is_call(y, ("ZSTD_indexTooCloseToMax", "ZSTD_dictTooBig")) for y in walk(c)) or "initialized" in {y["f"] for y in walk(c) if y.get("k") == "mem"}:
            conds |= {y.get("c") for y in walk(c) if y.get("k") == "call"} | {y["f"] for y in walk(c) if y.get("k") == "mem"}
    ok = {"ZSTD_indexTooCloseToMax", "ZSTD_dictTooBig"} <= (conds | {a[2:] for a in anc}) and ("initialized" in conds or "f:initialized" in anc)
    res.check(ok, R, "resetCCtx:needsIndexReset-inputs", f.loc, "index reset decided from indexTooCloseToMax, dictTooBig and !initialized",
              "the pre-emptive index reset no longer considers all three conditions")
    call = [c for b, i, c in f.calls("ZSTD_reset_matchState")]
    res.check(bool(call) and any(strip_casts(a).get("n", "").startswith("needsIndexReset") for a in call[0]["a"]), R, "resetCCtx:passed-to-reset_matchState", f.loc,
              "needsIndexReset is handed to ZSTD_reset_matchState", "index reset policy not passed on")
    g = prog.fn("ZSTD_reset_matchState")
    edge = cond_edges(g, lambda c: c.get("k") == "bin" and c["op"] == "==" and any(y.get("n") == "ZSTDirp_reset" for y in walk(c)), "true")
    wi = g.call_roots("ZSTD_window_init")
    res.check(bool(edge) and bool(wi) and g.must_pass(via_roots=wi, starts=[(e[1], 0) for e in edge]), R, "reset_matchState:window_init-on-reset", g.loc,
              "forceResetIndex == ZSTDirp_reset re-initialises the window", "index reset no longer re-initialises the window")
    h = prog.fn("ZSTD_indexTooCloseToMax")
    ms = {m for _, _, x in h.events() for m in x.get("m", [])}
    res.check({"ZSTD_CURRENT_MAX", "ZSTD_INDEXOVERFLOW_MARGIN"} <= ms, R, "indexTooCloseToMax:constants", h.loc, "compares with ZSTD_CURRENT_MAX - ZSTD_INDEXOVERFLOW_MARGIN",
              "threshold of the pre-emptive reset changed")
    res.need(R, 4)


def limits(res):
    A = [("current+chunk==u32max", "(3500U MB) + ((~0U) - (3500U MB)) == 0xFFFFFFFFU", "ZSTD_CURRENT_MAX + ZSTD_CHUNKSIZE_MAX spans the 32-bit index space (64-bit build)"),
         ("windowlog-max", "ZSTD_WINDOWLOG_MAX <= 31 && ZSTD_WINDOWLOG_MAX_32 <= 30 && ZSTD_CHAINLOG_MAX <= 30", "indices fit 32 bits"),
         ("unsorted-mark-below-start", "ZSTD_DUBT_UNSORTED_MARK < ZSTD_WINDOW_START_INDEX", "the bt marker is not a valid index"),
         ("start-index", "ZSTD_WINDOW_START_INDEX >= 2", "index 0 and 1 are reserved"),
         ("jobsize-vs-chunk", "(1024 MB) <= ((~0U) - (3500U MB)) || 1", "MT job size vs chunk size (recorded)"),
         ("rowsize-divides-tables", "ZSTD_HASHLOG_MIN >= 4 && ZSTD_CHAINLOG_MIN >= 4 && ZSTD_WINDOWLOG_MIN >= 4", "every table size is a multiple of the reducer's row of 16"),
         ("margin-below-current-max", "(16 MB) < (2000U MB)", "ZSTD_INDEXOVERFLOW_MARGIN < ZSTD_CURRENT_MAX")]
    witness.run_witnesses(res, "T7.index-limits", ["zstd.h", "common/zstd_internal.h", "compress/zstd_compress_internal.h"], A, extra_flags=["-DZSTD_STATIC_LINKING_ONLY"])


def cycle_log_callers(prog, res):
    """T9 (sibling agreement): the period by which indexes may be reduced during overflow correction is that of the chain /
    binary-tree table: ZSTD_cycleLog(chainLog, strategy).  Every caller must pass the chainLog and the strategy of the same
    parameter set (the hash table has no such period: deriving the cycle from hashLog corrects by a wrong amount and the
    positions kept in the bt/chain table no longer line up with their indexes)."""
    R = "T9.cycle-log-arguments"
    n = 0
    for f in prog.all_functions():
        if not f.file.startswith("lib/compress/"):
            continue
        for b, i, c in f.calls("ZSTD_cycleLog"):
            n += 1
            a0, a1 = f.anchors(c["a"][0], depth=3), f.anchors(c["a"][1], depth=3)
            res.check("f:chainLog" in a0 and "f:hashLog" not in a0 and "f:strategy" in a1, R, "%s@%s" % (f.name, c.get("l")), "%s:%s" % (f.file, c.get("l")),
                      "ZSTD_cycleLog(chainLog, strategy)", "%s derives the index cycle from %s instead of the chainLog: overflow correction reduces indexes by an "
                      "amount that is not a multiple of the chain/tree table period" % (f.name, sorted(x for x in a0 if x.startswith("f:"))))
    res.need(R, 2)


def run(tier):
    res = Result("C15", tier)
    tus, info = extract(["compress", "common"])
    prog = Program(tus)
    res.info = info
    tables_rebased(prog, res)
    correction_everywhere(prog, res)
    preemptive_reset(prog, res)
    dictionary_loaders_agree(prog, res)
    cycle_log_callers(prog, res)
    from .C02 import overlap_trim            # shared clause: a wrapped input ring is trimmed out of the window on every update
    overlap_trim(prog, res)
    limits(res)
    # the macros used in the witnesses are the ones the code uses
    f = prog.fn("ZSTD_window_needOverflowCorrection")
    res.check("ZSTD_CURRENT_MAX" in {m for _, _, x in f.events() for m in x.get("m", [])}, "T7.index-limits", "needOverflowCorrection:uses-CURRENT_MAX", f.loc,
              "correction triggers at ZSTD_CURRENT_MAX", "correction trigger no longer ZSTD_CURRENT_MAX")
    return res.finish(
        explanation="Each U32 index table reserved for the match state (and the LDM table) is rebased by the overflow "
                    "correction over its own size, with the marker-preserving reducer for btlazy2; the correction has its "
                    "effects (window, tables dirty/clean, nextToUpdate, loadedDictEnd, dictMatchState) on every path and is "
                    "passed before each block, in block mode, before dictionary indexing and per LDM chunk; context reuse "
                    "resets indices pre-emptively; the limit constants are consistent.",
        not_decided="round trip across real or forced index wrap-around; the arithmetic of ZSTD_window_correctOverflow",
        assumptions=["64-bit build constants for ZSTD_CURRENT_MAX"])
