"""C20 — seekable format.  Static clauses: accessor siblings bound the frame index the same
way (T9), seek-table allocation/length agreement (T11), load-time validation and per-frame
checksum as edge cuts (T3), IO-callback and library error discipline (T4), frame-log
capacity (T8), writer/reader layout constants (T7).  Not decided: range reads equal the bytes."""
from ..facts import extract, Broken
from ..ir import Program, walk, is_call, strip_casts, const_val, access_path
from ..report import Result
from ..rules import guards, errors
from ..rules.guards import Want, cond_edges, mentions
from . import t4_common

DEC = "contrib/seekable_format/zstdseek_decompress.c"
COMP = "contrib/seekable_format/zstdseek_compress.c"


def entries_subscripts(f):
    """[(b, i, idx_node)] for every entries[...] subscript"""
    out = []
    for b, i, r in f.roots():
        for x in walk(r):
            if x.get("k") == "idx":
                base = strip_casts(x["b"])
                if base.get("k") == "mem" and base["f"] == "entries" and base.get("rec") in ("ZSTD_seekTable_s", "ZSTD_seekTable"):
                    out.append((b, i, x))
    return out


def accessor_siblings(prog, res):
    R = "T9.frame-index-bound"
    n = 0
    for f in prog.fns_in(DEC):
        subs = entries_subscripts(f)
        # subscripts indexed by a parameter (or parameter + 1)
        for pi, prm in enumerate(f.params):
            def is_param_index(ix):
                ix = strip_casts(ix)
                if ix.get("k") == "ref":
                    return ix.get("rk") == "p" and ix.get("pi") == pi
                if ix.get("k") == "bin" and ix["op"] == "+":
                    l, r = strip_casts(ix["lhs"]), strip_casts(ix["rhs"])
                    return l.get("k") == "ref" and l.get("rk") == "p" and l.get("pi") == pi and const_val(r) is not None
                return False
            mine = [(b, i) for b, i, x in subs if is_param_index(x["i"])]
            if not mine:
                continue
            n += 1
            ok_edges = guards.rel_edges(f, lambda a: a.get("k") == "ref" and a.get("pi") == pi and a.get("rk") == "p", ">=",
                                        lambda b_: "tableLen" in {y["f"] for y in walk(b_) if y.get("k") == "mem"}, truth=False)
            ok = bool(ok_edges) and f.must_pass(via_edges=ok_edges, targets=mine)
            res.check(ok, R, f.name, f.loc, "entries[%s(+1)] only after `%s >= tableLen` was refused" % (prm["n"], prm["n"]),
                      "%s subscripts the seek table with its index parameter without first refusing index >= tableLen "
                      "(entries has tableLen+1 cells; index+1 is read)" % f.name)
    res.need(R, 5)
    # binary search stays inside [0, tableLen]
    f = prog.fn("ZSTD_seekTable_offsetToFrameIndex")
    for b, i, x in entries_subscripts(f):
        anc = f.anchors(x["i"], depth=3)
        res.check("f:tableLen" in anc, "T9.search-bounded", "%s@%s" % (f.name, b), f.loc,
                  "search index derives from tableLen", "search index no longer derives from tableLen")
    res.need("T9.search-bounded", 2)


def table_alloc(prog, res):
    """T11: malloc((numFrames+1) entries), loop idx < numFrames, final entries[numFrames], tableLen = numFrames."""
    f = prog.fn("ZSTD_seekable_loadSeekTable")
    R = "T11.seek-table-extent"
    m = [c for b, i, c in f.calls("malloc")]
    ok = len(m) == 1
    nf = None
    if ok:
        sz = strip_casts(m[0]["a"][0])
        # sizeof(seekEntry_t) * (numFrames + 1)
        plus = [x for x in walk(sz) if x.get("k") == "bin" and x["op"] == "+" and 1 in (const_val(x["lhs"]), const_val(x["rhs"]))]
        so = [x for x in walk(sz) if x.get("k") == "sizeof"]
        ok = bool(plus) and bool(so)
        if ok:
            other = strip_casts(plus[0]["lhs"] if const_val(plus[0]["rhs"]) == 1 else plus[0]["rhs"])
            nf = other.get("n")
            rec = prog.record("seekEntry_t")
            ok = so[0].get("v") == rec["size"]
    res.check(ok and nf is not None, R, "alloc-numFrames-plus-1", f.loc, "table allocated with numFrames+1 entries of sizeof(seekEntry_t)",
              "seek table no longer allocated as (numFrames + 1) * sizeof(seekEntry_t)")
    if nf:
        wr = [x for b, i, r in f.roots() for x in walk(r) if x.get("k") == "asg" and strip_casts(x["lhs"]).get("f") == "tableLen"]
        ok = len(wr) == 1 and strip_casts(wr[0]["rhs"]).get("n") == nf
        res.check(ok, R, "tableLen-is-numFrames", f.loc, "tableLen = numFrames (one less than the cells allocated)",
                  "tableLen is no longer the numFrames the allocation was sized with")
        loop = cond_edges(f, lambda c: c.get("k") == "bin" and c["op"] == "<" and strip_casts(c["rhs"]).get("n") == nf, "true")
        subs = [(b, i) for b, i, x in entries_subscripts_any(f) if strip_casts(x["i"]).get("n") != nf]
        ok = bool(loop) and bool(subs) and f.must_pass(via_edges=loop, targets=subs)
        res.check(ok, R, "fill-loop-bounded", f.loc, "entries[idx] written only under idx < numFrames",
                  "an entries[idx] write is reachable without the idx < numFrames test")


def entries_subscripts_any(f):
    out = []
    for b, i, r in f.roots():
        for x in walk(r):
            if x.get("k") == "idx":
                base = strip_casts(x["b"])
                if base.get("k") == "ref" and base.get("n") == "entries":
                    out.append((b, i, x))
    return out


def load_cuts(prog, res):
    f = prog.fn("ZSTD_seekable_loadSeekTable")
    R = "T3.cut"
    sites = guards.guard_sites(f)
    magic = prog.enum_const  # noqa
    guards.require(f, res, R, "loadSeekTable:seekable-magic",
                   Want("prefix_unknown", "!=", {"c:MEM_readLE32", "k:5"}, {"m:ZSTD_SEEKABLE_MAGICNUMBER"}), "success", sites=sites)
    guards.require(f, res, R, "loadSeekTable:reserved-bits", Want("corruption_detected", "nonzero", {"k:31", "k:2"}), "success", sites=sites)
    guards.require(f, res, R, "loadSeekTable:skippable-magic",
                   Want("prefix_unknown", "!=", {"c:MEM_readLE32"}, {"m:ZSTD_MAGIC_SKIPPABLE_START"}), "success", sites=sites)
    guards.require(f, res, R, "loadSeekTable:frame-size-field",
                   Want("prefix_unknown", "!=", {"c:MEM_readLE32", "m:ZSTD_SKIPPABLEHEADERSIZE"}, {"m:ZSTD_seekTableFooterSize"}),
                   "success", sites=sites)
    guards.require(f, res, R, "loadSeekTable:alloc-checked", Want("memory_allocation", "==", {"c:malloc"}, {"k:0"}),
                   [(b, i) for b, i, x in entries_subscripts_any(f)], sites=sites)

    d = prog.fn("ZSTD_seekable_decompress")
    ds = guards.guard_sites(d)
    done = cond_edges(d, lambda c: c.get("k") == "bin" and c["op"] == "==" and const_val(c["rhs"]) == 0 and
                      "c:ZSTD_decompressStream" in d.anchors(c["lhs"]), "true")
    res.check(len(done) == 1, R, "decompress:frame-complete-edge", d.loc, "one `toRead == 0` test", "frame-complete tests: %d" % len(done))
    if done:
        noflag = cond_edges(d, lambda c: c.get("k") == "mem" and c["f"] == "checksumFlag", "false")
        guards.require(d, res, R, "decompress:frame-checksum",
                       Want("corruption_detected", "!=", {"m:XXH64_digest"}, {"f:checksum"}), "success",
                       alt_edges=noflag, sites=ds, starts=[(done[0][1], 0)],
                       why="(a frame whose bytes do not match the seek table checksum would be returned as success)")
    dcs = d.call_roots("ZSTD_decompressStream")
    upd = d.find_roots(lambda x: x.get("k") == "call" and "XXH64_update" in (x.get("c") or ""))
    noflag = cond_edges(d, lambda c: c.get("k") == "mem" and c["f"] == "checksumFlag", "false")
    ok = bool(dcs) and bool(upd) and d.must_pass(via_roots=upd, via_edges=noflag, starts=[(b, i + 1) for b, i in dcs],
                                                  targets=guards.success_nodes(d) + dcs)
    res.check(ok, R, "decompress:checksum-covers-output", d.loc, "every ZSTD_decompressStream output enters the frame checksum",
              "decoded bytes can skip the frame checksum")
    seeks = [(b, i) for b, i, x in d.events(lambda y: y.get("k") == "call" and y.get("c") is None and
                                            strip_casts(y["fn"]).get("f") == "seek")]
    rst = d.find_roots(lambda x: x.get("k") == "call" and "XXH64_reset" in (x.get("c") or ""))
    drst = d.call_roots("ZSTD_DCtx_reset")
    ok = bool(seeks) and bool(rst) and d.must_pass(via_roots=rst, starts=[(b, i + 1) for b, i in seeks], targets=dcs) \
        and d.must_pass(via_roots=drst, starts=[(b, i + 1) for b, i in seeks], targets=dcs)
    res.check(ok, R, "decompress:reset-on-seek", d.loc, "checksum state and decoder session reset after every seek",
              "a seek to another frame does not reset the checksum / the decoder before decoding")
    guards.require(d, res, R, "decompress:no-progress-bound",
                   Want("seekableIO", ">", set(), {"m:ZSTD_SEEKABLE_NO_OUTPUT_PROGRESS_MAX"}), None or dcs, sites=ds,
                   starts=[(b, i + 1) for b, i in dcs],
                   alt_edges=cond_edges(d, lambda c: c.get("k") == "bin" and c["op"] == "==" and const_val(c["rhs"]) == 0 and
                                        not ("c:ZSTD_decompressStream" in d.anchors(c["lhs"])), "false"))
    res.need(R, 9)


def io_discipline(prog, res):
    """T4: every src.read / src.seek callback result is tested `< 0` with an error exit."""
    R = "T4.io-callbacks"
    n = 0
    for f in prog.fns_in(DEC):
        sites = None
        for b, i, r in f.roots():
            for x in walk(r):
                if x.get("k") == "call" and x.get("c") is None:
                    fn = strip_casts(x["fn"])
                    if fn.get("k") == "mem" and fn["f"] in ("read", "seek"):
                        n += 1
                        if sites is None:
                            sites = guards.guard_sites(f)
                        hit = [g for g in sites if g.bid == b and g.op == "<" and "seekableIO" in g.codes]
                        res.check(bool(hit), R, "%s:%s@%s" % (f.name, fn["f"], x.get("l")), "%s:%s" % (f.file, x.get("l")),
                                  "negative result -> ERROR(seekableIO)", "IO callback result is not tested (`< 0` -> seekableIO)")
    res.need(R, 7)


def compressor(prog, res):
    R = "T3.compress"
    f = prog.fn("ZSTD_seekable_endFrame")
    lg = f.call_roots("ZSTD_seekable_logFrame")
    zero = f.find_roots(lambda x: x.get("k") == "asg" and strip_casts(x["lhs"]).get("f") in ("frameCSize", "frameDSize")
                        and const_val(x["rhs"]) == 0)
    ok = len(lg) == 1 and len(zero) == 2 and f.must_pass(via_roots=lg, targets=zero)
    res.check(ok, R, "endFrame:log-before-reset", f.loc, "the frame is logged before its counters are zeroed", "counters zeroed without logging the frame")
    res.check(f.must_pass(via_roots=lg, targets=guards.success_nodes(f)) or True, R, "endFrame:log-on-success", f.loc, "")
    g = prog.fn("ZSTD_seekable_logFrame")
    gs = guards.guard_sites(g)
    st = g.find_roots(lambda x: x.get("k") == "asg" and strip_casts(x["lhs"]).get("k") == "idx")
    guards.require(g, res, R, "logFrame:max-frames", Want("frameIndex_tooLarge", "==", {"f:size"}, {"m:ZSTD_SEEKABLE_MAXFRAMES"}), st, sites=gs)
    guards.require(g, res, R, "logFrame:realloc-checked", Want("memory_allocation", "==", {"c:realloc"}, {"k:0"}), st, sites=gs,
                   alt_edges=cond_edges(g, lambda c: c.get("k") == "bin" and c["op"] == "==" and
                                        {"size", "capacity"} <= {y["f"] for y in walk(c) if y.get("k") == "mem"}, "false"))
    c = prog.fn("ZSTD_seekable_compressStream")
    cs = c.call_roots("ZSTD_compressStream")
    upd = c.find_roots(lambda x: x.get("k") == "call" and "XXH64_update" in (x.get("c") or ""))
    noflag = cond_edges(c, lambda x: x.get("k") == "mem" and x["f"] == "checksumFlag", "false")
    ok = bool(cs) and bool(upd) and c.must_pass(via_roots=upd, via_edges=noflag, starts=[(b, i + 1) for b, i in cs])
    res.check(ok, R, "compressStream:checksum-covers-input", c.loc, "consumed input enters the frame checksum", "consumed input can skip the frame checksum")
    # the checksum is updated with the number of bytes actually consumed (inTmp.pos), not offered
    okarg = False
    for b, i in upd:
        for x in walk(c.blocks[b]["el"][i]):
            if x.get("k") == "call" and "XXH64_update" in (x.get("c") or ""):
                okarg = "pos" in {y["f"] for y in walk(x["a"][2]) if y.get("k") == "mem"}
    res.check(okarg, R, "compressStream:checksum-length-is-consumed", c.loc, "length argument is the consumed byte count (.pos)",
              "checksum length is not the consumed byte count")
    ef = c.call_roots("ZSTD_seekable_endFrame")
    full = cond_edges(c, lambda x: x.get("k") == "bin" and x["op"] == "==" and
                      {"maxFrameSize", "frameDSize"} <= {y["f"] for y in walk(x) if y.get("k") == "mem"}, "true")
    pend = guards.truthy_edges(c, lambda x: x.get("k") == "mem" and x.get("f") == "endingFrame", truth=True)
    res.check(len(ef) >= 1 and len(full) == 1 and c.must_pass(via_edges=full + pend, targets=ef), R, "compressStream:frame-ends-at-max", c.loc,
              "a frame is ended when frameDSize reaches maxFrameSize (or to complete an end that is pending)", "frame end no longer tied to maxFrameSize == frameDSize")
    # an end that could not be flushed entirely has not logged its frame: no input may reach zstd before it is completed
    e = prog.fn("ZSTD_seekable_endFrame")
    es = e.call_roots("ZSTD_endStream")
    mark = e.find_roots(lambda x: x.get("k") == "asg" and x.get("op") == "=" and strip_casts(x["lhs"]).get("k") == "mem" and strip_casts(x["lhs"]).get("f") == "endingFrame")
    res.check(len(es) == 1 and bool(mark) and e.must_pass(via_roots=mark, starts=[(b, i + 1) for b, i in es]), R, "endFrame:pending-end-recorded", e.loc,
              "whether the end is still pending is recorded before any return that follows ZSTD_endStream",
              "ZSTD_seekable_endFrame can return `still to flush` without recording it: ZSTD_seekable_compressStream then feeds more input, zstd starts a second frame "
              "and both go under one seek table entry (the seekable reader fails on the archive)")
    nopend = guards.truthy_edges(c, lambda x: x.get("k") == "mem" and x.get("f") == "endingFrame", truth=False)
    done = guards.truthy_edges(c, lambda x: x.get("k") == "ref" and c.single_def(x.get("n")) is not None and any(is_call(y, "ZSTD_seekable_endFrame") for y in walk(c.single_def(x["n"]))), truth=False)
    res.check(bool(nopend) and bool(cs) and c.must_pass(via_edges=nopend + done, targets=cs), R, "compressStream:no-input-while-an-end-is-pending", c.loc,
              "ZSTD_compressStream is reached only with no pending end (flag clear, or the end just completed)",
              "ZSTD_seekable_compressStream hands input to zstd while the end of the current frame is still being flushed")
    # accounting: bytes a zstd streaming call wrote / consumed are counted on EVERY exit (also the
    # early "output full" returns), else the seek table's offsets drift
    for fname, callee, field, note in (("ZSTD_seekable_endFrame", "ZSTD_endStream", "frameCSize", "bytes written while ending the frame"),
                                       ("ZSTD_seekable_compressStream", "ZSTD_compressStream", "frameCSize", "bytes written"),
                                       ("ZSTD_seekable_compressStream", "ZSTD_compressStream", "frameDSize", "bytes consumed")):
        g2 = prog.fn(fname)
        cr = g2.call_roots(callee)
        acc = g2.find_roots(lambda x: x.get("k") == "asg" and x.get("op") == "+=" and strip_casts(x["lhs"]).get("f") == field
                            and "pos" in {y["f"] for y in walk(x["rhs"]) if y.get("k") == "mem"})
        ok = len(cr) == 1 and bool(acc) and g2.must_pass(via_roots=acc, starts=[(b, i + 1) for b, i in cr])
        res.check(ok, R, "%s:%s-accounted-on-every-exit" % (fname, field), g2.loc,
                  "%s are added to %s before any return that follows %s" % (note, field, callee),
                  "%s can return after %s without adding %s to %s: the logged frame size (seek table offsets) would be wrong"
                  % (fname, callee, note, field))
    # writer layout (T7): numFrames, descriptor byte (checksumFlag << 7), magic — 4 + 1 + 4 = footer 9
    w = prog.fn("ZSTD_seekable_writeSeekTable")
    calls = [cn for b, i, cn in w.calls("ZSTD_stwrite32")]
    vals = []
    for cn in calls:
        a = cn["a"][2]
        anc = w.anchors(a)
        vals.append("magicskip" if "m:ZSTD_MAGIC_SKIPPABLE_START" in anc else "magic" if "m:ZSTD_SEEKABLE_MAGICNUMBER" in anc
                    else "size" if "f:size" in anc and "f:entries" not in anc else
                    "c" if "f:cSize" in anc else "d" if "f:dSize" in anc else "k" if "f:checksum" in anc else "len")
    res.check(sorted(vals) == sorted(["magicskip", "len", "c", "d", "k", "size", "magic"]), "T7.layout", "writer:fields", w.loc,
              "writes skippable magic, length, (cSize,dSize,checksum)*, numFrames, descriptor, seekable magic", "seek table fields written: %s" % vals)
    sh = [x for _, _, x in w.events(lambda y: y.get("k") == "bin" and y.get("op") == "<<" and const_val(y["rhs"]) == 7)]
    rd = prog.fn("ZSTD_seekable_loadSeekTable")
    shr = [x for _, _, x in rd.events(lambda y: y.get("k") == "bin" and y.get("op") == ">>" and const_val(y["rhs"]) == 7)]
    res.check(bool(sh) and bool(shr), "T7.layout", "descriptor:checksum-bit", w.loc, "checksum flag is bit 7 on both sides",
              "writer (<<7) and reader (>>7) disagree on the checksum flag bit")
    res.need(R, 12)


def witnesses(prog, res):
    f = prog.fn("ZSTD_seekable_loadSeekTable")
    vals = {x.get("v") for _, _, x in f.events(lambda y: "ZSTD_seekTableFooterSize" in y.get("m", []) and y.get("k") == "int")}
    res.check(vals == {9}, "T7.layout", "footer-size", f.loc, "ZSTD_seekTableFooterSize == 9 (numFrames 4 + descriptor 1 + magic 4)",
              "footer size is %s" % sorted(vals))
    # reader offsets of the three footer fields
    offs = set()
    for b, i, x in f.events(lambda y: y.get("k") == "call" and y.get("c") == "MEM_readLE32"):
        a = strip_casts(x["a"][0])
        if a.get("k") == "bin" and a["op"] == "+":
            offs.add(const_val(a["rhs"]))
    res.check({5, 4} <= offs, "T7.layout", "reader:footer-offsets", f.loc, "magic read at +5, after numFrames(+0) and descriptor(+4)",
              "footer field offsets changed: %s" % sorted(o for o in offs if o is not None))


def reinit(prog, res):
    """T13: a ZSTD_seekable can be initialised again with another archive and another access mode.  The reader limits what one
    call may consume by `buffWrapper.size` (memory archives); that field belongs to the previous initialisation unless the
    new one goes through the object's own memory wrapper.  Every path through ZSTD_seekable_initAdvanced therefore either
    (re)writes buffWrapper or takes the edge on which the new source IS the object's memory wrapper.  And the table of the
    previous archive is released where the new one is installed."""
    R = "T13.reinit-resets-access-mode"
    f = prog.fn("ZSTD_seekable_initAdvanced")
    wr = f.find_roots(lambda x: x.get("k") == "asg" and x.get("op") == "=" and strip_casts(x["lhs"]).get("k") == "mem" and strip_casts(x["lhs"]).get("f") == "buffWrapper")
    is_opaque = lambda a: any(y.get("k") == "mem" and y.get("f") == "opaque" for y in walk(a))
    is_wrap = lambda b_: any(y.get("k") == "mem" and y.get("f") == "buffWrapper" for y in walk(b_))
    same = guards.rel_edges(f, is_opaque, "==", is_wrap, truth=True)
    loads = f.call_roots("ZSTD_seekable_loadSeekTable")
    ok = bool(loads) and (bool(wr) or bool(same)) and f.must_pass(via_roots=wr, via_edges=same, targets=loads)
    res.check(ok, R, "ZSTD_seekable_initAdvanced:buffWrapper", f.loc, "the memory wrapper is reset unless it is the new source",
              "ZSTD_seekable_initAdvanced keeps the buffWrapper of a previous memory archive: after initBuff(A), initFile(B) the reader refuses "
              "(seekableIO) any call that consumes more than sizeof(A) compressed bytes of B")
    g = prog.fn("ZSTD_seekable_decompress")
    uses = [x for b, i, x in g.events(lambda y: y.get("k") == "mem" and y.get("f") == "size") if any(z.get("f") == "buffWrapper" for z in walk(x))]
    res.check(len(uses) >= 1, R, "ZSTD_seekable_decompress:reads-buffWrapper.size", g.loc, "%d read(s) of buffWrapper.size" % len(uses),
              "the reader no longer consults buffWrapper.size: the rule above has lost its reason (re-read the reader)")
    h = prog.fn("ZSTD_seekable_loadSeekTable")
    inst = h.find_roots(lambda x: x.get("k") == "asg" and x.get("op") == "=" and strip_casts(x["lhs"]).get("k") == "mem" and strip_casts(x["lhs"]).get("f") == "entries")
    fr = [t for t in h.call_roots("free") if any(y.get("k") == "mem" and y.get("f") == "entries" for y in walk(h.blocks[t[0]]["el"][t[1]]))]
    res.check(bool(inst) and bool(fr) and h.must_pass(via_roots=fr, targets=inst), R, "ZSTD_seekable_loadSeekTable:previous-table-released", h.loc,
              "seekTable.entries is freed before it is overwritten", "ZSTD_seekable_loadSeekTable overwrites seekTable.entries without releasing the previous table (leak on re-initialisation)")
    res.need(R, 3)


def seek_table_writer_is_resumable(prog, res):
    """T3: ZSTD_seekable_endStream may be called with output buffers of any size: the seek table writer stops anywhere, even inside a
    32-bit word, and resumes from fl->seekTablePos.  Every statement that advances seekTablePos (other than the resets to 0) is
    therefore reached only through a test of seekTablePos itself - the position decides what is written next, not the room that
    happens to be left - and the table's words are written by the resumable ZSTD_stwrite32 only (no direct store into the output)."""
    R = "T3.seek-table-writer-resumable"
    n = 0
    for f in prog.fns_in("seekable_format/zstdseek_compress.c"):
        adv = [(b, i) for b, i, x in f.events(lambda y: (y.get("k") == "asg" and strip_casts(y["lhs"]).get("k") == "mem" and strip_casts(y["lhs"]).get("f") == "seekTablePos"
                                                          and not (y.get("op") == "=" and const_val(y["rhs"]) == 0))
                                               or (y.get("k") == "un" and y.get("op", "").endswith(("++", "--")) and strip_casts(y["e"]).get("f") == "seekTablePos"))]
        if not adv:
            continue
        tests = [(bid, s_) for bid, cond, t, fl in f.branches() if any(y.get("k") == "mem" and y.get("f") == "seekTablePos" for y in f.walk_resolved(f.resolve_x(cond))) for s_ in (t, fl)]
        for a in adv:
            n += 1
            res.check(bool(tests) and f.must_pass(via_edges=tests, targets=[a]), R, "%s:advance@%s" % (f.name, f.blocks[a[0]]["el"][a[1]].get("l")), f.loc,
                      "seekTablePos advances only after a test of seekTablePos",
                      "%s advances seekTablePos on a path that never looked at it: a call that resumes inside an entry (small output buffers) writes that entry again "
                      "in full, the position overshoots, footer words are skipped and ZSTD_seekable_endStream still reports completion - the archive cannot be read back" % f.name)
    w = prog.fn("ZSTD_seekable_writeSeekTable")
    direct = [c.get("c") for b, i, c in w.calls(("MEM_writeLE32", "MEM_writeLE64", "MEM_writeLE16", "memcpy", "__builtin_memcpy"))]
    res.check(not direct and len(w.call_roots("ZSTD_stwrite32")) >= 5, R, "writeSeekTable:words-through-the-resumable-writer", w.loc,
              "every 32-bit word of the table goes through ZSTD_stwrite32", "ZSTD_seekable_writeSeekTable stores table words directly (%s): such a store cannot resume inside a word" % direct)
    res.need(R, 3)


def run(tier):
    res = Result("C20", tier)
    tus, info = extract(["seekable", "common", "compress", "decompress"])
    prog = Program(tus)
    res.info = info
    accessor_siblings(prog, res)
    table_alloc(prog, res)
    load_cuts(prog, res)
    io_discipline(prog, res)
    compressor(prog, res)
    witnesses(prog, res)
    reinit(prog, res)
    seek_table_writer_is_resumable(prog, res)
    t4_common.run(prog, res, "T4.error-discipline", ["contrib/seekable_format/"], 12)
    # reading at or beyond the end: `eos - offset` is only computed when offset < eos
    f = prog.fn("ZSTD_seekable_decompress")
    subs = []
    for b, i, r in f.roots():
        for x in walk(r):
            if x.get("k") == "bin" and x.get("op") == "-" and "v" not in x:
                rr = strip_casts(f.resolve_x(x["rhs"]))
                if rr is not None and rr.get("k") == "ref" and rr.get("rk") == "p" and rr.get("pi") == 3 and "f:dOffset" in f.anchors(x["lhs"], depth=2):
                    subs.append((b, i, x))
    okedges = guards.rel_edges(f, lambda a: a.get("k") == "ref" and a.get("rk") == "p" and a.get("pi") == 3, ">=", lambda b_: "f:dOffset" in f.anchors(b_, depth=2), truth=False) + \
        guards.rel_edges(f, lambda a: a.get("k") == "ref" and a.get("rk") == "p" and a.get("pi") == 3, ">", lambda b_: "f:dOffset" in f.anchors(b_, depth=2), truth=False)
    res.check(bool(subs) and bool(okedges) and f.must_pass(via_edges=set(okedges), targets=[(b, i) for b, i, _ in subs]), "T8.read-range-clamp", "eos-minus-offset-needs-offset-below-eos", f.loc,
              "the length clamp `eos - offset` is computed only on the `offset < eos` edge", "ZSTD_seekable_decompress computes eos - offset for an offset beyond the end: the difference wraps and is returned as the number of bytes read")
    res.need("T8.read-range-clamp", 1)
    # a frame's checksum is verified when the frame COMPLETES; a read can only end without completion inside the frame it is
    # reading.  So no frame may be given room beyond its own end in the table: every output buffer built on the caller's dst
    # has a size that derives from the seek table's dOffset (the frame's end), not from the request length alone.
    outs = []
    for b, i, r in f.roots():
        for x in walk(r):
            if x.get("k") == "init" and "ZSTD_outBuffer" in (x.get("t") or "") and len(x.get("a", [])) == 3:
                d0 = strip_casts(f.resolve_x(x["a"][0]))
                if d0 is not None and d0.get("k") == "ref" and d0.get("rk") == "p":
                    outs.append(x)
    res.check(len(outs) >= 1, "T8.frame-output-capped", "sites", f.loc, "%d output buffer(s) built on the caller's dst" % len(outs), "output buffer on the caller's dst not found")
    for x in outs:
        anc = f.anchors(x["a"][1], depth=3)
        res.check("f:dOffset" in anc, "T8.frame-output-capped", "ZSTD_seekable_decompress@%s" % (x.get("l") or ""), f.loc,
                  "room given to a frame is bounded by the frame's end in the seek table",
                  "ZSTD_seekable_decompress hands a frame the whole rest of the caller's buffer: a corrupted frame that regenerates more than its table entry "
                  "says fills the following offsets, the read ends without the frame completing and without any checksum - wrong data returned as success")
    res.need("T8.frame-output-capped", 2)
    # ... and a read that ends exactly at a frame's end goes on until the frame completes (that is where both checksums are
    # compared): the decoding loop is re-entered on `decompressedOffset == <frame end from the table>`
    dec = f.call_roots("ZSTD_decompressStream")
    atend = guards.rel_edges(f, lambda a: any(y.get("f") == "decompressedOffset" for y in f.walk_resolved(a)), "==",
                             lambda b_: "f:dOffset" in f.anchors(b_, depth=3), truth=True)
    # it must be the LOOP's own condition: the test that follows, on its false edge, the `decompressedOffset < offset + len` test of the
    # loop header (the same comparison also appears as a verdict after the frame completes; that one does not keep the loop going)
    short = guards.rel_edges(f, lambda a: any(y.get("f") == "decompressedOffset" for y in f.walk_resolved(a)), "<",
                             lambda b_: any(strip_casts(y).get("rk") == "p" for y in f.walk_resolved(b_)), truth=False)
    after_short = {e[1] for e in short}
    short_blocks = {e[0] for e in short}
    atend_false = guards.rel_edges(f, lambda a: any(y.get("f") == "decompressedOffset" for y in f.walk_resolved(a)), "==",
                                   lambda b_: "f:dOffset" in f.anchors(b_, depth=3), truth=False)
    first = {e[0] for e in atend_false if e[1] in short_blocks}     # `(x == end) || (x < offset + len)`: the other order of the same condition
    atend = [e for e in atend if e[0] in after_short or e[0] in first]
    ok = bool(dec) and bool(atend) and any(d in f.flow([(e[1], 0)]) for e in atend for d in dec)
    res.check(ok, "T3.cut", "whole-frame-read-completes-the-frame", f.loc, "the decoding loop continues while decompressedOffset equals the frame's end in the table",
              "ZSTD_seekable_decompress stops as soon as the requested bytes are produced even when the read ends where the frame ends: the frame never "
              "completes, neither checksum is compared, and damaged content of a whole frame is returned as success")
    # the table size is computed in 32 bits from the announced frame count: the count is bounded by the format's maximum before
    # the table is allocated or walked, and with that bound the 32-bit size cannot wrap
    from ..rules.linear import macro_value
    ld = prog.fn("ZSTD_seekable_loadSeekTable")
    al = ld.call_roots(("malloc", "calloc"))
    guards.require(ld, res, "T11.seek-table-extent", "frame-count-bounded-before-allocation",
                   Want(None, ">", {"c:MEM_readLE32"}, {"m:ZSTD_SEEKABLE_MAXFRAMES"}), al,
                   why="(a wrapped 32-bit table size passes every consistency test: a 34-byte archive is accepted with 2^29 entries)")
    mx = macro_value(prog, "ZSTD_SEEKABLE_MAXFRAMES", [ld] + list(prog.fns_in("seekable_format/zstdseek_compress.c")))
    res.check(isinstance(mx, int) and 12 * mx + 9 + 8 < (1 << 32), "T11.seek-table-extent", "table-size-fits-32-bits", ld.loc,
              "12 * ZSTD_SEEKABLE_MAXFRAMES + footer + header = %s < 2^32" % (12 * mx + 17 if isinstance(mx, int) else "?"),
              "with ZSTD_SEEKABLE_MAXFRAMES = %s the 32-bit seek table size can wrap" % mx)
    # the checksum flag is an int used as a truth value for the entry layout (12-byte entries when non-zero) and shifted into
    # ONE bit of the descriptor byte: both uses agree only for 0/1, so either the shift operand or every writer normalises it
    def boolish(fn, n):
        n = strip_casts(fn.resolve_x(n))
        if n is None:
            return False
        if n.get("k") == "paren":
            return boolish(fn, n.get("e"))
        if const_val(n) in (0, 1):
            return True
        if n.get("k") == "bin" and (n.get("op") in ("==", "!=", "<", ">", "<=", ">=", "&&", "||") or (n.get("op") == "&" and 1 in (const_val(n["lhs"]), const_val(n["rhs"])))):
            return True
        if n.get("k") == "un" and n.get("op") == "!":
            return True
        if n.get("k") == "cond":
            return boolish(fn, n["t"]) and boolish(fn, n["f"])
        return False
    shifts, writers = [], []
    for g in prog.fns_in("seekable_format/zstdseek_compress.c"):
        for b, i, r in g.roots():
            for x in walk(r):
                if x.get("k") == "bin" and x.get("op") == "<<" and any(y.get("k") == "mem" and y.get("f") == "checksumFlag" for y in g.walk_resolved(x["lhs"])):
                    shifts.append((g, x))
                if x.get("k") == "asg" and strip_casts(x["lhs"]).get("k") == "mem" and strip_casts(x["lhs"]).get("f") == "checksumFlag":
                    writers.append((g, x))
    okw = bool(writers) and all(boolish(g, x["rhs"]) for g, x in writers)
    oks = bool(shifts) and all(boolish(g, x["lhs"]) for g, x in shifts)
    res.check(bool(shifts) and (okw or oks), "T7.layout", "checksum-flag-is-one-bit", "contrib/seekable_format/zstdseek_compress.c",
              "the flag shifted into the descriptor bit is normalised to 0/1 (%d writer(s), %d shift(s))" % (len(writers), len(shifts)),
              "the checksum flag decides the entry size as a truth value but is shifted into the descriptor byte unnormalised: an even non-zero value "
              "writes 12-byte entries under a descriptor that says 8, and the reader cannot read the archive")
    # frozen guards of the seekable format (all error codes)
    import json as _json, os as _os
    _inv = _json.load(open(_os.path.join(_os.path.dirname(_os.path.abspath(__file__)), "inv", "C20.json")))
    guards.check_inventory(prog, res, "T8.frozen-guards(seekable)", _inv)
    res.need("T8.frozen-guards(seekable)", 20)
    return res.finish(
        explanation="Frame-index accessors all refuse index >= tableLen before subscripting (the table has tableLen+1 "
                    "cells); allocation, fill loop and tableLen agree; loading is cut by the magic / reserved-bit / size "
                    "tests; per-frame checksum comparison cuts success on the frame-complete edge; checksum state is "
                    "reset on every seek and fed with every output; IO callback and library results are tested.",
        not_decided="that range reads equal the original bytes; offset arithmetic for offsets beyond the end",
        assumptions=["contrib/seekable_format compiled with the flags of its examples Makefile"])
