"""C05 — everything the compressor emits is a conformant, truthful frame.
Static clauses: frame-header writer / reader / format-document agreement on descriptor bit
positions, field widths per size code, thresholds and biases (T7); truthful header arguments
(provenance, T10/T3); checksum updated exactly once over the consumed input and digested at
the end (T3/T10); window enforcement order before every block (T3); RLE-not-first, minGain
and 4-byte-tail guards (T3).  Not decided: validity of every emitted frame; offsets <= window."""
from ..facts import extract, Broken
from ..ir import Program, walk, is_call, strip_casts, const_val
from ..report import Result
from ..rules import reset, guards, tables
from ..rules.guards import cond_edges, Want


def switch_regions(f):
    """{switch block id: {case value or 'default': set(nodes)}}: nodes of each case body,
    i.e. reachable from the case label but not common to all cases of that switch."""
    out = {}
    for bid, b in f.blocks.items():
        if b.get("term") != "switch":
            continue
        cases = {}
        for s in f.succs(bid):
            lab = f.blocks[s].get("label")
            if lab and lab["k"] == "case":
                cases[lab.get("v")] = s
            elif lab and lab["k"] == "default":
                cases["default"] = s
        if not cases:
            continue
        reach = {k: f.flow([(s, 0)]) for k, s in cases.items()}
        common = set.intersection(*reach.values()) if len(reach) > 1 else set()
        # a case whose label block itself is in `common` (pure `break`) has an empty body
        out[bid] = {k: (r - common) for k, r in reach.items()}
        out[bid]["_cond"] = b["el"][-1] if b["el"] else None
    return out


def region_effects(f, nodes, pos_name_pred):
    """(set of MEM_* callee names, total constant increment of the position variable, byte-store?, constants seen)"""
    callees, inc, bytestore, consts = set(), 0, False, set()
    for (b, i) in sorted(nodes):
        if i >= len(f.blocks[b]["el"]):
            continue
        for x in walk(f.blocks[b]["el"][i]):
            k = x.get("k")
            if k == "call" and (x.get("c") or "").startswith(("MEM_write", "MEM_read")):
                callees.add(x["c"])
                for y in walk(x):
                    if y.get("k") == "bin" and y["op"] in ("-", "+") and const_val(y["rhs"]) is not None:
                        consts.add((y["op"], const_val(y["rhs"])))
            elif k == "asg" and x.get("op") == "+=" and pos_name_pred(strip_casts(x["lhs"])):
                inc += const_val(x["rhs"]) or 0
            elif k == "un" and x.get("op", "").endswith("++") and pos_name_pred(strip_casts(x["e"])):
                inc += 1
            elif k == "asg" and x.get("op") == "=" and strip_casts(x["lhs"]).get("k") == "idx":
                bytestore = True
            elif k == "idx" and pos_name_pred(strip_casts(x["i"]) if strip_casts(x["i"]).get("k") == "ref" else {}):
                bytestore = True
            if k == "bin" and x["op"] == "+" and const_val(x["rhs"]) == 256:
                consts.add(("+", 256))
    return callees, inc, bytestore, consts


def header_agreement(prog, res):
    R = "T7.frame-header"
    w = prog.fn("ZSTD_writeFrameHeader")
    r = prog.fn("ZSTD_getFrameHeader_advanced")
    did = tables.ints(prog.glob("ZSTD_did_fieldSize")["init"])
    fcs = tables.ints(prog.glob("ZSTD_fcs_fieldSize")["init"])
    res.check(did == [0, 1, 2, 4] and fcs == [0, 2, 4, 8], R, "field-size-tables", "lib/common/zstd_internal.h", "did {0,1,2,4}, fcs {0,2,4,8} (format document)",
              "field size tables changed: %s %s" % (did, fcs))
    # descriptor byte: writer shifts vs reader shifts
    desc = None
    for name, defs in w.local_defs().items():
        for d in defs:
            if d is not None and {"<<"} <= {y.get("op") for y in walk(d) if y.get("k") == "bin"} and \
                    len([y for y in walk(d) if y.get("k") == "bin" and y["op"] == "<<"]) == 3 and name.startswith("frameHeaderDescriptionByte"):
                desc = d
    wsh = sorted(const_val(y["rhs"]) for y in walk(desc) if y.get("k") == "bin" and y["op"] == "<<") if desc else []
    res.check(wsh == [2, 5, 6], R, "writer:descriptor-bits", w.loc, "checksum<<2, singleSegment<<5, fcsCode<<6, dictID code in bits 0-1",
              "descriptor byte assembled with shifts %s" % wsh)
    rsh = sorted({const_val(y["rhs"]) for _, _, y in r.events(lambda y: y.get("k") == "bin" and y.get("op") == ">>" and
                                                                 any(z.get("k") == "ref" and z.get("n", "").startswith("fhdByte") for z in walk(y["lhs"])))})
    res.check(rsh == [2, 5, 6], R, "reader:descriptor-bits", r.loc, "reads >>2, >>5, >>6", "reader extracts descriptor bits with shifts %s" % rsh)
    masks = sorted({const_val(y["rhs"]) for _, _, y in r.events(lambda y: y.get("k") == "bin" and y.get("op") == "&" and
                                                                   any(z.get("k") == "ref" and z.get("n", "").startswith("fhdByte") for z in walk(y["lhs"])))})
    res.check(3 in masks and 8 in masks, R, "reader:dictID-mask-and-reserved-bit", r.loc, "dictID code = fhd & 3, reserved bit 0x08 tested",
              "reader masks on the descriptor byte: %s" % masks)
    gs = guards.guard_sites(r)
    resv = [g for g in gs if "frameParameter_unsupported" in g.codes and "k:8" in (g.L | g.R)]
    res.check(bool(resv), R, "reader:reserved-bit-rejected", r.loc, "a set reserved bit is rejected", "reserved bit no longer rejected")
    # writer never sets the reserved bit: all shifts are 2,5,6 and dictID code <= 3 (two bits)
    # thresholds of the content-size code and of the dictID size code
    def def_consts(name_prefix):
        out = set()
        for name, defs in w.local_defs().items():
            if name.startswith(name_prefix):
                for d in defs:
                    if d is None:
                        continue
                    for y in walk(d):
                        if y.get("k") == "bin" and y["op"] in (">=", ">") and const_val(y["rhs"]) is not None:
                            out.add((y["op"], const_val(y["rhs"])))
                        if y.get("k") == "x":
                            yy = w.resolve_x(y)
                            for z in walk(yy):
                                if z.get("k") == "bin" and z["op"] in (">=", ">") and const_val(z["rhs"]) is not None:
                                    out.add((z["op"], const_val(z["rhs"])))
        return out
    fcs_thr = def_consts("fcsCode")
    res.check({(">=", 256), (">=", 65536 + 256), (">=", 0xFFFFFFFF)} <= fcs_thr, R, "writer:fcs-thresholds", w.loc,
              "content size code thresholds 256, 65536+256, 0xFFFFFFFF (format document field sizes 1/2/4/8 with the 256 bias)",
              "content-size code thresholds are %s" % sorted(fcs_thr))
    did_thr = def_consts("dictIDSizeCodeLength")
    res.check({(">", 0), (">=", 256), (">=", 65536)} <= did_thr, R, "writer:dictID-thresholds", w.loc, "dictID field size thresholds 1, 256, 65536",
              "dictID size thresholds are %s" % sorted(did_thr))
    # per-case widths, writer and reader
    for f, side, posname in ((w, "writer", "pos"), (r, "reader", "pos")):
        regs = switch_regions(f)
        found = {}
        for sb, cases in regs.items():
            cond = cases.get("_cond")
            anc = f.anchors(cond, depth=3) if cond is not None else set()
            kind = None
            if side == "writer":
                kind = "did" if "f:noDictIDFlag" in anc else ("fcs" if "f:contentSizeFlag" in anc else None)
            else:
                sh = f.shape(cond, depth=3)
                kind = "did" if "&3" in sh or "3&" in sh else ("fcs" if ">>6" in sh else None)
            if kind:
                found[kind] = cases
        res.check(set(found) == {"did", "fcs"}, R, side + ":two-switches", f.loc, "dictID-size and content-size switches found",
                  "switches on the two size codes not found (%s)" % sorted(found))
        pp = lambda e: e.get("k") == "ref" and e.get("n", "").split("#")[0] == posname
        want = {"did": {1: (1, set()), 2: (2, {"LE16"}), 3: (4, {"LE32"})},
                "fcs": {1: (2, {"LE16"}), 2: (4, {"LE32"}), 3: (8, {"LE64"})}}
        for kind, cases in found.items():
            for v, (width, kinds) in want[kind].items():
                nodes = cases.get(v, set())
                callees, inc, bytestore, consts = region_effects(f, nodes, pp)
                sizes = {c[-4:] for c in callees}
                ok = sizes == kinds
                if side == "writer" or kind == "did":
                    ok = ok and inc == width
                res.check(ok, R, "%s:%s-code-%d" % (side, kind, v), f.loc, "%d-byte field (%s)" % (width, "/".join(sorted(kinds)) or "byte"),
                          "%s writes/reads code %d of the %s field as %s with position step %s (format: %d bytes)" % (side, v, kind, sorted(callees), inc, width))
            if kind == "fcs":
                callees, inc, bytestore, consts = region_effects(f, cases.get(1, set()), pp)
                bias = ("-", 256) in consts if side == "writer" else ("+", 256) in consts
                res.check(bias, R, side + ":fcs-2-byte-bias", f.loc, "2-byte content size is stored minus 256 / read plus 256",
                          "the 256 bias of the 2-byte content-size field is missing on the %s side" % side)
    # window descriptor
    wl = [d for n, ds in w.local_defs().items() if n.startswith("windowLogByte") for d in ds if d is not None]
    okw = bool(wl) and any(y.get("k") == "bin" and y["op"] == "<<" and const_val(y["rhs"]) == 3 for y in walk(wl[0])) and \
        any("ZSTD_WINDOWLOG_ABSOLUTEMIN" in y.get("m", []) for y in walk(wl[0]))
    res.check(okw, R, "writer:window-descriptor", w.loc, "(windowLog - ABSOLUTEMIN) << 3", "window descriptor byte changed")
    rwl = [y for _, _, y in r.events(lambda y: y.get("k") == "bin" and y.get("op") == "+" and any("ZSTD_WINDOWLOG_ABSOLUTEMIN" in z.get("m", []) for z in walk(y)))
           if any(z.get("k") == "bin" and z["op"] == ">>" and const_val(z["rhs"]) == 3 for z in walk(y))]
    res.check(bool(rwl), R, "reader:window-descriptor", r.loc, "(wlByte >> 3) + ABSOLUTEMIN", "reader no longer decodes the window descriptor as exponent<<3")
    res.need(R, 24)


def truthful_arguments(prog, res):
    R = "T10.truthful-header"
    # pledgedSrcSize argument is pledgedSrcSizePlusOne-1 and dictID is cctx->dictID
    f = prog.fn("ZSTD_compressContinue_internal")
    calls = [c for b, i, c in f.calls("ZSTD_writeFrameHeader")]
    ok = len(calls) == 1
    if ok:
        a3 = f.shape(calls[0]["a"][3]); a4 = f.shape(calls[0]["a"][4])
        ok = "pledgedSrcSizePlusOne" in a3 and "-1" in a3.replace(" ", "") and a4.endswith(".dictID")
    res.check(ok, R, "compressContinue_internal:header-args", f.loc, "content size = pledgedSrcSizePlusOne-1, dictID = cctx->dictID",
              "frame header written with other values than the pledged size and the context's dictID")
    g = prog.fn("ZSTD_compressSequences")
    calls = [c for b, i, c in g.calls("ZSTD_writeFrameHeader")]
    ok = len(calls) == 1 and strip_casts(calls[0]["a"][3]).get("n") == "srcSize" and g.shape(calls[0]["a"][4]).endswith(".dictID")
    res.check(ok, R, "compressSequences:header-args", g.loc, "content size = srcSize, dictID = cctx->dictID", "header arguments changed")
    # contentSizeFlag cleared when the size is unknown
    h = prog.fn("ZSTD_resetCCtx_internal")
    clr = h.find_roots(lambda x: x.get("k") == "asg" and strip_casts(x["lhs"]).get("f") == "contentSizeFlag" and const_val(x["rhs"]) == 0)
    unk = cond_edges(h, lambda c: c.get("k") == "bin" and c["op"] == "==" and const_val(c["rhs"]) == -1, "true")
    res.check(bool(clr) and bool(unk) and h.must_pass(via_edges=unk, targets=clr) and h.must_pass(via_roots=clr, starts=[(e[1], 0) for e in unk]),
              R, "resetCCtx:no-content-size-when-unknown", h.loc, "contentSizeFlag = 0 exactly on the pledged == UNKNOWN edge",
              "content-size flag is not cleared for an unknown size (the header would carry a wrong size)")
    # dictID recorded at begin
    b = prog.fn("ZSTD_compressBegin_internal")
    wr = b.find_roots(lambda x: x.get("k") == "asg" and strip_casts(x["lhs"]).get("f") == "dictID")
    ok = bool(wr)
    for bb, ii in wr:
        for x in walk(b.blocks[bb]["el"][ii]):
            if x.get("k") == "asg" and strip_casts(x["lhs"]).get("f") == "dictID":
                anc = b.anchors(x["rhs"])
                ok = ok and ("c:ZSTD_compress_insertDictionary" in anc or "f:dictID" in anc)
    res.check(ok, R, "compressBegin:dictID-from-dictionary", b.loc, "cctx->dictID comes from the loaded dictionary / CDict", "cctx->dictID assigned from something else")
    res.need(R, 4)


def checksum_discipline(prog, res):
    R = "T3.checksum"
    f = prog.fn("ZSTD_compress_frameChunk")
    upd = f.find_roots(lambda x: x.get("k") == "call" and "XXH64_update" in (x.get("c") or ""))
    ok = len(upd) == 1
    if ok:
        c = [x for x in walk(f.blocks[upd[0][0]]["el"][upd[0][1]]) if x.get("k") == "call" and "XXH64_update" in (x.get("c") or "")][0]
        ok = strip_casts(c["a"][1]).get("pi") == 3 and strip_casts(c["a"][2]).get("pi") == 4 and "xxhState" in {y["f"] for y in walk(c["a"][0]) if y.get("k") == "mem"}
    res.check(ok, R, "frameChunk:update-over-own-input", f.loc, "XXH64_update(&cctx->xxhState, src, srcSize) with the function's own parameters",
              "checksum is not updated over exactly the chunk being compressed")
    flag = cond_edges(f, lambda c: c.get("k") == "mem" and c["f"] == "checksumFlag", "false") + \
        cond_edges(f, lambda c: c.get("k") == "ref" and c.get("rk") == "p" and c.get("pi") == 4, "false")
    blocks = f.call_roots(("ZSTD_compressBlock_internal", "ZSTD_compressBlock_splitBlock", "ZSTD_compressBlock_targetCBlockSize"))
    res.check(bool(upd) and f.must_pass(via_roots=upd, via_edges=flag, targets=blocks), R, "frameChunk:update-before-blocks", f.loc,
              "with checksumFlag the update precedes every block compression", "blocks can be compressed without their bytes entering the checksum")
    # not in a loop: one update per chunk
    res.check(bool(upd) and upd[0] not in f.flow([(upd[0][0], upd[0][1] + 1)]), R, "frameChunk:update-once", f.loc, "update executes once per chunk",
              "checksum update sits in a loop")
    # who updates cctx->xxhState in lib/compress
    users = sorted({g.name for g in prog.fns_in("lib/compress/zstd_compress.c") for _, _, x in g.events(
        lambda y: y.get("k") == "call" and "XXH64_update" in (y.get("c") or ""))})
    res.check(users == ["ZSTD_compressSequences", "ZSTD_compress_frameChunk"], R, "who-updates-the-frame-checksum", "lib/compress/zstd_compress.c",
              "only ZSTD_compress_frameChunk and ZSTD_compressSequences feed the frame checksum", "checksum updated from %s" % users)
    r = prog.fn("ZSTD_resetCCtx_internal")
    rs = r.find_roots(lambda x: x.get("k") == "call" and "XXH64_reset" in (x.get("c") or ""))
    res.check(bool(rs) and r.must_pass(via_roots=rs, targets=guards.success_nodes(r)), R, "resetCCtx:checksum-reset", r.loc, "XXH64_reset on every successful reset",
              "a frame can start with a stale checksum state")
    e = prog.fn("ZSTD_writeEpilogue")
    dg = e.find_roots(lambda x: x.get("k") == "call" and "XXH64_digest" in (x.get("c") or ""))
    w32 = [(b, i) for b, i, c in e.calls("MEM_writeLE32")]
    fl = cond_edges(e, lambda c: c.get("k") == "mem" and c["f"] == "checksumFlag", "true")
    ok = len(dg) == 1 and len(w32) == 1 and bool(fl) and e.must_pass(via_edges=fl, targets=w32) and e.must_pass(via_roots=dg, targets=w32)
    if ok:
        c = [c for b, i, c in e.calls("MEM_writeLE32")][0]
        ok = "m:XXH64_digest" in e.anchors(c["a"][1]) or any("XXH64_digest" in a for a in e.anchors(c["a"][1]))
    res.check(ok, R, "writeEpilogue:digest-written-under-flag", e.loc, "the 4 bytes written are (U32)XXH64_digest(&cctx->xxhState), only under checksumFlag",
              "epilogue checksum is not the digest of the frame's checksum state")
    noflag = cond_edges(e, lambda c: c.get("k") == "mem" and c["f"] == "checksumFlag", "false")
    res.check(bool(w32) and e.must_pass(via_roots=w32, via_edges=noflag, targets=guards.success_nodes(e)), R, "writeEpilogue:checksum-always-written-when-flagged", e.loc,
              "with checksumFlag every successful epilogue writes the checksum", "a flagged frame can end without its checksum")
    res.need(R, 7)


def window_enforcement(prog, res):
    R = "T3.window-before-block"
    f = prog.fn("ZSTD_compress_frameChunk")
    seq = ["ZSTD_overflowCorrectIfNeeded", "ZSTD_checkDictValidity", "ZSTD_window_enforceMaxDist"]
    roots = [f.call_roots(n) for n in seq]
    blocks = f.call_roots(("ZSTD_compressBlock_internal", "ZSTD_compressBlock_splitBlock", "ZSTD_compressBlock_targetCBlockSize"))
    res.check(len(blocks) == 3 and all(len(r) == 1 for r in roots), R, "shape", f.loc, "3 block compressors, 3 maintenance calls", "shape changed")
    for n, r in zip(seq, roots):
        # within the loop iteration: from the previous block call, the next block call passes the maintenance call again
        ok = bool(r) and f.must_pass(via_roots=r, targets=blocks) and f.must_pass(via_roots=r, starts=[(b, i + 1) for b, i in blocks], targets=blocks)
        res.check(ok, R, "%s-before-every-block" % n, f.loc, "passed before each block, again in every iteration",
                  "a block can be compressed without %s having run for it" % n)
    for a, b in zip(roots, roots[1:]):
        if a and b:
            res.check(f.must_pass(via_roots=a, targets=b), R, "order:%s" % f.blocks[b[0][0]]["el"][b[0][1]].get("c", ""), f.loc, "maintenance calls in order", "maintenance order changed")
    md = [d for n, ds in f.local_defs().items() if n.startswith("maxDist") for d in ds if d is not None]
    ok = bool(md) and any(y.get("k") == "bin" and y["op"] == "<<" and const_val(y["lhs"]) == 1 for y in walk(md[0])) and "f:windowLog" in f.anchors(md[0])
    res.check(ok, R, "maxDist-is-window-size", f.loc, "maxDist = 1 << windowLog", "maxDist no longer derives from the declared windowLog")
    for cal in ("ZSTD_checkDictValidity", "ZSTD_window_enforceMaxDist"):
        cs = [c for b, i, c in f.calls(cal)]
        if not cs:
            continue     # already reported by the before-every-block instance
        c = cs[0]
        res.check(any(strip_casts(a).get("n", "").startswith("maxDist") for a in c["a"]), R, cal + ":maxDist-arg", f.loc, "receives maxDist", "does not receive maxDist")
    # long-distance matcher: it relies on the window limits alone, so the limit must be enforced for the END of each chunk
    l = prog.fn("ZSTD_ldm_generateSequences")
    enf = [c for b, i, c in l.calls("ZSTD_window_enforceMaxDist")]
    gen = [c for b, i, c in l.calls("ZSTD_ldm_generateSequences_internal")]
    ok = len(enf) == 1 and len(gen) == 1
    if ok:
        # identity of locals inside this one function (names are compared with each other, never frozen)
        end = strip_casts(enf[0]["a"][1]).get("n")
        start = strip_casts(gen[0]["a"][3]).get("n")
        szd = l.single_def(strip_casts(gen[0]["a"][4]).get("n", "")) if strip_casts(gen[0]["a"][4]).get("k") == "ref" else None
        szd = strip_casts(szd) if szd is not None else None
        ok = bool(end) and bool(start) and end != start and szd is not None and szd.get("k") == "bin" and szd["op"] == "-" and \
            strip_casts(szd["lhs"]).get("n") == end and strip_casts(szd["rhs"]).get("n") == start
    res.check(ok, R, "ldm:max-distance-enforced-at-chunk-end", l.loc,
              "ZSTD_window_enforceMaxDist is given the end of the chunk that ZSTD_ldm_generateSequences_internal then scans",
              "the long-distance matcher enforces the window for another position than the end of the chunk it scans: matches "
              "further back than the declared window become possible")
    er, gr = l.call_roots("ZSTD_window_enforceMaxDist"), l.call_roots("ZSTD_ldm_generateSequences_internal")
    res.check(bool(er) and bool(gr) and l.must_pass(via_roots=er, targets=gr) and l.must_pass(via_roots=er, starts=[(b, i + 1) for b, i in gr], targets=gr),
              R, "ldm:enforce-before-every-chunk", l.loc, "enforcement precedes the scan of every chunk", "a chunk can be scanned without enforcing the window first")
    md = [c for b, i, c in l.calls("ZSTD_window_enforceMaxDist")]
    mdl = [d for n, ds in l.local_defs().items() if n.startswith("maxDist") for d in ds if d is not None]
    res.check(bool(mdl) and any(y.get("k") == "bin" and y["op"] == "<<" for y in walk(mdl[0])) and "f:windowLog" in l.anchors(mdl[0]), R,
              "ldm:maxDist-is-window-size", l.loc, "maxDist = 1 << windowLog", "LDM maxDist no longer derives from windowLog")
    callers = {c.name for n in ("ZSTD_compressBlock_internal", "ZSTD_compressBlock_splitBlock", "ZSTD_compressBlock_targetCBlockSize")
               for c in prog.callers().get(n, [])}
    res.check(callers <= {"ZSTD_compress_frameChunk", "ZSTD_compressContinue_internal"}, "T10.block-entry", "block-compressor-callers", f.loc,
              "block compression only from frameChunk / block-mode compressContinue", "new caller of the block compressors: %s" % sorted(callers))
    bs = {c.name for c in prog.callers().get("ZSTD_buildSeqStore", [])}
    res.check(bs <= {"ZSTD_compressBlock_internal", "ZSTD_compressBlock_splitBlock", "ZSTD_compressBlock_targetCBlockSize", "ZSTD_compressBlock_splitBlock_internal"},
              "T10.block-entry", "buildSeqStore-callers", f.loc, "sequence store built only by the three block compressors", "new caller of ZSTD_buildSeqStore: %s" % sorted(bs))
    res.need(R, 9)


def interop_rules(prog, res):
    R = "T3.interop-rules"
    # RLE never as first block of a frame
    for fname in ("ZSTD_compressBlock_internal", "ZSTD_compressBlock_targetCBlockSize_body", "ZSTD_compressSeqStore_singleBlock", "ZSTD_compressSequences_internal"):
        f = prog.fn(fname)
        first = cond_edges(f, lambda c: c.get("k") == "mem" and c["f"] == "isFirstBlock", "false")
        rle = f.find_roots(lambda x: is_call(x, "ZSTD_isRLE"))
        ok = bool(first) and bool(rle) and f.must_pass(via_edges=first, targets=rle)
        res.check(ok, R, fname + ":rle-not-first", f.loc, "an RLE block is considered only when !isFirstBlock",
                  "an RLE block can be emitted as the first block of a frame (old decoders reject it)")
    g = prog.fn("ZSTD_entropyCompressSeqStore_internal")
    tail = cond_edges(g, lambda c: c.get("k") == "bin" and c["op"] == "<" and const_val(c["rhs"]) == 4, "false")
    if tail:   # `lastCountSize && (lastCountSize + bitstreamSize) < 4`: no table written in this block => nothing to protect
        tb = {e[0] for e in tail}
        tail += [(bid, fl) for bid, cond, t, fl in g.branches() if t in tb and strip_casts(g.resolve_x(cond)).get("k") == "ref"]
    enc = g.call_roots("ZSTD_encodeSequences")
    succ = [n for n in guards.success_nodes(g) if n in g.flow([(b, i + 1) for b, i in enc])
            and const_val(g.blocks[n[0]]["el"][n[1]].get("e")) != 0]    # `return 0` = emit uncompressed: the legitimate way out
    ok = bool(tail) and bool(succ) and g.must_pass(via_edges=tail, targets=succ, starts=[(b, i + 1) for b, i in enc])
    res.check(ok, R, "entropyCompressSeqStore_internal:4-byte-tail", g.loc, "table+bitstream tail < 4 bytes is refused (block emitted uncompressed)",
              "a compressed block with a sub-4-byte FSE table+bitstream tail can be emitted (decoder errata)")
    h = prog.fn("ZSTD_resetCCtx_internal")
    wr = [x for _, _, x in h.events(lambda y: y.get("k") == "asg" and strip_casts(y["lhs"]).get("f") == "blockSize" and strip_casts(y["lhs"]).get("rec") == "ZSTD_CCtx_s")]
    ok = len(wr) == 1 and "MIN" in {m for y in walk(h.resolve_x(wr[0]["rhs"])) for m in y.get("m", [])} or \
        (len(wr) == 1 and any("MIN" in (m or "") for d in h.local_defs().get(strip_casts(wr[0]["rhs"]).get("n", ""), []) if d is not None for y in walk(d) for m in y.get("m", [])))
    res.check(ok, R, "resetCCtx:blockSize-is-min(maxBlockSize,windowSize)", h.loc, "zc->blockSize = MIN(maxBlockSize, windowSize)", "block size no longer capped by the window size")
    res.need(R, 6)


def published_window_immutable(prog, res):
    """T3: the window size is published once, in the frame header written by the first job; every later writer of the
    multithreaded context's compression parameters must put the published windowLog back."""
    R = "T3.published-window-immutable"
    fns = [f for f in prog.fns_in("lib/compress/zstdmt_compress.c")]
    writers = []
    for f in fns:
        for b, i, x in f.events(lambda y: y.get("k") == "asg"):
            pth = reset.field_path_from(x["lhs"], "ZSTDMT_CCtx_s")
            if pth and pth[0] == "params" and (len(pth) == 1 or pth[1] == "cParams"):
                writers.append((f, b, i, x, pth))
    names = sorted({w[0].name for w in writers})
    res.check(len(names) >= 2, R, "writers", "lib/compress/zstdmt_compress.c", "functions writing mtctx->params[.cParams]: %s" % names, "writers of the MT parameters vanished")
    START = {"ZSTDMT_initCStream_internal", "ZSTDMT_createCCtx_advanced_internal"}     # before the header is written
    for f, b, i, x, pth in writers:
        if f.name in START:
            continue
        if len(pth) >= 3 and pth[2] != "windowLog":
            res.ok(R, "%s:%s" % (f.name, ".".join(pth)), "%s:%s" % (f.file, x.get("l")), "writes a field other than windowLog")
            continue
        # the value written: a local whose windowLog field was overwritten, before this store, with a value read from mtctx->params.cParams.windowLog
        src = strip_casts(f.resolve_x(x["rhs"]))
        ok = False
        if src is not None and src.get("k") == "ref" and src.get("rk") in ("l", "sl"):
            for b2, i2, y in f.events(lambda z: z.get("k") == "asg"):
                l = strip_casts(y["lhs"])
                if l.get("k") == "mem" and l.get("f") == "windowLog" and strip_casts(l["b"]).get("n") == src["n"]:
                    r = strip_casts(f.resolve_x(y["rhs"]))
                    saved = r
                    if r is not None and r.get("k") == "ref" and r.get("rk") in ("l", "sl"):
                        saved = strip_casts(f.single_def(r["n"]) or {})
                    from_ctx = saved is not None and reset.field_path_from(saved, "ZSTDMT_CCtx_s") == ("params", "cParams", "windowLog")
                    if from_ctx and f.must_pass(via_roots=[(b2, i2)], targets=[(b, i)]):
                        ok = True
        res.check(ok, R, "%s:%s" % (f.name, ".".join(pth)), "%s:%s" % (f.file, x.get("l")),
                  "the parameters written mid-frame carry the windowLog saved from the context (the one in the frame header)",
                  "%s overwrites the multithreaded context's compression parameters mid-frame without restoring the windowLog already published in the frame header: later jobs may use a larger window than declared" % f.name)
    res.need(R, 2)


def first_block_flag(prog, res):
    """T3: `isFirstBlock` is what keeps a frame from starting with an RLE block followed by more blocks (old decoders reject
    that).  It may be cleared only after a block has actually been produced: every `isFirstBlock = 0` in the frame-chunk
    writer is preceded, on every path, by a block-compression call."""
    R = "T3.first-block-flag"
    f = prog.fn("ZSTD_compress_frameChunk")
    clr = f.find_roots(lambda x: x.get("k") == "asg" and strip_casts(x["lhs"]).get("f") == "isFirstBlock" and const_val(x["rhs"]) == 0)
    blk = f.call_roots(("ZSTD_compressBlock_internal", "ZSTD_compressBlock_splitBlock", "ZSTD_compressBlock_targetCBlockSize", "ZSTD_noCompressBlock"))
    res.check(len(clr) >= 1 and len(blk) >= 2, R, "shape", f.loc, "%d clearing(s) of isFirstBlock, %d block emitters" % (len(clr), len(blk)),
              "ZSTD_compress_frameChunk: clearings of isFirstBlock %d, block emitters %d" % (len(clr), len(blk)))
    for c in clr:
        res.check(f.must_pass(via_roots=blk, targets=[c]), R, "cleared-after-a-block@%s" % f.blocks[c[0]]["el"][c[1]].get("l"), f.loc,
                  "isFirstBlock is cleared only after a block was emitted",
                  "ZSTD_compress_frameChunk clears isFirstBlock before any block of the chunk was emitted: a frame whose block size is below 128 KB can "
                  "start with an RLE block followed by more blocks")
    res.need(R, 2)


def run(tier):
    res = Result("C05", tier)
    tus, info = extract(["compress", "decompress", "common"])
    prog = Program(tus)
    res.info = info
    header_agreement(prog, res)
    truthful_arguments(prog, res)
    checksum_discipline(prog, res)
    window_enforcement(prog, res)
    interop_rules(prog, res)
    published_window_immutable(prog, res)
    first_block_flag(prog, res)
    return res.finish(
        explanation="Frame-header writer and reader agree with each other and with the format document on descriptor bit "
                    "positions, reserved bit, size-code thresholds, per-code field widths and the 256 bias; header "
                    "arguments are the pledged size and the context's dictID; the frame checksum is fed once per "
                    "chunk with the chunk itself and digested in the epilogue; overflow correction, dictionary "
                    "validity and max-distance enforcement precede every block in order; RLE-first, minimum-tail and "
                    "block-size interoperability guards are in place.",
        not_decided="Spec.valid(frame) for every input; that every offset chosen by a match finder respects the window",
        assumptions=["format document = doc/zstd_compression_format.md"])
