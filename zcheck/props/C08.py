"""C08 — dictionary compression round-trips for every dictionary, mode and input.
Static clauses: the two entropy-table loaders agree on what they accept (T9), repeat modes
are only `valid` when the table provably covers every symbol (T3 provenance), every table the
compression-side loader builds is complete for what its readers read and every shift seeded
from a dictionary table is in range for every accepted table (T11, derived from the loader's
own limits), the dictionary ID is read / stored / written / compared at the agreed places
(T3), dictionary content is indexed for every strategy (T10) and dropped together with its
match state when it leaves the window (T3).  Not decided: the round trip itself."""
import json, os
from ..facts import extract, Broken
from ..ir import Program, walk, is_call, strip_casts, const_val, err_name
from ..report import Result
from ..rules import guards, reset
from ..rules.guards import Want, cond_edges

HERE = os.path.dirname(os.path.abspath(__file__))


def readncount_calls(f):
    """ordered [(declared max symbol, call node, (b,i))] of FSE_readNCount calls of f"""
    out = []
    for b, i, c in f.calls("FSE_readNCount"):
        a1 = strip_casts(c["a"][1])
        mx = None
        if a1.get("k") == "un" and a1.get("op") == "&":
            v = strip_casts(a1["e"])
            if v.get("k") == "ref":
                defs = [d for d in f.local_defs().get(v["n"], []) if d is not None]
                if len(defs) == 1:
                    mx = const_val(defs[0])
        out.append((mx, c, (b, i)))
    out.sort(key=lambda t: t[1].get("l", 0))
    return out


def loaders_agree(prog, res):
    R = "T9.loaders-agree"
    C = prog.fn("ZSTD_loadCEntropy")
    D = prog.fn("ZSTD_loadDEntropy")
    cs, ds = readncount_calls(C), readncount_calls(D)
    res.check([m for m, _, _ in cs] == [m for m, _, _ in ds] == [31, 52, 35], R, "table-order-and-maxima", C.loc,
              "both loaders read offset, match-length, literal-length tables in this order with maxima 31/52/35",
              "the loaders read the FSE tables with different order or maxima: C %s, D %s" % ([m for m, _, _ in cs], [m for m, _, _ in ds]))
    for side, f in (("C", C), ("D", D)):
        sites = guards.guard_sites(f)
        # results of every header read are checked
        for callee in ("FSE_readNCount",):
            gs = [g for g in sites if "dictionary_corrupted" in g.codes and g.cond is not None and any(is_call(y, callee) for y in walk(f.resolve_x(g.cond)))
                  or ("dictionary_corrupted" in g.codes and "c:" + callee in (g.L | g.R))]
            res.check(len(gs) >= 3, R, "%s:%s-results-checked" % (side, callee), f.loc, "three header reads, each result checked", "a table header read is not checked (%d)" % len(gs))
        huf = ("HUF_readCTable",) if side == "C" else ("HUF_readDTableX2_wksp", "HUF_readDTableX1_wksp")    # X1 when HUF_FORCE_DECOMPRESS_X1
        gs = [g for g in sites if "dictionary_corrupted" in g.codes and {"c:" + h for h in huf} & (g.L | g.R)]
        res.check(len(gs) >= 1, R, "%s:huffman-header-checked" % side, f.loc, "Huffman description read and checked", "Huffman header result not checked")
        for lim, name in ((8, "offset"), (9, "match-length"), (9, "literal-length")):
            pass
        logs = sorted(const_val(g.cond["rhs"]) for g in sites if g.op == ">" and "dictionary_corrupted" in g.codes and g.cond is not None and g.cond.get("k") == "bin"
                      and const_val(g.cond["rhs"]) in (8, 9) and any(m.endswith("FSELog") for y in walk(g.cond["rhs"]) for m in y.get("m", [])))
        res.check(logs == [8, 9, 9], R, "%s:table-log-limits" % side, f.loc, "table logs limited to OffFSELog/MLFSELog/LLFSELog = 8/9/9", "table log limits differ: %s" % logs)
        w = Want("dictionary_corrupted", ">", lhs={"k:12"})
        res.check(bool(guards.find(f, w, sites)), R, "%s:three-repcodes-present" % side, f.loc, "12 bytes of repcodes must fit", "repcode presence test missing")
        z = [g for g in sites if "dictionary_corrupted" in g.codes and g.op == "==" and g.cond is not None and const_val(g.cond["rhs"]) == 0]
        big = [g for g in sites if "dictionary_corrupted" in g.codes and g.op == ">" and g.cond is not None and "c:MEM_readLE32" in (g.L | g.R | f.anchors(g.cond["lhs"], depth=3))
               or ("dictionary_corrupted" in g.codes and g.op == ">" and g.cond is not None and any(y.get("f") == "rep" for y in walk(g.cond)))]
        res.check(bool(z) and bool(big), R, "%s:repcodes-nonzero-and-within-content" % side, f.loc, "each repcode is != 0 and <= content size", "repcode range test missing")
    # every symbol limit: readNCount itself enforces maxSV (shared) — both pass the address of the declared maximum
    res.need(R, 11)


def repeat_mode_provenance(prog, res):
    R = "T3.repeat-mode-provenance"
    f = prog.fn("ZSTD_loadCEntropy")
    wp = reset.written_paths(f, "ZSTD_compressedBlockState_t")
    # huffman: starts as check on every path; valid only when no zero weight AND all 256 symbols present
    huf = [(b, i, x) for b, i, x in f.events(lambda y: y.get("k") == "asg") if reset.field_path_from(x["lhs"], "ZSTD_compressedBlockState_t") == ("entropy", "huf", "repeatMode")]
    val = [(b, i, x) for b, i, x in huf if any(y.get("n") == "HUF_repeat_valid" for y in walk(x["rhs"]))]
    chk = [(b, i) for b, i, x in huf if any(y.get("n") == "HUF_repeat_check" for y in walk(x["rhs"]))]
    res.check(len(val) == 1 and len(chk) == 1 and f.must_pass(via_roots=chk, targets=[(b, i) for b, i, _ in val] + reset.success_returns(f)), R, "huf:starts-as-check", f.loc,
              "the Huffman table is `check` unless proven complete", "huf.repeatMode has no conservative default")
    call = [c for b, i, c in f.calls("HUF_readCTable")]
    ok = len(call) == 1 and len(val) == 1
    if ok:
        def out_local(arg):
            a = strip_casts(arg)
            if a.get("k") == "un" and a.get("op") == "&":
                v = strip_casts(a["e"])
                return v.get("n") if v.get("k") == "ref" else None
        msv, hzw = out_local(call[0]["a"][1]), out_local(call[0]["a"][4])
        e_nz = cond_edges(f, lambda c: c.get("k") == "ref" and c.get("n") == hzw, "false")
        e_full = cond_edges(f, lambda c: c.get("k") == "bin" and c["op"] == "==" and strip_casts(c["lhs"]).get("n") == msv and const_val(c["rhs"]) == 255, "true")
        tgt = [(val[0][0], val[0][1])]
        ok = bool(e_nz) and bool(e_full) and f.must_pass(via_edges=e_nz, targets=tgt) and f.must_pass(via_edges=e_full, targets=tgt)
    res.check(ok, R, "huf:valid-needs-no-zero-weight-and-255", f.loc, "`valid` only on the edge !hasZeroWeights && maxSymbolValue == 255 (both outputs of HUF_readCTable)",
              "huf.repeatMode can become `valid` for a table that does not describe all 256 symbols with non-zero weights: literals outside it are emitted with garbage codes")
    # fse: the three repeat modes are assigned only from ZSTD_dictNCountRepeat(ncount-of-that-table, its max, required max)
    req = {"matchlength_repeatMode": 52, "litlength_repeatMode": 35, "offcode_repeatMode": None}
    rn = readncount_calls(f)
    for fld, need in sorted(req.items()):
        asg = [(b, i, x) for b, i, x in f.events(lambda y: y.get("k") == "asg") if reset.field_path_from(x["lhs"], "ZSTD_compressedBlockState_t") == ("entropy", "fse", fld)]
        ok = len(asg) == 1 and is_call(strip_casts(f.resolve_x(asg[0][2]["rhs"])), "ZSTD_dictNCountRepeat")
        why = "not assigned from ZSTD_dictNCountRepeat"
        if ok:
            c = strip_casts(f.resolve_x(asg[0][2]["rhs"]))
            nc = strip_casts(f.resolve_x(c["a"][0])).get("n")
            mv = strip_casts(f.resolve_x(c["a"][1])).get("n")
            # the same two locals must be the outputs of one FSE_readNCount call
            pair = [1 for _, rc, _ in rn if strip_casts(rc["a"][0]).get("n") == nc and any(y.get("n") == mv for y in walk(rc["a"][1]))]
            ok = bool(pair)
            why = "counts and max symbol do not come from the same table"
            if ok and need is not None:
                ok = const_val(c["a"][2]) == need
                why = "required maximum is not %d" % need
            if ok and need is None:
                an = f.anchors(c["a"][2], depth=3)
                a2 = strip_casts(c["a"][2])
                ok = "c:ZSTD_highbit32" in an and "m:MaxOff" in an and "k:131072" in an and a2.get("k") == "cond" and "MIN" in a2.get("m", [])
                why = "required offset code is not MIN(highbit(dictContentSize + 128 KB), MaxOff)"
        res.check(ok, R, "fse:" + fld, f.loc, "assigned once, from ZSTD_dictNCountRepeat over this table's own counts", "%s: %s" % (fld, why))
    g = prog.fn("ZSTD_dictNCountRepeat")
    rets = g.returns()
    valid = [(b, i) for b, i, r in rets if any(y.get("n") == "FSE_repeat_valid" for y in walk(r.get("e") or {}))]
    e_small = cond_edges(g, lambda c: c.get("k") == "bin" and c["op"] == "<" and {"p:1", "p:2"} <= g.anchors(c), "false")
    loop_exit = cond_edges(g, lambda c: c.get("k") == "bin" and c["op"] == "<=" and "p:2" in g.anchors(c["rhs"]), "false")
    zero = cond_edges(g, lambda c: c.get("k") == "bin" and c["op"] == "==" and const_val(c["rhs"]) == 0 and "p:0" in g.anchors(c["lhs"]), "false")
    ok = len(valid) == 1 and bool(e_small) and bool(loop_exit) and bool(zero) and g.must_pass(via_edges=e_small, targets=valid) and g.must_pass(via_edges=loop_exit, targets=valid)
    # the loop body re-enters only through the non-zero edge
    res.check(ok, R, "dictNCountRepeat:valid-only-after-full-scan", g.loc, "`valid` needs dictMax >= max and a completed scan in which every count was non-zero",
              "ZSTD_dictNCountRepeat can answer `valid` without checking every symbol up to the required maximum")
    # after every block, a dictionary's `valid` offset table is demoted to `check`
    n = 0
    for h in prog.fns_in("lib/compress/zstd_compress.c"):
        conf = h.call_roots("ZSTD_blockState_confirmRepcodesAndEntropyTables")
        if not conf or h.name == "ZSTD_blockState_confirmRepcodesAndEntropyTables":
            continue
        dem = [(b, i) for b, i, x in h.events(lambda y: y.get("k") == "asg") if (reset.field_path_from(x["lhs"], "ZSTD_CCtx_s") or ())[-1:] == ("offcode_repeatMode",)
               and any(y.get("n") == "FSE_repeat_check" for y in walk(x["rhs"]))]
        tst = cond_edges(h, lambda c: c.get("k") == "bin" and c["op"] == "==" and any(y.get("f") == "offcode_repeatMode" for y in walk(c)) and any(y.get("n") == "FSE_repeat_valid" for y in walk(c)), "false")
        coll = cond_edges(h, lambda c: c.get("k") == "mem" and c.get("f") == "collectSequences", "true")    # collector mode emits no block
        live = [(b, i) for b, i in conf if not (coll and h.must_pass(via_edges=set(coll), targets=[(b, i)]))]
        ok = bool(dem) and bool(tst) and bool(live) and h.must_pass(via_roots=dem, via_edges=set(tst), starts=[(b, i + 1) for b, i in live], targets=[t for t in reset.success_returns(h)])
        if h.name in ("ZSTD_compressSeqStore_singleBlock", "ZSTD_compressBlock_targetCBlockSize_body", "ZSTD_compressSequences_internal", "ZSTD_compressBlock_internal",
                      "ZSTD_compressBlock_targetCBlockSize", "ZSTD_compressBlock_splitBlock"):
            # functions whose caller performs the demotion are listed with it
            pass
        if not dem and live:
            # the demotion may sit in the function's wrapper (ZSTD_compressBlock_targetCBlockSize around its _body): then EVERY caller
            # performs it on every path that follows the call.  A confirming function with no demotion anywhere is the violation.
            def demotes_after(cal):
                d2 = [(b, i) for b, i, x in cal.events(lambda y: y.get("k") == "asg") if (reset.field_path_from(x["lhs"], "ZSTD_CCtx_s") or ())[-1:] == ("offcode_repeatMode",)
                      and any(y.get("n") == "FSE_repeat_check" for y in walk(x["rhs"]))]
                t2 = cond_edges(cal, lambda c: c.get("k") == "bin" and c["op"] == "==" and any(y.get("f") == "offcode_repeatMode" for y in walk(c)) and any(y.get("n") == "FSE_repeat_valid" for y in walk(c)), "false")
                sites = cal.call_roots(h.name)
                return bool(d2) and bool(sites) and cal.must_pass(via_roots=d2, via_edges=set(t2), starts=[(b, i + 1) for b, i in sites], targets=[t for t in reset.success_returns(cal)])
            cals = [c for c in prog.callers().get(h.name, []) if c.file == h.file]
            okc = bool(cals) and all(demotes_after(c) for c in cals)
            res.check(okc, R, h.name + ":offcode-valid-demoted-by-every-caller", h.loc, "the block is confirmed here and demoted by %s" % ", ".join(sorted(c.name for c in cals)),
                      "%s confirms a block and neither it nor all of its callers demote the dictionary's offset table from `valid` to `check` afterwards: "
                      "the next block may reuse a table that lacks the offset code it needs" % h.name)
            n += 1
        if dem:
            res.check(ok, R, h.name + ":offcode-valid-demoted-after-block", h.loc, "after confirming a block, offcode `valid` becomes `check`",
                      "a confirmed block can leave the dictionary's offset table marked `valid` although the window has moved")
            n += 1
            # blocks stored raw or as RLE move the window as well: the same demotion follows them (they are not confirmed, so the clause
            # above does not see them)
            plain = h.call_roots(("ZSTD_noCompressBlock", "ZSTD_rleCompressBlock"))
            if plain:
                ok2 = h.must_pass(via_roots=dem, via_edges=set(tst), starts=[(b, i + 1) for b, i in plain], targets=[t for t in reset.success_returns(h)])
                res.check(ok2, R, h.name + ":offcode-valid-demoted-after-raw-or-rle-block", h.loc, "after a raw / RLE block, offcode `valid` becomes `check` too",
                          "%s can finish a raw or RLE block and go on with the dictionary's offset table still marked `valid`: the next block may need an offset "
                          "code the table does not hold (dictionary, two raw blocks, then an offset beyond 256 KB at levels 1-4: the frame does not decode)" % h.name)
                n += 1
    res.check(n >= 3, R, "demotion-sites", "lib/compress/zstd_compress.c", "%d block paths demote the offset table" % n, "demotion sites vanished (%d)" % n)
    res.need(R, 9)


def table_completeness(prog, res):
    R = "T11.dictionary-tables-complete"
    L = prog.fn("ZSTD_loadCEntropy")
    O = prog.fn("ZSTD_rescaleFreqs")
    built = {}      # table field -> (max symbol built, log limit)
    sites = guards.guard_sites(L)
    for b, i, c in L.calls("FSE_buildCTable_wksp"):
        t = [strip_casts(c["a"][0]).get("f")] if strip_casts(c["a"][0]).get("k") == "mem" else []
        mx = const_val(c["a"][2])
        logv = strip_casts(c["a"][3]).get("n")
        lim = [const_val(g.cond["rhs"]) for g in sites if g.op == ">" and g.cond is not None and g.cond.get("k") == "bin" and strip_casts(g.cond["lhs"]).get("n") == logv
               and "dictionary_corrupted" in g.codes and L.must_pass(via_edges={(g.bid, g.ok)}, targets=[(b, i)])]
        if t:
            built[t[0]] = (mx, lim[0] if lim else None)
    res.check(set(built) == {"offcodeCTable", "matchlengthCTable", "litlengthCTable"}, R, "three-tables-built", L.loc, "three FSE CTables built from the dictionary: %s" % built, "tables built: %s" % sorted(built))
    # readers in the statistics seeding: FSE_initCState(&st, table); FSE_getMaxNbBits(st.symbolTT, idx) with idx <= K
    huf_max = None
    H = prog.fn("HUF_readCTable")
    for g in guards.guard_sites(H):
        if g.op == ">" and g.cond is not None and g.cond.get("k") == "bin" and any("HUF_TABLELOG_MAX" in y.get("m", []) for y in walk(g.cond["rhs"])):
            huf_max = const_val(g.cond["rhs"])
    res.check(huf_max is not None, R, "huf-loader-limit", H.loc, "HUF_readCTable accepts table logs up to %s" % huf_max, "Huffman loader limit not found")
    n = 0
    for b, i, c in O.calls("FSE_initCState"):
        t = [strip_casts(c["a"][1]).get("f")] if strip_casts(c["a"][1]).get("k") == "mem" else []
        st = [y.get("n") for y in walk(c["a"][0]) if y.get("k") == "ref"]
        if not t or not st or t[0] not in built:
            continue
        tbl, stn = t[0], st[0]
        for b2, i2, g in O.calls("FSE_getMaxNbBits"):
            if not any(y.get("k") == "ref" and y.get("n") == stn for y in walk(g["a"][0])):
                continue
            idx = strip_casts(g["a"][1]).get("n")
            bound = None
            for bid, cond, tt, ff in O.branches():
                cc = strip_casts(O.resolve_x(cond))
                if cc is not None and cc.get("k") == "bin" and cc["op"] == "<=" and strip_casts(cc["lhs"]).get("n") == idx:
                    bound = const_val(cc["rhs"])
            mx, lim = built[tbl]
            res.check(mx is not None and bound is not None and bound <= mx, R, "%s:built-for-every-symbol-read" % tbl, "%s:%s" % (O.file, g.get("l")),
                      "statistics read symbols 0..%s; the loader builds 0..%s" % (bound, mx),
                      "ZSTD_rescaleFreqs reads symbolTT[0..%s] of %s but ZSTD_loadCEntropy builds it only for %s: the tail is uninitialised memory" % (
                          bound, tbl, "0..%s" % mx if mx is not None else "the symbols the dictionary happens to declare"))
            # the shift seeded from this cost: 1 << (scale - cost), cost <= log limit + 1
            shift_ok, detail = shift_in_range(O, g, (lim + 1) if lim is not None else None)
            res.check(shift_ok, R, "%s:seed-shift-in-range" % tbl, "%s:%s" % (O.file, g.get("l")), detail, detail)
            n += 1
    for b2, i2, g in O.calls("HUF_getNbBitsFromCTable"):
        shift_ok, detail = shift_in_range(O, g, huf_max)
        res.check(shift_ok, R, "huf:seed-shift-in-range", "%s:%s" % (O.file, g.get("l")), detail, detail)
        n += 1
    res.check(n >= 4, R, "seed-sites", O.loc, "%d dictionary-seeded statistics loops" % n, "seeding loops vanished")
    res.need(R, 10)


def shift_in_range(f, costcall, cost_max):
    """the local holding the result of `costcall` is used as `1 << (S - cost)`; S constant;
    in range iff cost_max <= S, or the local is defined as MIN(call, S)."""
    holder = None
    clamp = None
    for name, defs in f.local_defs().items():
        for d in defs:
            if d is not None and any(y is costcall for y in f.walk_resolved(d)):
                holder = name
                dd = strip_casts(d)
                if dd.get("k") == "cond" and "MIN" in dd.get("m", []):
                    others = [const_val(f.resolve_x(dd[k])) for k in ("t", "f")]
                    # one arm is the bound (possibly a local constant)
                    for k in ("t", "f"):
                        arm = strip_casts(f.resolve_x(dd[k]))
                        if arm is not None and not any(is_call(y, costcall.get("c")) for y in f.walk_resolved(arm)):
                            v = const_val(arm)
                            if v is None and arm.get("k") == "ref":
                                sd = f.single_def(arm["n"])
                                v = const_val(sd) if sd is not None else None
                            clamp = v
    if holder is None:
        return False, "cost of a dictionary symbol is not held in a local (shape changed)"
    for b, i, r in f.roots():
        for y in walk(r):
            if y.get("k") == "bin" and y.get("op") == "<<" and const_val(y["lhs"]) == 1:
                rh = strip_casts(f.resolve_x(y["rhs"]))
                if rh is not None and rh.get("k") == "bin" and rh["op"] == "-" and strip_casts(rh["rhs"]).get("n") == holder:
                    s = strip_casts(rh["lhs"])
                    S = const_val(s)
                    if S is None and s.get("k") == "ref":
                        sd = f.single_def(s["n"])
                        S = const_val(sd) if sd is not None else None
                    eff = min(x for x in (cost_max, clamp) if x is not None) if (cost_max is not None or clamp is not None) else None
                    if S is None or eff is None:
                        return False, "shift `1 << (scale - cost)`: scale or cost bound unknown (scale %s, cost <= %s)" % (S, eff)
                    if eff <= S:
                        return True, "1 << (%d - cost) with cost <= %d for every accepted table" % (S, eff)
                    return False, "undefined shift: `1 << (%d - cost)` but an accepted dictionary table can cost %d bits" % (S, eff)
    return False, "shift seeded from the dictionary cost not found (shape changed)"


def dict_id(prog, res):
    R = "T3.dictionary-id"
    L = prog.fn("ZSTD_loadZstdDictionary")
    rets = reset.success_returns(L)
    ok = False
    for b, i in rets:
        r = L.blocks[b]["el"][i]
        an = L.anchors(r.get("e"), depth=3)
        ok = ok or ({"c:MEM_readLE32", "f:noDictIDFlag"} <= an and "k:4" in an)
    res.check(ok, R, "C:id-read-at-offset-4-unless-noDictIDFlag", L.loc, "the loader returns the ID stored after the magic number, or 0 when IDs are disabled", "dictionary ID no longer read from offset 4 / noDictIDFlag ignored")
    B = prog.fn("ZSTD_compressBegin_internal")
    a = [x for b, i, x in B.events(lambda y: y.get("k") == "asg") if strip_casts(x["lhs"]).get("f") == "dictID"]
    res.check(len(a) == 1 and "c:ZSTD_compress_insertDictionary" in B.anchors(a[0]["rhs"], depth=3), R, "C:cctx-id-from-loader", B.loc, "cctx->dictID = result of ZSTD_compress_insertDictionary", "cctx->dictID not taken from the loaded dictionary")
    I = prog.fn("ZSTD_initCDict_internal")
    a = [x for b, i, x in I.events(lambda y: y.get("k") == "asg") if strip_casts(x["lhs"]).get("f") == "dictID"]
    res.check(len(a) == 1 and "c:ZSTD_compress_insertDictionary" in I.anchors(a[0]["rhs"], depth=3), R, "C:cdict-id-from-loader", I.loc, "cdict->dictID = result of ZSTD_compress_insertDictionary", "cdict->dictID not taken from the loaded dictionary")
    for name in ("ZSTD_resetCCtx_byAttachingCDict", "ZSTD_resetCCtx_byCopyingCDict"):
        f = prog.fn(name)
        a = [x for b, i, x in f.events(lambda y: y.get("k") == "asg") if strip_casts(x["lhs"]).get("f") == "dictID"]
        ok = len(a) == 1 and strip_casts(a[0]["rhs"]).get("f") == "dictID" and f.must_pass(via_roots=f.find_roots(lambda x: x is a[0]), targets=reset.success_returns(f))
        res.check(ok, R, "C:%s-copies-id" % name, f.loc, "the context takes the CDict's ID on every successful path", "CDict ID not propagated")
    # writer gets cctx->dictID
    n = 0
    for f in prog.fns_in("lib/compress/zstd_compress.c"):
        for b, i, c in f.calls("ZSTD_writeFrameHeader"):
            ok = any(y.get("f") == "dictID" for y in walk(c["a"][4]))
            if not ok and f.name == "ZSTD_writeEpilogue":
                # frozen exception, itself checked: the `stage == ZSTDcs_init` header of ZSTD_writeEpilogue is dead code,
                # because its only caller first runs ZSTD_compressContinue_internal(frame=1), which writes the header
                # (with cctx->dictID) and leaves stage == ZSTDcs_ongoing.
                callers = sorted({g.name for g in prog.callers().get("ZSTD_writeEpilogue", [])})
                E = prog.fn("ZSTD_compressEnd_public")
                cc, we = E.call_roots("ZSTD_compressContinue_internal"), E.call_roots("ZSTD_writeEpilogue")
                K = prog.fn("ZSTD_compressContinue_internal")
                st = [(b2, i2) for b2, i2, x in K.events(lambda y: y.get("k") == "asg") if strip_casts(x["lhs"]).get("f") == "stage" and any(y.get("n") == "ZSTDcs_ongoing" for y in walk(x["rhs"]))]
                ini = cond_edges(K, lambda q: q.get("k") == "bin" and q["op"] == "==" and any(y.get("n") == "ZSTDcs_init" for y in walk(q)), "true")
                ok = callers == ["ZSTD_compressEnd_public"] and bool(cc) and bool(we) and E.must_pass(via_roots=cc, targets=we) and bool(st) and bool(ini) \
                    and K.must_pass(via_roots=st, starts=[(e[1], 0) for e in ini], targets=reset.success_returns(K))
                res.check(ok, R, "C:ZSTD_writeEpilogue-init-header-unreachable", "%s:%s" % (f.file, c.get("l")),
                          "the ID-less header in ZSTD_writeEpilogue is unreachable: its only caller writes the header first", "ZSTD_writeEpilogue can write a frame header without the dictionary ID")
                n += 1
                continue
            res.check(ok, R, "C:%s-writes-cctx-id" % f.name, "%s:%s" % (f.file, c.get("l")), "frame header written with cctx->dictID", "frame header written with another ID")
            n += 1
    res.check(n >= 2, R, "C:header-writers", "lib/compress/zstd_compress.c", "%d frame header writers" % n, "writers vanished")
    W = prog.fn("ZSTD_writeFrameHeader")
    e = cond_edges(W, lambda c: any(y.get("f") == "noDictIDFlag" for y in walk(c)), "true")
    res.check(bool(e), R, "C:noDictIDFlag-suppresses", W.loc, "noDictIDFlag is the only way the ID is left out", "noDictIDFlag test vanished")
    # decoder side
    D = prog.fn("ZSTD_decompress_insertDictionary")
    a = [x for b, i, x in D.events(lambda y: y.get("k") == "asg") if strip_casts(x["lhs"]).get("f") == "dictID"]
    res.check(len(a) == 1 and {"c:MEM_readLE32"} <= D.anchors(a[0]["rhs"]) and ("k:4" in D.anchors(a[0]["rhs"]) or "m:ZSTD_FRAMEIDSIZE" in D.anchors(a[0]["rhs"])), R, "D:id-read-at-offset-4", D.loc,
              "dctx->dictID read from the same offset", "decoder reads the ID elsewhere")
    H = prog.fn("ZSTD_decodeFrameHeader")
    gs = [g for g in guards.guard_sites(H) if "dictionary_wrong" in g.codes]
    ok = bool(gs) and H.must_pass(via_edges={(g.bid, g.ok) for g in gs} | set(cond_edges(H, lambda c: c.get("k") == "mem" and c.get("f") == "dictID" and any(y.get("f") == "fParams" for y in walk(c)), "false")),
                                   targets=reset.success_returns(H))
    flds = set()
    for g in gs:
        flds |= {y["f"] for y in walk(H.resolve_x(g.cond) if g.cond is not None else {}) if y.get("k") == "mem"}
    res.check(ok and "dictID" in flds, R, "D:mismatch-is-dictionary_wrong", H.loc, "a frame naming another dictionary ID is refused before any block is decoded",
              "a frame header naming a different dictionary ID can be accepted")
    for name, fld in (("ZSTD_getDictID_fromDDict", "dictID"), ("ZSTD_getDictID_fromCDict", "dictID")):
        f = prog.fn(name)
        ok = any(strip_casts(r.get("e")).get("f") == fld for b, i, r in f.returns() if r.get("e") is not None)
        res.check(ok, R, name, f.loc, "reports the stored ID", "ID query changed")
    f = prog.fn("ZSTD_getDictID_fromDict")
    ok = any({"c:MEM_readLE32"} <= f.anchors(r.get("e")) for b, i, r in f.returns() if r.get("e") is not None)
    mg = cond_edges(f, lambda c: c.get("k") == "bin" and c["op"] == "!=" and any("ZSTD_MAGIC_DICTIONARY" in y.get("m", []) for y in walk(c)), "false")
    res.check(ok and bool(mg), R, "ZSTD_getDictID_fromDict", f.loc, "reads offset 4 after checking the magic number", "ID query changed")
    dd = prog.fn("ZSTD_loadEntropy_intoDDict")
    a = [x for b, i, x in dd.events(lambda y: y.get("k") == "asg") if strip_casts(x["lhs"]).get("f") == "dictID" and const_val(x["rhs"]) != 0]
    res.check(len(a) == 1 and "c:MEM_readLE32" in dd.anchors(a[0]["rhs"]), R, "D:ddict-id-read-at-offset-4", dd.loc, "ddict->dictID read from offset 4", "DDict ID read elsewhere")
    res.need(R, 14)


def content_rules(prog, res):
    R = "T10.dictionary-content"
    f = prog.fn("ZSTD_loadDictionaryContent")
    en = prog.enum("ZSTD_strategy")
    vals = {v: n for n, v in en["items"]}
    labels = set()
    for bid, b in f.blocks.items():
        lb = b.get("label")
        if lb and lb.get("k") == "case" and "v" in lb:
            labels.add(lb["v"])
    missing = sorted(set(vals) - labels)
    res.check(not missing and len(vals) >= 9, R, "every-strategy-indexes-the-dictionary", f.loc, "all %d strategies have a dictionary-indexing case" % len(vals),
              "strategies without a dictionary indexing case: %s" % [vals[m] for m in missing])
    fills = f.call_roots(("ZSTD_fillHashTable", "ZSTD_fillDoubleHashTable", "ZSTD_row_update", "ZSTD_insertAndFindFirstIndex", "ZSTD_updateTree", "ZSTD_dedicatedDictSearch_lazy_loadDictionary"))
    res.check(len(fills) == 6, R, "six-index-builders", f.loc, "hash, double hash, row, chain, tree and dedicated-search builders are all reachable", "an index builder vanished (%d)" % len(fills))
    row = f.call_roots("ZSTD_row_update")
    ms = f.call_roots(("memset", "__builtin_memset"))
    res.check(bool(row) and bool(ms) and f.must_pass(via_roots=ms, targets=row), R, "row:tag-table-zeroed-before-indexing", f.loc, "the tag table is zeroed before the dictionary is indexed into it", "dictionary indexed into an un-cleared tag table")
    lde = [(b, i) for b, i, x in f.events(lambda y: y.get("k") == "asg") if reset.field_path_from(x["lhs"], "ZSTD_matchState_t") == ("loadedDictEnd",)]
    res.check(bool(lde) and f.must_pass(via_roots=lde, targets=reset.success_returns(f)), R, "loadedDictEnd-set-on-every-path", f.loc, "loadedDictEnd recorded on every successful path", "loadedDictEnd not recorded")
    R2 = "T3.dictionary-validity-window"
    for name in ("ZSTD_checkDictValidity", "ZSTD_window_enforceMaxDist"):
        g = prog.fn(name)
        e = cond_edges(g, lambda c: c.get("k") == "bin" and c["op"] == ">" and {"p:1", "p:2"} <= g.anchors(c, depth=3), "true")
        z1 = [(b, i) for b, i, x in g.events(lambda y: y.get("k") == "asg") if strip_casts(x["lhs"]).get("k") == "un" and "p:3" in g.anchors(x["lhs"]) and const_val(x["rhs"]) == 0]
        z2 = [(b, i) for b, i, x in g.events(lambda y: y.get("k") == "asg") if strip_casts(x["lhs"]).get("k") == "un" and "p:4" in g.anchors(x["lhs"]) and const_val(x["rhs"]) == 0]
        nul = set()
        if name == "ZSTD_window_enforceMaxDist":
            nul = set(cond_edges(g, lambda c: c.get("k") == "ref" and c.get("rk") == "p", "false"))
        ok = bool(e) and bool(z1) and bool(z2) and g.must_pass(via_roots=z1, via_edges=nul, starts=[(x[1], 0) for x in e], targets=[g.exit_node()]) \
            and g.must_pass(via_roots=z2, via_edges=nul, starts=[(x[1], 0) for x in e], targets=[g.exit_node()])
        res.check(ok, R2, name + ":drops-end-and-matchstate-together", g.loc, "past the window, loadedDictEnd and dictMatchState are dropped together",
                  "a dictionary leaving the window is only half invalidated")
    g = prog.fn("ZSTD_checkDictValidity")
    e2 = cond_edges(g, lambda c: c.get("k") == "bin" and c["op"] == "!=" and any(y.get("f") == "dictLimit" for y in walk(c)), "true")
    res.check(bool(e2), R2, "checkDictValidity:non-contiguous-invalidates", g.loc, "loadedDictEnd != dictLimit also invalidates", "non-contiguity test vanished")
    fc = prog.fn("ZSTD_compress_frameChunk")
    ck = fc.call_roots("ZSTD_checkDictValidity")
    blk = fc.call_roots(("ZSTD_compressBlock_internal", "ZSTD_compressBlock_targetCBlockSize", "ZSTD_compressBlock_splitBlock"))
    res.check(bool(ck) and len(blk) >= 3 and fc.must_pass(via_roots=ck, targets=blk) and all(fc.must_pass(via_roots=ck, starts=[(b, i + 1)], targets=blk) for b, i in blk), R2,
              "frameChunk:validity-checked-before-each-block", fc.loc, "dictionary validity is re-evaluated before every block", "a block can be compressed against a dictionary that left the window")
    res.need(R, 4)
    res.need(R2, 4)


def cdict_reload_coherence(prog, res):
    """T9: when a digested dictionary's bytes are parsed again (reload layout), bytes, size and content type all come
    from the CDict; and no attribute the CDict stores about its content is write-only."""
    R = "T9.cdict-reload-coherence"
    n = 0
    for f in prog.fns_in("lib/compress/zstd_compress.c"):
        for b, i, c in f.calls("ZSTD_compress_insertDictionary"):
            a = c["a"]
            if len(a) < 8:
                continue
            trio = {"content": f.anchors(a[5], depth=2), "size": f.anchors(a[6], depth=2), "type": f.anchors(a[7], depth=2)}
            from_cdict = {k: bool({"f:dictContent", "f:dictContentSize", "f:dictContentType"} & v) for k, v in trio.items()}
            if not from_cdict["type"]:
                # the digesting function itself: the type handed on is the value it has just stored into the CDict
                t = strip_casts(f.resolve_x(a[7]))
                for b2, i2, x in f.events(lambda y: y.get("k") == "asg"):
                    l = strip_casts(x["lhs"])
                    r = strip_casts(f.resolve_x(x["rhs"]))
                    if l.get("k") == "mem" and l.get("f") == "dictContentType" and r is not None and t is not None and r.get("k") == "ref" and t.get("k") == "ref" \
                            and (r.get("rk"), r.get("n")) == (t.get("rk"), t.get("n")) and f.must_pass(via_roots=[(b2, i2)], targets=[(b, i)]):
                        from_cdict["type"] = True
            n += 1
            ok = len(set(from_cdict.values())) == 1
            res.check(ok, R, "%s@%s" % (f.name, c.get("l")), "%s:%s" % (f.file, c.get("l")),
                      "dictionary bytes, size and content type come from the same source (%s)" % ("the CDict" if from_cdict["content"] else "the caller"),
                      "ZSTD_compress_insertDictionary is given %s from a CDict but %s from elsewhere: the CDict's bytes are re-parsed under a different content type than the one they were digested with"
                      % (sorted(k for k, v in from_cdict.items() if v), sorted(k for k, v in from_cdict.items() if not v)))
    res.check(n >= 2, R, "call-sites", "lib/compress/zstd_compress.c", "%d dictionary (re)load sites" % n, "call sites vanished")
    # every field of ZSTD_CDict_s that is written is also read somewhere
    written, read = set(), set()
    for f in prog.fns_in("lib/compress/zstd_compress.c"):
        for p in reset.written_paths(f, "ZSTD_CDict_s", prog=prog):
            written.add(p[0])
        wr_ids = set()
        for b, i, x in f.events(lambda y: y.get("k") == "asg"):
            l = strip_casts(x["lhs"])
            if l.get("k") == "mem" and l.get("rec") == "ZSTD_CDict_s":
                wr_ids.add(id(l))
        for b, i, r in f.roots():
            for y in walk(r):
                if y.get("k") == "mem" and y.get("rec") == "ZSTD_CDict_s" and id(y) not in wr_ids:
                    read.add(y["f"])
    dead = sorted(written - read)
    res.check(not dead, R, "no-write-only-cdict-field", "lib/compress/zstd_compress.c", "%d CDict fields written, all read somewhere" % len(written),
              "CDict field(s) %s are stored but never read: an attribute of the digested dictionary is ignored when it is used" % dead)
    res.need(R, 5)


def ddict_set_rules(prog, res):
    """Multiple referenced DDicts (ZSTD_d_refMultipleDDicts).
    (probe-exit) the lookup's probe loop ends only on an EMPTY slot — a NULL table entry, the emptiness test of the
    inserting sibling — or on the slot whose dictID equals the requested one; a stored DDict whose ID is 0 (raw content)
    is not an empty slot.
    (select-before-load) wherever a frame is about to be decoded with a DDict, the set is consulted BEFORE
    ZSTD_decompressBegin_usingDDict() loads content and tables: selecting afterwards only changes the reference and the
    expected ID, and the ID check then passes with another dictionary's tables loaded."""
    R = "T3.ddict-set"
    g = prog.fn("ZSTD_DDictHashSet_getDDict")
    e = prog.fn("ZSTD_DDictHashSet_emplaceDDict")

    def slot(fn):
        def p(a):
            a = strip_casts(fn.resolve_x(a))
            if a is not None and a.get("k") == "ref" and a.get("rk") in ("l", "sl"):
                d = fn.single_def(a["n"])
                a = strip_casts(fn.resolve_x(d)) if d is not None else a
            return a is not None and a.get("k") == "idx" and strip_casts(a["b"]).get("f") == "ddictPtrTable"
        return p

    def zero(a):
        return const_val(strip_casts(a)) == 0
    empty_e = guards.rel_edges(e, slot(e), "==", zero) + cond_edges(e, lambda c: c.get("k") != "bin" and slot(e)(c), "false")
    res.check(bool(empty_e), R, "emplace:empty-slot-is-NULL", e.loc, "insertion probes until a NULL entry", "insertion no longer probes for a NULL entry")
    empty_g = guards.rel_edges(g, slot(g), "==", zero) + cond_edges(g, lambda c: c.get("k") != "bin" and slot(g)(c), "false")
    match_g = guards.rel_edges(g, lambda a: "c:ZSTD_getDictID_fromDDict" in g.anchors(a, depth=3), "==",
                               lambda b: strip_casts(b).get("k") == "ref" and strip_casts(b).get("rk") == "p")
    rets = [(b, i) for b, i, r in g.returns()]
    ok = bool(empty_g) and bool(match_g) and bool(rets) and g.must_pass(via_edges=empty_g + match_g, targets=rets)
    res.check(ok, R, "getDDict:probe-ends-on-NULL-or-match", g.loc,
              "the probe ends only on a NULL entry (%d edge(s)) or on the requested dictID (%d edge(s))" % (len(empty_g), len(match_g)),
              "ZSTD_DDictHashSet_getDDict can end its probe on something else than a NULL entry or the requested ID (e.g. any stored DDict "
              "whose dictID is 0): dictionaries inserted past that slot are never found although they were referenced")
    # select-before-load
    reach_lookup = {"ZSTD_DDictHashSet_getDDict"}
    changed = True
    callers = prog.callers()
    while changed:
        changed = False
        for nm in list(reach_lookup):
            for c in callers.get(nm, []):
                if c.name not in reach_lookup and c.file.endswith("zstd_decompress.c") and c.static:
                    reach_lookup.add(c.name); changed = True
    n = 0
    for f in callers.get("ZSTD_decompressBegin_usingDDict", []):
        if not f.file.endswith("decompress/zstd_decompress.c"):
            continue
        begins = f.call_roots("ZSTD_decompressBegin_usingDDict")
        # only functions that go on to decode a frame header themselves
        after = f.flow([(b, i + 1) for b, i in begins])
        decodes = [t for t in f.call_roots(("ZSTD_decompressFrame", "ZSTD_decompressContinue", "ZSTD_decodeFrameHeader")) if t in after]
        if not decodes:
            continue
        n += 1
        look = f.find_roots(lambda x: x.get("k") == "call" and x.get("c") in reach_lookup)
        single = cond_edges(f, lambda c: c.get("k") == "mem" and c["f"] in ("refMultipleDDicts", "ddictSet"), "false")
        single += guards.rel_edges(f, lambda a: any(y.get("f") == "refMultipleDDicts" for y in f.walk_resolved(a)), "==",
                                   lambda b: const_val(strip_casts(b)) is not None, truth=False)
        noddict = cond_edges(f, lambda c: c.get("k") == "ref" and c.get("rk") == "p" and "ZSTD_DDict" in (c.get("t") or ""), "false")
        # a header that cannot be parsed names no dictionary; the frame is refused by the decoding that follows
        nohdr = guards.rel_edges(f, lambda a: any(is_call(y, ("ZSTD_getFrameHeader_advanced", "ZSTD_getFrameHeader")) for y in f.walk_resolved(a))
                                 or "c:ZSTD_getFrameHeader_advanced" in f.anchors(a, depth=3),
                                 "==", lambda b: const_val(strip_casts(b)) == 0, truth=False)
        # the selection must reach the load: either the DDict argument of the load is re-read from the context after a call that
        # selects into the context (ZSTD_getDDict(zds) after ZSTD_DCtx_selectFrameDDict), or the variable passed to the load is
        # assigned from the lookup's result (the not-found edge keeps the caller's DDict)
        sel = []
        for b, i in begins:
            call = [c for bb, ii, c in f.calls("ZSTD_decompressBegin_usingDDict") if (bb, ii) == (b, i)]
            arg = strip_casts(f.resolve_x(call[0]["a"][1])) if call and len(call[0].get("a", [])) > 1 else None
            if arg is not None and arg.get("k") == "cond":
                # `skippable ? NULL : ZSTD_getDDict(zds)`: the arm that names a dictionary is what has to be selected
                arms = [strip_casts(f.resolve_x(a)) for a in (arg.get("t"), arg.get("f")) if isinstance(a, dict)]
                arms = [a for a in arms if a is not None and const_val(a) != 0]
                arg = arms[0] if len(arms) == 1 else arg
            if arg is not None and arg.get("k") == "ref" and arg.get("rk") in ("l", "sl"):
                # `dd = NULL; if (!skippable) dd = ZSTD_getDDict(zds); begin(zds, dd)`: a local that is only ever NULL or re-read from the context
                ds = [strip_casts(f.resolve_x(d)) for d in f.local_defs().get(arg["n"], []) if d is not None]
                nz = [d for d in ds if d is not None and const_val(d) != 0]
                if nz and all(d.get("k") == "call" and d.get("c") == "ZSTD_getDDict" for d in nz):
                    arg = nz[0]
            if arg is not None and arg.get("k") == "call":
                sel += [t for t in look if not any(is_call(y, "ZSTD_DDictHashSet_getDDict") for y in walk(f.blocks[t[0]]["el"][t[1]]))]
            elif arg is not None and arg.get("k") == "ref":
                sel += f.find_roots(lambda x: x.get("k") == "asg" and x.get("op") == "=" and strip_casts(x["lhs"]).get("k") == "ref" and
                                    strip_casts(x["lhs"]).get("n") == arg["n"] and "c:ZSTD_DDictHashSet_getDDict" in f.anchors(x["rhs"], depth=3))
        notfound = cond_edges(f, lambda c: c.get("k") == "ref" and "c:ZSTD_DDictHashSet_getDDict" in f.anchors(c, depth=3), "false")
        ok = bool(look) and bool(sel) and f.must_pass(via_roots=sel, via_edges=single + noddict + nohdr + notfound, targets=begins)
        res.check(ok, R, f.name + ":select-before-load", f.loc,
                  "every path to ZSTD_decompressBegin_usingDDict consults the DDict set first when several DDicts are referenced",
                  "%s loads a DDict with ZSTD_decompressBegin_usingDDict on a path that did not consult the set of referenced DDicts: in "
                  "multi-DDict mode the frame's own dictionary is only *identified* later (ZSTD_decodeFrameHeader), the ID check passes and "
                  "the frame is decoded with another dictionary's content and tables" % f.name)
    # the dictionary named by a frame is only known from a COMPLETE header: in the streaming decoder the selection call is reached
    # only on the edge where the header parser returned 0 (fParams otherwise still describe the previous frame)
    st = prog.fn("ZSTD_decompressStream")
    selc = st.call_roots("ZSTD_DCtx_selectFrameDDict")
    complete = guards.rel_edges(st, lambda a: "c:ZSTD_getFrameHeader_advanced" in st.anchors(a, depth=3), "==", lambda b_: const_val(strip_casts(b_)) == 0, truth=True)
    res.check(bool(selc) and bool(complete) and st.must_pass(via_edges=complete, targets=selc), R, "ZSTD_decompressStream:select-on-complete-header", st.loc,
              "the frame's DDict is looked up only once ZSTD_getFrameHeader_advanced returned 0",
              "ZSTD_decompressStream looks the frame's DDict up before the header is complete: the lookup uses the previous frame's dictID, and a frame "
              "without dictID is decoded with the wrong referenced dictionary (wrong bytes, no error)")
    # nothing on the frame-decoding path may release a dictionary: its callers (multi-frame loop, legacy dispatch) still hold it
    path, todo = set(), ["ZSTD_decompressMultiFrame", "ZSTD_decompressFrame", "ZSTD_decodeFrameHeader", "ZSTD_decompressContinue"]
    while todo:
        nm = todo.pop()
        if nm in path or not prog.has_fn(nm):
            continue
        cands = prog.functions.get(nm, [])
        if len(cands) != 1 or not cands[0].file.startswith("lib/decompress/"):
            continue
        path.add(nm)
        todo += list(cands[0].callees())
    rel = sorted(nm for nm in path if {"ZSTD_clearDict", "ZSTD_freeDDict"} & set(prog.fn(nm).callees()))
    res.check(len(path) >= 10 and not rel, R, "no-release-while-decoding", "lib/decompress/zstd_decompress.c",
              "none of the %d functions of the frame-decoding path releases a dictionary" % len(path),
              "%s, on the frame-decoding path, releases a dictionary (ZSTD_clearDict / ZSTD_freeDDict): the multi-frame loop still holds the context-owned "
              "dictionary and decodes the next frame from freed memory" % rel)
    res.check(n >= 2, R, "select-before-load:sites", "lib/decompress/zstd_decompress.c", "%d decoding entry points load a DDict" % n,
              "decoding entry points that load a DDict: %d (expected one-shot and streaming)" % n)
    res.need(R, 7)


def window_covers_whole_dictionary(prog, res):
    """T3: ZSTD_loadDictionaryContent shortens the dictionary twice.  The first cut (index range / short-cache tag) limits
    what the window can address and comes before the window is extended; the second cut (`8 << max(hashLog, chainLog)`)
    only limits what gets INDEXED: the whole content stays referenceable (repcodes loaded from the dictionary header and the
    decoder's window both cover all of it).  The match state's window must therefore be extended with the dictionary before
    the table-size cut shortens src/srcSize."""
    R = "T3.window-covers-dictionary"
    f = prog.fn("ZSTD_loadDictionaryContent")
    wu = [(b, i) for b, i, c in f.calls("ZSTD_window_update") if "p:0" in f.anchors(c["a"][0], depth=2)]
    res.check(len(wu) == 1, R, "window-update", f.loc, "the match state's window is extended once", "window updates of the match state: %d" % len(wu))
    cuts = []
    for bid, cond, t, fl in f.branches():
        c = f.resolve_x(cond)
        anc = f.anchors(c, depth=3)
        if not ({"f:hashLog", "f:chainLog"} & anc):
            continue
        for b, i, x in f.events(lambda y: y.get("k") == "asg" and strip_casts(y["lhs"]).get("k") == "ref" and strip_casts(y["lhs"]).get("rk") == "p"):
            if (b, i) in f.flow([(t, 0)]) and f.must_pass(via_edges=[(bid, t)], targets=[(b, i)]):
                cuts.append((b, i))
    cuts = sorted(set(cuts))
    res.check(len(cuts) >= 2, R, "index-cut", f.loc, "%d parameter re-assignments under the table-size bound" % len(cuts), "table-size cut of the dictionary not found")
    ok = bool(wu) and bool(cuts) and all(f.must_pass(via_roots=wu, targets=[c]) for c in cuts)
    res.check(ok, R, "window-before-index-cut", f.loc, "the window is extended with the dictionary before the indexing cut",
              "ZSTD_loadDictionaryContent extends the window after the table-size cut: only the indexed suffix of a large dictionary becomes part of "
              "the window, while repcodes from the dictionary header (validated against the whole content) and the decoder refer to all of it")
    # and what was cut off BEFORE the window was extended (index range, short-cache tags) is not referenceable at all: the
    # dictionary's repcodes, validated against the whole content by ZSTD_loadCEntropy, must be re-checked against what was loaded
    z = prog.fn("ZSTD_loadZstdDictionary")
    load = z.call_roots("ZSTD_loadDictionaryContent")
    succ = [t for t in guards.success_nodes(z) if t in z.flow([(b, i + 1) for b, i in load])]
    wrep = Want("dictionary_corrupted", ">", {"f:rep"}, {"f:nextSrc", "f:dictLimit"})
    guards.require(z, res, R, "ZSTD_loadZstdDictionary:repcodes-fit-loaded-part", wrep, succ,
                   starts=[(b, i + 1) for b, i in load], alt_edges=guards.counted_loop_exits(z, guards.find(z, wrep)),
                   why="(a repcode larger than the loaded end of an over-long dictionary makes the dictMatchState compressors read before it)")
    res.need(R, 4)


def repcodes_copied_whole(prog, res):
    """T8: the three start repcodes of a dictionary travel as an array of U32.  Wherever they are bulk-copied the byte count is
    a sizeof (of the array or of its type times the count); a bare element count copies 3 BYTES and leaves rep[1], rep[2] at
    their defaults - frames of a dictionary with other repcodes then decode to other bytes through that path only."""
    R = "T8.repcodes-copied-whole"
    n = 0
    for f in prog.all_functions():
        if not f.file.startswith(("lib/decompress/", "lib/compress/")):
            continue
        for b, i, c in f.calls(("memcpy", "__builtin_memcpy", "memmove", "__builtin_memmove")):
            if len(c.get("a", [])) < 3:
                continue
            d = [y for y in f.walk_resolved(c["a"][0]) if y.get("k") == "mem" and y.get("f") == "rep"]
            if not d:
                continue
            dst = strip_casts(f.resolve_x(c["a"][0]))
            if dst is not None and dst.get("k") == "un" and dst.get("op") == "&":
                continue            # address of an enclosing struct: sized by that struct
            n += 1
            ok = any(y.get("k") == "sizeof" for y in f.walk_deep(c["a"][2]))
            res.check(ok, R, "%s@%s" % (f.name, c.get("l")), "%s:%s" % (f.file, c.get("l")), "byte count is a sizeof expression",
                      "%s copies repcodes with a byte count that is not a sizeof (an element count?): only the first bytes of rep[0] are copied" % f.name)
    f = prog.fn("ZSTD_copyDDictParameters")
    whole = [x for b, i, x in f.events(lambda y: y.get("k") == "asg") if any(y.get("f") == "rep" for y in walk(x["lhs"]))]
    calls = [c for b, i, c in f.calls(("memcpy", "__builtin_memcpy")) if any(y.get("f") == "rep" for y in f.walk_resolved(c["a"][0]))]
    res.check(len(whole) >= 3 or bool(calls), R, "ZSTD_copyDDictParameters", f.loc, "all three repcodes are handed to the context", "ZSTD_copyDDictParameters no longer copies three repcodes")
    res.need(R, 2)


def single_use_dictionary_only_for_a_real_frame(prog, res):
    """T3: ZSTD_getDDict() CONSUMES a dictionary referenced for one frame (ZSTD_DCtx_refPrefix: dictUses == ZSTD_use_once).
    A skippable frame decodes nothing, so in ZSTD_decompressStream every evaluation of ZSTD_getDDict lies either on an edge
    where the frame at hand is known not to be skippable (a flag computed from ZSTD_MAGIC_SKIPPABLE_START, or
    `frameType != ZSTD_skippableFrame`), or in the legacy arm (legacy frames are never skippable: ZSTD_isLegacy edge)."""
    R = "T3.single-use-dictionary-only-for-a-real-frame"
    f = prog.fn("ZSTD_decompressStream")
    gets = f.call_roots("ZSTD_getDDict")
    res.check(len(gets) >= 3, R, "sites", f.loc, "%d ZSTD_getDDict sites" % len(gets), "ZSTD_getDDict sites in ZSTD_decompressStream: %d" % len(gets))
    skipvars = {n for n, ds in f.local_defs().items() for d in ds if d is not None
                and any("ZSTD_MAGIC_SKIPPABLE_START" in (y.get("m") or []) or y.get("n") == "ZSTD_MAGIC_SKIPPABLE_START" for y in f.walk_deep(d))}
    notskip = guards.truthy_edges(f, lambda c: c.get("k") == "ref" and c.get("n") in skipvars, truth=False)
    notskip += guards.rel_edges(f, lambda a: any(y.get("k") == "mem" and y.get("f") == "frameType" for y in walk(a)), "!=",
                                lambda b_: any(y.get("n") == "ZSTD_skippableFrame" for y in walk(b_)), truth=True)
    legacy = guards.truthy_edges(f, lambda c: c.get("k") == "ref" and any(is_call(y, "ZSTD_isLegacy") for y in f.walk_deep(c)), truth=True) + \
        cond_edges(f, lambda c: is_call(c, "ZSTD_isLegacy"), "true")
    for t in gets:
        line = f.blocks[t[0]]["el"][t[1]].get("l")
        ok = f.must_pass(via_edges=notskip + legacy, targets=[t])
        res.check(ok, R, "ZSTD_decompressStream@%s" % line, f.loc, "the dictionary is fetched only for a frame that is not skippable",
                  "ZSTD_decompressStream fetches (and so consumes) the single-use dictionary for a skippable frame: after ZSTD_DCtx_refPrefix, "
                  "[skippable frame][frame compressed with the prefix] fails with corruption_detected, where ZSTD_decompressDCtx decodes it")
    res.need(R, 4)


def run(tier):
    res = Result("C08", tier)
    tus, info = extract(["compress", "common", "decompress", "dictBuilder"])
    prog = Program(tus)
    res.info = info
    inv = json.load(open(os.path.join(HERE, "inv", "C08.json")))
    guards.check_inventory(prog, res, "T8.loader-guards(C)", inv)
    res.need("T8.loader-guards(C)", 15)
    loaders_agree(prog, res)
    repeat_mode_provenance(prog, res)
    table_completeness(prog, res)
    dict_id(prog, res)
    content_rules(prog, res)
    cdict_reload_coherence(prog, res)
    repcodes_copied_whole(prog, res)
    ddict_set_rules(prog, res)
    window_covers_whole_dictionary(prog, res)
    single_use_dictionary_only_for_a_real_frame(prog, res)
    return res.finish(
        explanation="Both entropy loaders read the same tables with the same maxima and limits and refuse the same structural "
                    "faults; `valid` repeat modes are only reachable when the table provably covers every required symbol; "
                    "every CTable built from a dictionary is complete for the symbols its readers index and every shift seeded "
                    "from a dictionary cost is in range for the largest table the loader accepts; the dictionary ID is read at "
                    "offset 4 on both sides, stored from the loader's result, written from cctx->dictID and compared before "
                    "decoding; every strategy indexes dictionary content; a dictionary leaving the window is dropped whole and "
                    "that is re-evaluated before every block.",
        not_decided="decode(encode(x)) == x for adversarial dictionaries x strategies x inputs; agreement of the table *contents* "
                    "built by the two loaders (FSE_buildCTable vs ZSTD_buildFSETable are covered by C04's table rules)",
        assumptions=["FSE_getMaxNbBits <= tableLog + 1", "HUF_getNbBitsFromCTable <= the table log accepted by HUF_readCTable"])
